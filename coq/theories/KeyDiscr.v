(* C09 -- which class-level discriminator a class has / finds ("a class-level discriminator field is accepted").

   CodeBuilder.get_discriminator is translated from /repo on every run (VerifGen.K109a.get_discriminator; it
   calls the translated get_config of K4).  Here it is run on the class objects a hierarchy denotes -- every
   class of the MRO with the `Config` its body defines, each Config class with its own MRO (the Config it
   derives from, BaseConfig unless it is a plain class) and the `discriminator` its body writes -- and proved to
   be Python's reading of the documented rule:

     own_discr      the class's OWN Config (defined in its body) has a discriminator, by attribute lookup on that
                    Config class (written there, else inherited from the Config it derives from): the class's
                    from_dict is a dispatcher;
     nearest_discr  the first class along the MRO that has one: its field is the key forbid_extra_keys accepts.

   impl_from_dhier puts the pieces of `_add_unpack_method_lines` together (dispatcher test, get_config,
   discriminator for the allowed keys, the body of KeyImpl) and is proved to be KEYMODEL of the class the
   hierarchy denotes. *)
From Coq Require Import List String Ascii ZArith Bool Lia.
From Verif Require Import Regex PyK PyK_alias PyK_clsdiscr KeyModel KeyImpl KeyProofs KeyCfg.
From VerifGen Require Import K4 K109a.
Import ListNotations.
Open Scope string_scope.
Open Scope list_scope.

Definition A_DISCR := KStr "discriminator".

(* what the body of a `class Config` writes for `discriminator` *)
Inductive dwrite :=
| DAbsent                         (* nothing *)
| DNone                           (* discriminator = None *)
| DObj (field: option string).    (* discriminator = Discriminator(field=..., include_subtypes=True) *)

(* a class body: its declarations and Config (KeyModel.level) + the discriminator line of that Config *)
Definition dlevel : Type := (level * dwrite)%type.

(* ------------------------------------------------------------------ *)
(* reference: Python attribute semantics.  r: the MRO, the class itself first *)

(* the `discriminator` attribute of the Config class the first class of r sees *)
Fixpoint cfg_discr (r: list dlevel) : option (option string) :=
  match r with
  | [] => None
  | (l, w) :: r' =>
      match l_cfg l with
      | None => cfg_discr r'
      | Some cd => match w with
                   | DObj f => Some f
                   | DNone => None
                   | DAbsent => if cd_inherit cd then cfg_discr r' else None
                   end
      end
  end.

(* the class's own Config carries a discriminator: the class is a dispatcher *)
Definition own_discr (r: list dlevel) : option (option string) :=
  match r with
  | (l, _) :: _ => match l_cfg l with Some _ => cfg_discr r | None => None end
  | [] => None
  end.

(* the first class along the MRO that is one *)
Fixpoint nearest_discr (r: list dlevel) : option (option string) :=
  match r with
  | [] => None
  | x :: r' => match own_discr (x :: r') with Some f => Some f | None => nearest_discr r' end
  end.

(* ------------------------------------------------------------------ *)
(* the class objects *)

Definition dw_entry (w: dwrite) : list (kv * kv) :=
  match w with
  | DAbsent => []
  | DNone => [(A_DISCR, KNone)]
  | DObj f => [(A_DISCR, enc_discr (Some f))]
  end.

Definition own_dict_d (cd: cfgdecl) (w: dwrite) : list (kv * kv) := own_dict cd ++ dw_entry w.

(* mashumaro.config.BaseConfig: discriminator = None *)
Definition base_own_d : list (kv * kv) := base_own ++ [(A_DISCR, KNone)].
Definition base_mro_d : list kv := [cls_entry base_id base_own_d].
Definition base_config_d : kv := mk_class base_id base_own_d [].

Definition cfg_tail_d (cd: cfgdecl) (lower: option (list kv)) : list kv :=
  if cd_inherit cd then match lower with Some m => m | None => base_mro_d end
  else if cd_plain cd then [] else base_mro_d.

(* the MRO of the Config class the first class of r sees (None: it sees none) *)
Fixpoint cfg_mro_d (r: list dlevel) : option (list kv) :=
  match r with
  | [] => None
  | (l, w) :: r' =>
      match l_cfg l with
      | None => cfg_mro_d r'
      | Some cd => Some (cls_entry (KInt (Z.of_nat (List.length r'))) (own_dict_d cd w) :: cfg_tail_d cd (cfg_mro_d r'))
      end
  end.

(* the __dict__ of the first class of r: its Config, if its body defines one *)
Definition entry_dict (r: list dlevel) : list (kv * kv) :=
  match r with
  | (l, w) :: r' =>
      match l_cfg l with
      | Some cd => [(KStr "Config",
                     mk_class (KInt (Z.of_nat (List.length r'))) (own_dict_d cd w) (cfg_tail_d cd (cfg_mro_d r')))]
      | None => []
      end
  | [] => []
  end.

Fixpoint cls_entries_d (r: list dlevel) : list kv :=
  match r with
  | [] => []
  | x :: r' => cls_entry (KTuple [KStr "class"; KInt (Z.of_nat (List.length r'))]) (entry_dict (x :: r'))
               :: cls_entries_d r'
  end.

(* what every MRO ends with (the mixin, `object`): classes without Config *)
Definition object_entry : kv := cls_entry (KStr "object") [].

Definition cls_obj_d (r: list dlevel) : kv :=
  KNs [("__id__", KStr "K"); ("__dict__", KDict (entry_dict r)); ("__mro__", KList (cls_entries_d r ++ [object_entry]))].

(* ------------------------------------------------------------------ *)
(* the generated code of the class a hierarchy denotes, discriminator included *)

Definition dec_discr (v: kv) : option (option string) :=
  match v with
  | KNs a => Some (match ns_get a "field" with Some (KStr s) => Some s | _ => None end)
  | _ => None
  end.

Inductive from_dict_kind :=
| Dispatcher                 (* from_dict selects a subtype (property C05) *)
| Body (o: outcome).         (* from_dict reads the fields of the class *)

Definition impl_from_dhier (r: list dlevel) (d: dict) : res from_dict_kind :=
  let ls := rev (map fst r) in
  own <- get_discriminator (cls_obj_d r) base_config_d (KBool false) ;;
  if k_truthy own then Ok Dispatcher
  else
    g <- impl_cfg ls ;;
    dk <- get_discriminator (cls_obj_d r) base_config_d (KBool true) ;;
    o <- impl_from_dict (mkC (effective ls) (g_aliases g) (g_allow g) (g_forbid g) (dec_discr dk)) d ;;
    Ok (Body o).

Definition ref_from_dhier (r: list dlevel) (d: dict) : from_dict_kind :=
  match own_discr r with
  | Some _ => Dispatcher
  | None => Body (keymodel (class_of (rev (map fst r)) (nearest_discr r)) d)
  end.

(* ------------------------------------------------------------------ *)
(* proofs *)

Definition dlk (m: list kv) : option kv := mro_lookup m A_DISCR.

Lemma d_get_app : forall (a b: list (kv * kv)) k,
  d_get (a ++ b) k = match d_get a k with Some v => Some v | None => d_get b k end.
Proof.
  induction a as [|[k' v] r IH]; intros b k; [reflexivity|].
  cbn [app d_get]. destruct (kv_eqb k' k); [reflexivity | apply IH].
Qed.

Lemma own_dict_no_discr cd : d_get (own_dict cd) A_DISCR = None.
Proof. unfold own_dict. destruct (cd_aliases cd), (cd_allow cd), (cd_forbid cd); reflexivity. Qed.

Lemma own_dict_d_get cd w :
  d_get (own_dict_d cd w) A_DISCR
  = match w with DAbsent => None | DNone => Some KNone | DObj f => Some (enc_discr (Some f)) end.
Proof.
  unfold own_dict_d. rewrite d_get_app, own_dict_no_discr. destruct w; reflexivity.
Qed.

Lemma dlk_cons id d m : dlk (cls_entry id d :: m) = match d_get d A_DISCR with Some v => Some v | None => dlk m end.
Proof. reflexivity. Qed.

Lemma dlk_app m1 m2 : dlk (m1 ++ m2) = match dlk m1 with Some v => Some v | None => dlk m2 end.
Proof. exact (lk_app m1 m2 A_DISCR). Qed.

Lemma dlk_base : dlk base_mro_d = Some KNone.
Proof. reflexivity. Qed.

Lemma has_base_base_d : has_base base_mro_d = true.
Proof. reflexivity. Qed.

(* the MRO in which the attribute is finally looked up (get_config adds BaseConfig behind a plain class) *)
Definition eff_mro_d (r: list dlevel) : list kv :=
  match cfg_mro_d r with
  | Some m => if has_base m then m else m ++ base_mro_d
  | None => base_mro_d
  end.

Lemma eff_mro_d_discr : forall r, dlk (eff_mro_d r) = Some (enc_discr (cfg_discr r)).
Proof.
  induction r as [|[l w] r' IH]; [reflexivity|].
  unfold eff_mro_d. cbn [cfg_mro_d cfg_discr].
  destruct (l_cfg l) as [cd|]; [|exact IH].
  rewrite has_base_entry. unfold cfg_tail_d. unfold eff_mro_d in IH.
  destruct (cd_inherit cd).
  - destruct (cfg_mro_d r') as [m|].
    + destruct (has_base m).
      * rewrite dlk_cons, own_dict_d_get, IH. destruct w; reflexivity.
      * rewrite <- app_comm_cons, dlk_cons, own_dict_d_get, IH. destruct w; reflexivity.
    + rewrite has_base_base_d, dlk_cons, own_dict_d_get, IH. destruct w; reflexivity.
  - destruct (cd_plain cd).
    + change (has_base []) with false. cbn iota. cbn [app].
      rewrite dlk_cons, own_dict_d_get, dlk_base. destruct w; reflexivity.
    + rewrite has_base_base_d, dlk_cons, own_dict_d_get, dlk_base. destruct w; reflexivity.
Qed.

Lemma issubclass_base_d : forall c, k_issubclass c base_config_d = has_base (cls_mro c).
Proof. reflexivity. Qed.

(* get_config(cls, look_in_parents=False) on any class object whose __dict__ is that of the first class of r,
   then `.discriminator` *)
Lemma own_config_discr : forall self attrs r,
  ns_get attrs "__dict__" = Some (KDict (entry_dict r)) ->
  exists c, K4.get_config self base_config_d (KNs attrs) (KBool false) = Ok c
            /\ k_cls_attr c A_DISCR = Ok (enc_discr (own_discr r)).
Proof.
  intros self attrs r Hd. unfold K4.get_config.
  cbn [k_is kv_eqb k_truthy bind k_getattr2]. rewrite Hd. cbn [bind k_dict_get3].
  destruct r as [|[l w] r'].
  - cbn [entry_dict d_get own_discr]. rewrite issubclass_base_d. cbn [k_truthy negb bind].
    exists base_config_d. split; reflexivity.
  - cbn [entry_dict own_discr]. destruct (l_cfg l) as [cd|] eqn:El.
    + cbn [d_get]. change (kv_eqb (KStr "Config") (KStr "Config")) with true. cbn iota.
      rewrite issubclass_base_d, cls_mro_mk_class, has_base_entry.
      pose proof (eff_mro_d_discr ((l, w) :: r')) as HL. unfold eff_mro_d in HL. cbn [cfg_mro_d] in HL.
      rewrite El in HL. rewrite has_base_entry in HL.
      destruct (has_base (cfg_tail_d cd (cfg_mro_d r'))) eqn:Hb; cbn [k_truthy negb bind].
      * eexists. split; [reflexivity|]. unfold k_cls_attr. rewrite cls_mro_mk_class.
        unfold dlk in HL. rewrite HL. reflexivity.
      * unfold k_type3. rewrite cls_mro_mk_class. cbn [bind].
        eexists. split; [reflexivity|]. unfold k_cls_attr. rewrite cls_mro_mk_class.
        assert (Hf: filter (fun e => negb (existsb (fun e1 => kv_eqb (entry_id e1) (entry_id e))
                                    (cls_entry (KInt (Z.of_nat (List.length r'))) (own_dict_d cd w) :: cfg_tail_d cd (cfg_mro_d r'))))
                      (cls_mro base_config_d) = base_mro_d).
        { change (cls_mro base_config_d) with base_mro_d. unfold base_mro_d. cbn [filter entry_id cls_entry].
          fold (has_base (cls_entry (KInt (Z.of_nat (List.length r'))) (own_dict_d cd w) :: cfg_tail_d cd (cfg_mro_d r'))).
          now rewrite has_base_entry, Hb. }
        rewrite Hf. change (mro_lookup ?m A_DISCR) with (dlk m). rewrite dlk_cons. cbn [d_get].
        rewrite HL. reflexivity.
    + cbn [d_get]. rewrite issubclass_base_d. cbn [k_truthy negb bind].
      exists base_config_d. split; reflexivity.
Qed.

Definition enc_found (o: option (option string)) : option kv :=
  match o with Some f => Some (enc_discr (Some f)) | None => None end.

(* the body of the search loop of get_discriminator, whatever it is called in the generated text *)
Definition loop_body (self: kv) : kv -> res (option kv) :=
  fun v_cls => t2 <- K4.get_config self base_config_d v_cls (KBool false) ;;
               t3 <- k_cls_attr t2 (KStr "discriminator") ;;
               (if k_truthy t3 then Ok (Some t3) else Ok None).

Lemma loop_body_spec : forall self attrs r,
  ns_get attrs "__dict__" = Some (KDict (entry_dict r)) ->
  loop_body self (KNs attrs) = Ok (enc_found (own_discr r)).
Proof.
  intros self attrs r Hd. unfold loop_body.
  destruct (own_config_discr self attrs r Hd) as [c [H1 H2]].
  rewrite H1. cbn [bind]. change (KStr "discriminator") with A_DISCR. rewrite H2. cbn [bind].
  destruct (own_discr r); reflexivity.
Qed.

Lemma search_mro : forall self r,
  first_list (map class_of_entry (cls_entries_d r ++ [object_entry])) (loop_body self)
  = Ok (enc_found (nearest_discr r)).
Proof.
  intros self. induction r as [|x r' IH].
  - cbn [cls_entries_d app map first_list class_of_entry object_entry cls_entry].
    unfold mk_class. rewrite (loop_body_spec self _ []); reflexivity.
  - cbn [cls_entries_d app map first_list]. cbn [class_of_entry cls_entry]. unfold mk_class at 1.
    rewrite (loop_body_spec self _ (x :: r')) by reflexivity.
    cbn [nearest_discr]. destruct (own_discr (x :: r')); [reflexivity | exact IH].
Qed.

Lemma get_discriminator_unfold : forall self lp,
  get_discriminator self base_config_d lp
  = (v_classes <- (if k_truthy lp then Ok (k_mro_classes self) else Ok (KTuple [self])) ;;
     t <- k_for_first v_classes (loop_body self) ;;
     match t with Some found => Ok found | None => Ok KNone end).
Proof. reflexivity. Qed.

(* (T) the translated get_discriminator on the class objects of a hierarchy *)
Theorem get_discriminator_parents : forall r,
  get_discriminator (cls_obj_d r) base_config_d (KBool true) = Ok (enc_discr (nearest_discr r)).
Proof.
  intro r. rewrite get_discriminator_unfold. cbn [k_truthy bind].
  unfold k_mro_classes, cls_obj_d. cbn [cls_mro ns_get String.eqb Ascii.eqb Bool.eqb].
  change (ns_get _ "__mro__") with (Some (KList (cls_entries_d r ++ [object_entry]))). cbn iota.
  cbn [k_for_first]. rewrite search_mro. cbn [bind]. destruct (nearest_discr r); reflexivity.
Qed.

Theorem get_discriminator_own : forall r,
  get_discriminator (cls_obj_d r) base_config_d (KBool false) = Ok (enc_discr (own_discr r)).
Proof.
  intro r. rewrite get_discriminator_unfold. cbn [k_truthy bind k_for_first first_list].
  unfold cls_obj_d. rewrite (loop_body_spec _ _ r) by reflexivity.
  destruct (own_discr r); reflexivity.
Qed.

Lemma dec_enc_discr o : dec_discr (enc_discr o) = match o with Some f => Some f | None => None end.
Proof. destruct o as [[s|]|]; reflexivity. Qed.

(* dispatcher test, get_config, discriminator of the allowed keys and the field reads of the generated code
   = KEYMODEL of the class the hierarchy denotes with the nearest class-level discriminator *)
Theorem impl_from_dhier_keymodel : forall r d, impl_from_dhier r d = Ok (ref_from_dhier r d).
Proof.
  intros r d. unfold impl_from_dhier, ref_from_dhier.
  rewrite get_discriminator_own. cbn [bind].
  destruct (own_discr r) as [f|] eqn:E; [reflexivity|].
  cbn [enc_discr k_truthy]. rewrite impl_cfg_nearest. cbn [bind].
  rewrite get_discriminator_parents. cbn [bind]. rewrite dec_enc_discr.
  replace (match nearest_discr r with Some f => Some f | None => None end) with (nearest_discr r)
    by (destruct (nearest_discr r); reflexivity).
  change (mkC _ _ _ _ (nearest_discr r)) with (class_of (rev (map fst r)) (nearest_discr r)).
  rewrite impl_eq_keymodel. reflexivity.
Qed.

(* the tag key of the nearest discriminator is accepted, whatever fields and aliases the class has *)
Lemma nearest_discr_accepted : forall r s,
  nearest_discr r = Some (Some s) -> s <> "" ->
  In (KeyS s) (accepted (class_of (rev (map fst r)) (nearest_discr r))).
Proof.
  intros r s H Hs. unfold accepted. apply in_or_app. right.
  unfold discr_keys, class_of. cbn [c_discr]. rewrite H.
  destruct (String.eqb s "") eqn:E; [apply String.eqb_eq in E; contradiction | now left].
Qed.

(* a Config that derives from a Config with a discriminator makes its class a dispatcher as well *)
Lemma inherited_config_dispatches : forall l cd r',
  l_cfg l = Some cd -> cd_inherit cd = true ->
  own_discr ((l, DAbsent) :: r') = cfg_discr r'.
Proof. intros l cd r' H1 H2. cbn [own_discr cfg_discr]. now rewrite H1, H2. Qed.

(* a class without Config of its own is never a dispatcher, whatever Config it inherits *)
Lemma no_own_config_no_dispatch : forall l w r', l_cfg l = None -> own_discr ((l, w) :: r') = None.
Proof. intros l w r' H. cbn [own_discr]. now rewrite H. Qed.

(* ------------------------------------------------------------------ *)
(* executable comparisons used by the per-run correspondence (harness/props/c09.py, discriminator stream) *)

Definition oo_eqb (a b: option (option string)) : bool :=
  match a, b with
  | None, None => true
  | Some x, Some y => ostr_eqb x y
  | _, _ => false
  end.

(* p / o: what CodeBuilder(cls).get_discriminator(look_in_parents=True) / () returned on the real class *)
Definition discr_view_ok (r: list dlevel) (p o: option (option string)) : bool :=
  match get_discriminator (cls_obj_d r) base_config_d (KBool true),
        get_discriminator (cls_obj_d r) base_config_d (KBool false) with
  | Ok a, Ok b => kv_eqb a (enc_discr p) && kv_eqb b (enc_discr o)
  | _, _ => false
  end && oo_eqb (nearest_discr r) p && oo_eqb (own_discr r) o.

(* ob: what the real from_dict of a class that is not a dispatcher did *)
Definition dhier_ok (r: list dlevel) (dfl: list Z) (d: dict) (ob: observation) : bool :=
  match impl_from_dhier r d with
  | Ok (Body x) => observation_eqb (observe dfl x) ob
  | _ => false
  end
  && match ref_from_dhier r d with
     | Body x => observation_eqb (observe dfl x) ob
     | Dispatcher => false
     end.
