(* C17: model of type_name() (mashumaro/core/meta/helpers.py:189-300) for the type grammar the
   generators use, non-short form.  The harness converts every field annotation into an [rty] by
   its own reading of the typing object and compares [render] with the real function on every run.
   [render_chain]: the chain (root, path) that Closed/Binding resolve is the dot-split of the
   rendering of a named class. *)
From Coq Require Import List String Ascii Bool Arith.
Import ListNotations.
Open Scope string_scope.

Inductive litem :=
| LEnum (enum_name : string) (member : string) (plain : bool)   (* enum member: E.NAME or E['name'] *)
| LRaw (repr : string).                                          (* int / str / bytes / bool / None: literal_repr *)

Inductive rty :=
| RNoneArg                                   (* the argument None of type_name itself *)
| RNoneType                                  (* type(None) *)
| REllipsis
| RAny
| RBuiltin (qual : string)                   (* __module__ == "builtins": int, str, list, mappingproxy, ... *)
| RNamed (module qual : string)              (* classes, NewType, PEP 695 alias: module.qualname *)
| ROptional (t : rty)                        (* Union of exactly one non-None member and None *)
| RUnion (ts : list rty)
| RLiteral (module : string) (items : list litem)
| RGeneric (gname : string) (args : list rty) (* get_generic_name(typ) [ args ] *)
| REmptyTuple (gname : string).               (* Tuple[()] / tuple[()] *)

Fixpoint join (sep : string) (l : list string) : string :=
  match l with
  | [] => ""
  | [x] => x
  | x :: r => x ++ sep ++ join sep r
  end.

Definition render_litem (i : litem) : string :=
  match i with
  | LEnum e m true => e ++ "." ++ m
  | LEnum e m false => e ++ "[" ++ m ++ "]"
  | LRaw s => s
  end.

(* _get_args_str: with more than one argument the "()" entries are dropped *)
Definition args_str (l : list string) : string :=
  match l with
  | _ :: _ :: _ => join ", " (filter (fun s => negb (String.eqb s "()")) l)
  | _ => join ", " l
  end.

(* nn = none_type_as_none (set for the members of a Union) *)
Fixpoint render (nn : bool) (t : rty) : string :=
  match t with
  | RNoneArg => "None"
  | RNoneType => if nn then "None" else "NoneType"
  | REllipsis => "..."
  | RAny => "typing.Any"
  | RBuiltin q => q
  | RNamed m q => m ++ "." ++ q
  | ROptional a => "typing.Optional[" ++ render false a ++ "]"
  | RUnion ts => "typing.Union[" ++ args_str (map (render true) ts) ++ "]"
  | RLiteral m items => m ++ ".Literal[" ++ join ", " (map render_litem items) ++ "]"
  | RGeneric g args =>
      let a := args_str (map (render false) args) in
      if String.eqb a "" then g else g ++ "[" ++ a ++ "]"
  | REmptyTuple g => g ++ "[()]"
  end.

(* ---- the chain of a named class *)

Fixpoint split_dots (s : string) (cur : string) : list string :=
  match s with
  | EmptyString => [cur]
  | String c r => if Ascii.eqb c "."%char then cur :: split_dots r "" else split_dots r (cur ++ String c EmptyString)
  end.

Lemma split_dots_app a : forall b cur,
  split_dots (a ++ String "."%char b) cur = (split_dots a cur ++ split_dots b "")%list.
Proof.
  induction a as [| c r IH]; intros b cur; simpl.
  - reflexivity.
  - destruct (Ascii.eqb c "."%char).
    + rewrite IH. reflexivity.
    + apply IH.
Qed.

Theorem render_named nn m q : render nn (RNamed m q) = m ++ "." ++ q.
Proof. reflexivity. Qed.

(* the chain resolved by Closed.resolve for a class is the dot-split of its rendering: the components
   of the module path, then those of the qualified name *)
Theorem render_chain nn m q :
  split_dots (render nn (RNamed m q)) "" = (split_dots m "" ++ split_dots q "")%list.
Proof. rewrite render_named. change (m ++ "." ++ q) with (m ++ String "."%char q). apply split_dots_app. Qed.

Example render_example :
  render false (RGeneric "typing.Dict" [RBuiltin "str"; ROptional (RNamed "pkg.mod" "Outer.Inner")]) =
    "typing.Dict[str, typing.Optional[pkg.mod.Outer.Inner]]" /\
  split_dots (render false (RNamed "pkg.mod" "Outer.Inner")) "" = ["pkg"; "mod"; "Outer"; "Inner"].
Proof. split; reflexivity. Qed.
