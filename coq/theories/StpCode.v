(* kernel K45c: what the head of pack_special_typing_primitive / unpack_special_typing_primitive produces *)
Inductive stp_code :=
| STMaybeNone      (* expr_or_maybe_none(spec, Registry.get(spec.copy(type=<the non-None member / the bound or default>))):
                      the inner spec inherits could_be_none *)
| STUnion          (* union (un)packer: C11 *)
| STRaise          (* UnserializableDataError *)
| STExpr           (* spec.expression: the value as it is *)
| STRest.          (* the rest of the chain (NewType, Literal, Self, ...) *)
