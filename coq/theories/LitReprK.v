(* C16 (round 6) - helpers.literal_repr as read from /repo on this run (VerifGen.K116a) is a good table. *)
From Coq Require Import List String NArith ZArith Bool.
From Verif Require Import PyStrLit PyLit PyLitProofs LitRepr LitReprProofs.
From VerifGen Require Import K116a.
Import ListNotations.
Open Scope string_scope.
Open Scope N_scope.
Open Scope list_scope.

(* finite table: evaluation is a proof *)
Lemma k116a_table_ok : lr_table_ok literal_repr_bases literal_repr_hit literal_repr_fallback = true.
Proof. vm_compute. reflexivity. Qed.

Theorem literal_repr_inert : forall p v, obj_wf v = true ->
  lr_model p literal_repr_bases literal_repr_hit literal_repr_fallback v = Some (render_lit p (o_prim v)).
Proof. exact (lr_inert _ _ _ k116a_table_ok). Qed.

Theorem literal_repr_eval : forall p v rest,
  oracle_ok p -> obj_wf v = true -> wf_lit (o_prim v) -> ends_token rest = true ->
  exists t, lr_model p literal_repr_bases literal_repr_hit literal_repr_fallback v = Some t
            /\ eval_lit (t ++ rest) = Some (o_prim v, rest).
Proof. exact (lr_eval _ _ _ k116a_table_ok). Qed.

(* non-vacuity: an instance of a str subclass whose __repr__ returns an injection is rendered 'v' *)
Lemma literal_repr_example :
  obj_wf (mk_obj (LStr (codes "v")) false evil) = true /\
  lr_model (fun _ => true) literal_repr_bases literal_repr_hit literal_repr_fallback (mk_obj (LStr (codes "v")) false evil)
  = Some (codes "'v'") /\
  lr_model (fun _ => true) literal_repr_bases literal_repr_hit literal_repr_fallback (mk_obj (LBool true) true [])
  = Some (codes "True").
Proof. repeat split; vm_compute; reflexivity. Qed.

(* the link to the splice table: for a str payload - exact or an instance of a subclass with ANY __repr__ -
   the text literal_repr returns is the text py_repr of the payload, i.e. the site text of a KRepr row *)
Theorem literal_repr_str : forall p d ex r,
  lr_model p literal_repr_bases literal_repr_hit literal_repr_fallback (mk_obj (LStr d) ex r) = Some (py_repr p d).
Proof. intros p d ex r. exact (literal_repr_inert p (mk_obj (LStr d) ex r) eq_refl). Qed.
Theorem literal_repr_bytes : forall p d ex r,
  lr_model p literal_repr_bases literal_repr_hit literal_repr_fallback (mk_obj (LBytes d) ex r) = Some (py_repr_bytes d).
Proof. intros p d ex r. exact (literal_repr_inert p (mk_obj (LBytes d) ex r) eq_refl). Qed.
