(* Tie of K5PKernel.compile (assembled from translated functions) to the reference of Positions.v, and the
   order-theoretic reading: the outermost position with an enabled slot wins, with that position's minimum;
   the call dialect reaches a nested position iff every class on the way supports dialects. *)
From Coq Require Import List String Ascii ZArith Bool Arith Lia.
From Verif Require Import Regex PyK PyK_strat PyK_c08 OptProj Strategies StrategiesProofs Positions K5Kernel K5Proofs K8Proofs K5PKernel.
From VerifGen Require Import K5.
From VerifGen Require K8 K5P.
Import ListNotations.
Open Scope string_scope.
Open Scope nat_scope.
Open Scope list_scope.


(* ---- Registry.get on the four-attribute spec ---- *)
Lemma registry_prepare_spec4 rt org isann t o a md :
  registry_prepare rt org isann (mk_spec4 t o a md) =
  Ok (match keys_after rt org isann t a with (a', t', o') => mk_spec4 t' o' a' md end).
Proof. unfold registry_prepare, keys_after, mk_spec4. cbn. destruct (isann t); reflexivity. Qed.

Lemma codegen_md_meta d Sr a t o e : codegen_md d Sr (enc_meta Sr) a t o e = codegen d Sr a t o e.
Proof. destruct d; reflexivity. Qed.

Lemma emit_none d r e :
  e <> KNone ->
  k_is (emit d r e) KNone = match r with Some (_, WEngine _) | None => true | _ => false end.
Proof.
  intros He. destruct r as [[s [|m|n|v]]|]; cbn; try reflexivity.
  destruct e; try reflexivity. congruence.
Qed.

(* ---- descent sites ---- *)
Lemma descend_spec d k org decl t o a md :
  descend d k org decl (mk_spec4 t o a md) =
  Ok (mk_spec4 decl (org decl) a (match k with TElement => KDict [] | _ => md end)).
Proof. destruct d, k; reflexivity. Qed.

Lemma enc_meta_drop Sr : enc_meta (drop_fieldopts Sr) = KDict [].
Proof. reflexivity. Qed.

Lemma tables_drop Sr a t o e d md : codegen_md d (drop_fieldopts Sr) md a t o e = codegen_md d Sr md a t o e.
Proof. destruct d; reflexivity. Qed.

(* ---- flag forwarding ---- *)
Lemma enc_flags5_eq f : enc_flags5 f = enc_flags f.
Proof. reflexivity. Qed.

Lemma forwards_pack a b :
  exists s, K8.get_pack_method_flags (enc_flags5 a) (enc_flags5 b) = Ok (KStr s) /\
            forwards_dialect (KStr s) = g_dl a && g_dl b.
Proof.
  rewrite !enc_flags5_eq, K8_forward_lemma. eexists. split; [reflexivity|].
  destruct a as [a1 a2 a3 a4], b as [b1 b2 b3 b4].
  destruct a1, a2, a3, a4, b1, b2, b3, b4; vm_compute; reflexivity.
Qed.

Lemma forwards_unpack a b :
  exists s, K5P.get_unpack_method_flags (enc_flags5 a) (enc_flags5 b) = Ok (KStr s) /\
            forwards_dialect (KStr s) = g_dl a && g_dl b.
Proof.
  destruct a as [a1 a2 a3 a4], b as [b1 b2 b3 b4].
  destruct a1, a2, a3, a4, b1, b2, b3, b4; vm_compute; eexists; split; reflexivity.
Qed.

Lemma child_flags_spec d P self t o holder :
  exists s, child_flags d P self t o holder = Ok (KStr s) /\
            forwards_dialect (KStr s) = reaches P holder (if self then holder else t).
Proof.
  unfold child_flags, reaches.
  assert (Hsite: site_cls d self t o holder = if self then holder else t) by (destruct d, self; reflexivity).
  rewrite Hsite. destruct d; [apply forwards_pack|apply forwards_unpack].
Qed.

(* ---- one position ---- *)
Lemma node_step d P c e :
  e <> KNone ->
  forall a t o, ctx_keys P c = (a, t, o) ->
  registry_prepare (p_rt P) (p_org P) (p_isann P) (spec_of P c) = Ok (mk_spec4 t o a (enc_meta (x_S c))) /\
  codegen_md d (x_S c) (enc_meta (x_S c)) a t o e = Ok (emit d (resolve_ctx P d c) e).
Proof.
  intros He a t o Hk. unfold spec_of. rewrite registry_prepare_spec4.
  unfold ctx_keys in Hk. rewrite Hk. split; [reflexivity|].
  rewrite codegen_md_meta, codegen_resolve. unfold resolve_ctx, ctx_keylist, ctx_keys. rewrite Hk. reflexivity.
Qed.

(* ---- the tie ---- *)
Theorem compile_ref d P e : e <> KNone -> forall path c depth,
  compile d P (x_S c) (spec_of P c) (x_holder c) e path depth =
  Ok (match ref_compile P d (ctxs P c path) depth with
      | Some (n, sw) => Some (n, emit d (Some sw) e)
      | None => None
      end).
Proof.
  intros He. induction path as [|n rest IH]; intros c depth.
  - cbn [compile ctxs ref_compile].
    destruct (ctx_keys P c) as [[a t] o] eqn:Hk.
    destruct (node_step d P c e He a t o Hk) as [Hp Hc]. rewrite Hp. cbn [bind mk_spec4 k_getattr2 ns_get String.eqb Ascii.eqb Bool.eqb].
    cbn -[codegen_md emit resolve_ctx enc_meta]. rewrite Hc. cbn [bind]. rewrite emit_none by exact He.
    unfold eff_resolve. destruct (resolve_ctx P d c) as [[s [|m|g|v]]|]; reflexivity.
  - cbn [compile ctxs ref_compile].
    destruct (ctx_keys P c) as [[a t] o] eqn:Hk.
    destruct (node_step d P c e He a t o Hk) as [Hp Hc]. rewrite Hp. cbn [bind mk_spec4 k_getattr2 ns_get String.eqb Ascii.eqb Bool.eqb].
    cbn -[codegen_md emit resolve_ctx enc_meta compile descend child_flags]. rewrite Hc. cbn [bind]. rewrite emit_none by exact He.
    unfold eff_resolve at 1.
    assert (Hdecl: (match resolve_ctx P d c with Some (_, WEngine _) | None => true | _ => false end) = false ->
                   exists sw, eff_resolve P d c = Some sw /\ resolve_ctx P d c = Some sw).
    { unfold eff_resolve. destruct (resolve_ctx P d c) as [[s [|m|g|v]]|]; intros H; try discriminate; eauto. }
    destruct (match resolve_ctx P d c with Some (_, WEngine _) | None => true | _ => false end) eqn:Edec.
    + (* declined: descend *)
      assert (Hnone: eff_resolve P d c = None).
      { unfold eff_resolve. destruct (resolve_ctx P d c) as [[s [|m|g|v]]|]; try discriminate; reflexivity. }
      fold (eff_resolve P d c). rewrite Hnone. cbn [negb].
      destruct n as [k decl|self f decl].
      * fold (mk_spec4 t o a (enc_meta (x_S c))). rewrite descend_spec. cbn [bind].
        cbn [mk_spec4 k_getattr2 ns_get String.eqb Ascii.eqb Bool.eqb]. cbn -[compile enc_meta ref_compile ctxs].
        specialize (IH (next_ctx P c (NType k decl)) (S depth)).
        unfold next_ctx in IH. rewrite Hk in IH. unfold spec_of in IH. cbn [x_S x_ann x_decl x_holder] in IH.
        unfold next_ctx. rewrite Hk.
        destruct k; cbn [x_S x_ann x_decl x_holder] in IH |- *; exact IH.
      * destruct (child_flags_spec d P self t o (x_holder c)) as (s & Hfl & Hfw). rewrite Hfl. cbn [bind]. rewrite Hfw.
        specialize (IH (next_ctx P c (NField self f decl)) (S depth)).
        unfold next_ctx in IH. rewrite Hk in IH. unfold spec_of in IH. cbn [x_S x_ann x_decl x_holder] in IH.
        unfold next_ctx. rewrite Hk. exact IH.
    + destruct (Hdecl eq_refl) as (sw & He1 & He2). fold (eff_resolve P d c). rewrite He1. cbn [negb].
      rewrite He2. reflexivity.
Qed.

(* ---- reading of the reference: outermost enabled position, with its minimum ---- *)
Theorem ref_compile_outermost P d : forall cs depth n sw,
  ref_compile P d cs depth = Some (n, sw) ->
  exists i c, n = depth + i /\ nth_error cs i = Some c /\ eff_resolve P d c = Some sw /\
              is_lexmin (x_S c) (ctx_keylist P c) d (Some sw) /\
              forall j c', j < i -> nth_error cs j = Some c' -> eff_resolve P d c' = None.
Proof.
  induction cs as [|c r IH]; intros depth n sw H; [discriminate|].
  cbn [ref_compile] in H. destruct (eff_resolve P d c) as [sw0|] eqn:E.
  - inversion H; subst. exists 0, c. split; [lia|]. split; [reflexivity|]. split; [exact E|]. split.
    + assert (Hr: resolve_ctx P d c = Some sw).
      { unfold eff_resolve in E. destruct (resolve_ctx P d c) as [[s [|m|g|v]]|]; congruence. }
      unfold resolve_ctx in Hr. rewrite <- Hr. apply resolve_is_lexmin.
    + intros j c' Hj. lia.
  - destruct (IH _ _ _ H) as (i & c1 & Hn & Hnth & He & Hmin & Hbefore).
    exists (S i), c1. split; [lia|]. split; [exact Hnth|]. split; [exact He|]. split; [exact Hmin|].
    intros j c' Hj Hnth'. destruct j as [|j]; cbn in Hnth'.
    + inversion Hnth'; subst. exact E.
    + apply (Hbefore j c'); [lia|exact Hnth'].
Qed.

Theorem ref_compile_builtin P d : forall cs depth,
  ref_compile P d cs depth = None -> forall c, In c cs -> eff_resolve P d c = None.
Proof.
  induction cs as [|c r IH]; intros depth H c' Hin; [contradiction|].
  cbn [ref_compile] in H. destruct (eff_resolve P d c) eqn:E; [discriminate|].
  destruct Hin as [<-|Hin]; [exact E|]. exact (IH _ H _ Hin).
Qed.

(* ---- which call dialect / format dialect a position sees ---- *)
Fixpoint final_ctx (P: prims) (c: pctx) (path: list node) : pctx :=
  match path with [] => c | n :: r => final_ctx P (next_ctx P c n) r end.

(* every dataclass-to-dataclass step on the path has ADD_DIALECT_SUPPORT on both sides *)
Fixpoint all_reach (P: prims) (c: pctx) (path: list node) : bool :=
  match path with
  | [] => true
  | n :: r =>
      (match n with
       | NField _ _ _ => reaches P (x_holder c) (x_holder (next_ctx P c n))
       | NType _ _ => true
       end) && all_reach P (next_ctx P c n) r
  end.

Lemma next_ctx_call P c n :
  t_call (x_S (next_ctx P c n)) =
  match n with
  | NField _ _ _ => if reaches P (x_holder c) (x_holder (next_ctx P c n)) then t_call (x_S c) else None
  | NType _ _ => t_call (x_S c)
  end.
Proof.
  unfold next_ctx. destruct (ctx_keys P c) as [[a t] o]. destruct n as [k decl|self f decl]; cbn.
  - destruct k; reflexivity.
  - reflexivity.
Qed.

Lemma final_call_none P : forall path c, t_call (x_S c) = None -> t_call (x_S (final_ctx P c path)) = None.
Proof.
  induction path as [|n r IH]; intros c H; [exact H|]. cbn [final_ctx]. apply IH.
  rewrite next_ctx_call. destruct n; [exact H|]. rewrite H. destruct (reaches _ _ _); reflexivity.
Qed.

Theorem dialect_reaches P : forall path c,
  t_call (x_S (final_ctx P c path)) = if all_reach P c path then t_call (x_S c) else None.
Proof.
  induction path as [|n r IH]; intros c; [reflexivity|].
  cbn [final_ctx all_reach]. rewrite IH, next_ctx_call.
  destruct n as [k decl|self f decl]; cbn [andb]; [reflexivity|].
  destruct (reaches P (x_holder c) (x_holder (next_ctx P c (NField self f decl)))); cbn [andb]; [reflexivity|].
  destruct (all_reach _ _ _); reflexivity.
Qed.

Theorem format_dialect_everywhere P : forall path c, t_dflt (x_S (final_ctx P c path)) = t_dflt (x_S c).
Proof.
  induction path as [|n r IH]; intros c; [reflexivity|]. cbn [final_ctx]. rewrite IH.
  unfold next_ctx. destruct (ctx_keys P c) as [[a t] o]. destruct n as [k decl|self f decl]; cbn; [destruct k|]; reflexivity.
Qed.

(* ---- statement used by props/C10_positions.v ---- *)
Theorem c10_positions d P e path c :
  e <> KNone ->
  compile d P (x_S c) (spec_of P c) (x_holder c) e path 0 =
    Ok (match ref_compile P d (ctxs P c path) 0 with Some (n, sw) => Some (n, emit d (Some sw) e) | None => None end) /\
  (forall n sw, ref_compile P d (ctxs P c path) 0 = Some (n, sw) ->
     exists cn, nth_error (ctxs P c path) n = Some cn /\ eff_resolve P d cn = Some sw /\
                is_lexmin (x_S cn) (ctx_keylist P cn) d (Some sw) /\
                forall j c', j < n -> nth_error (ctxs P c path) j = Some c' -> eff_resolve P d c' = None) /\
  (ref_compile P d (ctxs P c path) 0 = None -> forall c', In c' (ctxs P c path) -> eff_resolve P d c' = None).
Proof.
  intros He. split; [apply compile_ref; exact He|]. split.
  - intros n sw H. destruct (ref_compile_outermost P d _ _ _ _ H) as (i & cn & Hn & Hnth & Heff & Hmin & Hb).
    cbn in Hn. subst n. exists cn. repeat split; assumption.
  - apply ref_compile_builtin.
Qed.
