(* C16 (round 6) - the role of the spliced literal at every row of the splice table read from /repo. *)
From Coq Require Import List String Ascii NArith Bool.
From Verif Require Import PyStrLit PyStrLitProofs PyLit PyLine PyLineProofs Splice PyUse PyUseProofs SpliceProofs.
From VerifGen Require Import K10.
Import ListNotations.
Open Scope string_scope.
Open Scope N_scope.
Open Scope list_scope.

(* the role decided by the static text of the template around the value (None: not decided locally) *)
Definition site_use (st: site) : option use := text_use (codes (s_before st)) (codes (s_after st)).

Lemma site_ctx st : In st splice_sites ->
  before_ok (codes (s_before st)) = true /\ after_ok (codes (s_after st)) = true.
Proof.
  intros Hin. pose proof (proj1 (forallb_forall _ _) sites_ok st Hin) as Hok.
  unfold site_ok in Hok. apply andb_true_iff in Hok. destruct Hok as [Hok _].
  apply andb_true_iff in Hok. destruct Hok as [Hok _].
  apply andb_true_iff in Hok. destruct Hok as [Hok Ha].
  apply andb_true_iff in Hok. destruct Hok as [_ Hb]. split; assumption.
Qed.

(* at every repr()/ascii() row whose template decides the role u: for every data string d, whatever
   was generated before and whatever follows, IF the text is accepted by the tokenizer THEN its
   token list is (earlier tokens) ++ (characters of the template) ++ ONE string token of value d ++ ...
   and the scanner gives that token the role u with the value d *)
Theorem site_use_at st : In st splice_sites -> s_kind st = KRepr \/ s_kind st = KAscii ->
  forall u, site_use st = Some u ->
  forall p d rest prev acc ts, oracle_ok p -> wf_str d ->
  tok_line (LDef prev) acc (codes (s_before st) ++ site_text (s_kind st) p d ++ codes (s_after st) ++ rest) = Some ts ->
  exists post, ts = rev acc ++ map TkChar (codes (s_before st)) ++ TkStr d :: post /\
    uses_from (rev (map TkChar (codes (s_before st))) ++ acc) (TkStr d :: post)
    = (u, VS d) :: uses_from (TkStr d :: rev (map TkChar (codes (s_before st))) ++ acc) post.
Proof.
  intros Hin Hk u Hu p d rest prev acc ts Hp Hw H.
  destruct (site_ctx st Hin) as [Hb Ha].
  destruct Hk as [E|E]; rewrite E in H; cbn [site_text] in H.
  - exact (text_use_line p _ _ d rest prev acc ts u Hp Hw Hb Ha Hu H).
  - refine (text_use_line (fun _ => false) _ _ d rest prev acc ts u _ Hw Hb Ha Hu H).
    intros c _. reflexivity.
Qed.

Theorem site_use_whole st : In st splice_sites -> s_kind st = KRepr \/ s_kind st = KAscii ->
  forall u, site_use st = Some u ->
  forall p d rest prev acc ts, oracle_ok p -> wf_str d ->
  tok_line (LDef prev) acc (codes (s_before st) ++ site_text (s_kind st) p d ++ codes (s_after st) ++ rest) = Some ts ->
  exists U1 U2, uses_from [] ts = U1 ++ (u, VS d) :: U2.
Proof.
  intros Hin Hk u Hu p d rest prev acc ts Hp Hw H.
  destruct (site_ctx st Hin) as [Hb Ha].
  destruct Hk as [E|E]; rewrite E in H; cbn [site_text] in H.
  - exact (text_use_whole p _ _ d rest prev acc ts u Hp Hw Hb Ha Hu H).
  - refine (text_use_whole (fun _ => false) _ _ d rest prev acc ts u _ Hw Hb Ha Hu H).
    intros c _. reflexivity.
Qed.

(* the roles the property names occur in the table of this run *)
Definition has_use (o: string) (u: use) : bool :=
  existsb (fun s => String.eqb (s_origin s) o
                    && match site_use s with Some v => use_eqb v u | None => false end) splice_sites.
Definition decided : nat := List.length (filter (fun s => match site_use s with Some _ => true | None => false end) splice_sites).
