(* C20: proofs about the model SchemaGen.v *)
From Coq Require Import List String Ascii ZArith Bool Lia.
From Verif Require Import SchemaGen.
Import ListNotations.
Open Scope string_scope.

(* ------------------------------------------------------------------ *)
(* induction principle for the nested type grammar                      *)
Section TyInd.
  Variable P : ty -> Prop.
  Hypothesis HInt : P TInt.
  Hypothesis HFloat : P TFloat.
  Hypothesis HBool : P TBool.
  Hypothesis HStr : P TStr.
  Hypothesis HNone : P TNone.
  Hypothesis HAny : P TAny.
  Hypothesis HList : forall a, P a -> P (TList a).
  Hypothesis HWrap : forall a, P a -> P (TWrap a).
  Hypothesis HSet : forall a, P a -> P (TSet a).
  Hypothesis HDict : forall a, P a -> P (TDict a).
  Hypothesis HMap : forall k a, P k -> P a -> P (TMap k a).
  Hypothesis HTuple : forall ts, Forall P ts -> P (TTuple ts).
  Hypothesis HUnion : forall ts, Forall P ts -> P (TUnion ts).
  Hypothesis HClass : forall c, P (TClass c).
  Hypothesis HNamed : forall asd names ts ds, Forall P ts -> P (TNamed asd names ts ds).
  Hypothesis HLeaf : forall tp fmt pat, P (TLeaf tp fmt pat).
  Hypothesis HEnum : forall lit vals, P (TEnum lit vals).
  Hypothesis HTyped : forall names ts req, Forall P ts -> P (TTyped names ts req).
  Hypothesis HOpaque : forall n, P (TOpaque n).
  Hypothesis HAnn : forall cs a, P a -> P (TAnn cs a).
  Fixpoint ty_ind' (t: ty) : P t :=
    match t with
    | TInt => HInt | TFloat => HFloat | TBool => HBool | TStr => HStr | TNone => HNone | TAny => HAny
    | TList a => HList a (ty_ind' a)
    | TWrap a => HWrap a (ty_ind' a)
    | TSet a => HSet a (ty_ind' a)
    | TDict a => HDict a (ty_ind' a)
    | TMap k a => HMap k a (ty_ind' k) (ty_ind' a)
    | TTuple ts => HTuple ts ((fix go (l: list ty) : Forall P l :=
                                 match l with [] => Forall_nil _ | x :: r => Forall_cons _ (ty_ind' x) (go r) end) ts)
    | TUnion ts => HUnion ts ((fix go (l: list ty) : Forall P l :=
                                 match l with [] => Forall_nil _ | x :: r => Forall_cons _ (ty_ind' x) (go r) end) ts)
    | TClass c => HClass c
    | TNamed asd names ts ds => HNamed asd names ts ds ((fix go (l: list ty) : Forall P l :=
                                 match l with [] => Forall_nil _ | x :: r => Forall_cons _ (ty_ind' x) (go r) end) ts)
    | TLeaf tp fmt pat => HLeaf tp fmt pat
    | TEnum lit vals => HEnum lit vals
    | TTyped names ts req => HTyped names ts req ((fix go (l: list ty) : Forall P l :=
                                 match l with [] => Forall_nil _ | x :: r => Forall_cons _ (ty_ind' x) (go r) end) ts)
    | TOpaque n => HOpaque n
    | TAnn cs a => HAnn cs a (ty_ind' a)
    end.
End TyInd.

(* ------------------------------------------------------------------ *)
(* unfolding equations of schema_fuel (fuel is the structural argument) *)
Section Unfold.
  Variable E: ctab.
  Variable cfg: bcfg.
  Notation SF := (schema_fuel E cfg).

  Lemma sf_scalar fuel st :
    SF fuel TInt st = SOk (ty_sk "integer", st) /\ SF fuel TFloat st = SOk (ty_sk "number", st) /\
    SF fuel TBool st = SOk (ty_sk "boolean", st) /\ SF fuel TStr st = SOk (ty_sk "string", st) /\
    SF fuel TNone st = SOk (ty_sk "null", st) /\ SF fuel TAny st = SOk (sk0, st).
  Proof. destruct fuel; repeat split; reflexivity. Qed.

  Lemma sf_wrap fuel a st : SF fuel (TWrap a) st = SF fuel a st.
  Proof. destruct fuel; reflexivity. Qed.
  Lemma sf_list fuel a st :
    SF fuel (TList a) st = match SF fuel a st with
                           | SOk (s, st1) => SOk (arr_sk (or_none a s) None, st1)
                           | SFuel => SFuel | SErr => SErr end.
  Proof. destruct fuel; reflexivity. Qed.
  Lemma sf_set fuel a st :
    SF fuel (TSet a) st = match SF fuel a st with
                          | SOk (s, st1) => SOk (arr_sk (or_none a s) (Some true), st1)
                          | SFuel => SFuel | SErr => SErr end.
  Proof. destruct fuel; reflexivity. Qed.
  Lemma sf_dict fuel a st :
    SF fuel (TDict a) st = match SF fuel a st with
                           | SOk (s, st1) => SOk (dict_sk (or_none a s) (Some (render (ty_sk "string"))), st1)
                           | SFuel => SFuel | SErr => SErr end.
  Proof. destruct fuel; reflexivity. Qed.
  Lemma sf_map fuel k a st :
    SF fuel (TMap k a) st = match SF fuel a st with
                            | SOk (s, st1) =>
                                match SF fuel k st1 with
                                | SOk (sk', st2) => SOk (dict_sk (or_none a s) (or_none k sk'), st2)
                                | SFuel => SFuel | SErr => SErr end
                            | SFuel => SFuel | SErr => SErr end.
  Proof. destruct fuel; reflexivity. Qed.
  Lemma sf_tuple fuel ts st :
    SF fuel (TTuple ts) st = match map_st (SF fuel) ts [] st with
                             | SOk (ss, st1) => SOk (tuple_sk ss, st1)
                             | SFuel => SFuel | SErr => SErr end.
  Proof. destruct fuel; reflexivity. Qed.
  Lemma sf_union fuel ts st :
    SF fuel (TUnion ts) st = match ts with
                             | [] => SErr
                             | _ => match map_st (SF fuel) ts [] st with
                                    | SOk (ss, st1) => SOk (union_sk ss, st1)
                                    | SFuel => SFuel | SErr => SErr end
                             end.
  Proof. destruct fuel; reflexivity. Qed.
  Lemma sf_named fuel asd names ts ds st :
    SF fuel (TNamed asd names ts ds) st =
    if str_nodup names && Nat.eqb (List.length names) (List.length ts)
    then match map_st (SF fuel) ts ds st with
         | SOk (ss, st1) => SOk (if asd then ntobj_sk (combine names ss) names else ntuple_sk ss, st1)
         | SFuel => SFuel | SErr => SErr end
    else SErr.
  Proof. destruct fuel; reflexivity. Qed.
  Lemma sf_leaf fuel tp fmt pat st :
    SF fuel (TLeaf tp fmt pat) st =
    if is_type_name tp && match fmt with Some f => str_mem f formats | None => true end
    then SOk (leaf_sk tp fmt pat, st) else SErr.
  Proof. destruct fuel; reflexivity. Qed.
  Lemma sf_ann fuel cs a st :
    SF fuel (TAnn cs a) st =
    if forallb ann_ok cs
    then match SF fuel a st with
         | SOk (s, st1) => SOk (apply_anns cs (akind_of a) s, st1)
         | SFuel => SFuel | SErr => SErr end
    else SErr.
  Proof. destruct fuel; reflexivity. Qed.
  Lemma sf_opaque fuel n st : SF fuel (TOpaque n) st = SErr.
  Proof. destruct fuel; reflexivity. Qed.
  Lemma sf_enum fuel lit vals st : SF fuel (TEnum lit vals) st = SOk (enum_sk lit vals, st).
  Proof. destruct fuel; reflexivity. Qed.
  Lemma sf_typed fuel names ts req st :
    SF fuel (TTyped names ts req) st =
    if str_nodup names && Nat.eqb (List.length names) (List.length ts)
    then match map_st (SF fuel) ts [] st with
         | SOk (ss, st1) => SOk (obj_sk None (combine names ss) (isort (req_keys names req)), st1)
         | SFuel => SFuel | SErr => SErr end
    else SErr.
  Proof. destruct fuel; reflexivity. Qed.
  Lemma sf_class0 c st : SF 0 (TClass c) st = SFuel.
  Proof. reflexivity. Qed.
  Lemma sf_classS fuel c st :
    SF (S fuel) (TClass c) st =
    match lookup c E with
    | None => SErr
    | Some fs =>
        match fields_fold (SF fuel) fs [] [] st with
        | SOk ((props, req), st1) =>
            let obj := obj_sk (Some c) props req in
            if cfg.(c_all_refs)
            then SOk (ref_sk (cfg.(c_prefix) ++ "/" ++ c), aset st1 c (render obj))
            else SOk (obj, st1)
        | SFuel => SFuel | SErr => SErr end
    end.
  Proof. reflexivity. Qed.
End Unfold.

(* ------------------------------------------------------------------ *)
(* association lists                                                    *)
Lemma in_aset {A} (l: list (string * A)) k v k' v' :
  In (k', v') (aset l k v) -> (k' = k /\ v' = v) \/ In (k', v') l.
Proof.
  induction l as [|[k0 x] r IH]; simpl.
  - intros [H|[]]. inversion H; auto.
  - destruct (String.eqb k0 k) eqn:Ek.
    + apply String.eqb_eq in Ek. subst. intros [H|H].
      * inversion H; auto.
      * right; right; exact H.
    + intros [H|H].
      * right; left; exact H.
      * destruct (IH H) as [H1|H1]; auto.
Qed.

Lemma keys_aset_incl {A} (l: list (string * A)) k v : incl (keys l) (keys (aset l k v)).
Proof.
  induction l as [|[k0 x] r IH]; simpl.
  - intros a [].
  - destruct (String.eqb k0 k); simpl.
    + apply incl_refl.
    + intros a [H|H]; [left; exact H | right; apply IH; exact H].
Qed.

Lemma keys_aset_in {A} (l: list (string * A)) k v : In k (keys (aset l k v)).
Proof.
  induction l as [|[k0 x] r IH]; simpl.
  - left; reflexivity.
  - destruct (String.eqb k0 k) eqn:Ek; simpl.
    + left. apply String.eqb_eq; exact Ek.
    + right; exact IH.
Qed.

Lemma str_mem_false_notin s l : str_mem s l = false -> ~ In s l.
Proof.
  induction l as [|x r IH]; simpl; [tauto|].
  intros H [Hx|Hr].
  - subst. rewrite String.eqb_refl in H. discriminate.
  - apply orb_false_iff in H. destruct H as [_ H]. exact (IH H Hr).
Qed.
Lemma str_nodup_true l : str_nodup l = true -> NoDup l.
Proof.
  induction l as [|x r IH]; simpl; [constructor|].
  intros H. apply andb_true_iff in H. destruct H as [H1 H2]. constructor.
  - apply str_mem_false_notin. destruct (str_mem x r); [discriminate|reflexivity].
  - exact (IH H2).
Qed.

Lemma req_keys_in names req x : In x (req_keys names req) -> In x names.
Proof.
  revert req. induction names as [|n ns IH]; intros [|[] rs] H; simpl in *; try contradiction.
  - destruct H as [H|H]; [left; exact H|right; eapply IH; eauto].
  - right; eapply IH; eauto.
Qed.
Lemma req_keys_nodup names req : NoDup names -> NoDup (req_keys names req).
Proof.
  intros H. revert req. induction H as [|n ns Hn Hns IH]; intros [|[] rs]; simpl; try constructor; auto.
  intros Hin. apply Hn. eapply req_keys_in; eauto.
Qed.
Lemma insert_in x y l : In y (insert_str x l) <-> y = x \/ In y l.
Proof.
  induction l as [|z r IH]; simpl; [intuition|].
  destruct (String.leb x z); simpl; [intuition|]. rewrite IH. intuition.
Qed.
Lemma insert_nodup x l : ~ In x l -> NoDup l -> NoDup (insert_str x l).
Proof.
  induction l as [|z r IH]; simpl; intros Hx Hn; [constructor; [tauto|constructor]|].
  destruct (String.leb x z); [constructor; [simpl; tauto|exact Hn]|].
  inversion Hn; subst. constructor.
  - rewrite insert_in. intros [->|H]; tauto.
  - apply IH; tauto.
Qed.
Lemma isort_in y l : In y (isort l) <-> In y l.
Proof. induction l as [|x r IH]; simpl; [tauto|]. rewrite insert_in, IH. intuition. Qed.
Lemma isort_nodup l : NoDup l -> NoDup (isort l).
Proof.
  induction 1 as [|x r Hx Hr IH]; simpl; [constructor|]. apply insert_nodup; [rewrite isort_in; exact Hx|exact IH].
Qed.

(* ------------------------------------------------------------------ *)
(* a generic invariant: any document predicate G (relative to the keys of the definitions
   collected so far) that is closed under the constructors of the model holds for every
   emitted schema and every collected definition, for every sequence of builds           *)
Definition tab_nodup (E: ctab) : Prop :=
  forall c fs, lookup c E = Some fs -> NoDup (map f_alias fs).

Section Generic.
  Variable E: ctab.
  Variable cfg: bcfg.
  Variable G : list string -> js -> Prop.
  Hypothesis G_mono : forall ks ks' d, incl ks ks' -> G ks d -> G ks' d.
  (* Sp: the same property on schema OBJECTS (before rendering); Sp := fun ks s => G ks (render s) is always possible,
     a structural Sp lets an instance look inside the object when a keyword is set afterwards *)
  Variable Sp : list string -> sk -> Prop.
  Hypothesis S_G : forall ks s, Sp ks s -> G ks (render s).
  Hypothesis S_mono : forall ks ks' s, incl ks ks' -> Sp ks s -> Sp ks' s.
  Hypothesis G_ty : forall ks n, is_type_name n = true -> Sp ks (ty_sk n).
  Hypothesis G_any : forall ks, Sp ks sk0.
  Hypothesis G_arr : forall ks o u, (forall d, o = Some d -> G ks d) -> Sp ks (arr_sk o u).
  Hypothesis G_dict : forall ks o p, (forall d, o = Some d -> G ks d) -> (forall d, p = Some d -> G ks d) -> Sp ks (dict_sk o p).
  Hypothesis G_tuple : forall ks l, Forall (G ks) l -> Sp ks (tuple_sk l).
  Hypothesis G_union : forall ks l, l <> [] -> Forall (G ks) l -> Sp ks (union_sk l).
  Hypothesis G_ref : forall ks c, In c ks -> Sp ks (ref_sk (cfg.(c_prefix) ++ "/" ++ c)).
  Hypothesis G_obj : forall ks c props req,
      (forall k d, In (k, d) props -> G ks d) -> NoDup req -> Sp ks (obj_sk c props req).
  Hypothesis G_leaf : forall ks tp fmt pat,
      is_type_name tp = true -> match fmt with Some f => str_mem f formats | None => true end = true -> Sp ks (leaf_sk tp fmt pat).
  Hypothesis G_enum : forall ks lit vals, Sp ks (enum_sk lit vals).
  Hypothesis G_descr : forall ks s d, Sp ks s -> Sp ks (set_description s d).
  Hypothesis G_ann : forall ks cs k s, forallb ann_ok cs = true -> Sp ks s -> Sp ks (apply_anns cs k s).
  Hypothesis G_ntobj : forall ks props req,
      (forall k d, In (k, d) props -> G ks d) -> NoDup req -> Sp ks (ntobj_sk props req).
  Hypothesis G_default : forall ks s d, Sp ks s -> Sp ks (set_default s d).
  Hypothesis G_defs : forall ks s st,
      Sp ks s -> (forall c d, In (c, d) st -> G ks d) -> Sp ks (set_defs s st).
  Hypothesis G_schema : forall ks s u, Sp ks s -> Sp ks (set_schema s u).
  Hypothesis Hnodup : tab_nodup E.

  Definition Inv (st: defs) : Prop := forall c d, In (c, d) st -> G (keys st) d.

  Definition rec_ok (rec: ty -> defs -> sres (sk * defs)) : Prop :=
    forall t st s st', rec t st = SOk (s, st') -> Inv st ->
                       Inv st' /\ Sp (keys st') s /\ incl (keys st) (keys st').

  Lemma or_none_ok ks a s : G ks (render s) -> forall d, or_none a s = Some d -> G ks d.
  Proof. unfold or_none. destruct (is_any a); intros H d Hd; inversion Hd; subst; exact H. Qed.

  Lemma map_st_ok rec ts :
    Forall (fun t => forall st s st', rec t st = SOk (s, st') -> Inv st ->
                                      Inv st' /\ Sp (keys st') s /\ incl (keys st) (keys st')) ts ->
    forall ds st ss st', map_st rec ts ds st = SOk (ss, st') -> Inv st ->
                      Inv st' /\ Forall (G (keys st')) ss /\ incl (keys st) (keys st') /\ List.length ss = List.length ts.
  Proof.
    induction 1 as [|t r Ht Hr IH]; simpl; intros ds st ss st' Hm HI.
    - inversion Hm; subst. repeat split; auto using incl_refl.
    - destruct (rec t st) as [[s st1]| |] eqn:E1; try discriminate.
      destruct (map_st rec r (tl ds) st1) as [[ss2 st2]| |] eqn:E2; try discriminate.
      inversion Hm; subst.
      destruct (Ht _ _ _ E1 HI) as (HI1 & HG1 & Hk1).
      destruct (IH _ _ _ _ E2 HI1) as (HI2 & HF2 & Hk2 & Hlen).
      repeat split; auto.
      + constructor; auto. apply S_G. apply G_default. eapply S_mono; eauto.
      + eapply incl_tran; eauto.
      + simpl. rewrite Hlen. reflexivity.
  Qed.

  Lemma fields_ok rec : rec_ok rec ->
    forall fs props req st props' req' st',
      fields_fold rec fs props req st = SOk ((props', req'), st') ->
      Inv st -> (forall k d, In (k, d) props -> G (keys st) d) ->
      NoDup (req ++ map f_alias fs) ->
      Inv st' /\ (forall k d, In (k, d) props' -> G (keys st') d) /\ NoDup req' /\ incl (keys st) (keys st').
  Proof.
    intros Hrec. induction fs as [|f r IH]; simpl; intros props req st props' req' st' Hf HI Hp Hnd.
    - inversion Hf; subst. rewrite app_nil_r in Hnd. repeat split; auto using incl_refl.
    - destruct (rec (f_ty f) st) as [[s st1]| |] eqn:E1; try discriminate.
      destruct (Hrec _ _ _ _ E1 HI) as (HI1 & HG1 & Hk1).
      apply IH in Hf; auto.
      + destruct Hf as (HI2 & Hp2 & Hn2 & Hk2). repeat split; auto. eapply incl_tran; eauto.
      + intros k d Hin. apply in_aset in Hin. destruct Hin as [[_ Hd]|Hin].
        * subst d. apply S_G. apply G_descr. apply G_default. exact HG1.
        * eapply G_mono; [exact Hk1|]. eapply Hp; eauto.
      + destruct (f_req f).
        * rewrite <- app_assoc. simpl. exact Hnd.
        * apply NoDup_remove_1 in Hnd. exact Hnd.
  Qed.

  Lemma inv_aset st c d : Inv st -> G (keys st) d -> Inv (aset st c d).
  Proof.
    intros HI HG c' d' Hin. apply in_aset in Hin. destruct Hin as [[_ Hd]|Hin].
    - subst. eapply G_mono; [apply keys_aset_incl|exact HG].
    - eapply G_mono; [apply keys_aset_incl|]. eapply HI; eauto.
  Qed.

  Theorem schema_inv : forall fuel, rec_ok (schema_fuel E cfg fuel).
  Proof.
    induction fuel as [|fuel IHf].
    - (* fuel = 0 *)
      intros t. induction t using ty_ind'; intros st s st' Hs HI;
        try (destruct (sf_scalar E cfg 0 st) as (H1 & H2 & H3 & H4 & H5 & H6);
             first [rewrite H1 in Hs | rewrite H2 in Hs | rewrite H3 in Hs | rewrite H4 in Hs | rewrite H5 in Hs | rewrite H6 in Hs];
             inversion Hs; subst; repeat split; auto using incl_refl; apply G_ty; reflexivity).
      + rewrite sf_list in Hs. destruct (schema_fuel E cfg 0 t st) as [[s1 st1]| |] eqn:E1; try discriminate.
        inversion Hs; subst. destruct (IHt _ _ _ E1 HI) as (A & B & C). repeat split; auto.
        apply G_arr. apply or_none_ok. apply S_G. exact B.
      + rewrite sf_wrap in Hs. exact (IHt _ _ _ Hs HI).
      + rewrite sf_set in Hs. destruct (schema_fuel E cfg 0 t st) as [[s1 st1]| |] eqn:E1; try discriminate.
        inversion Hs; subst. destruct (IHt _ _ _ E1 HI) as (A & B & C). repeat split; auto.
        apply G_arr. apply or_none_ok. apply S_G. exact B.
      + rewrite sf_dict in Hs. destruct (schema_fuel E cfg 0 t st) as [[s1 st1]| |] eqn:E1; try discriminate.
        inversion Hs; subst. destruct (IHt _ _ _ E1 HI) as (A & B & C). repeat split; auto.
        apply G_dict; [apply or_none_ok; apply S_G; exact B|].
        intros d Hd. inversion Hd; subst. apply S_G. apply G_ty. reflexivity.
      + rewrite sf_map in Hs. destruct (schema_fuel E cfg 0 t2 st) as [[s1 st1]| |] eqn:E1; try discriminate.
        destruct (schema_fuel E cfg 0 t1 st1) as [[s2 st2]| |] eqn:E2; try discriminate.
        inversion Hs; subst. destruct (IHt2 _ _ _ E1 HI) as (A & B & C). destruct (IHt1 _ _ _ E2 A) as (A2 & B2 & C2).
        repeat split; auto; [|eapply incl_tran; eauto].
        apply G_dict; [apply or_none_ok; apply S_G; eapply S_mono; eauto|apply or_none_ok; apply S_G; exact B2].
      + rewrite sf_tuple in Hs. destruct (map_st (schema_fuel E cfg 0) ts [] st) as [[ss st1]| |] eqn:E1; try discriminate.
        inversion Hs; subst. destruct (map_st_ok _ _ H _ _ _ _ E1 HI) as (A & B & C & _). repeat split; auto.
      + rewrite sf_union in Hs. destruct ts as [|t0 tr]; try discriminate.
        destruct (map_st (schema_fuel E cfg 0) (t0 :: tr) [] st) as [[ss st1]| |] eqn:E1; try discriminate.
        inversion Hs; subst. destruct (map_st_ok _ _ H _ _ _ _ E1 HI) as (A & B & C & D). repeat split; auto.
        apply G_union; auto. intros ->. discriminate.
      + rewrite sf_class0 in Hs. discriminate.
      + rewrite sf_named in Hs.
        destruct (str_nodup names && Nat.eqb (List.length names) (List.length ts)) eqn:Eg; try discriminate.
        destruct (map_st (schema_fuel E cfg 0) ts ds st) as [[ss st1]| |] eqn:E1; try discriminate.
        inversion Hs; subst. destruct (map_st_ok _ _ H _ _ _ _ E1 HI) as (A & B & C & D). repeat split; auto.
        apply andb_true_iff in Eg. destruct Eg as [Eg1 Eg2].
        destruct asd.
        * apply G_ntobj; [|apply str_nodup_true; exact Eg1].
          intros k d Hin. apply in_combine_r in Hin. rewrite Forall_forall in B. apply B. exact Hin.
        * unfold ntuple_sk. destruct ss as [|x r]; [apply G_arr; intros d Hd; discriminate|apply G_tuple; exact B].
      + rewrite sf_leaf in Hs.
        destruct (is_type_name tp && match fmt with Some f => str_mem f formats | None => true end) eqn:Eg; try discriminate.
        apply andb_true_iff in Eg. destruct Eg as [Eg1 Eg2].
        inversion Hs; subst. repeat split; auto using incl_refl.
      + rewrite sf_enum in Hs. inversion Hs; subst. repeat split; auto using incl_refl.
      + rewrite sf_typed in Hs.
        destruct (str_nodup names && Nat.eqb (List.length names) (List.length ts)) eqn:Eg; try discriminate.
        destruct (map_st (schema_fuel E cfg 0) ts [] st) as [[ss st1]| |] eqn:E1; try discriminate.
        inversion Hs; subst. destruct (map_st_ok _ _ H _ _ _ _ E1 HI) as (A & B & C & D). repeat split; auto.
        apply andb_true_iff in Eg. destruct Eg as [Eg1 Eg2].
        apply G_obj; [|apply isort_nodup; apply req_keys_nodup; apply str_nodup_true; exact Eg1].
        intros k d Hin. apply in_combine_r in Hin. rewrite Forall_forall in B. apply B. exact Hin.
      + rewrite sf_opaque in Hs. discriminate.
      + rewrite sf_ann in Hs. destruct (forallb ann_ok cs) eqn:Ea; try discriminate.
        destruct (schema_fuel E cfg 0 t st) as [[s1 st1]| |] eqn:E1; try discriminate.
        inversion Hs; subst. destruct (IHt _ _ _ E1 HI) as (A & B & C). repeat split; auto.
    - intros t. induction t using ty_ind'; intros st s st' Hs HI;
        try (destruct (sf_scalar E cfg (S fuel) st) as (H1 & H2 & H3 & H4 & H5 & H6);
             first [rewrite H1 in Hs | rewrite H2 in Hs | rewrite H3 in Hs | rewrite H4 in Hs | rewrite H5 in Hs | rewrite H6 in Hs];
             inversion Hs; subst; repeat split; auto using incl_refl; apply G_ty; reflexivity).
      + rewrite sf_list in Hs. destruct (schema_fuel E cfg (S fuel) t st) as [[s1 st1]| |] eqn:E1; try discriminate.
        inversion Hs; subst. destruct (IHt _ _ _ E1 HI) as (A & B & C). repeat split; auto.
        apply G_arr. apply or_none_ok. apply S_G. exact B.
      + rewrite sf_wrap in Hs. exact (IHt _ _ _ Hs HI).
      + rewrite sf_set in Hs. destruct (schema_fuel E cfg (S fuel) t st) as [[s1 st1]| |] eqn:E1; try discriminate.
        inversion Hs; subst. destruct (IHt _ _ _ E1 HI) as (A & B & C). repeat split; auto.
        apply G_arr. apply or_none_ok. apply S_G. exact B.
      + rewrite sf_dict in Hs. destruct (schema_fuel E cfg (S fuel) t st) as [[s1 st1]| |] eqn:E1; try discriminate.
        inversion Hs; subst. destruct (IHt _ _ _ E1 HI) as (A & B & C). repeat split; auto.
        apply G_dict; [apply or_none_ok; apply S_G; exact B|].
        intros d Hd. inversion Hd; subst. apply S_G. apply G_ty. reflexivity.
      + rewrite sf_map in Hs. destruct (schema_fuel E cfg (S fuel) t2 st) as [[s1 st1]| |] eqn:E1; try discriminate.
        destruct (schema_fuel E cfg (S fuel) t1 st1) as [[s2 st2]| |] eqn:E2; try discriminate.
        inversion Hs; subst. destruct (IHt2 _ _ _ E1 HI) as (A & B & C). destruct (IHt1 _ _ _ E2 A) as (A2 & B2 & C2).
        repeat split; auto; [|eapply incl_tran; eauto].
        apply G_dict; [apply or_none_ok; apply S_G; eapply S_mono; eauto|apply or_none_ok; apply S_G; exact B2].
      + rewrite sf_tuple in Hs. destruct (map_st (schema_fuel E cfg (S fuel)) ts [] st) as [[ss st1]| |] eqn:E1; try discriminate.
        inversion Hs; subst. destruct (map_st_ok _ _ H _ _ _ _ E1 HI) as (A & B & C & _). repeat split; auto.
      + rewrite sf_union in Hs. destruct ts as [|t0 tr]; try discriminate.
        destruct (map_st (schema_fuel E cfg (S fuel)) (t0 :: tr) [] st) as [[ss st1]| |] eqn:E1; try discriminate.
        inversion Hs; subst. destruct (map_st_ok _ _ H _ _ _ _ E1 HI) as (A & B & C & D). repeat split; auto.
        apply G_union; auto. intros ->. discriminate.
      + rewrite sf_classS in Hs. destruct (lookup c E) as [fs|] eqn:El; try discriminate.
        destruct (fields_fold (schema_fuel E cfg fuel) fs [] [] st) as [[[props req] st1]| |] eqn:Ef; try discriminate.
        apply (fields_ok _ IHf) in Ef; auto.
        * destruct Ef as (A & B & C & D).
          assert (HSo: Sp (keys st1) (obj_sk (Some c) props req)) by (apply G_obj; auto).
          assert (HGo: G (keys st1) (render (obj_sk (Some c) props req))) by (apply S_G; exact HSo).
          cbv zeta in Hs. destruct (c_all_refs cfg).
          -- inversion Hs; subst. repeat split.
             ++ apply inv_aset; auto.
             ++ apply G_ref. apply keys_aset_in.
             ++ eapply incl_tran; [exact D|apply keys_aset_incl].
          -- inversion Hs; subst. repeat split; auto.
        * intros k d [].
        * simpl. apply Hnodup in El. exact El.
      + rewrite sf_named in Hs.
        destruct (str_nodup names && Nat.eqb (List.length names) (List.length ts)) eqn:Eg; try discriminate.
        destruct (map_st (schema_fuel E cfg (S fuel)) ts ds st) as [[ss st1]| |] eqn:E1; try discriminate.
        inversion Hs; subst. destruct (map_st_ok _ _ H _ _ _ _ E1 HI) as (A & B & C & D). repeat split; auto.
        apply andb_true_iff in Eg. destruct Eg as [Eg1 Eg2].
        destruct asd.
        * apply G_ntobj; [|apply str_nodup_true; exact Eg1].
          intros k d Hin. apply in_combine_r in Hin. rewrite Forall_forall in B. apply B. exact Hin.
        * unfold ntuple_sk. destruct ss as [|x r]; [apply G_arr; intros d Hd; discriminate|apply G_tuple; exact B].
      + rewrite sf_leaf in Hs.
        destruct (is_type_name tp && match fmt with Some f => str_mem f formats | None => true end) eqn:Eg; try discriminate.
        apply andb_true_iff in Eg. destruct Eg as [Eg1 Eg2].
        inversion Hs; subst. repeat split; auto using incl_refl.
      + rewrite sf_enum in Hs. inversion Hs; subst. repeat split; auto using incl_refl.
      + rewrite sf_typed in Hs.
        destruct (str_nodup names && Nat.eqb (List.length names) (List.length ts)) eqn:Eg; try discriminate.
        destruct (map_st (schema_fuel E cfg (S fuel)) ts [] st) as [[ss st1]| |] eqn:E1; try discriminate.
        inversion Hs; subst. destruct (map_st_ok _ _ H _ _ _ _ E1 HI) as (A & B & C & D). repeat split; auto.
        apply andb_true_iff in Eg. destruct Eg as [Eg1 Eg2].
        apply G_obj; [|apply isort_nodup; apply req_keys_nodup; apply str_nodup_true; exact Eg1].
        intros k d Hin. apply in_combine_r in Hin. rewrite Forall_forall in B. apply B. exact Hin.
      + rewrite sf_opaque in Hs. discriminate.
      + rewrite sf_ann in Hs. destruct (forallb ann_ok cs) eqn:Ea; try discriminate.
        destruct (schema_fuel E cfg (S fuel) t st) as [[s1 st1]| |] eqn:E1; try discriminate.
        inversion Hs; subst. destruct (IHt _ _ _ E1 HI) as (A & B & C). repeat split; auto.
  Qed.

  Theorem build_inv fuel wd uri t st d st' :
    build E cfg fuel wd uri t st = SOk (d, st') -> Inv st ->
    Inv st' /\ G (keys st') d /\ incl (keys st) (keys st').
  Proof.
    unfold build. intros Hb HI.
    destruct (schema_fuel E cfg fuel t st) as [[s st1]| |] eqn:E1; try discriminate.
    inversion Hb; subst. destruct (schema_inv _ _ _ _ _ E1 HI) as (A & B & C).
    repeat split; auto.
    assert (B1: Sp (keys st') match uri with Some u => set_schema s u | None => s end)
      by (destruct uri; auto).
    destruct wd; [|apply S_G; exact B1]. destruct st' as [|p r] eqn:Est; [apply S_G; exact B1|].
    rewrite <- Est in *. apply S_G. apply G_defs; auto.
  Qed.

  (* every output of a sequence of builds on one context, and every definition collected,
     is good with respect to the keys of the final context *)
  Theorem build_seq_inv fuel ts : forall st ds st',
    build_seq E cfg fuel ts st = SOk (ds, st') -> Inv st ->
    Inv st' /\ Forall (G (keys st')) ds /\ incl (keys st) (keys st').
  Proof.
    induction ts as [|t r IH]; simpl; intros st ds st' Hb HI.
    - inversion Hb; subst. repeat split; auto using incl_refl.
    - destruct (build E cfg fuel false None t st) as [[d st1]| |] eqn:E1; try discriminate.
      destruct (build_seq E cfg fuel r st1) as [[ds2 st2]| |] eqn:E2; try discriminate.
      inversion Hb; subst.
      destruct (build_inv _ _ _ _ _ _ _ E1 HI) as (A & B & C).
      destruct (IH _ _ _ E2 A) as (A2 & B2 & C2).
      repeat split; auto.
      + constructor; auto. eapply G_mono; eauto.
      + eapply incl_tran; eauto.
  Qed.
End Generic.
