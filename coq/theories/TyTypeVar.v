(* C01-C03 / K45c: Optional[...] and type variables.
   A field or item annotated by a type variable that is not specialised is (un)packed by
   pack_special_typing_primitive / unpack_special_typing_primitive: an unconstrained variable (no bound, no default)
   like Any, a variable with a bound or default B "as if it was Optional[B]" (constrained variables are unions: C11).
   [tv_sty] is the type of the grammar that stands for such a variable; a specialised variable is simply its
   argument.  The theorems tie TyModel.cp / cu on [SOpt t] and on [tv_sty k] to the code as translated from /repo
   (coq/gen/K45c.v): which branch is taken, that the None test is emitted exactly when could_be_none, and that the
   inner (un)packer inherits could_be_none. *)
From Coq Require Import List String ZArith Bool.
From Verif Require Import Core TupleIdx TyModel StpCode.
From VerifGen Require Import K45c.
Import ListNotations.

Inductive tvar := TVAny | TVBound (b: sty).
Definition tv_sty (k: tvar) : sty := match k with TVAny => SAny | TVBound b => SOpt b end.
Definition tv_inner (k: tvar) : sty := match k with TVAny => SAny | TVBound b => b end.

(* the expression a branch stands for, given the (un)packer of the inner type as a function of the inherited flag *)
Definition stp_penc (cbn: bool) (c: stp_code) (inner: bool -> penc) : option penc :=
  match c with
  | STMaybeNone => Some (if k45c_none_test cbn then EOpt (inner cbn) else inner cbn)
  | STExpr => Some EId
  | _ => None end.
Definition stp_pdec (cbn: bool) (c: stp_code) (inner: bool -> pdec) : option pdec :=
  match c with
  | STMaybeNone => Some (if k45c_none_test cbn then UOpt (inner cbn) else inner cbn)
  | STExpr => Some UId
  | _ => None end.

(* the tests of the chain on Optional[t] / on a type variable *)
Definition code_pack_optional : stp_code := k45c_pack true true false false false false.
Definition code_unpack_optional : stp_code := k45c_unpack true true false false false false.
Definition code_pack_tvar (k: tvar) : stp_code :=
  k45c_pack false false false (match k with TVAny => true | _ => false end) true false.
Definition code_unpack_tvar (k: tvar) : stp_code :=
  k45c_unpack false false false (match k with TVAny => true | _ => false end) true false.

Theorem cp_optional_is_code cbn t : stp_penc cbn code_pack_optional (fun c => cp c t) = Some (cp cbn (SOpt t)).
Proof. destruct cbn; reflexivity. Qed.

Theorem cu_optional_is_code cbn t : stp_pdec cbn code_unpack_optional (fun c => cu c t) = Some (cu cbn (SOpt t)).
Proof. destruct cbn; reflexivity. Qed.

Theorem cp_tvar_is_code cbn k : stp_penc cbn (code_pack_tvar k) (fun c => cp c (tv_inner k)) = Some (cp cbn (tv_sty k)).
Proof. destruct k, cbn; reflexivity. Qed.

Theorem cu_tvar_is_code cbn k : stp_pdec cbn (code_unpack_tvar k) (fun c => cu c (tv_inner k)) = Some (cu cbn (tv_sty k)).
Proof. destruct k, cbn; reflexivity. Qed.
