(* C05, type level: the error behaviour of the generated unpackers themselves.

   [ue] interprets the deserialization IR of TyModel.v ([pdec], produced from a type by [cu]) like
   TyModel.uk does, but is faithful about EXCEPTIONS:
   - stdlib primitives (int(), fromisoformat, UUID, Decimal, Enum(...), decodebytes ...) are oracles
     that return a value or THE EXCEPTION CLASS CPython raises ([eprims], finite tables in case files);
   - container / NamedTuple / TypedDict unpackers raise the class the generated expression raises
     (iteration of a non-iterable: TypeError; .items() of a non-dict: AttributeError; value[i] of a short
     sequence: IndexError, of a dict: KeyError, of a scalar: TypeError; value['k']: KeyError / TypeError ...)
     and let an element's exception through unchanged;
   - a dataclass position runs the field loop of Errs.v: MissingField, and every exception of a field's
     unpacker re-raised as InvalidFieldValue(field, input value, class) whose __context__ is that exception
     ([ue_cause]); a non-mapping argument gives ValueError.
   Definitions only; proofs in ErrsTyProofs.v. *)
From Coq Require Import List String Ascii ZArith Bool Lia.
From Verif Require Import Core TupleIdx TyModel Errs.
Import ListNotations.
Open Scope string_scope.
Open Scope Z_scope.

(* stdlib primitives with their failure class *)
Record eprims := {
  q_parse : string -> pv -> res string;     (* leaf kind, input -> canonical text of the parsed object *)
  q_enum_of : string -> pv -> res string;   (* enum class, input -> member name:  E(value) *)
  q_b64dec : pv -> res string;              (* decodebytes(value.encode()) *)
  q_int : pv -> res Z;                      (* int(x), x not int/bool *)
  q_float : pv -> res fl;                   (* float(x), x not float *)
  q_str : pv -> res string                  (* str(x), x not str *)
}.

(* per-class Config as far as deserialization errors depend on it *)
Record tcfg := {
  tc_forbid : bool;                       (* forbid_extra_keys *)
  tc_nba : bool;                          (* allow_deserialization_not_by_alias *)
  tc_alias : list (string * string)       (* field name -> alias *)
}.
Definition no_cfg : tcfg := {| tc_forbid := false; tc_nba := false; tc_alias := [] |}.

(* the key read first (alias or name) and, with allow_deserialization_not_by_alias and an alias, the second one *)
Definition f_key (cf: tcfg) (f: sfield) : string :=
  match assoc cf.(tc_alias) f.(sf_name) with Some a => a | None => f.(sf_name) end.
Definition f_key2 (cf: tcfg) (f: sfield) : option string :=
  match assoc cf.(tc_alias) f.(sf_name) with
  | Some _ => if cf.(tc_nba) then Some f.(sf_name) else None
  | None => None end.
Definition allowed_of (cf: tcfg) (fds: list sfield) : list string :=
  flat_map (fun f => f_key cf f :: match f_key2 cf f with Some k => [k] | None => [] end) fds.
Definition extras_of (cf: tcfg) (fds: list sfield) (kvs: list (pv * pv)) : list pv :=
  filter (fun k => negb (match k with VStr s => str_in s (allowed_of cf fds) | _ => false end)) (map fst kvs).

Section LookK.
  Context {D: Type}.
  (* value[key]: first entry whose key == the given key *)
  Fixpoint look_k (es: list (pv * D)) (k: pv) : option D :=
    match es with
    | [] => None
    | (key, d) :: er => if py_eq key k then Some d else look_k er k
    end.
End LookK.

Section ERun.
  Variable E : senv.
  Variable Q : eprims.
  Variable CF : string -> tcfg.             (* class name -> Config *)

  Definition coerce_e (s: scalar) (v: pv) : res pv :=
    match s with
    | SInt => match v with
              | VInt z => Ok (VInt z)
              | VBool b => Ok (VInt (if b then 1 else 0))
              | _ => z <- Q.(q_int) v ;; Ok (VInt z) end
    | SFloat => match v with
                | VFloat f => Ok (VFloat f)
                | _ => f <- Q.(q_float) v ;; Ok (VFloat f) end
    | SBool => Ok (VBool (truthy v))
    | SStr => match v with
              | VStr s => Ok (VStr s)
              | _ => s <- Q.(q_str) v ;; Ok (VStr s) end
    | SNone => Ok VNone
    end.

  (* a str input: iteration / indexing yield one-character strings (fuel as in TyModel.uk_str) *)
  Fixpoint ue_str (n: nat) {struct n} : pdec -> string -> res pv :=
    fix on_u (u: pdec) {struct u} : string -> res pv := fun s =>
    match u with
    | UId => Ok (VStr s)
    | UScalar sc => coerce_e sc (VStr s)
    | ULeaf k => w <- Q.(q_parse) k (VStr s) ;; Ok (VLeaf k w)
    | UB64 m => b <- Q.(q_b64dec) (VStr s) ;; Ok (VBytes m b)
    | UEnum e => mn <- Q.(q_enum_of) e (VStr s) ;; Ok (VEnum e mn)
    | UOpt u' => on_u u' s
    | UListComp u' => r <- mapM (on_u u') (utf8_chars s) ;; Ok (VList r)
    | USetComp fr u' => r <- mapM (on_u u') (utf8_chars s) ;;
        if forallb hashable r then Ok (VSet fr (set_of_list r)) else Exn XTypeError
    | UTupleVar u' => r <- mapM (on_u u') (utf8_chars s) ;; Ok (VTuple r)
    | UTupleFix us =>
        r <- (fix go (us: list pdec) (l: list string) {struct us} : res (list pv) :=
                match us, l with
                | [], _ => Ok []
                | _ :: _, [] => none_tail E us
                | u' :: us', x :: l' => y <- on_u u' x ;; ys <- go us' l' ;; Ok (y :: ys)
                end) us (utf8_chars s) ;;
        Ok (VTuple r)
    | UDictComp _ _ => Exn XAttributeError
    | UTupleU plan pre umid post =>
        r <- tu_walk on_u (const_dec E) (Some (utf8_chars s)) plan pre post
               (match umid with
                | UTupleVar u' => mid_var on_u u'
                | UTupleFix us => mid_fix on_u (const_dec E) (none_tail E) us
                | _ => fun _ => Exn XTypeError end) ;;
        Ok (VTuple r)
    | UData c => match sfind E KData c with
                 | Some _ => Exn XValueError
                 | None => Exn XAttributeError end
    | UNamed c =>
        match sfind E KNamed c with
        | None => Exn XAttributeError
        | Some k =>
            match n with
            | O => Exn XRecursion
            | S n' =>
                r <- nt_items (fun f x => ue_str n' (cu true f.(sf_ty)) x) (konst_u E)
                              (nt_exhausted (TyModel.has_default k.(sc_fields))) k.(sc_fields) (utf8_chars s) ;;
                Ok (VNT c r)
            end
        end
    | UTyped c =>
        match sfind E KTyped c with
        | None => Exn XAttributeError
        | Some k => td_nondict (konst_u E) k.(sc_fields) end
    | UBox b u' => r <- on_u u' s ;; Ok (box_val b r)   (* collections.deque(...) / OrderedDict(...) / ChainMap( ... ): the class call itself never raises *)
    | ULit ls => lit_find ls (VStr s)                  (* Literal: no literal of that class and value: ValueError *)
    end.

  Fixpoint ue (d: pv) {struct d} : pdec -> res pv :=
    fix on_u (u: pdec) {struct u} : res pv :=
      match u with
      | UId => Ok d
      | UScalar s => coerce_e s d
      | ULeaf k => w <- Q.(q_parse) k d ;; Ok (VLeaf k w)
      | UB64 m => b <- Q.(q_b64dec) d ;; Ok (VBytes m b)
      | UEnum e => mn <- Q.(q_enum_of) e d ;; Ok (VEnum e mn)
      | UOpt u' => if is_none d then Ok VNone else on_u u'
      | UListComp u' =>
          match d with
          | VList l | VTuple l | VSet _ l => r <- mapM (fun x => ue x u') l ;; Ok (VList r)
          | VDict kvs => r <- mapM (fun p => match p with (k, _) => ue k u' end) kvs ;; Ok (VList r)
          | VStr s => ue_str (List.length E) u s
          | _ => Exn XTypeError end                       (* not iterable *)
      | USetComp fr u' =>
          match d with
          | VList l | VTuple l | VSet _ l =>
              r <- mapM (fun x => ue x u') l ;;
              if forallb hashable r then Ok (VSet fr (set_of_list r)) else Exn XTypeError
          | VDict kvs => r <- mapM (fun p => match p with (k, _) => ue k u' end) kvs ;;
              if forallb hashable r then Ok (VSet fr (set_of_list r)) else Exn XTypeError
          | VStr s => ue_str (List.length E) u s
          | _ => Exn XTypeError end
      | UTupleVar u' =>
          match d with
          | VList l | VTuple l | VSet _ l => r <- mapM (fun x => ue x u') l ;; Ok (VTuple r)
          | VDict kvs => r <- mapM (fun p => match p with (k, _) => ue k u' end) kvs ;; Ok (VTuple r)
          | VStr s => ue_str (List.length E) u s
          | _ => Exn XTypeError end
      | UTupleFix us =>
          match d with
          | VList l | VTuple l =>
              r <- (fix go (us: list pdec) (l: list pv) {struct l} : res (list pv) :=
                      match us, l with
                      | [], _ => Ok []
                      | _ :: _, [] => none_tail E us                 (* value[i]: IndexError *)
                      | u' :: us', x :: l' => y <- ue x u' ;; ys <- go us' l' ;; Ok (y :: ys)
                      end) us l ;;
              Ok (VTuple r)
          | VStr s => ue_str (List.length E) u s
          | VDict kvs =>
              (* value[i] on a dict: the entry under the int key i, else KeyError *)
              let entries : list (pv * (pdec -> res pv)) :=
                  map (fun p => match p with (key, x) => (key, ue x) end) kvs in
              r <- (fix go (us: list pdec) (i: Z) {struct us} : res (list pv) :=
                      match us with
                      | [] => Ok []
                      | u' :: us' =>
                          y <- match const_dec E u' with
                               | Some c => Ok c
                               | None => match look_k entries (VInt i) with
                                         | Some dx => dx u'
                                         | None => Exn XKeyError end
                               end ;;
                          ys <- go us' (i + 1) ;; Ok (y :: ys)
                      end) us 0 ;;
              Ok (VTuple r)
          | _ =>
              (* not subscriptable: TypeError at the first position that reads its item *)
              r <- (fix go (us: list pdec) : res (list pv) :=
                      match us with
                      | [] => Ok []
                      | u' :: us' => match const_dec E u' with
                                     | Some c => ys <- go us' ;; Ok (c :: ys)
                                     | None => Exn XTypeError end
                      end) us ;;
              Ok (VTuple r)
          end
      | UTupleU plan pre umid post =>
          (* Tuple[pre..., *mid, post...]: [u0(value[0]), ..., *umid(value[i:j]), ..., uk(value[-1])]:
             an index past the end is IndexError, a slice never fails (a short input starves the unpacked segment
             or makes head and tail positions overlap), a non-subscriptable value is TypeError; an item's own
             exception propagates unchanged (TyModel.tu_walk) *)
          match d with
          | VStr s => ue_str (List.length E) u s
          | VDict kvs =>
              (* value[i] on a dict reads the entry under the int key i (KeyError without one); the slice
                 value[i:j] is a KeyError (slices are hashable since Python 3.12) unless the unpacked segment is
                 constant and never slices *)
              let entries : list (pv * (pdec -> res pv)) :=
                  map (fun p => match p with (key, x) => (key, ue x) end) kvs in
              let ones := fix ones (plan: list aidx) (ds: list pdec) {struct ds} : res (list pv) :=
                  match ds, plan with
                  | [], [] => Ok []
                  | u' :: ds', a :: plan' =>
                      y <- match const_dec E u' with
                           | Some c0 => Ok c0
                           | None => match a with
                                     | AI i => match look_k entries (VInt i) with
                                               | Some dx => dx u'
                                               | None => Exn XKeyError end
                                     | ASl _ _ => Exn XTypeError end
                           end ;;
                      ys <- ones plan' ds' ;; Ok (y :: ys)
                  | _, _ => Exn XTypeError
                  end in
              let np := List.length pre in
              a <- ones (firstn np plan) pre ;;
              m <- match umid with
                   | UTupleFix us => match omapM (const_dec E) us with
                                     | Some cs => Ok cs
                                     | None => Exn XKeyError end
                   | UTupleVar _ => Exn XKeyError
                   | _ => Exn XTypeError end ;;
              b <- ones (skipn (S np) plan) post ;;
              Ok (VTuple (a ++ m ++ b)%list)
          | _ =>
              let run := fun (u': pdec) (dx: pdec -> res pv) => dx u' in
              let items : option (list (pdec -> res pv)) :=
                  match d with VList l | VTuple l => Some (map (fun x => ue x) l) | _ => None end in
              r <- tu_walk run (const_dec E) items plan pre post
                     (match umid with
                      | UTupleVar u' => mid_var run u'
                      | UTupleFix us => mid_fix run (const_dec E) (none_tail E) us
                      | _ => fun _ => Exn XTypeError end) ;;
              Ok (VTuple r)
          end
      | UDictComp ku vu =>
          match d with
          | VDict kvs =>
              r <- mapM (fun p => match p with (k, x) =>
                                    k' <- ue k ku ;; x' <- ue x vu ;;
                                    if hashable k' then Ok (k', x') else Exn XTypeError end) kvs ;;
              Ok (VDict (dict_of_pairs r))
          | _ => Exn XAttributeError end                  (* .items() *)
      | UData c =>
          match sfind E KData c with
          | None => Exn XAttributeError
          | Some k =>
              match d with
              | VDict kvs =>
                  let cf := CF c in
                  let entries : list (pv * (pv * (pdec -> res pv))) :=
                      map (fun p => match p with (key, x) => (key, (x, ue x)) end) kvs in
                  (* d_keys - allowed: ExtraKeysError before any field is looked at *)
                  if cf.(tc_forbid) && negb (match extras_of cf k.(sc_fields) kvs with [] => true | _ => false end)
                  then Exn (XExtraKeys (extras_of cf k.(sc_fields) kvs) c)
                  else
                  r <- (fix go (fds: list sfield) : res (list (string * pv)) :=
                          match fds with
                          | [] => Ok []
                          | f :: rest =>
                              y <- match (match look entries (f_key cf f) with
                                          | Some p => Some p
                                          | None => match f_key2 cf f with
                                                    | Some k2 => look entries k2
                                                    | None => None end
                                          end) with
                                   | Some (x, dx) =>
                                       if is_none x && sfield_nullable f then Ok VNone
                                       else match dx (cu false f.(sf_ty)) with
                                            | Ok y => Ok y
                                            | Exn _ => Exn (XInvalidFieldValue f.(sf_name) x c)   (* bare except *)
                                            end
                                   | None => match f.(sf_default) with
                                             | Some dv => Ok dv
                                             | None => Exn (XMissingField f.(sf_name) c) end
                                   end ;;
                              tl <- go rest ;; Ok ((f.(sf_name), y) :: tl)
                          end) k.(sc_fields) ;;
                  Ok (VObj c r)
              | _ => Exn XValueError               (* non-mapping argument (field-less classes too, fix abe4c99) *)
              end
          end
      | UNamed c =>
          match sfind E KNamed c with
          | None => Exn XAttributeError
          | Some k =>
              match d with
              | VList l | VTuple l =>
                  (* with defaults: try ... except IndexError: if len(fields) < len(value): raise
                     -- an exception raised INSIDE an item unpacker always propagates (fix 8ccb0df) *)
                  r <- nt_items (fun f x => ue x (cu true f.(sf_ty))) (konst_u E)
                                (nt_exhausted (TyModel.has_default k.(sc_fields))) k.(sc_fields) l ;;
                  Ok (VNT c r)
              | VStr s => ue_str (List.length E) u s
              | VDict kvs =>
                  let entries : list (pv * (pdec -> res pv)) :=
                      map (fun p => match p with (key, x) => (key, ue x) end) kvs in
                  r <- (fix go (fds: list sfield) (i: Z) {struct fds} : res (list pv) :=
                          match fds with
                          | [] => Ok []
                          | f :: rest =>
                              y <- match (konst_u E) f with
                                   | Some c0 => Ok c0
                                   | None => match look_k entries (VInt i) with
                                             | Some dx => dx (cu true f.(sf_ty))
                                             | None => Exn XKeyError end
                                   end ;;
                              ys <- go rest (i + 1) ;; Ok (y :: ys)
                          end) k.(sc_fields) 0 ;;
                  Ok (VNT c r)
              | _ =>
                  r <- nt_tail (konst_u E) (fun _ => Exn XTypeError) k.(sc_fields) ;; Ok (VNT c r)
              end
          end
      | UTyped c =>
          match sfind E KTyped c with
          | None => Exn XAttributeError
          | Some k =>
              match d with
              | VDict kvs =>
                  let entries : list (pv * (pdec -> res pv)) :=
                      map (fun p => match p with (key, x) => (key, ue x) end) kvs in
                  r <- td_go (fun f dx => dx (cu true f.(sf_ty))) (konst_u E) XKeyError
                             entries (td_order k.(sc_fields)) ;;
                  Ok (VDict r)
              | _ => td_nondict (konst_u E) k.(sc_fields)
              end
          end
      | UBox b u' => r <- on_u u' ;; Ok (box_val b r)
      | ULit ls => lit_find ls d
      end.

  (* decoding a value of type t at a codec root / inside a container; as a dataclass field *)
  Definition ue_ty (t: sty) (d: pv) : res pv := ue d (cu true t).

  (* the dataclass of the class table as a class of the field-loop model Errs.v: the per-field decoders
     are the typed unpackers *)
  Definition fspec_of (cf: tcfg) (f: sfield) : fspec :=
    {| fs_name := f.(sf_name); fs_key := f_key cf f; fs_key2 := f_key2 cf f; fs_default := f.(sf_default);
       fs_nullable := sfield_nullable f; fs_ident := false;
       fs_dec := fun v => ue v (cu false f.(sf_ty)) |}.

  Definition cspec_of (k: scls) : cspec :=
    {| cs_name := k.(sc_name); cs_fields := map (fspec_of (CF k.(sc_name))) k.(sc_fields);
       cs_forbid_extra := (CF k.(sc_name)).(tc_forbid);
       cs_discr_keys := []; cs_pre := None; cs_post := None |}.

  (* __context__ of the exception a dataclass position raises: for InvalidFieldValue the exception of the
     field's unpacker that the bare except caught (None: nothing was being handled) *)
  Definition ue_cause (k: scls) (d: pv) : option exn :=
    match d with
    | VDict kvs =>
        if (CF k.(sc_name)).(tc_forbid) && negb (match extras_of (CF k.(sc_name)) k.(sc_fields) kvs with [] => true | _ => false end)
        then None else
        match first_bad kvs (map (fspec_of (CF k.(sc_name))) k.(sc_fields)) with
        | Some (f, BadInvalid v) => match fs_dec f v with Exn e => Some e | Ok _ => None end
        | _ => None end
    | _ => None end.
End ERun.

(* ---- helpers for case files: oracle tables *)
Fixpoint tbl2 {A} (t: list ((string * pv) * res A)) (k: string) (v: pv) : res A :=
  match t with
  | [] => Exn (XOther "oracle-miss")
  | ((k', v'), r) :: rest => if String.eqb k' k && pv_eqb v' v then r else tbl2 rest k v end.
Fixpoint tbl1 {A} (t: list (pv * res A)) (v: pv) : res A :=
  match t with
  | [] => Exn (XOther "oracle-miss")
  | (v', r) :: rest => if pv_eqb v' v then r else tbl1 rest v end.

Definition opt_exn_eqb (a b: option exn) : bool :=
  match a, b with
  | None, None => true
  | Some x, Some y => exn_eqb x y
  | _, _ => false end.
