(* C17: facts about the translated kernel K42 (clean_id as a character map), re-checked against the
   tables generated from the source on every run. *)
From Coq Require Import List NArith Bool Lia.
From VerifGen Require Import K42.
Import ListNotations.
Open Scope N_scope.

Lemma underscore_word : is_word 95 = true.
Proof. vm_compute. reflexivity. Qed.

Lemma underscore_not_digit : is_digit 95 = false.
Proof. vm_compute. reflexivity. Qed.

Lemma sub_char_word c : is_word (sub_char c) = true.
Proof. unfold sub_char. destruct (is_word c) eqn:E; [exact E | exact underscore_word]. Qed.

Lemma clean_id_nonempty s : clean_id s <> [].
Proof.
  destruct s as [| c r]; simpl; [discriminate|].
  destruct (is_digit c); simpl; discriminate.
Qed.

(* every character of the result is a word character *)
Lemma clean_id_word s : Forall (fun c => is_word c = true) (clean_id s).
Proof.
  destruct s as [| c r]; simpl.
  - constructor; [exact underscore_word | constructor].
  - apply Forall_app. split.
    + destruct (is_digit c); [constructor; [exact underscore_word | constructor] | constructor].
    + apply Forall_forall. intros x Hx. change (sub_char c :: map sub_char r) with (map sub_char (c :: r)) in Hx.
      apply in_map_iff in Hx as (y & <- & _). apply sub_char_word.
Qed.

(* the result never starts with a digit *)
Lemma clean_id_no_leading_digit s : exists c r, clean_id s = c :: r /\ is_digit c = false.
Proof.
  destruct s as [| c r]; simpl.
  - exists 95, []. split; [reflexivity | exact underscore_not_digit].
  - destruct (is_digit c) eqn:E; simpl.
    + exists 95, (sub_char c :: map sub_char r). split; [reflexivity | exact underscore_not_digit].
    + exists (sub_char c), (map sub_char r). split; [reflexivity|].
      unfold sub_char. destruct (is_word c); [exact E | exact underscore_not_digit].
Qed.

(* length: at most one character longer, never shorter *)
Lemma clean_id_length s : (length s <= length (clean_id s) <= S (length s))%nat.
Proof.
  destruct s as [| c r]; simpl; [lia|].
  destruct (is_digit c); simpl; rewrite map_length; lia.
Qed.

(* not injective: "m.A_B" and "m.A.B" (code points) *)
Lemma clean_id_collision :
  [109; 46; 65; 95; 66] <> [109; 46; 65; 46; 66] /\ clean_id [109; 46; 65; 95; 66] = clean_id [109; 46; 65; 46; 66].
Proof. split; [discriminate | vm_compute; reflexivity]. Qed.
