(* C13, part "the same dialect means the same logical document in every format".

   The document model is OptProj.to_dict_model (property C08: the generated to_dict body, tied to
   /repo by C08's correspondence).  A codec for format F compiles the shape class with
       default_dialect = <FormatDialect>.merge(D)   or   <FormatDialect>   or   D
   as kernel K13C reads it from mashumaro/codecs/*.py; what the format dialects say (options and
   strategy maps) is read by K13C from mashumaro/mixins/*.py; merge at the level of kernel values is
   K2 (DialectMerge.merge_options_total).  This file lifts all of that to the option lattice of
   OptProj and proves the document-level statements. *)
From Coq Require Import List String Ascii ZArith Bool Lia.
From Verif Require Import Regex PyK OptProj DialectMerge.
From VerifGen Require Import K2 K13 K13C.
Import ListNotations.
Open Scope string_scope.

(* ------------------------------------------------------------------ *)
(* formats and what K13C says about them                               *)
(* ------------------------------------------------------------------ *)
Inductive fmt := FBasic | FJson | FYaml | FOrjson | FMsgpack | FToml.
Definition all_fmts : list fmt := [FBasic; FJson; FYaml; FOrjson; FMsgpack; FToml].

Definition fmt_module (f: fmt) : string :=
  match f with FBasic => "basic" | FJson => "json" | FYaml => "yaml" | FOrjson => "orjson"
             | FMsgpack => "msgpack" | FToml => "toml" end.

(* the plan of the Encoder (and Decoder) classes of a codec module: they must all agree *)
Definition plans_of (f: fmt) : list string :=
  map (fun x => snd x) (filter (fun x => String.eqb (fst (fst x)) (fmt_module f)) codec_plan).

Definition strip_merge (p: string) : option string :=
  if String.prefix "merge:" p then Some (String.substring 6 (String.length p - 6) p) else None.

(* name of the format dialect the codecs of f merge the user's dialect into; None = "direct" *)
Definition fmt_dialect_name (f: fmt) : option (option string) :=
  match plans_of f with
  | [] => None
  | p :: r => if forallb (String.eqb p) r
              then (if String.eqb p "direct" then Some None
                    else match strip_merge p with Some n => Some (Some n) | None => None end)
              else None
  end.

(* every codec module has a uniform, recognised plan (checked on the list extracted on this run) *)
Lemma plans_uniform : forallb (fun f => match fmt_dialect_name f with Some _ => true | None => false end) all_fmts = true.
Proof. vm_compute. reflexivity. Qed.

Fixpoint assoc {A} (l: list (string * A)) (k: string) : option A :=
  match l with [] => None | (k', v) :: r => if String.eqb k' k then Some v else assoc r k end.

Definition tri_of_kv (v: option kv) : tri :=
  match v with Some (KBool true) => T | Some (KBool false) => F | _ => U end.

Definition ns_of_attrs (a: list (string * kv)) : ns :=
  {| n_on := tri_of_kv (assoc a "omit_none"); n_od := tri_of_kv (assoc a "omit_default");
     n_ba := tri_of_kv (assoc a "serialize_by_alias") |}.

(* the option namespace of the format's own dialect (None: the codec has none) *)
Definition fmt_options (f: fmt) : option ns :=
  match fmt_dialect_name f with
  | Some (Some n) => match assoc format_dialect_options n with Some a => Some (ns_of_attrs a) | None => None end
  | _ => None end.

Definition fmt_strategies (f: fmt) : smap :=
  match fmt_dialect_name f with
  | Some (Some n) => match assoc format_dialect_strategies n with Some m => m | None => [] end
  | _ => [] end.

(* ------------------------------------------------------------------ *)
(* merge on the option lattice = K2                                     *)
(* ------------------------------------------------------------------ *)
Definition merge_tri (a b: tri) : tri := match b with U => a | _ => b end.
Definition merge_ns (a b: ns) : ns :=
  {| n_on := merge_tri a.(n_on) b.(n_on); n_od := merge_tri a.(n_od) b.(n_od); n_ba := merge_tri a.(n_ba) b.(n_ba) |}.

Definition enc_t (t: tri) : kv := match t with U => KMissing | F => KBool false | T => KBool true end.

(* a Dialect subclass as a namespace: every attribute of class Dialect bound (inherited MISSING),
   the three modelled options as given *)
Definition enc_dialect (n: ns) : list (string * kv) :=
  ns_set (ns_set (ns_set blank_dialect "omit_none" (enc_t n.(n_on))) "omit_default" (enc_t n.(n_od)))
         "serialize_by_alias" (enc_t n.(n_ba)).

Lemma has_keys_set ks d k v : has_keys ks d -> has_keys ks (ns_set d k v).
Proof.
  intros H x Hx. destruct (string_dec k x) as [->|N].
  - rewrite ns_get_set_same. discriminate.
  - rewrite ns_get_set_other by exact N. apply H. exact Hx.
Qed.

Lemma blank_has_keys : has_keys merge_loop_keys blank_dialect.
Proof. apply has_keys_dec. vm_compute. reflexivity. Qed.

Lemma enc_dialect_has_keys n : has_keys merge_loop_keys (enc_dialect n).
Proof. unfold enc_dialect. repeat apply has_keys_set. exact blank_has_keys. Qed.

Lemma enc_dialect_on n : option_of (enc_dialect n) "omit_none" = enc_t n.(n_on).
Proof.
  unfold option_of, enc_dialect.
  rewrite ns_get_set_other by discriminate. rewrite ns_get_set_other by discriminate.
  rewrite ns_get_set_same. reflexivity.
Qed.
Lemma enc_dialect_od n : option_of (enc_dialect n) "omit_default" = enc_t n.(n_od).
Proof.
  unfold option_of, enc_dialect.
  rewrite ns_get_set_other by discriminate. rewrite ns_get_set_same. reflexivity.
Qed.
Lemma enc_dialect_ba n : option_of (enc_dialect n) "serialize_by_alias" = enc_t n.(n_ba).
Proof. unfold option_of, enc_dialect. rewrite ns_get_set_same. reflexivity. Qed.

Lemma enc_merge_tri a b : (if is_set (enc_t b) then enc_t b else enc_t a) = enc_t (merge_tri a b).
Proof. destruct a, b; reflexivity. Qed.

Lemma three_in_five :
  In "omit_none" five_options /\ In "omit_default" five_options /\ In "serialize_by_alias" five_options.
Proof. cbn. tauto. Qed.

(* Dialect.merge as translated on this run computes merge_ns *)
Theorem merge_ns_is_K2 a b nd :
  exists r, merge_options (KNs (enc_dialect a)) (KNs (enc_dialect b)) (KNs nd) = Ok (KNs r) /\
    option_of r "omit_none" = enc_t (merge_ns a b).(n_on) /\
    option_of r "omit_default" = enc_t (merge_ns a b).(n_od) /\
    option_of r "serialize_by_alias" = enc_t (merge_ns a b).(n_ba).
Proof.
  destruct (merge_options_total (enc_dialect a) (enc_dialect b) nd (enc_dialect_has_keys a) (enc_dialect_has_keys b))
    as [r [E [Hin _]]].
  destruct three_in_five as [I1 [I2 I3]].
  exists r. split; [exact E|].
  rewrite (Hin _ (five_options_merged _ I1)), (Hin _ (five_options_merged _ I2)), (Hin _ (five_options_merged _ I3)).
  rewrite !enc_dialect_on, !enc_dialect_od, !enc_dialect_ba, !enc_merge_tri. cbn. repeat split; reflexivity.
Qed.

(* ------------------------------------------------------------------ *)
(* the default dialect a codec compiles with, and the document          *)
(* ------------------------------------------------------------------ *)
Definition codec_dd (f: fmt) (D: option ns) : option ns :=
  match fmt_options f with
  | None => D                                                   (* "direct" *)
  | Some fo => Some (match D with Some d => merge_ns fo d | None => fo end)
  end.

Definition with_dd (o: opts) (dd: option ns) : opts :=
  {| o_call := o.(o_call); o_cfgd := o.(o_cfgd); o_cfg := o.(o_cfg); o_dd := dd; o_sort := o.(o_sort);
     o_fon := o.(o_fon); o_fba := o.(o_fba); o_fdl := o.(o_fdl); o_fcx := o.(o_fcx);
     o_kon := o.(o_kon); o_kba := o.(o_kba) |}.

(* the mapping Encoder_F(T, default_dialect=D) hands to the format library *)
Definition codec_doc (f: fmt) (D: option ns) (o: opts) (fs: list fplan) (vs: list fval) : out :=
  to_dict_model (with_dd o (codec_dd f D)) fs vs.

(* the document depends on the default dialect only through the three lookups *)
Lemma ctx_of_dd o d1 d2 :
  (forall g, In g [n_on; n_od; n_ba] -> sel g d1 = sel g d2) ->
  ctx_of (with_dd o d1) = ctx_of (with_dd o d2).
Proof.
  intros H. unfold ctx_of, levels, look. cbn -[first_set sel].
  rewrite !(H n_on), !(H n_od), !(H n_ba) by (cbn; tauto). reflexivity.
Qed.

Lemma doc_dd o d1 d2 fs vs :
  (forall g, In g [n_on; n_od; n_ba] -> sel g d1 = sel g d2) ->
  to_dict_model (with_dd o d1) fs vs = to_dict_model (with_dd o d2) fs vs.
Proof. intros H. unfold to_dict_model. rewrite (ctx_of_dd o d1 d2 H). reflexivity. Qed.

(* the format's own requirements, spelled as the dialect the BASIC codec would have to be given *)
Definition on_top_of (f: fmt) (D: option ns) : option ns := codec_dd f D.

(* a format whose dialect sets none of the options: the document is the basic codec's document *)
Definition silent (f: fmt) : bool :=
  match fmt_options f with
  | None => true
  | Some fo => match fo.(n_on), fo.(n_od), fo.(n_ba) with U, U, U => true | _, _, _ => false end
  end.

Theorem same_document_silent f D o fs vs :
  silent f = true -> codec_doc f D o fs vs = codec_doc FBasic D o fs vs.
Proof.
  intros Hs. unfold codec_doc. apply doc_dd. intros g Hg.
  unfold codec_dd, silent in *.
  change (fmt_options FBasic) with (@None ns).
  destruct (fmt_options f) as [fo|]; [|reflexivity].
  destruct fo as [a b c]. cbn in Hs. destruct a, b, c; try discriminate.
  destruct D as [[x y z]|]; cbn in Hg; destruct Hg as [<-|[<-|[<-|[]]]]; cbn; try reflexivity;
    destruct x, y, z; reflexivity.
Qed.

(* which formats are silent, on the tables extracted on this run *)
Lemma silent_formats :
  map silent all_fmts = [true; true; true; true; true; false].
Proof. vm_compute. reflexivity. Qed.

(* TOML: the document is the basic codec's document for "D on top of omit_none = True" *)
Definition force_on (D: option ns) : option ns :=
  Some (match D with
        | Some d => {| n_on := merge_tri T d.(n_on); n_od := d.(n_od); n_ba := d.(n_ba) |}
        | None => {| n_on := T; n_od := U; n_ba := U |} end).

Theorem same_document_toml D o fs vs :
  codec_doc FToml D o fs vs = codec_doc FBasic (force_on D) o fs vs.
Proof.
  unfold codec_doc. apply doc_dd. intros g Hg.
  assert (E: fmt_options FToml = Some {| n_on := T; n_od := U; n_ba := U |}) by (vm_compute; reflexivity).
  unfold codec_dd. rewrite E. change (fmt_options FBasic) with (@None ns).
  destruct D as [[x y z]|]; cbn in Hg; destruct Hg as [<-|[<-|[<-|[]]]]; cbn; try reflexivity;
    destruct x, y, z; reflexivity.
Qed.

(* every option the user's dialect sets is the one in force at the default-dialect level, in every format *)
Theorem codec_dd_user_wins f d g :
  In g [n_on; n_od; n_ba] -> g d <> U -> sel g (codec_dd f (Some d)) = g d.
Proof.
  intros Hg Hs. unfold codec_dd. destruct (fmt_options f) as [fo|]; [|reflexivity].
  cbn in Hg. destruct Hg as [<-|[<-|[<-|[]]]]; cbn; destruct d as [x y z]; cbn in *;
    [destruct x|destruct y|destruct z]; try contradiction; reflexivity.
Qed.

(* ------------------------------------------------------------------ *)
(* values: which serializer is in force for a field type                *)
(* ------------------------------------------------------------------ *)
(* the strategy map the codec compiles with at the default-dialect level *)
Definition codec_strategies (f: fmt) (usr: option smap) : smap :=
  match fmt_dialect_name f with
  | Some (Some _) => match usr with Some u => merge_strategies (fmt_strategies f) u | None => fmt_strategies f end
  | _ => match usr with Some u => u | None => [] end
  end.

(* single point of contact with the field record of OptProj *)
Definition mk_plan (name: string) (alias: option string) (is_optional: bool) (d: dflt) (trivial: bool) : fplan :=
  {| p_name := name; p_alias := alias; p_ty := if is_optional then TyOptional else TyPlain;
     p_trivial := trivial; p_default := d; p_omit := false |}.

Section Values.
  Variable builtin : nat -> pv -> pv.           (* the built-in packer of a type *)
  Variable builtin_trivial : nat -> bool.       (* ... is the identity expression *)
  Variable app : nat -> pv -> pv.               (* calling user callable / strategy object number n *)
  Variable cls_eff : nat -> eff.                (* what the class itself (field, Config.dialect, Config) says: format independent *)

  Definition choice (m: smap) (ty: nat) : eff :=
    match cls_eff ty with ENone => effective (sm_get m ty) "serialize" | e => e end.

  (* callable 0 = pass_through: the packer expression is the value itself *)
  Definition eff_trivial (e: eff) (ty: nat) : bool :=
    match e with EStrat 0 | EFun 0 => true | EStrat _ | EFun _ => false | ENone => builtin_trivial ty end.
  Definition eff_value (e: eff) (ty: nat) (raw: pv) : pv :=
    match e with EStrat 0 | EFun 0 => raw | EStrat n | EFun n => app n raw | ENone => builtin ty raw end.

  (* a field as the class declares it: its plan as a function of "the packer expression is the identity"
     (which depends on the serializer in force), and its type identity.  The ONLY place where an
     OptProj.fplan record is built is mk_plan below: nothing else here depends on the fields of fplan. *)
  Record fdecl := { d_plan : bool -> fplan; d_ty : nat }.

  Definition view_plan (m: smap) (d: fdecl) : fplan := d.(d_plan) (eff_trivial (choice m d.(d_ty)) d.(d_ty)).
  Definition view_val (m: smap) (d: fdecl) (raw: pv) : fval :=
    (raw, if is_none raw then PNone else eff_value (choice m d.(d_ty)) d.(d_ty) raw).

  (* the document a codec produces for an instance given by its raw attribute values *)
  Definition codec_document (f: fmt) (D: option ns) (usr: option smap) (o: opts) (ds: list fdecl) (raws: list pv) : out :=
    let m := codec_strategies f usr in
    codec_doc f D o (map (view_plan m) ds) (map (fun dr => view_val m (fst dr) (snd dr)) (combine ds raws)).

  (* no field type is left to the format's own (native) entry: the user's dialect or the class
     says how to serialize every type the format dialect lists *)
  Definition user_says (usr: option smap) (ty: nat) : bool :=
    match cls_eff ty with ENone =>
      match usr with Some u => match effective (sm_get u ty) "serialize" with ENone => false | _ => true end | None => false end
    | _ => true end.

  Definition native_free (f: fmt) (usr: option smap) (ds: list fdecl) : bool :=
    forallb (fun d => match sm_get (fmt_strategies f) d.(d_ty) with None => true | Some _ => user_says usr d.(d_ty) end) ds.

  Definition dict_nodup (u: smap) : Prop :=
    NoDup (map fst u) /\ forall k e, sm_get u k = Some (SDict e) -> NoDup (map fst e).

  Lemma fmt_strategies_nodup f : NoDup (map fst (fmt_strategies f)).
  Proof.
    destruct f; vm_compute; repeat constructor; cbn; try tauto; intuition discriminate.
  Qed.

  Lemma choice_same f usr ty :
    match usr with Some u => dict_nodup u | None => True end ->
    (match sm_get (fmt_strategies f) ty with None => true | Some _ => user_says usr ty end) = true ->
    choice (codec_strategies f usr) ty = choice (codec_strategies FBasic usr) ty.
  Proof.
    intros HN H. unfold choice, user_says in *. destruct (cls_eff ty); try reflexivity.
    unfold codec_strategies. change (fmt_dialect_name FBasic) with (Some (@None string)).
    destruct (fmt_dialect_name f) as [[n|]|] eqn:En; try reflexivity.
    destruct usr as [u|].
    - destruct HN as [ND NE].
      rewrite (merge_strategies_effective (fmt_strategies f) u ty "serialize" (fmt_strategies_nodup f) ND (NE ty)).
      unfold strategy_spec.
      destruct (sm_get (fmt_strategies f) ty) as [fv|] eqn:Ef.
      + (* the format lists the type: the user must say how to serialize it *)
        destruct (sm_get u ty) as [[s|e]|]; cbn [effective] in *; try reflexivity; try discriminate;
          try (destruct (e_get e "serialize"); [reflexivity|discriminate]).
      + destruct (sm_get u ty) as [[s|e]|]; cbn [effective]; try reflexivity;
          try (destruct (e_get e "serialize"); reflexivity).
    - destruct (sm_get (fmt_strategies f) ty) eqn:Ef; [discriminate|]. reflexivity.
  Qed.

  Lemma views_same f usr ds raws :
    match usr with Some u => dict_nodup u | None => True end ->
    native_free f usr ds = true ->
    map (view_plan (codec_strategies f usr)) ds = map (view_plan (codec_strategies FBasic usr)) ds /\
    map (fun dr => view_val (codec_strategies f usr) (fst dr) (snd dr)) (combine ds raws) =
    map (fun dr => view_val (codec_strategies FBasic usr) (fst dr) (snd dr)) (combine ds raws).
  Proof.
    intros HN H. unfold native_free in H. rewrite forallb_forall in H. split.
    - apply map_ext_in. intros d Hd. unfold view_plan. rewrite (choice_same f usr _ HN (H d Hd)). reflexivity.
    - apply map_ext_in. intros [d raw] Hd. unfold view_val. cbn [fst snd].
      assert (In d ds) as Hd' by (apply in_combine_l in Hd; exact Hd).
      rewrite (choice_same f usr _ HN (H d Hd')). reflexivity.
  Qed.

  (* C13_same_document (partial): with no field left to a format-native entry, every format hands its
     library exactly the mapping the basic codec produces for "D on top of the format's requirements" *)
  Theorem same_document_partial f D usr o ds raws :
    match usr with Some u => dict_nodup u | None => True end ->
    native_free f usr ds = true ->
    codec_document f D usr o ds raws = codec_document FBasic (on_top_of f D) usr o ds raws.
  Proof.
    intros HN H. unfold codec_document. destruct (views_same f usr ds raws HN H) as [E1 E2]. rewrite E1, E2.
    unfold codec_doc. apply doc_dd. intros g Hg. unfold on_top_of.
    unfold codec_dd at 2. change (fmt_options FBasic) with (@None ns). reflexivity.
  Qed.

  (* full statement, kept visible *)
  Definition same_document_full : Prop :=
    forall f D usr o ds raws,
      match usr with Some u => dict_nodup u | None => True end ->
      codec_document f D usr o ds raws = codec_document FBasic (on_top_of f D) usr o ds raws.
End Values.

(* the faithful model violates the full statement exactly at a format-native type: orjson is handed the
   datetime object itself, the basic codec its isoformat string (they meet only after orjson renders it) *)
Definition w_builtin (ty: nat) (v: pv) : pv := PStr "2020-01-02T03:04:05".
Definition w_decl : fdecl :=
  {| d_plan := mk_plan "dt" None false DNo; d_ty := 1 |}.

Lemma native_witness :
  codec_document w_builtin (fun _ => false) (fun _ v => v) (fun _ => ENone) FOrjson None None plain_opts [w_decl] [POpq 7]
    = Some [("dt", POpq 7)] /\
  codec_document w_builtin (fun _ => false) (fun _ v => v) (fun _ => ENone) FBasic (on_top_of FOrjson None) None plain_opts [w_decl] [POpq 7]
    = Some [("dt", PStr "2020-01-02T03:04:05")].
Proof. split; vm_compute; reflexivity. Qed.

Theorem same_document_full_refuted :
  ~ same_document_full w_builtin (fun _ => false) (fun _ v => v) (fun _ => ENone).
Proof.
  intros H. specialize (H FOrjson None None plain_opts [w_decl] [POpq 7] I).
  destruct native_witness as [A B]. rewrite A, B in H. discriminate.
Qed.

(* ------------------------------------------------------------------ *)
(* one cache per class, format and direction: the attribute names       *)
(* ------------------------------------------------------------------ *)
Definition cache_name (unpack: bool) (format_name: string) : string :=
  let p := if unpack then unpacker_cache_parts else packer_cache_parts in fst p ++ format_name ++ snd p.

Definition mixin_formats : list string := ["dict"; "json"; "jsonb"; "msgpack"; "toml"].

Definition all_cache_names : list (bool * string * string) :=
  flat_map (fun u => map (fun f => (u, f, cache_name u f)) mixin_formats) [false; true].

Lemma cache_names_distinct_sweep :
  forallb (fun a => forallb (fun b =>
      negb (String.eqb (snd a) (snd b)) ||
      (Bool.eqb (fst (fst a)) (fst (fst b)) && String.eqb (snd (fst a)) (snd (fst b)))) all_cache_names) all_cache_names = true.
Proof. vm_compute. reflexivity. Qed.

Theorem cache_names_injective u1 f1 u2 f2 :
  In f1 mixin_formats -> In f2 mixin_formats -> cache_name u1 f1 = cache_name u2 f2 -> u1 = u2 /\ f1 = f2.
Proof.
  intros H1 H2 E.
  assert (I1: In (u1, f1, cache_name u1 f1) all_cache_names).
  { unfold all_cache_names. apply in_flat_map. exists u1. split; [destruct u1; cbn; tauto|].
    apply in_map_iff. exists f1. split; [reflexivity|exact H1]. }
  assert (I2: In (u2, f2, cache_name u2 f2) all_cache_names).
  { unfold all_cache_names. apply in_flat_map. exists u2. split; [destruct u2; cbn; tauto|].
    apply in_map_iff. exists f2. split; [reflexivity|exact H2]. }
  pose proof (proj1 (forallb_forall _ _) cache_names_distinct_sweep _ I1) as S1.
  pose proof (proj1 (forallb_forall _ _) S1 _ I2) as S2. cbn [fst snd] in S2.
  rewrite E, String.eqb_refl in S2. cbn in S2. apply andb_true_iff in S2. destruct S2 as [A B].
  split; [apply Bool.eqb_prop; exact A|apply String.eqb_eq; exact B].
Qed.

(* ------------------------------------------------------------------ *)
(* executable helpers for the correspondence                            *)
(* ------------------------------------------------------------------ *)
Fixpoint tbl_get (t: list (nat * pv * pv)) (n: nat) (v: pv) : pv :=
  match t with
  | [] => POpq 0
  | (n', v', r) :: rest => if Nat.eqb n' n && pv_eqb v' v then r else tbl_get rest n v end.

Definition eff_eqb (a b: eff) : bool :=
  match a, b with
  | EStrat x, EStrat y | EFun x, EFun y => Nat.eqb x y
  | ENone, ENone => true | _, _ => false end.

(* which serializer is in force at the default-dialect level of a codec: (format, user map, type, expected) *)
Definition choice_case := (fmt * option smap * nat * eff)%type.
Definition choice_case_ok (c: choice_case) : bool :=
  let '(f, usr, ty, e) := c in eff_eqb (effective (sm_get (codec_strategies f usr) ty) "serialize") e.

(* a whole document: format, D, user strategy map, the class's Config options, fields, raw values,
   built-in packer table, callable table, types whose built-in packer is the identity, the mapping /repo produced *)
Definition doc_case := (fmt * option ns * option smap * ns * list fdecl * list pv
                        * list (nat * pv * pv) * list (nat * pv * pv) * list nat * list (string * pv))%type.
Definition doc_case_ok (c: doc_case) : bool :=
  let '(f, D, usr, cfg, ds, raws, bt, at_, triv, expected) := c in
  let o := {| o_call := None; o_cfgd := None; o_cfg := cfg; o_dd := None; o_sort := false;
              o_fon := false; o_fba := false; o_fdl := false; o_fcx := false; o_kon := None; o_kba := None |} in
  match codec_document (tbl_get bt) (fun ty => existsb (Nat.eqb ty) triv) (tbl_get at_) (fun _ => ENone) f D usr o ds raws with
  | Some l => pairs_eqb l expected
  | None => false end.
