(* C13, part "isolation": state machine of the per-class dialect caches
   (mashumaro/core/meta/code/builder.py: add_pack_method / add_unpack_method,
    _add_(un)pack_method_with_dialect_lines, _add_setattr_method; DESIGN.md A.6).

   One instance of this machine exists per (format, direction); they do not interact.

   Classes and dialects are identities (nat).  `compile c d` is the function the code
   generator produces for class c and call dialect d (None = the default method); it is a
   parameter: the theorems hold for every generator.  `ancestors c` is the tail of c's MRO;
   it is a parameter too: the theorems hold for every hierarchy.

   own = true  : the generated prologue is   if not '<cache>' in cls.__dict__: cls.<cache> = {}
   own = false : variant                      if not hasattr(cls, '<cache>'):  cls.<cache> = {}
                 (what dropping the own-namespace check amounts to)                          *)
From Coq Require Import List Arith Bool Lia.
Import ListNotations.

Section Cache.
  Context {code: Type}.
  Variable compile : nat -> option nat -> code.
  Variable ancestors : nat -> list nat.

  Record cstate := mk_cstate {
    c_cache : option (list (nat * code));     (* '<cache>' in cls.__dict__ : dialect -> method *)
    c_default : option code                   (* cls.__dict__['__mashumaro_<to|from>_<fmt>__'] *)
  }.
  Definition state := nat -> cstate.
  Definition init : state := fun _ => mk_cstate None None.

  Definition upd (s: state) (c: nat) (v: cstate) : state := fun x => if Nat.eqb x c then v else s x.

  Fixpoint e_get (l: list (nat * code)) (k: nat) : option code :=
    match l with [] => None | (k', v) :: r => if Nat.eqb k' k then Some v else e_get r k end.
  Fixpoint e_set (l: list (nat * code)) (k: nat) (v: code) : list (nat * code) :=
    match l with
    | [] => [(k, v)]
    | (k', x) :: r => if Nat.eqb k' k then (k', v) :: r else (k', x) :: e_set r k v end.

  (* attribute lookup of '<cache>' through the MRO: the first class that binds it *)
  Fixpoint find_holder (s: state) (l: list nat) : option nat :=
    match l with
    | [] => None
    | x :: r => match c_cache (s x) with Some _ => Some x | None => find_holder s r end
    end.
  Definition holder (s: state) (c: nat) : option nat := find_holder s (c :: ancestors c).

  Definition cache_of (s: state) (h: nat) : list (nat * code) :=
    match c_cache (s h) with Some l => l | None => [] end.

  (* prologue of every generated (un)pack method *)
  Definition ensure_cache (own: bool) (s: state) (c: nat) : state :=
    let present := if own then match c_cache (s c) with Some _ => true | None => false end
                   else match holder s c with Some _ => true | None => false end in
    if present then s else upd s c (mk_cstate (Some []) (c_default (s c))).

  (* `cls.<cache>[dialect] = method` : attribute lookup, then item assignment *)
  Definition cache_put (s: state) (c k: nat) (m: code) : state :=
    match holder s c with
    | Some h => upd s h (mk_cstate (Some (e_set (cache_of s h) k m)) (c_default (s h)))
    | None => s
    end.

  Inductive op := Define (c: nat) | Call (c: nat) (d: option nat).

  Definition step (own: bool) (s: state) (o: op) : state * option code :=
    match o with
    | Define c =>
        (* class creation: CodeBuilder(cls).add_(un)pack_method() with dialect None *)
        let s1 := ensure_cache own s c in
        (upd s1 c (mk_cstate (c_cache (s1 c)) (Some (compile c None))), None)
    | Call c None =>
        (s, c_default (s c))                    (* `if dialect is None:` default body *)
    | Call c (Some k) =>
        match c_default (s c) with
        | None => (s, None)                     (* class not defined *)
        | Some _ =>
            match holder s c with
            | None => (s, None)                 (* AttributeError *)
            | Some h =>
                match e_get (cache_of s h) k with
                | Some m => (s, Some m)         (* hit *)
                | None =>                       (* miss: CodeBuilder(cls, dialect=dialect)... *)
                    let s1 := ensure_cache own s c in
                    let s2 := cache_put s1 c k (compile c (Some k)) in
                    (s2, match holder s2 c with
                         | Some h2 => e_get (cache_of s2 h2) k
                         | None => None end)
                end
            end
        end
    end.

  Fixpoint run (own: bool) (s: state) (ops: list op) : list (option code) * state :=
    match ops with
    | [] => ([], s)
    | o :: r => let (s', out) := step own s o in
                let (outs, sf) := run own s' r in (out :: outs, sf)
    end.

  Definition outs (own: bool) (s: state) (ops: list op) := fst (run own s ops).
  Definition final (own: bool) (s: state) (ops: list op) := snd (run own s ops).

  (* ---------------------------------------------------------------- *)
  (* invariant                                                         *)
  (* ---------------------------------------------------------------- *)
  (* sup c: class c enables ADD_DIALECT_SUPPORT (only such classes get caches and take a dialect) *)
  Record inv (sup: nat -> bool) (s: state) : Prop := {
    inv_entries : forall c l k m, c_cache (s c) = Some l -> e_get l k = Some m -> m = compile c (Some k);
    inv_default : forall c m, c_default (s c) = Some m -> m = compile c None;
    inv_own     : forall c, sup c = true -> c_default (s c) <> None -> c_cache (s c) <> None
  }.

  Lemma inv_init sup : inv sup init.
  Proof. split; cbn; intros; try discriminate. exfalso; auto. Qed.

  Lemma e_get_set_same l k v : e_get (e_set l k v) k = Some v.
  Proof.
    induction l as [|[k' x] r IH]; cbn.
    - rewrite Nat.eqb_refl. reflexivity.
    - destruct (Nat.eqb k' k) eqn:E; cbn; rewrite E; [reflexivity|exact IH].
  Qed.

  Lemma e_get_set_other l k k2 v : k <> k2 -> e_get (e_set l k v) k2 = e_get l k2.
  Proof.
    intros NE. induction l as [|[k' x] r IH]; cbn.
    - destruct (Nat.eqb k k2) eqn:E; [apply Nat.eqb_eq in E; contradiction|reflexivity].
    - destruct (Nat.eqb k' k) eqn:E; cbn.
      + apply Nat.eqb_eq in E. subst k'.
        destruct (Nat.eqb k k2) eqn:E2; [apply Nat.eqb_eq in E2; contradiction|reflexivity].
      + destruct (Nat.eqb k' k2); [reflexivity|exact IH].
  Qed.

  Lemma upd_same s c v : upd s c v c = v.
  Proof. unfold upd. rewrite Nat.eqb_refl. reflexivity. Qed.
  Lemma upd_other s c v x : x <> c -> upd s c v x = s x.
  Proof. unfold upd. intros N. destruct (Nat.eqb x c) eqn:E; [apply Nat.eqb_eq in E; contradiction|reflexivity]. Qed.

  (* with the own-namespace check, a class that has its own cache is its own holder *)
  Lemma holder_own s c : c_cache (s c) <> None -> holder s c = Some c.
  Proof. unfold holder. cbn. destruct (c_cache (s c)); [reflexivity|contradiction]. Qed.

  Lemma ensure_own_noop s c : c_cache (s c) <> None -> ensure_cache true s c = s.
  Proof. unfold ensure_cache. destruct (c_cache (s c)); [reflexivity|contradiction]. Qed.

  Lemma ensure_own_inv sup s c : inv sup s -> inv sup (ensure_cache true s c).
  Proof.
    intros I. unfold ensure_cache. destruct (c_cache (s c)) eqn:E; [exact I|].
    split.
    - intros x l k m Hc Hg. destruct (Nat.eq_dec x c) as [->|N].
      + rewrite upd_same in Hc. cbn in Hc. injection Hc as <-. discriminate.
      + rewrite upd_other in Hc by exact N. eapply (inv_entries sup); eassumption.
    - intros x m Hd. destruct (Nat.eq_dec x c) as [->|N].
      + rewrite upd_same in Hd. cbn in Hd. eapply (inv_default sup); eassumption.
      + rewrite upd_other in Hd by exact N. eapply (inv_default sup); eassumption.
    - intros x Hs Hd. destruct (Nat.eq_dec x c) as [->|N].
      + rewrite upd_same. cbn. discriminate.
      + rewrite upd_other in * by exact N. apply (inv_own sup s I); assumption.
  Qed.

  Lemma ensure_own_has s c : c_cache (ensure_cache true s c c) <> None.
  Proof.
    unfold ensure_cache. destruct (c_cache (s c)) eqn:E.
    - rewrite E. discriminate.
    - rewrite upd_same. cbn. discriminate.
  Qed.

  Definition op_ok (sup: nat -> bool) (o: op) : Prop :=
    match o with Call c (Some _) => sup c = true | _ => True end.

  Lemma step_inv sup s o : inv sup s -> op_ok sup o -> inv sup (fst (step true s o)).
  Proof.
    intros I OK. destruct o as [c|c [k|]]; cbn [step fst].
    - (* Define *)
      pose proof (ensure_own_inv sup s c I) as I1. pose proof (ensure_own_has s c) as H1.
      set (s1 := ensure_cache true s c) in *.
      split.
      + intros x l k m Hc Hg. destruct (Nat.eq_dec x c) as [->|N].
        * rewrite upd_same in Hc. cbn in Hc. eapply (inv_entries sup s1 I1); eassumption.
        * rewrite upd_other in Hc by exact N. eapply (inv_entries sup s1 I1); eassumption.
      + intros x m Hd. destruct (Nat.eq_dec x c) as [->|N].
        * rewrite upd_same in Hd. cbn in Hd. injection Hd as <-. reflexivity.
        * rewrite upd_other in Hd by exact N. eapply (inv_default sup s1 I1); eassumption.
      + intros x Hs Hd. destruct (Nat.eq_dec x c) as [->|N].
        * rewrite upd_same. cbn. exact H1.
        * rewrite upd_other in * by exact N. apply (inv_own sup s1 I1); assumption.
    - (* Call with a dialect *)
      destruct (c_default (s c)) eqn:Ed; [|exact I].
      assert (Hown: c_cache (s c) <> None) by (apply (inv_own sup s I); [assumption|rewrite Ed; discriminate]).
      rewrite (holder_own s c Hown).
      destruct (e_get (cache_of s c) k) eqn:Eg; [exact I|]. cbn [fst].
      rewrite (ensure_own_noop s c Hown). unfold cache_put. rewrite (holder_own s c Hown).
      split.
      + intros x l k' m Hc Hg. destruct (Nat.eq_dec x c) as [->|N].
        * rewrite upd_same in Hc. cbn in Hc. injection Hc as <-.
          destruct (Nat.eq_dec k k') as [->|NK].
          -- rewrite e_get_set_same in Hg. injection Hg as <-. reflexivity.
          -- rewrite e_get_set_other in Hg by exact NK. unfold cache_of in Hg.
             destruct (c_cache (s c)) eqn:Ec; [|discriminate].
             eapply (inv_entries sup s I); eassumption.
        * rewrite upd_other in Hc by exact N. eapply (inv_entries sup s I); eassumption.
      + intros x m Hd. destruct (Nat.eq_dec x c) as [->|N].
        * rewrite upd_same in Hd. cbn in Hd. eapply (inv_default sup s I); eassumption.
        * rewrite upd_other in Hd by exact N. eapply (inv_default sup s I); eassumption.
      + intros x Hs Hd. destruct (Nat.eq_dec x c) as [->|N].
        * rewrite upd_same. cbn. discriminate.
        * rewrite upd_other in * by exact N. apply (inv_own sup s I); assumption.
    - exact I.
  Qed.

  (* a call on a defined class returns exactly the fresh compile for (class, dialect) *)
  Lemma step_out sup s c d : inv sup s -> c_default (s c) <> None -> op_ok sup (Call c d) ->
    snd (step true s (Call c d)) = Some (compile c d).
  Proof.
    intros I Hd OK. destruct d as [k|]; cbn [step].
    - destruct (c_default (s c)) eqn:Ed; [|contradiction].
      assert (Hown: c_cache (s c) <> None) by (apply (inv_own sup s I); [assumption|rewrite Ed; discriminate]).
      rewrite (holder_own s c Hown).
      destruct (e_get (cache_of s c) k) eqn:Eg.
      + cbn [snd]. f_equal. unfold cache_of in Eg. destruct (c_cache (s c)) eqn:Ec; [|discriminate].
        eapply (inv_entries sup s I); eassumption.
      + cbn [snd]. rewrite (ensure_own_noop s c Hown). unfold cache_put. rewrite (holder_own s c Hown).
        rewrite holder_own by (rewrite upd_same; cbn; discriminate).
        unfold cache_of at 1. rewrite upd_same. cbn. apply e_get_set_same.
    - cbn [snd]. destruct (c_default (s c)) eqn:Ed; [|contradiction].
      f_equal. eapply (inv_default sup s I); eassumption.
  Qed.

  (* being defined is never undone *)
  Lemma step_defined own s o c : c_default (s c) <> None -> c_default (fst (step own s o) c) <> None.
  Proof.
    intros H. destruct o as [x|x [k|]]; cbn [step fst].
    - destruct (Nat.eq_dec c x) as [->|N]; [rewrite upd_same; cbn; discriminate|].
      rewrite upd_other by exact N. unfold ensure_cache.
      match goal with |- context[if ?b then _ else _] => destruct b end; [exact H|].
      rewrite upd_other by exact N. exact H.
    - destruct (c_default (s x)); [|exact H]. destruct (holder s x); [|exact H].
      destruct (e_get (cache_of s n) k); [exact H|]. cbn [fst].
      assert (E1: forall y, c_default (ensure_cache own s x y) = c_default (s y)).
      { intros y. unfold ensure_cache.
        match goal with |- context[if ?b then _ else _] => destruct b end; [reflexivity|].
        destruct (Nat.eq_dec y x) as [->|N]; [rewrite upd_same; reflexivity|rewrite upd_other by exact N; reflexivity]. }
      unfold cache_put. destruct (holder (ensure_cache own s x) x) as [h|]; [|rewrite E1; exact H].
      destruct (Nat.eq_dec c h) as [->|N]; [rewrite upd_same; cbn; rewrite E1; exact H|].
      rewrite upd_other by exact N. rewrite E1. exact H.
    - exact H.
  Qed.

  Lemma step_define_defined own s c : c_default (fst (step own s (Define c)) c) <> None.
  Proof. cbn [step fst]. rewrite upd_same. cbn. discriminate. Qed.

  (* ---------------------------------------------------------------- *)
  (* C13_isolation                                                     *)
  (* ---------------------------------------------------------------- *)
  Lemma run_cons own s o r :
    run own s (o :: r) = (snd (step own s o) :: fst (run own (fst (step own s o)) r),
                          snd (run own (fst (step own s o)) r)).
  Proof. cbn [run]. destruct (step own s o) as [s' out]. cbn [fst snd]. destruct (run own s' r). reflexivity. Qed.

  Definition all_sup : nat -> bool := fun _ => true.
  Lemma op_ok_all o : op_ok all_sup o.
  Proof. destruct o as [c|c [k|]]; cbn; auto. Qed.

  Lemma isolation_from s : inv all_sup s ->
    forall ops i c d,
      nth_error ops i = Some (Call c d) ->
      (c_default (s c) <> None \/ In (Define c) (firstn i ops)) ->
      nth_error (outs true s ops) i = Some (Some (compile c d)).
  Proof.
    intros I ops. revert s I. induction ops as [|o r IH]; intros s I i c d Hn Hdef.
    - destruct i; discriminate.
    - unfold outs. rewrite run_cons. cbn [fst]. destruct i as [|i].
      + cbn in Hn. injection Hn as ->. cbn [nth_error]. f_equal.
        apply (step_out all_sup); [exact I| |apply op_ok_all]. destruct Hdef as [H|[]]. exact H.
      + cbn [nth_error] in *. apply (IH _ (step_inv all_sup s o I (op_ok_all o)) i c d Hn).
        destruct Hdef as [H|H].
        * left. apply step_defined. exact H.
        * cbn [firstn] in H. destruct H as [->|H]; [left; apply step_define_defined|right; exact H].
  Qed.

  Theorem isolation : forall ops i c d,
    nth_error ops i = Some (Call c d) ->
    In (Define c) (firstn i ops) ->
    nth_error (outs true init ops) i = Some (Some (compile c d)).
  Proof. intros. eapply isolation_from; [exact (inv_init all_sup)|eassumption|right; assumption]. Qed.

  (* ---------------------------------------------------------------- *)
  (* C13_default_unaltered: calls (with any dialect, on any class) never change any   *)
  (* class's default method; only the definition of that very class sets it           *)
  (* ---------------------------------------------------------------- *)
  Lemma step_call_default own s x d c :
    c_default (fst (step own s (Call x d)) c) = c_default (s c).
  Proof.
    destruct d as [k|]; cbn [step fst]; [|reflexivity].
    destruct (c_default (s x)); [|reflexivity]. destruct (holder s x); [|reflexivity].
    destruct (e_get (cache_of s n) k); [reflexivity|]. cbn [fst].
    assert (E1: forall y, c_default (ensure_cache own s x y) = c_default (s y)).
    { intros y. unfold ensure_cache.
      match goal with |- context[if ?b then _ else _] => destruct b end; [reflexivity|].
      destruct (Nat.eq_dec y x) as [->|N]; [rewrite upd_same; reflexivity|rewrite upd_other by exact N; reflexivity]. }
    unfold cache_put. destruct (holder (ensure_cache own s x) x) as [h|]; [|apply E1].
    destruct (Nat.eq_dec c h) as [->|N]; [rewrite upd_same; cbn; apply E1|].
    rewrite upd_other by exact N. apply E1.
  Qed.

  Definition is_call (o: op) : bool := match o with Call _ _ => true | Define _ => false end.

  Theorem default_unaltered own : forall ops s c,
    forallb is_call ops = true -> c_default (final own s ops c) = c_default (s c).
  Proof.
    induction ops as [|o r IH]; intros s c H; [reflexivity|].
    unfold final. rewrite run_cons. cbn [snd]. cbn in H. apply andb_true_iff in H. destruct H as [Ho Hr].
    fold (final own (fst (step own s o)) r). rewrite (IH _ c Hr).
    destruct o as [x|x d]; [discriminate|]. apply step_call_default.
  Qed.

  (* ... and the default call keeps returning the default compile, whatever happened before *)
  Corollary default_call_stable : forall ops i c,
    nth_error ops i = Some (Call c None) -> In (Define c) (firstn i ops) ->
    nth_error (outs true init ops) i = Some (Some (compile c None)).
  Proof. intros. eapply isolation; eassumption. Qed.
End Cache.

(* ------------------------------------------------------------------ *)
(* executable instance for the correspondence and the refutation        *)
(* ------------------------------------------------------------------ *)
Definition tag := (nat * option nat)%type.
Definition tcompile (c: nat) (d: option nat) : tag := (c, d).

Definition anc_of (h: list (nat * list nat)) (c: nat) : list nat :=
  match find (fun p => Nat.eqb (fst p) c) h with Some p => snd p | None => [] end.

(* C13_shared_cache_refuted: without the own-namespace check a subclass defined after its
   parent shares the parent's dict; the subclass's method for dialect 7 is then served to
   the parent. *)
Definition shared_h : list (nat * list nat) := [(1, [0])].
Definition shared_ops : list op := [Define 0; Define 1; Call 1 (Some 7); Call 0 (Some 7)].

Lemma shared_cache_witness :
  nth_error (outs tcompile (anc_of shared_h) false (init) shared_ops) 3 = Some (Some (1, Some 7)).
Proof. vm_compute. reflexivity. Qed.

Theorem shared_cache_refuted :
  exists (h: list (nat * list nat)) (ops: list op) i c d,
    nth_error ops i = Some (Call c d) /\ In (Define c) (firstn i ops) /\
    nth_error (outs tcompile (anc_of h) false init ops) i <> Some (Some (tcompile c d)).
Proof.
  exists shared_h, shared_ops, 3, 0, (Some 7). split; [reflexivity|]. split; [left; reflexivity|].
  rewrite shared_cache_witness. discriminate.
Qed.

(* observation used by the correspondence: outputs + the key lists of the own caches *)
Definition cache_keys (s: state (code:=tag)) (classes: list nat) : list (option (list nat)) :=
  map (fun c => match c_cache (s c) with Some l => Some (map fst l) | None => None end) classes.

Definition observe (h: list (nat * list nat)) (classes: list nat) (ops: list op)
  : list (option tag) * list (option (list nat)) :=
  let r := run tcompile (anc_of h) true init ops in (fst r, cache_keys (snd r) classes).

(* boolean equality of observations, for the correspondence *)
Definition onat_eqb (a b: option nat) : bool :=
  match a, b with Some x, Some y => Nat.eqb x y | None, None => true | _, _ => false end.
Definition otag_eqb (a b: option tag) : bool :=
  match a, b with
  | Some (c1, d1), Some (c2, d2) => Nat.eqb c1 c2 && onat_eqb d1 d2
  | None, None => true | _, _ => false end.
Fixpoint list_eqb {A} (e: A -> A -> bool) (l1 l2: list A) : bool :=
  match l1, l2 with
  | [], [] => true
  | x :: r1, y :: r2 => e x y && list_eqb e r1 r2
  | _, _ => false end.
Definition okeys_eqb (a b: option (list nat)) : bool :=
  match a, b with Some x, Some y => list_eqb Nat.eqb x y | None, None => true | _, _ => false end.

(* one correspondence case: hierarchy, observed classes, history, what /repo did *)
Definition cache_case := (list (nat * list nat) * list nat * list op * (list (option tag) * list (option (list nat))))%type.
Definition cache_case_ok (c: cache_case) : bool :=
  let '(h, classes, ops, (eouts, ekeys)) := c in
  let (mouts, mkeys) := observe h classes ops in
  list_eqb otag_eqb mouts eouts && list_eqb okeys_eqb mkeys ekeys.
