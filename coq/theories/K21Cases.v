(* C11 / K21: comparing the translated loops of pack_union with the method text the real generator produced. *)
From Coq Require Import List Bool Arith String.
From Verif Require Import UnionModel PackEmit.
From VerifGen Require Import K21.
Import ListNotations.

Inductive pcode := QIdentity | QIdent (names: list string) (is_in: bool) | QTry | QRaise.

Definition pcode_of (l: pline) : pcode :=
  match l with
  | PLIdent (PIn names) => QIdent names true
  | PLIdent (PIs n) => QIdent [n] false
  | PLTry _ => QTry
  | PLRaise => QRaise end.

Fixpoint names_eqb (a b: list string) : bool :=
  match a, b with [], [] => true | x :: r, y :: r' => String.eqb x y && names_eqb r r' | _, _ => false end.

Definition pcode_eqb (a b: pcode) : bool :=
  match a, b with
  | QIdentity, QIdentity | QTry, QTry | QRaise, QRaise => true
  | QIdent n i, QIdent n' i' => names_eqb n n' && Bool.eqb i i'
  | _, _ => false end.

Fixpoint pcodes_eqb (a b: list pcode) : bool :=
  match a, b with [], [] => true | x :: r, y :: r' => pcode_eqb x y && pcodes_eqb r r' | _, _ => false end.

Definition codes_of (p: pres) : list pcode :=
  match p with PIdentity => [QIdentity] | PMethod ls => map pcode_of ls end.

(* members as (class name, expression id or None for "value") *)
Definition of_plite (m: string * option nat) : pmember := PM (fst m) (snd m) (fun _ => None).

Definition k21case_ok (c: list (string * option nat) * list pcode) : bool :=
  pcodes_eqb (codes_of (emit (map of_plite (fst c)))) (snd c).
