(* Kernel primitives for K11 (method-name building): f-strings over str values, str + str,
   construction of a str subclass.  Anything that is not a str fails closed (OtherError):
   the theorems about K11 are stated for str arguments only. *)
From Coq Require Import List String Ascii ZArith Bool.
From Verif Require Import Regex PyK.
Import ListNotations.
Open Scope string_scope.

(* format(x, "") inside an f-string: modelled for str only *)
Fixpoint k_fstr_go (l: list kv) : res string :=
  match l with
  | [] => Ok ""
  | KStr s :: r => t <- k_fstr_go r ;; Ok (s ++ t)
  | _ :: _ => Raise OtherError
  end.
Definition k_fstr (l: list kv) : res kv := s <- k_fstr_go l ;; Ok (KStr s).

Definition k_add (a b: kv) : res kv :=
  match a, b with
  | KStr x, KStr y => Ok (KStr (x ++ y))
  | KInt x, KInt y => Ok (KInt (x + y))
  | _, _ => Raise TypeError
  end.

(* cls(x) where cls is a subclass of str that defines neither __new__ nor __init__ *)
Definition k_str_new (v: kv) : res kv :=
  match v with KStr s => Ok (KStr s) | _ => Raise OtherError end.
