(* C09 -- which Config the generated code works with.

   CodeBuilder.get_config is translated from /repo on every run (VerifGen.K4.get_config).  Here it is
   run on the class objects a hierarchy denotes (the class K with the `Config` attribute along its MRO,
   each Config class with its own MRO: the Config it derives from, BaseConfig unless it is a plain
   class), and the options read from the class it returns are proved to be KeyModel.nearest_cfg, i.e.
   what Python's attribute lookup gives -- for BaseConfig subclasses, plain classes and plain classes
   deriving from plain classes alike. *)
From Coq Require Import List String Ascii ZArith Bool Lia.
From Verif Require Import Regex PyK PyK_alias KeyModel KeyImpl KeyProofs.
From VerifGen Require Import K4.
Import ListNotations.
Open Scope string_scope.
Open Scope list_scope.

Definition A_ALIASES := KStr "aliases".
Definition A_ALLOW := KStr "allow_deserialization_not_by_alias".
Definition A_FORBID := KStr "forbid_extra_keys".

(* mashumaro.config.BaseConfig: the documented defaults *)
Definition base_id : kv := KInt (-1).
Definition base_own : list (kv * kv) :=
  [(A_ALIASES, enc_aliases []); (A_ALLOW, KBool false); (A_FORBID, KBool false)].
Definition base_mro : list kv := [cls_entry base_id base_own].
Definition base_config : kv := mk_class base_id base_own [].

(* the body of a `class Config` *)
Definition own_dict (cd: cfgdecl) : list (kv * kv) :=
  (match cd_aliases cd with Some a => [(A_ALIASES, enc_aliases a)] | None => [] end)
  ++ (match cd_allow cd with Some b => [(A_ALLOW, KBool b)] | None => [] end)
  ++ (match cd_forbid cd with Some b => [(A_FORBID, KBool b)] | None => [] end).

(* r: the hierarchy nearest class first.  The bases of a Config class: the Config it derives from (the
   one its class would otherwise see), else BaseConfig, else nothing (a plain class) *)
Definition cfg_tail (cd: cfgdecl) (lower: option (list kv)) : list kv :=
  if cd_inherit cd then match lower with Some m => m | None => base_mro end
  else if cd_plain cd then [] else base_mro.

Fixpoint cfg_mro (r: list level) : option (list kv) :=
  match r with
  | [] => None
  | l :: r' => match l_cfg l with
               | None => cfg_mro r'
               | Some cd => Some (cls_entry (KInt (Z.of_nat (List.length r'))) (own_dict cd) :: cfg_tail cd (cfg_mro r'))
               end
  end.

(* the Config class object the class sees; BaseConfig if there is none *)
Fixpoint cfg_obj (r: list level) : kv :=
  match r with
  | [] => base_config
  | l :: r' => match l_cfg l with
               | None => cfg_obj r'
               | Some cd => mk_class (KInt (Z.of_nat (List.length r'))) (own_dict cd) (cfg_tail cd (cfg_mro r'))
               end
  end.

(* the class K: along its MRO, a class that defines a Config has it in its __dict__ *)
Fixpoint cls_entries (r: list level) : list kv :=
  match r with
  | [] => []
  | l :: r' => cls_entry (KTuple [KStr "class"; KInt (Z.of_nat (List.length r'))])
                         (match l_cfg l with Some _ => [(KStr "Config", cfg_obj r)] | None => [] end)
               :: cls_entries r'
  end.

Definition cls_obj (r: list level) : kv :=
  KNs [("__id__", KStr "K"); ("__dict__", KDict []); ("__mro__", KList (cls_entries r))].

(* reading the options off a Config class *)
Fixpoint dec_aliases (l: list (kv * kv)) : option (list (string * string)) :=
  match l with
  | [] => Some []
  | (KStr k, KStr v) :: r => match dec_aliases r with Some x => Some ((k, v) :: x) | None => None end
  | _ => None
  end.

Definition cfg_of_class (c: kv) : option cfg :=
  match mro_lookup (cls_mro c) A_ALIASES, mro_lookup (cls_mro c) A_ALLOW, mro_lookup (cls_mro c) A_FORBID with
  | Some (KDict a), Some (KBool al), Some (KBool fo) =>
      match dec_aliases a with Some a' => Some (mkCfg a' al fo) | None => None end
  | _, _, _ => None
  end.

(* the Config the generated code of a class with hierarchy ls (base-most first) works with *)
Definition impl_cfg (ls: list level) : res cfg :=
  c <- get_config (cls_obj (rev ls)) base_config KNone (KBool true) ;;
  match cfg_of_class c with Some g => Ok g | None => Raise TypeError end.

(* the generated code of the class a hierarchy denotes *)
Definition impl_from_hier (ls: list level) (discr: option (option string)) (d: dict) : res outcome :=
  g <- impl_cfg ls ;;
  impl_from_dict (mkC (effective ls) (g_aliases g) (g_allow g) (g_forbid g) discr) d.

(* ------------------------------------------------------------------ *)

Lemma dec_enc_aliases a : dec_aliases (map (fun p => (KStr (fst p), KStr (snd p))) a) = Some a.
Proof. induction a as [|[k v] r IH]; cbn; [reflexivity | now rewrite IH]. Qed.

Lemma nat_id_not_base n : kv_eqb (KInt (Z.of_nat n)) base_id = false.
Proof. cbn. apply Z.eqb_neq. lia. Qed.

Definition has_base (m: list kv) : bool := existsb (fun e => kv_eqb (entry_id e) base_id) m.

(* the MRO in which the options are finally looked up *)
Definition eff_mro (r: list level) : list kv :=
  match cfg_mro r with
  | Some m => if has_base m then m else m ++ base_mro
  | None => base_mro
  end.

Definition lk (m: list kv) (a: kv) : option kv := mro_lookup m a.

Lemma lk_cons id d m a : lk (cls_entry id d :: m) a = match d_get d a with Some v => Some v | None => lk m a end.
Proof. reflexivity. Qed.

Lemma lk_app m1 m2 a : lk (m1 ++ m2) a = match lk m1 a with Some v => Some v | None => lk m2 a end.
Proof.
  unfold lk. induction m1 as [|e r IH]; [reflexivity|]. cbn [app].
  destruct e; try exact IH.
  destruct l as [|i l]; [exact IH|]. destruct l as [|x l]; [exact IH|].
  destruct x; try exact IH. destruct l; [|exact IH].
  cbn [mro_lookup]. destruct (d_get kvs a); [reflexivity|exact IH].
Qed.

Definition enc_cfg_attr (g: cfg) (a: kv) : option kv :=
  if kv_eqb a A_ALIASES then Some (enc_aliases (g_aliases g))
  else if kv_eqb a A_ALLOW then Some (KBool (g_allow g))
  else if kv_eqb a A_FORBID then Some (KBool (g_forbid g))
  else None.

Definition is_opt (a: kv) : Prop := a = A_ALIASES \/ a = A_ALLOW \/ a = A_FORBID.

Lemma own_dict_get cd g a : is_opt a ->
  match d_get (own_dict cd) a with Some v => Some v | None => enc_cfg_attr g a end
  = enc_cfg_attr (apply_cd g cd) a.
Proof.
  intros [->|[->| ->]]; unfold own_dict, apply_cd, enc_cfg_attr;
    destruct (cd_aliases cd), (cd_allow cd), (cd_forbid cd); reflexivity.
Qed.

Lemma base_get a : is_opt a -> lk base_mro a = enc_cfg_attr default_cfg a.
Proof. intros [->|[->| ->]]; reflexivity. Qed.

Lemma has_base_entry n d m : has_base (cls_entry (KInt (Z.of_nat n)) d :: m) = has_base m.
Proof. unfold has_base. cbn [existsb entry_id cls_entry]. now rewrite nat_id_not_base. Qed.

(* the options found along the effective MRO are those of Python's attribute lookup *)
Lemma eff_mro_lookup : forall r a, is_opt a -> lk (eff_mro r) a = enc_cfg_attr (nearest_cfg (rev r)) a.
Proof.
  induction r as [|l r' IH]; intros a Ha.
  - now apply base_get.
  - cbn [rev]. rewrite nearest_config. unfold step_cfg, eff_mro. cbn [cfg_mro].
    destruct (l_cfg l) as [cd|]; [|apply IH; assumption].
    rewrite has_base_entry. unfold cfg_tail.
    specialize (IH a Ha). unfold eff_mro in IH.
    destruct (cd_inherit cd).
    + destruct (cfg_mro r') as [m|].
      * destruct (has_base m); [|rewrite <- app_comm_cons]; rewrite lk_cons, IH; now apply own_dict_get.
      * change (has_base base_mro) with true. cbn iota. rewrite lk_cons, IH. now apply own_dict_get.
    + destruct (cd_plain cd).
      * change (has_base []) with false. cbn iota. cbn [app]. rewrite lk_cons, (base_get a Ha). now apply own_dict_get.
      * change (has_base base_mro) with true. cbn iota. rewrite lk_cons, (base_get a Ha). now apply own_dict_get.
Qed.

Lemma cfg_obj_mro : forall r, cls_mro (cfg_obj r) = match cfg_mro r with Some m => m | None => base_mro end.
Proof.
  induction r as [|l r' IH]; [reflexivity|]. cbn [cfg_obj cfg_mro].
  destruct (l_cfg l); [reflexivity | exact IH].
Qed.

Lemma cls_getattr_config : forall r, k_cls_getattr (cls_obj r) (KStr "Config") base_config = cfg_obj r.
Proof.
  intro r. unfold k_cls_getattr, cls_obj. cbn [cls_mro ns_get String.eqb Ascii.eqb].
  change (ns_get _ "__mro__") with (Some (KList (cls_entries r))). cbn iota.
  induction r as [|l r' IH]; [reflexivity|]. cbn [cls_entries mro_lookup cls_entry cfg_obj].
  destruct (l_cfg l) as [cd|].
  - cbn [d_get kv_eqb String.eqb Ascii.eqb]. cbn. reflexivity.
  - cbn [d_get]. exact IH.
Qed.

Lemma cls_mro_mk_class id own tail : cls_mro (mk_class id own tail) = cls_entry id own :: tail.
Proof. reflexivity. Qed.

Lemma issubclass_base : forall c, k_issubclass c base_config = has_base (cls_mro c).
Proof. reflexivity. Qed.

Lemma cfg_of_class_spec : forall c g,
  (forall a, is_opt a -> lk (cls_mro c) a = enc_cfg_attr g a) -> cfg_of_class c = Some g.
Proof.
  intros c g H. unfold cfg_of_class. unfold lk in H.
  rewrite (H A_ALIASES), (H A_ALLOW), (H A_FORBID) by (unfold is_opt; auto).
  cbn. unfold enc_aliases. rewrite dec_enc_aliases. now destruct g.
Qed.

(* (T) the translated get_config on the class objects of a hierarchy returns a class whose options are
   nearest_cfg *)
Theorem get_config_spec : forall r,
  exists c, get_config (cls_obj r) base_config KNone (KBool true) = Ok c
            /\ cfg_of_class c = Some (nearest_cfg (rev r)).
Proof.
  intro r. unfold get_config. cbn [k_is kv_eqb k_truthy bind].
  rewrite cls_getattr_config. cbn [bind]. rewrite issubclass_base, cfg_obj_mro.
  pose proof (eff_mro_lookup r) as HL. unfold eff_mro in HL.
  destruct (cfg_mro r) as [m|] eqn:E.
  - destruct (has_base m) eqn:Hb; cbn [k_truthy negb bind].
    + exists (cfg_obj r). split; [reflexivity|]. apply cfg_of_class_spec. intros a Ha.
      rewrite cfg_obj_mro, E. now apply HL.
    + unfold k_type3. rewrite cfg_obj_mro, E. cbn [bind].
      eexists. split; [reflexivity|]. apply cfg_of_class_spec. intros a Ha.
      rewrite cls_mro_mk_class, lk_cons. cbn [d_get].
      assert (Hf: filter (fun e => negb (existsb (fun e1 => kv_eqb (entry_id e1) (entry_id e)) m)) (cls_mro base_config) = base_mro).
      { change (cls_mro base_config) with base_mro. unfold base_mro. cbn [filter entry_id cls_entry].
        fold (has_base m). now rewrite Hb. }
      rewrite Hf. now apply HL.
  - change (has_base base_mro) with true. cbn [k_truthy negb bind].
    exists (cfg_obj r). split; [reflexivity|]. apply cfg_of_class_spec. intros a Ha.
    rewrite cfg_obj_mro, E. now apply HL.
Qed.

Theorem impl_cfg_nearest : forall ls, impl_cfg ls = Ok (nearest_cfg ls).
Proof.
  intro ls. unfold impl_cfg. destruct (get_config_spec (rev ls)) as [c [H1 H2]].
  rewrite H1. cbn [bind]. rewrite H2, rev_involutive. reflexivity.
Qed.

(* the generated code of a class given by its hierarchy -- through get_config, dataclass semantics,
   __get_field_alias, the emitted lookups and the emitted allowed set -- is KEYMODEL of the class the
   hierarchy denotes by Python's rules *)
Theorem impl_from_hier_keymodel : forall ls discr d,
  impl_from_hier ls discr d = Ok (keymodel (class_of ls discr) d).
Proof.
  intros. unfold impl_from_hier. rewrite impl_cfg_nearest. cbn [bind]. apply impl_eq_keymodel.
Qed.
