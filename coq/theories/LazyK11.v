(* C14: the abstraction `a_enc_name_differs` of kernel K114b, decided over kernel K11 (method names as translated
   from builder.py on this run): the name a builder computes WITH its encoder / decoder differs from the name of the
   nested method (computed without) exactly for a non-"dict" format with a codec - i.e. for the top-level format
   methods to_msgpack / from_json / ..., the methods LazyModel marks m_top. *)
From Coq Require Import List String Ascii ZArith Bool Lia.
From Verif Require Import Regex PyK PyK_names K11Proofs.
From VerifGen Require Import K11.
Import ListNotations.
Open Scope string_scope.

Theorem enc_name_differs_iff d h ta f c :
  In f all_formats -> hexstr h = true ->
  (mname d h ta f c <> mname d h ta f KNone <-> (f <> default_format_name /\ has_codec c = true)).
Proof.
  intros Hf Hh. split.
  - intros NE. destruct (String.eqb f default_format_name) eqn:E.
    + exfalso. apply NE. rewrite !(mname_spec _ _ _ _ _ Hf). unfold body. rewrite E. reflexivity.
    + split; [intros ->; rewrite String.eqb_refl in E; discriminate|].
      destruct (has_codec c) eqn:HC; [reflexivity|]. exfalso. apply NE.
      rewrite !(mname_spec _ _ _ _ _ Hf). rewrite HC. reflexivity.
  - intros [NF HC] EQ.
    destruct (method_names_total d h ta f c Hf) as [n Hn].
    assert (H2: mname d h ta f KNone = Ok (KStr n)) by (rewrite <- EQ; exact Hn).
    destruct (method_names_injective d d h h ta ta f f c KNone (KStr n) Hf Hf Hh Hh Hn H2) as (_ & _ & Hc & _).
    specialize (Hc NF). rewrite HC in Hc. discriminate.
Qed.
