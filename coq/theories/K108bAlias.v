(* C08 - the alias a field plan carries (OptProj.p_alias) is what the translated CodeBuilder.__get_field_alias
   (kernel K4, VerifGen.K4.get_field_alias; its meaning is KeyProofs.impl_alias_spec, property C09) answers for the
   declaration: field metadata over the last Annotated Alias over the class-level table Config.aliases.  Together with
   K108b (the sort key reads the field name only) this separates the two clauses "renamed to their aliases iff by-alias"
   and "ordered by field name iff sort_keys": no alias source can reach the order. *)
From Coq Require Import List String ZArith Bool.
From Verif Require Import Regex PyK PyK_alias KeyModel KeyImpl KeyProofs PyK_c08 OptProj.
From VerifGen Require Import K4.
Import ListNotations.
Open Scope string_scope.

(* the alias the builder computes for a declared field, read off the translated function *)
Definition plan_alias (c: cls) (f: fld) : option string :=
  match impl_alias c f with Ok (KStr s) => Some s | _ => None end.

Lemma plan_alias_sources_lemma : forall (c: cls) (f: fld),
  plan_alias c f = orelse (f_meta f) (orelse (ann_alias f) (assoc (c_aliases c) (f_name f))).
Proof.
  intros c f. unfold plan_alias. rewrite impl_alias_spec. unfold alias_of.
  destruct (orelse (f_meta f) (orelse (ann_alias f) (assoc (c_aliases c) (f_name f)))); reflexivity.
Qed.

(* the key the generated body writes for a field whose plan carries that alias: in both forms (dict literal, kwargs) *)
Lemma plan_alias_key_lemma : forall (sc: sctx) (c: cls) (f: fld) (p: fplan),
  p.(p_name) = f_name f -> p.(p_alias) = plan_alias c f ->
  let renamed := match orelse (f_meta f) (orelse (ann_alias f) (assoc (c_aliases c) (f_name f))) with
                 | Some a => a | None => f_name f end in
  key_lit sc p = (if sc.(s_ba) then renamed else f_name f) /\
  key_kw sc p = (if (if sc.(s_fba) then sc.(r_ba) else sc.(s_ba)) then renamed else f_name f).
Proof.
  intros sc c f p Hn Ha. rewrite plan_alias_sources_lemma in Ha. unfold key_lit, key_kw. rewrite Ha, Hn.
  destruct (orelse (f_meta f) (orelse (ann_alias f) (assoc (c_aliases c) (f_name f)))); cbn;
    destruct (s_ba sc), (s_fba sc), (r_ba sc); auto.
Qed.
