(* C11 / K43a: vocabulary of the translated creators of the basic scalar types (coq/gen/K43a.v). *)
From Coq Require Import List Bool.
From Verif Require Import UnionModel.
Import ListNotations.

(* spec.origin_type / spec.type as these creators look at it *)
Inductive oty :=
| OInt | OFloat | OBool | ONoneType
| ONonePy                 (* Python None used as a type *)
| OStr (sub: bool)        (* str (false) or a proper subclass of str (true) *)
| OAny
| OOther.                 (* anything else *)

Definition oty_eqb (a b: oty) : bool :=
  match a, b with
  | OInt, OInt | OFloat, OFloat | OBool, OBool | ONoneType, ONoneType | ONonePy, ONonePy | OAny, OAny | OOther, OOther => true
  | OStr x, OStr y => Bool.eqb x y
  | _, _ => false end.
(* `o in (t1, .., tn)`: classes compare by identity, so bool is not "in (int, float)" *)
Definition in_otys (o: oty) (l: list oty) : bool := existsb (oty_eqb o) l.
(* issubclass(o, str) *)
Definition is_str_sub (o: oty) : bool := match o with OStr _ => true | _ => false end.
(* the callable named by type_name(origin) in f"{type_name(origin)}({expr})" *)
Definition kind_named (o: oty) : skind :=
  match o with OInt => KInt | OFloat => KFloat | OBool => KBool | OStr _ => KStr | _ => KNone end.

(* the expression a creator returns *)
Inductive sexpr :=
| STme (k: skind)         (* TypeMatchEligibleExpression: the coercion `int(value)` .. `str(value)`, or the constant None *)
| SValue.                 (* spec.expression *)

Definition sexpr_eqb (a b: sexpr) : bool :=
  match a, b with STme x, STme y => skind_eqb x y | SValue, SValue => true | _, _ => false end.
Definition osexpr_eqb (a b: option sexpr) : bool :=
  match a, b with Some x, Some y => sexpr_eqb x y | None, None => true | _, _ => false end.

Definition origin_of (k: skind) : oty :=
  match k with KInt => OInt | KFloat => OFloat | KBool => OBool | KStr => OStr false | KNone => ONoneType end.
