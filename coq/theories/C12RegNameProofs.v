(* C12 - the registry attribute names of the code as translated (K12) have the shape the site-indexed model needs *)
From Coq Require Import List Bool Arith.
From Verif Require Import C12RegName.
From VerifGen Require Import K12.
Import ListNotations.

Lemma code_registry_names :
  (* annotated positions: one name per builder instance, never equal for two instances *)
  (forall f1 f2 r1 r2, r1 <> r2 -> render annotated_variants_attr f1 r1 <> render annotated_variants_attr f2 r2)
  /\ variants_attr_per_instance = true
  (* class-level: one constant name (per class: the attribute lives in the class's own __dict__) *)
  /\ (forall f1 f2 r1 r2, render class_variants_attr f1 r1 = render class_variants_attr f2 r2).
Proof.
  split; [|split].
  - intros. apply fresh_names_distinct; [vm_compute; reflexivity | assumption].
  - vm_compute. reflexivity.
  - intros. apply literal_name_constant. vm_compute. reflexivity.
Qed.

(* non-vacuity / the converse: a name built from the field and anything that is not fresh per instance (e.g. a hash of the
   Discriminator settings) is shared by two positions of one field *)
Example code_registry_names_settings_hash_shared :
  let parts := [NLit [95]; NField; NLit [95]; NOther; NLit [95]] in
  has_fresh parts = false /\ render parts [118] 1 = render parts [118] 2
  /\ render annotated_variants_attr [118] 1 <> render annotated_variants_attr [118] 2.
Proof. vm_compute. repeat split. intro H. discriminate H. Qed.
