(* Universe for kernel K118b: which code pack.py:pack_collection (and pack_tuple / pack_named_tuple /
   pack_typed_dict) emits for a collection type, as far as object identity is concerned.  The facts about
   the origin type are those of UnpackDecision.ufacts. *)
From Coq Require Import List Bool.
From Verif Require Import UnpackDecision.
Import ListNotations.

Inductive pdecision :=
| PDNone                  (* not handled here *)
| PDSeqRule               (* _make_sequence_expression(inner_expr()): kernel K15 decides by-reference / copy / comprehension *)
| PDMapRule               (* _make_mapping_expression(inner_expr(0, "key"), inner_expr(1)): kernel K15 *)
| PDChainComp             (* [{k: v for key, value in m.items()} for m in <expr>.maps] *)
| PDSeqComp               (* [p for value in <expr>] *)
| PDMapComp               (* {k: v for key, value in <expr>.items()} *)
| PDItems                 (* a display listing one packer per position; d = {}; d[k] = p; ...; return d *)
| PDEmpty                 (* the constant "[]": a new empty list *)
| PDScalar                (* an immutable value computed from <expr>: encodebytes(<expr>).decode() *)
| PDSame                  (* <expr> itself *)
| PDCopy                  (* <expr>.copy() / C(<expr>) *)
| PDNamedTuple            (* -> pack_named_tuple *)
| PDTuple                 (* -> pack_tuple *)
| PDTypedDict.            (* -> pack_typed_dict *)

(* templates that hand out the input object or a shallow copy of it without consulting the rule *)
Definition p_outside_rule (d: pdecision) : bool :=
  match d with PDSame | PDCopy => true | _ => false end.
