(* C09 -- reference semantics of input-key resolution, written from the property text
   (README "Field aliases", "allow_deserialization_not_by_alias", "forbid_extra_keys").
   No dependency on anything translated from /repo.  Everything is executable. *)
From Coq Require Import List String Ascii ZArith Bool.
Import ListNotations.
Open Scope string_scope.

(* ---- schema side ---- *)

(* one element of the metadata of `Annotated[T, ...]` *)
Inductive ann := AAlias (s: string) | AOther.

Record fld := mkF {
  f_name : string;                 (* dataclass field name *)
  f_meta : option string;          (* field(metadata={"alias": ...}) *)
  f_ann  : option (list ann);      (* None: the field type is not Annotated[...] *)
  f_dflt : bool                    (* the field has a default *)
}.

Record cls := mkC {
  c_fields  : list fld;                   (* init fields in definition order *)
  c_aliases : list (string * string);     (* Config.aliases: field name -> alias *)
  c_allow   : bool;                       (* Config.allow_deserialization_not_by_alias *)
  c_forbid  : bool;                       (* Config.forbid_extra_keys *)
  c_discr   : option (option string)      (* class-level discriminator found in the MRO, and its field *)
}.

(* ---- input side: a dict with arbitrary hashable keys; strings are what fields can be read from *)
Inductive key := KeyS (s: string) | KeyNone | KeyI (z: Z).

Definition key_eqb (a b: key) : bool :=
  match a, b with
  | KeyS x, KeyS y => String.eqb x y
  | KeyNone, KeyNone => true
  | KeyI x, KeyI y => Z.eqb x y
  | _, _ => false
  end.

Definition dict := list (key * Z).

Fixpoint dget (d: dict) (k: key) : option Z :=
  match d with
  | [] => None
  | (k', v) :: r => if key_eqb k' k then Some v else dget r k
  end.

Definition keys (d: dict) : list key := map fst d.

Definition kmem (k: key) (l: list key) : bool := existsb (key_eqb k) l.

Fixpoint assoc (l: list (string * string)) (n: string) : option string :=
  match l with
  | [] => None
  | (k, v) :: r => if String.eqb k n then Some v else assoc r n
  end.

(* ---- alias of a field: metadata over Annotated Alias over Config.aliases ---- *)

(* the last Alias among the annotations (several may be given; nesting of Annotated flattens) *)
Fixpoint last_alias (l: list ann) : option string :=
  match l with
  | [] => None
  | a :: r => match last_alias r with
              | Some s => Some s
              | None => match a with AAlias s => Some s | AOther => None end
              end
  end.

Definition ann_alias (f: fld) : option string :=
  match f_ann f with Some l => last_alias l | None => None end.

Definition orelse {A} (a b: option A) : option A := match a with Some _ => a | None => b end.

Definition alias_of (c: cls) (f: fld) : option string :=
  orelse (f_meta f) (orelse (ann_alias f) (assoc (c_aliases c) (f_name f))).

(* ---- which keys a field may be read from, in order of preference ---- *)
Definition candidates (c: cls) (f: fld) : list key :=
  match alias_of c f with
  | Some a => KeyS a :: (if c_allow c then [KeyS (f_name f)] else [])
  | None => [KeyS (f_name f)]
  end.

Fixpoint first_present (d: dict) (ks: list key) : option (key * Z) :=
  match ks with
  | [] => None
  | k :: r => match dget d k with Some v => Some (k, v) | None => first_present d r end
  end.

(* the key (and its value) field f is read from; None: no candidate present *)
Definition field_read (c: cls) (d: dict) (f: fld) : option (key * Z) :=
  first_present d (candidates c f).

(* The class-level discriminator field.  Throughout the library a Discriminator whose field is
   falsy (None or "") is a discriminator *without* field (unpack.py: `if discriminator.field:`,
   `if not self.discriminator.field:`): it dispatches by trying the subtypes and reads no key. *)
Definition discr_keys (c: cls) : list key :=
  match c_discr c with
  | Some (Some s) => if String.eqb s "" then [] else [KeyS s]
  | _ => []
  end.

Definition accepted (c: cls) : list key :=
  flat_map (candidates c) (c_fields c) ++ discr_keys c.

Definition extra_keys (c: cls) (d: dict) : list key :=
  filter (fun k => negb (kmem k (accepted c))) (keys d).

(* ---- outcome ---- *)
Inductive outcome :=
| OInst (vals: list (string * option (key * Z)))   (* per field: the key/value read, None = default taken *)
| OMissing (f: string)                             (* MissingField.field_name *)
| OExtra (ks: list key).                           (* ExtraKeysError.extra_keys, in the order of the input *)

Fixpoint read_fields (c: cls) (d: dict) (fs: list fld) : outcome :=
  match fs with
  | [] => OInst []
  | f :: r =>
      match field_read c d f with
      | None => if f_dflt f then
                  match read_fields c d r with
                  | OInst vs => OInst ((f_name f, None) :: vs)
                  | o => o end
                else OMissing (f_name f)
      | Some kv => match read_fields c d r with
                   | OInst vs => OInst ((f_name f, Some kv) :: vs)
                   | o => o end
      end
  end.

Definition keymodel (c: cls) (d: dict) : outcome :=
  match extra_keys c d with
  | (_ :: _) as ks => if c_forbid c then OExtra ks else read_fields c d (c_fields c)
  | [] => read_fields c d (c_fields c)
  end.

(* ---- equality tests used by the harness-generated case files ---- *)
Definition okv_eqb (a b: option (key * Z)) : bool :=
  match a, b with
  | None, None => true
  | Some (k1, v1), Some (k2, v2) => key_eqb k1 k2 && Z.eqb v1 v2
  | _, _ => false
  end.

Fixpoint list_eqb {A} (e: A -> A -> bool) (l1 l2: list A) : bool :=
  match l1, l2 with
  | [], [] => true
  | x :: r1, y :: r2 => e x y && list_eqb e r1 r2
  | _, _ => false
  end.

Definition outcome_eqb (a b: outcome) : bool :=
  match a, b with
  | OInst x, OInst y => list_eqb (fun p q => String.eqb (fst p) (fst q) && okv_eqb (snd p) (snd q)) x y
  | OMissing x, OMissing y => String.eqb x y
  | OExtra x, OExtra y => list_eqb key_eqb x y
  | _, _ => false
  end.

(* ---- class hierarchies: which declaration of a field, and which Config, the class sees ----
   Dataclass semantics: the fields of a class are collected over the MRO from the base-most class
   to the class itself; a re-declaration replaces the inherited declaration *in place* (the field
   keeps the position of its first declaration, the nearest declaration supplies metadata, type
   annotation and default).  A declaration with init=False stays a dataclass field but is not an
   __init__ parameter: from_dict does not read it.  `Config` is an ordinary class attribute: the
   nearest class that defines one supplies all options (no merging). *)

Record cfg := mkCfg { g_aliases : list (string * string); g_allow : bool; g_forbid : bool }.

Definition default_cfg : cfg := mkCfg [] false false.

(* a `class Config` written in a class body: it may derive from the Config its class would otherwise
   see (`class Config(Parent.Config)`), it may be a plain class instead of a BaseConfig subclass, and it
   sets any subset of the options *)
Record cfgdecl := mkCD {
  cd_inherit : bool;
  cd_plain   : bool;                 (* written `class Config:` (no bases) instead of `class Config(BaseConfig):` *)
  cd_aliases : option (list (string * string));
  cd_allow   : option bool;
  cd_forbid  : option bool
}.

Record level := mkL {
  l_decls : list (fld * bool);      (* declarations of this class body, in order; bool = init *)
  l_cfg   : option cfgdecl          (* the class body defines its own Config *)
}.

Definition apply_cd (base: cfg) (cd: cfgdecl) : cfg :=
  mkCfg (match cd_aliases cd with Some a => a | None => g_aliases base end)
        (match cd_allow cd with Some b => b | None => g_allow base end)
        (match cd_forbid cd with Some b => b | None => g_forbid base end).

(* Python attribute lookup on the Config class the class sees *)
Definition step_cfg (acc: cfg) (l: level) : cfg :=
  match l_cfg l with
  | Some cd => apply_cd (if cd_inherit cd then acc else default_cfg) cd
  | None => acc
  end.

Fixpoint upsert (p: fld * bool) (fs: list (fld * bool)) : list (fld * bool) :=
  match fs with
  | [] => [p]
  | q :: r => if String.eqb (f_name (fst q)) (f_name (fst p)) then p :: r else q :: upsert p r
  end.

Definition collect (ls: list level) : list (fld * bool) :=
  fold_left (fun acc l => fold_left (fun a p => upsert p a) (l_decls l) acc) ls [].

(* the init fields, in definition order *)
Definition effective (ls: list level) : list fld := map fst (filter snd (collect ls)).

Definition nearest_cfg (ls: list level) : cfg := fold_left step_cfg ls default_cfg.

(* ls: base-most class first, the class itself last *)
Definition class_of (ls: list level) (discr: option (option string)) : cls :=
  let g := nearest_cfg ls in
  mkC (effective ls) (g_aliases g) (g_allow g) (g_forbid g) discr.

Definition lookup_decl (n: string) (fs: list (fld * bool)) : option (fld * bool) :=
  find (fun p => String.eqb (f_name (fst p)) n) fs.

(* ---- what can be observed of an outcome: the attribute values of the instance.
   dfl gives, per init field, the value of its default (irrelevant for fields without default). *)
Inductive observation :=
| VInst (vals: list (string * Z))
| VMissing (f: string)
| VExtra (ks: list key).

Fixpoint obs_vals (vs: list (string * option (key * Z))) (dfl: list Z) : list (string * Z) :=
  match vs with
  | [] => []
  | (n, r) :: vr =>
      let dv := match dfl with x :: _ => x | [] => 0%Z end in
      (n, match r with Some (_, v) => v | None => dv end) :: obs_vals vr (tl dfl)
  end.

Definition observe (dfl: list Z) (o: outcome) : observation :=
  match o with
  | OInst vs => VInst (obs_vals vs dfl)
  | OMissing f => VMissing f
  | OExtra ks => VExtra ks
  end.

Definition observation_eqb (a b: observation) : bool :=
  match a, b with
  | VInst x, VInst y => list_eqb (fun p q => String.eqb (fst p) (fst q) && Z.eqb (snd p) (snd q)) x y
  | VMissing x, VMissing y => String.eqb x y
  | VExtra x, VExtra y => list_eqb key_eqb x y
  | _, _ => false
  end.

(* ---- views used by the harness to compare the modelled Python/dataclasses semantics with the real classes ---- *)
Definition decl_view (ds: list (fld * bool)) : list (string * option string * bool) :=
  map (fun p => (f_name (fst p), f_meta (fst p), snd p)) ds.

Definition ostr_eqb (a b: option string) : bool :=
  match a, b with Some x, Some y => String.eqb x y | None, None => true | _, _ => false end.

Definition view_eqb (a b: list (string * option string * bool)) : bool :=
  list_eqb (fun p q => String.eqb (fst (fst p)) (fst (fst q)) && ostr_eqb (snd (fst p)) (snd (fst q))
                       && Bool.eqb (snd p) (snd q)) a b.

Definition cfg_eqb (a b: cfg) : bool :=
  list_eqb (fun p q => String.eqb (fst p) (fst q) && String.eqb (snd p) (snd q)) (g_aliases a) (g_aliases b)
  && Bool.eqb (g_allow a) (g_allow b) && Bool.eqb (g_forbid a) (g_forbid b).
