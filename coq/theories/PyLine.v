(* C16 (round 4) - a whole-LINE tokenizer: the generated source text is read from its start, one
   character per step, through default text, comments and string / bytes literals (the literal
   states reuse [step] of PyStrLit).  With it "the literal at a splice site is a token of the line
   that denotes the data string" is a theorem about the line, and the static conditions before_ok /
   after_ok of Splice.v are what its hypotheses need.

   Not modelled (answer None): triple-quoted literals, string prefixes other than a lone b,
   explicit backslash continuation outside literals.  Compared on every run with CPython's
   tokenizer on the lines mashumaro really generates (harness/props/c16.py, "line-tokens"). *)
From Coq Require Import List NArith Bool.
From Verif Require Import PyStrLit.
Import ListNotations.
Open Scope N_scope.

Inductive tok :=
| TkChar (c: N)        (* any character of default text (names, numbers, operators, blanks, newlines) *)
| TkStr (s: str)       (* a string literal and its value *)
| TkBytes (s: str)     (* a b-prefixed literal and its value *)
| TkComment.

Inductive lst :=
| LDef (prev_ident: bool)   (* default text; was the previous character an identifier character? *)
| LB                        (* a lone b prefix was read, the opening quote follows *)
| LStr (bytes: bool) (q: N) (s: st) (out: list N)
| LCom.

Definition next_is_quote (r: list N) : bool := match r with c :: _ => is_quote c | [] => false end.
Definition starts_two (q: N) (r: list N) : bool :=
  match r with q1 :: q2 :: _ => (q1 =? q) && (q2 =? q) | _ => false end.

Fixpoint tok_line (s: lst) (acc: list tok) (l: list N) : option (list tok) :=
  match l with
  | [] => match s with LDef _ | LCom => Some (rev acc) | _ => None end
  | c :: r =>
      match s with
      | LCom => if c =? 10 then tok_line (LDef false) (TkChar 10 :: acc) r else tok_line LCom acc r
      | LStr b q s' out =>
          match step false b q s' out c with
          | AStop o => tok_line (LDef false) ((if b then TkBytes (rev o) else TkStr (rev o)) :: acc) r
          | AFail => None
          | ACont s'' o => tok_line (LStr b q s'' o) acc r
          end
      | LB => if is_quote c && negb (starts_two c r) then tok_line (LStr true c Norm []) acc r else None
      | LDef prev =>
          if is_quote c then
            if prev || starts_two c r then None
            else tok_line (LStr false c Norm []) acc r
          else if c =? 35 then tok_line LCom (TkComment :: acc) r
          else if c =? BS then None
          else if (c =? 98) && negb prev && next_is_quote r then tok_line LB acc r
          else tok_line (LDef (is_ident_char c)) (TkChar c :: acc) r
      end
  end.

Definition tokenize (l: list N) : option (list tok) := tok_line (LDef false) [] l.

(* the literal values of a text, in order (what the tie compares) *)
Inductive lval := VS (s: str) | VB (s: str).
Definition literals (l: list N) : option (list lval) :=
  option_map (fun ts => flat_map (fun t => match t with TkStr s => [VS s] | TkBytes s => [VB s] | _ => [] end) ts)
             (tokenize l).

Definition lval_eqb (a b: lval) : bool :=
  match a, b with VS x, VS y | VB x, VB y => leqb x y | _, _ => false end.
Fixpoint lvals_eqb (a b: list lval) : bool :=
  match a, b with
  | [], [] => true
  | x :: a', y :: b' => lval_eqb x y && lvals_eqb a' b'
  | _, _ => false
  end.
Definition line_case_ok (c: list N * option (list lval)) : bool :=
  match literals (fst c), snd c with
  | Some a, Some b => lvals_eqb a b
  | None, None => true
  | _, _ => false
  end.

(* ---------------------------------------------------------------- finite floats (round 4)
   repr(float) of a finite float consists of digits, point, exponent letter and signs only (law of
   CPython's float_repr_style 'short'; checked on every run for sampled and special floats).  Such
   text is inert for the tokenizer; its value is read back by CPython's float parsing
   (float(repr(x)) == x, checked per run in Python; not modelled in Coq). *)
Definition float_char (c: N) : bool :=
  ((48 <=? c) && (c <=? 57)) || (c =? 46) || (c =? 101) || (c =? 43) || (c =? 45).
Definition float_text_ok (t: list N) : bool :=
  match t with
  | [] => false
  | c :: _ => (((48 <=? c) && (c <=? 57)) || (c =? 45)) && forallb float_char t
  end.
