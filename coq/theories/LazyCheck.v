(* C14: comparison of the model's slot/cache state and outcome kind with observations of the real
   classes (used by harness-generated case files). *)
From Coq Require Import List Arith Bool.
From Verif Require Import LazyModel.
Import ListNotations.

Definition snap := (list (slotkey * bool) * list (cachekey * list did))%type.   (* bool: is a stub *)

Definition snap_ok (st: state) (s: snap) : bool :=
  Nat.eqb (length (slots st)) (length (fst s)) &&
  forallb (fun e => match get_slot st (fst (fst e)) (snd (fst e)) with
                    | Some (Stub _ _) => snd e
                    | Some (Compiled _ _ _) => negb (snd e)
                    | None => false end) (fst s) &&
  Nat.eqb (length (caches st)) (length (snd s)) &&
  forallb (fun e => match aget ckey_eqb (fst e) (caches st) with
                    | Some l => Nat.eqb (length l) (length (snd e)) &&
                                forallb (fun d => match aget Nat.eqb d l with Some _ => true | None => false end) (snd e)
                    | None => false end) (snd s).

(* outcome kinds: 0 ok, 1 AttributeError(dialect cache), 2 AttributeError(method), 3 RecursionError by
   re-dispatch, 4 RecursionError in nested on-demand compilation, 5 unresolved reference *)
Definition okind (o: outcome) : nat :=
  match o with
  | Out _ => 0
  | Exc EAttrCache => 1
  | Exc EAttrMeth => 2
  | OOF => 3
  | Exc EBuildCycle => 4
  | Exc EUnresolved => 5
  end.

Definition FUEL := 40.

Record case := CASE {
  k_fam : fam;
  k_d5 : bool;
  k_defs : list cid;
  k_init : snap;
  k_steps : list (op * (nat * option snap))      (* op, expected outcome kind, expected state after it *)
}.

Fixpoint check_steps (F: fam) (d5: bool) (st: state) (l: list (op * (nat * option snap))) (i: nat) : option nat :=
  match l with
  | [] => None
  | (o, (k, s)) :: r =>
      let (st', out) := step F d5 FUEL st o in
      if Nat.eqb (okind out) k && match s with Some s => snap_ok st' s | None => true end
      then check_steps F d5 st' r (S i) else Some i
  end.

Definition after_defs (F: fam) (d5: bool) (defs: list cid) : state :=
  fold_left (fun st c => fst (step F d5 FUEL st (Define c))) defs st0.

(* outcome kinds of the class statements, in definition order *)
Definition def_kinds (F: fam) (d5: bool) (defs: list cid) : list nat :=
  map okind (run F d5 FUEL st0 (map Define defs)).

(* None = agreement; Some 0 = class creation fails in the model or the state after it differs; Some (S i) = step i differs *)
Definition check_case (k: case) : option nat :=
  let st := after_defs (k_fam k) (k_d5 k) (k_defs k) in
  if forallb (Nat.eqb 0) (def_kinds (k_fam k) (k_d5 k) (k_defs k)) && snap_ok st (k_init k) then
    match check_steps (k_fam k) (k_d5 k) st (k_steps k) 0 with None => None | Some i => Some (S i) end
  else Some 0.

Definition case_ok (k: case) : bool := match check_case k with None => true | Some _ => false end.

(* families whose class statements fail (Config.allow_postponed_evaluation = False with an unresolved reference):
   the class statements up to and including the failing one, with the observed outcome kinds *)
Record ccase := CCASE { cc_fam : fam; cc_defs : list cid; cc_kinds : list nat }.
Definition ccase_ok (k: ccase) : bool :=
  let got := def_kinds (cc_fam k) true (cc_defs k) in
  Nat.eqb (length got) (length (cc_kinds k)) && forallb (fun p => Nat.eqb (fst p) (snd p)) (combine got (cc_kinds k)).

(* for diagnostics: the model's states along the case *)
Definition trace_case (k: case) : list (state * nat) :=
  let st := after_defs (k_fam k) (k_d5 k) (k_defs k) in
  (st, 0) :: map (fun p => (fst p, okind (snd p))) (run_states (k_fam k) (k_d5 k) FUEL st (map fst (k_steps k))).

(* computable domain predicate of the theorems: a class with a position of its own type is never specialised *)
Definition has_selfb (F: fam) (c: cid) : bool := existsb (fun g => Nat.eqb (f_cls g) c) (c_fields (cls F c)).
Definition selfref_unspecb (F: fam) : bool :=
  forallb (fun cd => forallb (fun f => negb (has_selfb F (f_cls f)) || Nat.eqb (f_spec f) 0) (c_fields cd)) F.
