(* C09 -- CodeBuilder.dataclass_fields (translated, K5) against the model of CPython's dataclass walk
   (KeyDc.dc_process), for an arbitrary MRO: the alias data of every name is that of the declaration the
   walk selects -- in a diamond, the one inherited through the first base. *)
From Coq Require Import List String Ascii ZArith Bool Arith Lia.
From Verif Require Import Regex PyK PyK_strat PyK_alias FieldDecl FieldDeclProofs KeyModel KeyImpl KeyProofs KeyDecl KeyDc.
From VerifGen Require Import K4 K5.
Import ListNotations.
Open Scope string_scope.
Open Scope list_scope.

Section Dc.
Variable mdf : fld -> kv.
Hypothesis mdf_alias : forall f, k_dict_get (mdf f) (KStr "alias") = Ok (enc_ostr (f_meta f)).

Definition nodup_names (c: decls) : Prop := NoDup (map dname c).

Lemma nearest_cums : forall cums n, Forall nodup_names cums ->
  nearest (map (fun c => Some (cum mdf c)) cums) n = option_map (fun p => mdf (fst p)) (first_in cums n).
Proof.
  intros cums n H. induction H as [|c r Hc _ IH]; [reflexivity|]. cbn [map nearest first_in].
  rewrite (flast_cum mdf c n Hc), (find_rev_nodup c n Hc).
  destruct (lookup_decl n c); [reflexivity | exact IH].
Qed.

Theorem ref_fields_alias_dc : forall (cums: list decls) (own: decls) (extra: list pyclass) nsd ownf,
  Forall nodup_names cums -> Forall fieldless extra ->
  (forall n f i, lookup_decl n (rev own) = Some (f, i) ->
     alias_md (own_result nsd ownf n) = Ok (enc_ostr (f_meta f))) ->
  forall n,
    alias_md (sd_get (ref_fields (map (fun c => Some (cum mdf c)) cums ++ extra) (map dname own) nsd ownf) n)
    = Ok (enc_ostr (decl_alias (dc_process cums own) n)).
Proof.
  intros cums own extra nsd ownf Hc Hex Hown n.
  unfold decl_alias. rewrite dc_process_lookup.
  destruct (in_dec string_dec n (map dname own)) as [Hin|Hin].
  - rewrite ref_fields_own by assumption.
    destruct (lookup_decl n (rev own)) as [[f i]|] eqn:E; [now apply (Hown n f i)|].
    exfalso. apply in_map_iff in Hin as [p [Hp Hin]].
    unfold lookup_decl in E. pose proof (find_none _ _ E p (proj1 (in_rev _ _) Hin)) as Hx.
    cbn beta in Hx. change (f_name (fst p)) with (dname p) in Hx. rewrite Hp, String.eqb_refl in Hx. discriminate.
  - rewrite ref_fields_inherited by assumption.
    assert (E: lookup_decl n (rev own) = None).
    { unfold lookup_decl. destruct (find _ (rev own)) as [p|] eqn:F; [|reflexivity].
      exfalso. apply find_some in F as [Hp Hq]. apply String.eqb_eq in Hq. apply Hin.
      apply in_map_iff. exists p. split; [exact Hq | now apply in_rev]. }
    rewrite E, nearest_app, (nearest_cums cums n Hc), (nearest_fieldless extra n Hex).
    destruct (first_in cums n) as [[f i]|]; cbn [option_map alias_md fst].
    + unfold mk_field. cbn. apply mdf_alias.
    + reflexivity.
Qed.
End Dc.

(* the translated dataclass_fields on an arbitrary MRO *)
Theorem dataclass_fields_dc :
  forall (mdf: fld -> kv), (forall f, k_dict_get (mdf f) (KStr "alias") = Ok (enc_ostr (f_meta f))) ->
  forall (cums: list decls) (own: decls) (extra: list pyclass) (c0: pyclass) nsd ownf,
  Forall nodup_names cums -> Forall fieldless extra ->
  sd_get nsd "__dataclass_fields__" = None -> ~ In "__dataclass_fields__" (map dname own) ->
  (forall n f i, lookup_decl n (rev own) = Some (f, i) ->
     alias_md (own_result nsd ownf n) = Ok (enc_ostr (f_meta f))) ->
  exists d,
    dataclass_fields (KTuple (enc_class c0 :: map enc_class (map (fun c => Some (cum mdf c)) cums ++ extra)))
                     (KList (map KStr (map dname own))) (enc_namespace nsd ownf)
    = Ok (KDict (enc_sd d))
    /\ forall n, alias_md (sd_get d n) = Ok (enc_ostr (decl_alias (dc_process cums own) n)).
Proof.
  intros mdf Hmdf cums own extra c0 nsd ownf Hc Hex Hns Hown Hview.
  exists (ref_fields (map (fun c => Some (cum mdf c)) cums ++ extra) (map dname own) nsd ownf).
  split; [apply dataclass_fields_ref; assumption|].
  intro n. now apply ref_fields_alias_dc.
Qed.
