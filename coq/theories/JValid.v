(* JSON documents, the subset of JSON Schema (Draft 2020-12) keywords that
   mashumaro.jsonschema emits, and a validator for it.

   jvalid is written independently from the standard's text (core 10.3.1 prefixItems/items,
   10.3.2 properties/additionalProperties/propertyNames, validation 6.1 type/enum/const,
   6.4 minItems/maxItems/uniqueItems, 6.5 required; format/title are annotations).
   It is differentially checked against the `jsonschema` package on every run.
   Recursion is on a fuel parameter (every descent and every $ref hop costs one unit);
   theorems quantify over all sufficiently large fuels. *)
From Coq Require Import List String Ascii ZArith Bool Lia.
Import ListNotations.
Open Scope string_scope.

Inductive json :=
| JNull
| JBool (b: bool)
| JInt (z: Z)                 (* any number with an integral value (1.0 is 1) *)
| JFlt (repr: string)         (* non-integral finite number, by its shortest repr *)
| JStr (s: string)
| JArr (l: list json)
| JObj (kvs: list (string * json)).

Fixpoint json_eqb (a b: json) {struct a} : bool :=
  match a, b with
  | JNull, JNull => true
  | JBool x, JBool y => Bool.eqb x y
  | JInt x, JInt y => Z.eqb x y
  | JFlt x, JFlt y => String.eqb x y
  | JStr x, JStr y => String.eqb x y
  | JArr x, JArr y =>
      (fix leq (l1 l2: list json) : bool :=
         match l1, l2 with
         | [], [] => true
         | u :: r1, v :: r2 => json_eqb u v && leq r1 r2
         | _, _ => false end) x y
  | JObj x, JObj y =>       (* harness canonicalises member order (sorted keys) *)
      (fix oeq (l1 l2: list (string * json)) : bool :=
         match l1, l2 with
         | [], [] => true
         | (k1, u) :: r1, (k2, v) :: r2 => String.eqb k1 k2 && json_eqb u v && oeq r1 r2
         | _, _ => false end) x y
  | _, _ => false
  end.

Fixpoint json_eqb_refl (a: json) : json_eqb a a = true.
Proof.
  destruct a as [| b | z | s | s | l | kvs]; cbn [json_eqb].
  - reflexivity.
  - destruct b; reflexivity.
  - apply Z.eqb_refl.
  - apply String.eqb_refl.
  - apply String.eqb_refl.
  - induction l as [|x r IH]; [reflexivity|]. rewrite json_eqb_refl. exact IH.
  - induction kvs as [|[k x] r IH]; [reflexivity|]. rewrite String.eqb_refl, json_eqb_refl. exact IH.
Qed.

(* json_eqb decides syntactic equality *)
Fixpoint json_eqb_true (a b: json) {struct a} : json_eqb a b = true -> a = b.
Proof.
  destruct a as [| x | x | x | x | l | kvs]; destruct b as [| y | y | y | y | l' | kvs']; cbn [json_eqb]; intros H; try discriminate.
  - reflexivity.
  - apply Bool.eqb_prop in H. subst. reflexivity.
  - apply Z.eqb_eq in H. subst. reflexivity.
  - apply String.eqb_eq in H. subst. reflexivity.
  - apply String.eqb_eq in H. subst. reflexivity.
  - f_equal. revert l' H. induction l as [|u r IH]; intros [|v r'] H; try discriminate; [reflexivity|].
    apply andb_true_iff in H. destruct H as [H1 H2]. f_equal; [apply json_eqb_true; assumption|apply IH; assumption].
  - f_equal. revert kvs' H. induction kvs as [|[k1 u] r IH]; intros [|[k2 v] r'] H; try discriminate; [reflexivity|].
    apply andb_true_iff in H. destruct H as [H1 H2]. apply andb_true_iff in H1. destruct H1 as [H0 H1].
    apply String.eqb_eq in H0. subst. f_equal; [f_equal; apply json_eqb_true; assumption|apply IH; assumption].
Qed.

Lemma json_eqb_sym_true a b : json_eqb a b = true -> json_eqb b a = true.
Proof. intros H. apply json_eqb_true in H. subst. apply json_eqb_refl. Qed.

Inductive jtype := TyNull | TyBoolean | TyObject | TyArray | TyNumber | TyString | TyInteger.

Definition jtype_eqb (a b: jtype) : bool :=
  match a, b with
  | TyNull, TyNull | TyBoolean, TyBoolean | TyObject, TyObject | TyArray, TyArray
  | TyNumber, TyNumber | TyString, TyString | TyInteger, TyInteger => true
  | _, _ => false end.

Definition has_type (t: jtype) (j: json) : bool :=
  match t, j with
  | TyNull, JNull | TyBoolean, JBool _ | TyObject, JObj _ | TyArray, JArr _
  | TyString, JStr _ | TyInteger, JInt _ | TyNumber, JInt _ | TyNumber, JFlt _ => true
  | _, _ => false end.

(* a schema is a list of keywords, kept in the canonical keyword order below *)
Inductive schema := S (kws: list kw)
with kw :=
| KType (t: jtype)
| KTitle (s: string)              (* annotation *)
| KFormat (s: string)             (* annotation *)
| KPattern (p: string)
| KEnum (vs: list json)
| KConst (v: json)
| KAnyOf (l: list schema)
| KRef (prefix name: string)      (* "$ref": prefix ++ "/" ++ name *)
| KProps (ps: list (string * schema))
| KRequired (l: list string)
| KAddl (b: bool)
| KAddlS (s: schema)
| KPropNames (s: schema)
| KPrefix (l: list schema)
| KItems (s: schema)
| KMin (n: Z)
| KMax (n: Z)
| KUnique (b: bool).

Definition kws_of (s: schema) : list kw := match s with S k => k end.

Fixpoint assoc {A} (l: list (string * A)) (k: string) : option A :=
  match l with [] => None | (k', v) :: r => if String.eqb k' k then Some v else assoc r k end.

Definition has_key {A} (l: list (string * A)) (k: string) : bool :=
  match assoc l k with Some _ => true | None => false end.

Fixpoint get_props (k: list kw) : list (string * schema) :=
  match k with [] => [] | KProps ps :: _ => ps | _ :: r => get_props r end.
Fixpoint get_prefix_len (k: list kw) : nat :=
  match k with [] => 0 | KPrefix l :: _ => List.length l | _ :: r => get_prefix_len r end.

Fixpoint forallb2 {A B} (f: A -> B -> bool) (l1: list A) (l2: list B) : bool :=
  (* pointwise on the common prefix (prefixItems semantics) *)
  match l1, l2 with x :: r1, y :: r2 => f x y && forallb2 f r1 r2 | _, _ => true end.

Fixpoint no_dup_json (l: list json) : bool :=
  match l with [] => true | x :: r => negb (existsb (json_eqb x) r) && no_dup_json r end.

Section Validator.
  (* regular expressions are an oracle: pm pattern text = "the pattern matches somewhere in text" *)
  Variable pm : string -> string -> bool.
  Variable defs : list (string * schema).

  (* one keyword, given the validator [rec] for subschemas and the sibling keywords *)
  Definition kw_ok (rec: schema -> json -> bool) (kws: list kw) (j: json) (k: kw) : bool :=
        match k with
        | KType t => has_type t j
        | KTitle _ | KFormat _ => true
        | KPattern p => match j with JStr x => pm p x | _ => true end
        | KEnum vs => existsb (json_eqb j) vs
        | KConst v => json_eqb j v
        | KAnyOf l => existsb (fun s' => rec s' j) l
        | KRef _ name => match assoc defs name with Some s' => rec s' j | None => false end
        | KProps ps =>
            match j with
            | JObj kvs => forallb (fun kv => match kv with (key, x) =>
                             match assoc ps key with Some s' => rec s' x | None => true end end) kvs
            | _ => true end
        | KRequired l => match j with JObj kvs => forallb (has_key kvs) l | _ => true end
        | KAddl b =>
            match j with
            | JObj kvs => b || forallb (fun kv => has_key (get_props kws) (fst kv)) kvs
            | _ => true end
        | KAddlS s' =>
            match j with
            | JObj kvs => forallb (fun kv => match kv with (key, x) =>
                             has_key (get_props kws) key || rec s' x end) kvs
            | _ => true end
        | KPropNames s' =>
            match j with JObj kvs => forallb (fun kv => rec s' (JStr (fst kv))) kvs | _ => true end
        | KPrefix l => match j with JArr xs => forallb2 (fun s' x => rec s' x) l xs | _ => true end
        | KItems s' =>
            match j with JArr xs => forallb (rec s') (skipn (get_prefix_len kws) xs) | _ => true end
        | KMin m => match j with JArr xs => (m <=? Z.of_nat (List.length xs))%Z | _ => true end
        | KMax m => match j with JArr xs => (Z.of_nat (List.length xs) <=? m)%Z | _ => true end
        | KUnique b => match j with JArr xs => negb b || no_dup_json xs | _ => true end
        end.

  Fixpoint jvalid (fuel: nat) (s: schema) (j: json) {struct fuel} : bool :=
    match fuel with
    | O => false
    | Datatypes.S n => forallb (kw_ok (jvalid n) (kws_of s) j) (kws_of s)
    end.

  Lemma jvalid_S n s j : jvalid (Datatypes.S n) s j = forallb (kw_ok (jvalid n) (kws_of s) j) (kws_of s).
  Proof. reflexivity. Qed.
End Validator.

(* ---- structural equality of schemas (comparison with the real build_json_schema output) ---- *)
Fixpoint schema_eqb (fuel: nat) (a b: schema) {struct fuel} : bool :=
  match fuel with
  | O => false
  | Datatypes.S n =>
    let seq := schema_eqb n in
    let fix leq (l1 l2: list schema) : bool :=
        match l1, l2 with [], [] => true | x :: r1, y :: r2 => seq x y && leq r1 r2 | _, _ => false end in
    let fix peq (l1 l2: list (string * schema)) : bool :=
        match l1, l2 with
        | [], [] => true
        | (k1, x) :: r1, (k2, y) :: r2 => String.eqb k1 k2 && seq x y && peq r1 r2
        | _, _ => false end in
    let fix jeq (l1 l2: list json) : bool :=
        match l1, l2 with [], [] => true | x :: r1, y :: r2 => json_eqb x y && jeq r1 r2 | _, _ => false end in
    let fix streq (l1 l2: list string) : bool :=
        match l1, l2 with [], [] => true | x :: r1, y :: r2 => String.eqb x y && streq r1 r2 | _, _ => false end in
    let keq (x y: kw) : bool :=
        match x, y with
        | KType s, KType t => jtype_eqb s t
        | KTitle s, KTitle t | KFormat s, KFormat t | KPattern s, KPattern t => String.eqb s t
        | KEnum u, KEnum v => jeq u v
        | KConst u, KConst v => json_eqb u v
        | KAnyOf u, KAnyOf v | KPrefix u, KPrefix v => leq u v
        | KRef p s, KRef q t => String.eqb p q && String.eqb s t
        | KProps u, KProps v => peq u v
        | KRequired u, KRequired v => streq u v
        | KAddl u, KAddl v | KUnique u, KUnique v => Bool.eqb u v
        | KAddlS u, KAddlS v | KPropNames u, KPropNames v | KItems u, KItems v => seq u v
        | KMin u, KMin v | KMax u, KMax v => Z.eqb u v
        | _, _ => false end in
    (fix kweq (l1 l2: list kw) : bool :=
       match l1, l2 with [], [] => true | x :: r1, y :: r2 => keq x y && kweq r1 r2 | _, _ => false end)
      (kws_of a) (kws_of b)
  end.

Fixpoint defs_eqb (fuel: nat) (a b: list (string * schema)) : bool :=
  match a, b with
  | [], [] => true
  | (k1, x) :: r1, (k2, y) :: r2 => String.eqb k1 k2 && schema_eqb fuel x y && defs_eqb fuel r1 r2
  | _, _ => false end.
