(* C11 / K43a: what the translated creators of the basic scalar types (coq/gen/K43a.v) say about union members. *)
From Coq Require Import List Bool.
From Verif Require Import UnionModel UnionEmit ScalarCreators.
From VerifGen Require Import K43a.
Import ListNotations.

(* the translated creators in registration order; the registry takes the first that answers *)
Definition scalar_unpack (o: oty) : option sexpr :=
  orelse (unpack_any o) (orelse (unpack_number o) (orelse (unpack_bool o) (orelse (unpack_none o) (unpack_str o)))).
Definition scalar_pack (o: oty) : option sexpr :=
  orelse (pack_any o) (orelse (pack_number_and_bool_and_none o) (pack_str o)).

(* each of int / float / bool / str / NoneType gets a TypeMatchEligibleExpression of its OWN coercion *)
Theorem scalar_members_tme : forall k, scalar_unpack (origin_of k) = Some (STme k).
Proof. destruct k; reflexivity. Qed.

(* ... and the packer expression "value" (identity member of pack_union) *)
Theorem scalar_members_identity_packer : forall k, scalar_pack (origin_of k) = Some SValue.
Proof. destruct k; reflexivity. Qed.

(* nothing else is TypeMatchEligible through these creators, except None spelled as a type and str subclasses *)
Theorem tme_only_scalars : forall o k, scalar_unpack o = Some (STme k) ->
  o = origin_of k \/ (o = ONonePy /\ k = KNone) \/ (o = OStr true /\ k = KStr).
Proof.
  intros o k H. destruct o as [| | | | |[|]| |]; simpl in H; inversion H; subst; auto.
Qed.

(* bool is not answered by the number creator (True is never read through int()) and the five creators
   are pairwise exclusive, so their order does not matter *)
Theorem creators_exclusive : forall o,
  let answers := map (fun f => match f o with Some _ => 1 | None => 0 end)
                     [unpack_any; unpack_number; unpack_bool; unpack_none; unpack_str] in
  fold_right Nat.add 0 answers <= 1.
Proof. intros o. destruct o as [| | | | |[|]| |]; simpl; repeat constructor. Qed.

Theorem bool_not_number : unpack_number OBool = None /\ unpack_bool OBool = Some (STme KBool).
Proof. split; reflexivity. Qed.

(* the member the emission loop of K19 sees for a type answered by these creators *)
Definition mspec_of (o: oty) (e: nat) (dec: uv -> option uv) : mspec :=
  match scalar_unpack o with
  | Some (STme k) => SM k
  | Some SValue => NM e true Some
  | None => NM e false dec end.

(* a basic scalar type is the scalar member MS k of union_dec / ref_union; Any is the pass-through member *)
Theorem scalar_type_is_scalar_member : forall k e dec,
  mspec_of (origin_of k) e dec = SM k /\ to_member (mspec_of (origin_of k) e dec) = MS k /\ is_tme (mspec_of (origin_of k) e dec) = true.
Proof. intros k e dec. destruct k; repeat split; reflexivity. Qed.

Theorem any_is_value_member : forall e dec, mspec_of OAny e dec = NM e true Some.
Proof. reflexivity. Qed.
