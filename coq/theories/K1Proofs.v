(* Theorems about the kernel K1 = mashumaro.core.helpers.parse_timezone as
   translated from /repo on this run (VerifGen.K1). *)
From Coq Require Import List String Ascii ZArith Bool Lia.
From Verif Require Import Regex PyK TzName.
From VerifGen Require Import K1.
Import ListNotations.
Open Scope string_scope.
Open Scope Z_scope.

Definition rt_ok (m: Z) : bool :=
  match parse_timezone (KStr (tzname m)) with Ok (KTz m') => m' =? m | _ => false end.

Definition tz_range : list Z := map (fun n => Z.of_nat n - 1439) (seq 0 2879).

Lemma tz_range_complete m : -1440 < m < 1440 -> In m tz_range.
Proof.
  intros H. unfold tz_range. apply in_map_iff. exists (Z.to_nat (m + 1439)). split; [lia|].
  apply in_seq. lia.
Qed.

(* the domain of whole-minute timezone offsets is finite: (-24h, 24h) *)
Lemma tz_sweep : forallb rt_ok tz_range = true.
Proof. vm_compute. reflexivity. Qed.

Theorem parse_timezone_tzname : forall m, -1440 < m < 1440 ->
  parse_timezone (KStr (tzname m)) = Ok (KTz m).
Proof.
  intros m H. pose proof (proj1 (forallb_forall _ _) tz_sweep m (tz_range_complete m H)) as E.
  unfold rt_ok in E. destruct (parse_timezone (KStr (tzname m))) as [[]|]; try discriminate.
  apply Z.eqb_eq in E. subst. reflexivity.
Qed.

(* error side: a non-string raises TypeError, nothing is returned for it *)
Lemma parse_timezone_nonstr v : (forall s, v <> KStr s) -> parse_timezone v = Raise TypeError.
Proof. intros H. destruct v; try reflexivity. exfalso. eapply H. reflexivity. Qed.

(* whatever is returned is an offset strictly inside (-24h, 24h) *)
Definition tz_result_ok (r: res kv) : bool :=
  match r with Ok (KTz m) => (-1440 <? m) && (m <? 1440) | Ok _ => false | Raise ValueError => true | Raise TypeError => true | Raise _ => false end.
