(* C13: DialectLayer.first_hit IS the translated consumer loop of pack.py / unpack.py
   (kernel K5: get_overridden_serialization_method / get_overridden_deserialization_method, inner
   `for strategy in ...` loop) on the embedding of strategy values into the kernel's value type:
     absent entry                 -> None
     SerializationStrategy object -> namespace with serialize / deserialize / __use_annotations__ = False
     dict                         -> dict from "serialize" / "deserialize" to callables
   so the layered-vs-merged theorem of DialectLayer holds for the translated code itself. *)
From Coq Require Import List String Ascii ZArith Bool Lia.
From Verif Require Import Regex PyK PyK_strat DialectMerge DialectLayer.
From VerifGen Require Import K5.
Import ListNotations.
Open Scope nat_scope.
Open Scope string_scope.

(* callables are objects other than pass_through (KObj 0) *)
Definition ser_of (id: nat) : kv := KObj (S (2 * id)).
Definition de_of (id: nat) : kv := KObj (S (S (2 * id))).
Definition fun_of (f: nat) : kv := KObj (S f).

Definition emb_obj (id: nat) : kv :=
  KNs [("__use_annotations__", KBool false); ("serialize", ser_of id); ("deserialize", de_of id)].
Definition emb_ent (e: list (string * nat)) : list (kv * kv) :=
  map (fun p => (KStr (fst p), fun_of (snd p))) e.
Definition emb (s: option sval) : kv :=
  match s with
  | None => KNone
  | Some (SStrat id) => emb_obj id
  | Some (SDict e) => KDict (emb_ent e)
  end.

Fixpoint gen_of (l: list kv) : gen :=
  match l with [] => GNil | v :: r => GYield v (gen_of r) end.

Definition eff_ser (e: eff) : kv :=
  match e with EStrat id => ser_of id | EFun f => fun_of f | ENone => KNone end.
Definition eff_de (e: eff) : kv :=
  match e with EStrat id => de_of id | EFun f => fun_of f | ENone => KNone end.

Lemma d_get_emb_ent e dir :
  d_get (emb_ent e) (KStr dir) = match e_get e dir with Some f => Some (fun_of f) | None => None end.
Proof.
  unfold e_get. induction e as [|[k f] r IH]; cbn; [reflexivity|].
  destruct (String.eqb k dir); [reflexivity|exact IH].
Qed.

Section Consumer.
  Variables (dl cfg dd md ann ty orig ct typ: kv).

  Theorem first_hit_is_pack_code : forall srcs K,
    get_overridden_serialization_method_for_strategy dl cfg dd md ann ty orig ct typ K (gen_of (map emb srcs)) KNone =
    match first_hit srcs "serialize" with ENone => K KNone | e => Ok (eff_ser e) end.
  Proof.
    induction srcs as [|s r IH]; intros K; [reflexivity|].
    cbn [map gen_of get_overridden_serialization_method_for_strategy first_hit].
    destruct s as [[id|e]|].
    - reflexivity.
    - cbn [emb k_is kv_eqb k_pass_through k_truthy k_isinstance_dict k_dict_get bind effective].
      rewrite d_get_emb_ent. unfold e_get. destruct (a_get String.eqb e "serialize") as [f|].
      + reflexivity.
      + cbn [k_truthy k_is kv_eqb negb]. apply IH.
    - cbn [emb k_is kv_eqb k_pass_through k_truthy k_isinstance_dict k_isinstance_strategy negb effective]. apply IH.
  Qed.

  Theorem first_hit_is_unpack_code : forall srcs K,
    get_overridden_deserialization_method_for_strategy dl cfg dd md ann ty orig ct typ K (gen_of (map emb srcs)) KNone =
    match first_hit srcs "deserialize" with ENone => K KNone | e => Ok (eff_de e) end.
  Proof.
    induction srcs as [|s r IH]; intros K; [reflexivity|].
    cbn [map gen_of get_overridden_deserialization_method_for_strategy first_hit].
    destruct s as [[id|e]|].
    - reflexivity.
    - cbn [emb k_is kv_eqb k_pass_through k_truthy k_isinstance_dict k_dict_get bind effective].
      rewrite d_get_emb_ent. unfold e_get. destruct (a_get String.eqb e "deserialize") as [f|].
      + reflexivity.
      + cbn [k_truthy k_is kv_eqb negb]. apply IH.
    - cbn [emb k_is kv_eqb k_pass_through k_truthy k_isinstance_dict k_isinstance_strategy negb effective]. apply IH.
  Qed.

  (* the translated loops cannot tell `dialect=D` over Config.dialect = B from Config.dialect = B.merge(D) *)
  Theorem layered_equals_merged_pack_code c o k rest K :
    well_formed c o k -> layer_ok (sm_get c k) (sm_get o k) "serialize" = true ->
    get_overridden_serialization_method_for_strategy dl cfg dd md ann ty orig ct typ K
      (gen_of (map emb (layered_sources c o k rest))) KNone =
    get_overridden_serialization_method_for_strategy dl cfg dd md ann ty orig ct typ K
      (gen_of (map emb (merged_sources c o k rest))) KNone.
  Proof.
    intros W OK. rewrite !first_hit_is_pack_code. rewrite (layered_strategy_partial c o k "serialize" rest W OK). reflexivity.
  Qed.

  Theorem layered_equals_merged_unpack_code c o k rest K :
    well_formed c o k -> layer_ok (sm_get c k) (sm_get o k) "deserialize" = true ->
    get_overridden_deserialization_method_for_strategy dl cfg dd md ann ty orig ct typ K
      (gen_of (map emb (layered_sources c o k rest))) KNone =
    get_overridden_deserialization_method_for_strategy dl cfg dd md ann ty orig ct typ K
      (gen_of (map emb (merged_sources c o k rest))) KNone.
  Proof.
    intros W OK. rewrite !first_hit_is_unpack_code. rewrite (layered_strategy_partial c o k "deserialize" rest W OK). reflexivity.
  Qed.
End Consumer.

(* where merge is NOT the layering, the translated loop itself tells the two apart *)
Lemma layered_differs_in_code :
  let c := [(1, SStrat 7)] in let o := [(1, SDict [("serialize", 3)])] in
  get_overridden_deserialization_method_for_strategy KNone KNone KNone KNone KNone KNone KNone KNone KNone (fun v => Ok v)
    (gen_of (map emb (layered_sources c o 1 []))) KNone = Ok (de_of 7) /\
  get_overridden_deserialization_method_for_strategy KNone KNone KNone KNone KNone KNone KNone KNone KNone (fun v => Ok v)
    (gen_of (map emb (merged_sources c o 1 []))) KNone = Ok KNone.
Proof. split; vm_compute; reflexivity. Qed.

(* ------------------------------------------------------------------ *)
(* end to end over the translated generator AND the translated consumer *)
(* ------------------------------------------------------------------ *)
Definition tkey (k: nat) : kv := KObj (S k).            (* a type object *)
Definition emb_map (m: smap) : list (kv * kv) := map (fun p => (tkey (fst p), emb (Some (snd p)))) m.

Lemma dget_emb_map m k : dget (emb_map m) (tkey k) = emb (sm_get m k).
Proof.
  unfold dget, sm_get. induction m as [|[k' v] r IH]; cbn; [reflexivity|].
  destruct (Nat.eqb k' k); [reflexivity|exact IH].
Qed.

Lemma gen_of_items g : gen_tail g = None -> g = gen_of (gen_items g).
Proof. induction g as [|v r IH|e]; cbn; intros H; [reflexivity|rewrite <- (IH H); reflexivity|discriminate]. Qed.

Section EndToEnd.
  Variables (d b m cfg dd: list (string * kv)) (c o cm dm: smap) (k: nat).
  Hypothesis Hd : ns_get d "serialization_strategy" = Some (KDict (emb_map o)).
  Hypothesis Hb : ns_get b "serialization_strategy" = Some (KDict (emb_map c)).
  Hypothesis Hm : ns_get m "serialization_strategy" = Some (KDict (emb_map (merge_strategies c o))).
  Hypothesis Hcd : ns_get cfg "dialect" = Some (KNs b).
  Hypothesis Hcs : ns_get cfg "serialization_strategy" = Some (KDict (emb_map cm)).
  Hypothesis Hdd : ns_get dd "serialization_strategy" = Some (KDict (emb_map dm)).

  Let twin_cfg := ns_set cfg "dialect" (KNs m).
  Let rest := [sm_get cm k; sm_get dm k].

  Lemma layered_gen :
    iter_serialization_strategies_inner (KNs d) (KNs cfg) (KNs dd) (tkey k) = gen_of (map emb (layered_sources c o k rest)).
  Proof.
    destruct (layered_sources_are_code d b cfg dd (tkey k) _ _ _ _ Hd Hcd Hb Hcs Hdd) as [I T].
    rewrite (gen_of_items _ T), I, !dget_emb_map. reflexivity.
  Qed.

  Lemma merged_gen :
    iter_serialization_strategies_inner KNone (KNs twin_cfg) (KNs dd) (tkey k) = gen_of (map emb (merged_sources c o k rest)).
  Proof.
    destruct (merged_sources_are_code m cfg dd (tkey k) _ _ _ Hm Hcs Hdd) as [I T].
    unfold twin_cfg. rewrite (gen_of_items _ T), I, !dget_emb_map. reflexivity.
  Qed.

  Variables (md ann ty orig ct typ: kv).

  Theorem layered_pack_end_to_end K :
    well_formed c o k -> layer_ok (sm_get c k) (sm_get o k) "serialize" = true ->
    get_overridden_serialization_method_for_strategy (KNs d) (KNs cfg) (KNs dd) md ann ty orig ct typ K
      (iter_serialization_strategies_inner (KNs d) (KNs cfg) (KNs dd) (tkey k)) KNone =
    get_overridden_serialization_method_for_strategy KNone (KNs twin_cfg) (KNs dd) md ann ty orig ct typ K
      (iter_serialization_strategies_inner KNone (KNs twin_cfg) (KNs dd) (tkey k)) KNone.
  Proof.
    intros W OK. rewrite layered_gen, merged_gen, !first_hit_is_pack_code.
    rewrite (layered_strategy_partial c o k "serialize" rest W OK). reflexivity.
  Qed.

  Theorem layered_unpack_end_to_end K :
    well_formed c o k -> layer_ok (sm_get c k) (sm_get o k) "deserialize" = true ->
    get_overridden_deserialization_method_for_strategy (KNs d) (KNs cfg) (KNs dd) md ann ty orig ct typ K
      (iter_serialization_strategies_inner (KNs d) (KNs cfg) (KNs dd) (tkey k)) KNone =
    get_overridden_deserialization_method_for_strategy KNone (KNs twin_cfg) (KNs dd) md ann ty orig ct typ K
      (iter_serialization_strategies_inner KNone (KNs twin_cfg) (KNs dd) (tkey k)) KNone.
  Proof.
    intros W OK. rewrite layered_gen, merged_gen, !first_hit_is_unpack_code.
    rewrite (layered_strategy_partial c o k "deserialize" rest W OK). reflexivity.
  Qed.
End EndToEnd.
