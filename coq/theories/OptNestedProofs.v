(* C08 - proofs about the hereditary model OptNested.v *)
From Coq Require Import List String Ascii ZArith Bool Lia.
From Verif Require Import OptProj OptProjProofs OptNested.
Import ListNotations.
Open Scope string_scope.

(* induction over instances (nested through lists) *)
Section NodeInd.
  Variable P : node -> Prop.
  Hypothesis HL : forall r p, P (NLeaf r p).
  Hypothesis HO : forall cid ch, Forall P ch -> P (NObj cid ch).
  Hypothesis HI : forall items, Forall P items -> P (NList items).
  Hypothesis HD : forall items, Forall P (map snd items) -> P (NDict items).
  Fixpoint node_ind' (n: node) : P n :=
    match n with
    | NLeaf r p => HL r p
    | NObj cid ch => HO cid ch ((fix go (l: list node) : Forall P l :=
                                   match l with [] => Forall_nil P | x :: r => Forall_cons x (node_ind' x) (go r) end) ch)
    | NList items => HI items ((fix go (l: list node) : Forall P l :=
                                  match l with [] => Forall_nil P | x :: r => Forall_cons x (node_ind' x) (go r) end) items)
    | NDict items => HD items ((fix go (l: list (string * node)) : Forall P (map snd l) :=
                                  match l with
                                  | [] => Forall_nil P
                                  | kx :: r => Forall_cons (snd kx) (node_ind' (snd kx)) (go r) end) items)
    end.
End NodeInd.

(* the children loops of pack_h / ok_h as first-class functions *)
Fixpoint go_pack (f: node -> list nat -> option fval) (ch: list node) (fs: list (fplan * list nat)) : option (list fval) :=
  match ch, fs with
  | [], [] => Some []
  | x :: ch', f0 :: fs' =>
      match f0 with (_, mem') =>
        match f x mem', go_pack f ch' fs' with
        | Some v, Some r => Some (v :: r)
        | _, _ => None end end
  | _, _ => None end.

Fixpoint go_ok (f: node -> list nat -> bool) (ch: list node) (fs: list (fplan * list nat)) : bool :=
  match ch, fs with
  | [], [] => true
  | x :: ch', f0 :: fs' => match f0 with (_, mem') => f x mem' && go_ok f ch' fs' end
  | _, _ => false end.

Fixpoint go_items (f: node -> option fval) (l: list node) : option (list pv) :=
  match l with
  | [] => Some []
  | x :: r => match f x, go_items f r with
              | Some v, Some t => Some (snd v :: t)
              | _, _ => None end end.

Fixpoint go_entries (f: node -> option fval) (l: list (string * node)) : option (list (string * pv)) :=
  match l with
  | [] => Some []
  | (k, x) :: r => match f x, go_entries f r with
                   | Some v, Some t => Some ((k, snd v) :: t)
                   | _, _ => None end end.

Section Table.
  Variable ct : list cls.
  Variable nailed : bool.
  Notation pack_h := (OptNested.pack_h ct nailed).
  Notation ok_h := (OptNested.ok_h ct nailed).
  Notation pick := (OptNested.pick ct nailed).
  Notation dd_of := (OptNested.dd_of nailed).

  Definition avail_of (spec: bool) (o: opts) : kwv :=
    if spec then {| kw_on := Some (e_on (eff_of o)); kw_ba := Some (e_ba (eff_of o)); kw_dl := o.(o_call) |}
    else {| kw_on := Some (r_on (ctx_of o)); kw_ba := Some (r_ba (ctx_of o)); kw_dl := o.(o_call) |}.

  Definition finish (spec: bool) (o: opts) (fs: list fplan) (vs: list fval) : option fval :=
    match (if spec then Some (project (eff_of o) fs vs (plain_out fs vs)) else to_dict_model o fs vs) with
    | Some l => Some (POpq 0, PDict (dict_of l))
    | None => None end.

  Lemma pack_h_obj spec cid ch members outer avail pd :
    pack_h spec (NObj cid ch) members outer avail pd =
    match nth_error ct cid, pick spec outer members cid with
    | Some c, Some fl =>
        let o := opts_of c (restrict fl avail) (dd_of c pd) in
        match go_pack (fun x m => pack_h spec x m c.(c_flags) (avail_of spec o) (pass_dd (dd_of c pd) o.(o_call) c.(c_cfgd)))
                      ch c.(c_fields) with
        | Some vs => finish spec o (map fst c.(c_fields)) vs
        | None => None end
    | _, _ => None end.
  Proof.
    cbn [pack_h]. destruct (nth_error ct cid) as [c|]; [|reflexivity].
    destruct (pick spec outer members cid) as [fl|]; [|reflexivity].
    cbv zeta. unfold finish, avail_of.
    set (a := if spec then _ else _).
    match goal with |- match ?g1 with _ => _ end = match ?g2 with _ => _ end => assert (Hg: g1 = g2) end.
    { generalize (c_fields c). induction ch as [|x ch IH]; intros [|[p m] fs]; cbn; try reflexivity.
      rewrite IH. reflexivity. }
    rewrite Hg. reflexivity.
  Qed.

  Lemma pack_h_list spec items members outer avail pd :
    pack_h spec (NList items) members outer avail pd =
    match go_items (fun x => pack_h spec x members outer avail pd) items with
    | Some l => Some (POpq (S (List.length items)), PList l)
    | None => None end.
  Proof.
    cbn [pack_h].
    match goal with |- match ?g1 with _ => _ end = match ?g2 with _ => _ end => assert (Hg: g1 = g2) end.
    { induction items as [|x r IH]; cbn; [reflexivity | rewrite IH; reflexivity]. }
    rewrite Hg. reflexivity.
  Qed.

  Lemma pack_h_dict spec items members outer avail pd :
    pack_h spec (NDict items) members outer avail pd =
    match go_entries (fun x => pack_h spec x members outer avail pd) items with
    | Some l => Some (POpq (S (List.length items)), PDict l)
    | None => None end.
  Proof.
    cbn [OptNested.pack_h].
    match goal with |- match ?g1 with _ => _ end = match ?g2 with _ => _ end => assert (Hg: g1 = g2) end.
    { induction items as [|[k x] r IH]; cbn; [reflexivity | rewrite IH; reflexivity]. }
    rewrite Hg. reflexivity.
  Qed.

  Lemma ok_h_dict items members outer avail pd :
    ok_h (NDict items) members outer avail pd = forallb (fun kx => ok_h (snd kx) members outer avail pd) items.
  Proof. cbn [OptNested.ok_h]. induction items as [|[k x] r IH]; cbn; [reflexivity | rewrite IH; reflexivity]. Qed.

  Lemma ok_h_obj cid ch members outer avail pd :
    ok_h (NObj cid ch) members outer avail pd =
    match nth_error ct cid, pick true outer members cid, pick false outer members cid with
    | Some c, Some fl, Some fl' =>
        let o := opts_of c (restrict fl avail) (dd_of c pd) in
        let pd' := pass_dd (dd_of c pd) o.(o_call) c.(c_cfgd) in
        flags_eqb fl fl' && (nailed || Nat.leb (List.length members) 1) && kw_ok o && flag_defaults_ok o &&
        go_ok (fun x m => ok_h x m c.(c_flags) (avail_of true o) pd') ch c.(c_fields) &&
        match go_pack (fun x m => pack_h true x m c.(c_flags) (avail_of true o) pd') ch c.(c_fields) with
        | Some vs => vals_ok (map fst c.(c_fields)) vs
        | None => false end
    | _, _, _ => false end.
  Proof.
    cbn [ok_h]. destruct (nth_error ct cid) as [c|]; [|reflexivity].
    destruct (pick true outer members cid) as [fl|]; [|reflexivity].
    destruct (pick false outer members cid) as [fl'|]; [|reflexivity].
    cbv zeta. unfold avail_of.
    f_equal; [f_equal|].
    - generalize (c_fields c). induction ch as [|x ch IH]; intros [|[p m] fs]; cbn; try reflexivity.
      rewrite IH. reflexivity.
    - match goal with |- match ?g1 with _ => _ end = match ?g2 with _ => _ end => assert (Hg: g1 = g2) end.
      { generalize (c_fields c). induction ch as [|x ch IH]; intros [|[p m] fs]; cbn; try reflexivity.
        rewrite IH. reflexivity. }
      rewrite Hg. reflexivity.
  Qed.

  Lemma ok_h_list items members outer avail pd :
    ok_h (NList items) members outer avail pd = forallb (fun x => ok_h x members outer avail pd) items.
  Proof. cbn [ok_h]. induction items as [|x r IH]; cbn; [reflexivity | rewrite IH; reflexivity]. Qed.

  (* ---- flags ---- *)
  Lemma flags_eqb_eq a b : flags_eqb a b = true -> a = b.
  Proof.
    destruct a as [a1 a2 a3 a4], b as [b1 b2 b3 b4]. unfold flags_eqb. cbn.
    destruct a1, a2, a3, a4, b1, b2, b3, b4; cbn; intros H; try discriminate; reflexivity.
  Qed.

  Lemma pick_true_both outer members cid fl :
    pick true outer members cid = Some fl -> exists x, fl = both outer x.
  Proof.
    unfold OptNested.pick, pick_spec. destruct nailed; [destruct (conforms _ _ _) | destruct (existsb _ _)];
      try discriminate; intros H; inversion H.
    - eexists; reflexivity.
    - exists no_flags. destruct outer as [o1 o2 o3 o4]. unfold both, no_flags. cbn. now rewrite !andb_false_r.
  Qed.

  Lemma restrict_both outer x a : restrict (both outer x) a = restrict (both outer x) (restrict outer a).
  Proof.
    destruct outer as [o1 o2 o3 o4], x as [x1 x2 x3 x4], a as [a1 a2 a3]. unfold restrict, both. cbn.
    destruct o1, o2, o3, x1, x2, x3; reflexivity.
  Qed.

  Lemma avail_restrict c k dd :
    kw_ok (opts_of c k dd) = true -> flag_defaults_ok (opts_of c k dd) = true ->
    restrict (c_flags c) (avail_of false (opts_of c k dd)) = restrict (c_flags c) (avail_of true (opts_of c k dd)).
  Proof.
    intros Hkw Hd14. pose proof (coherent_of _ Hkw Hd14) as (_ & Hcon & Hcba).
    unfold avail_of, restrict. cbn [kw_on kw_ba kw_dl].
    cbn [ctx_of s_fon s_fba opts_of o_fon o_fba] in Hcon, Hcba.
    f_equal.
    - destruct (g_on (c_flags c)); [now rewrite Hcon | reflexivity].
    - destruct (g_ba (c_flags c)); [now rewrite Hcba | reflexivity].
  Qed.

  (* ---- the hereditary theorem ---- *)
  Theorem nested_project : forall (n: node) (members: list nat) (outer: flags) (a1 a2: kwv) (pd: option ns),
    restrict outer a1 = restrict outer a2 ->
    ok_h n members outer a2 pd = true ->
    pack_h false n members outer a1 pd = pack_h true n members outer a2 pd.
  Proof.
    induction n as [raw packed | cid ch IH | items IH | items IH] using node_ind'; intros members outer a1 a2 pd Ha Hok.
    - reflexivity.
    - rewrite !pack_h_obj. rewrite ok_h_obj in Hok.
      destruct (nth_error ct cid) as [c|]; [|discriminate].
      destruct (pick true outer members cid) as [fl|] eqn:Es; [|discriminate].
      destruct (pick false outer members cid) as [fl'|] eqn:Ei; [|discriminate].
      cbv zeta in Hok.
      apply andb_true_iff in Hok. destruct Hok as [Hok Hvals].
      apply andb_true_iff in Hok. destruct Hok as [Hok Hch].
      apply andb_true_iff in Hok. destruct Hok as [Hok Hd14].
      apply andb_true_iff in Hok. destruct Hok as [Hok Hkw].
      apply andb_true_iff in Hok. destruct Hok as [Hfl _].
      apply flags_eqb_eq in Hfl. subst fl'.
      assert (Hr: restrict fl a1 = restrict fl a2).
      { destruct (pick_true_both _ _ _ _ Es) as [x Hx]. rewrite Hx.
        rewrite (restrict_both outer _ a1), (restrict_both outer _ a2). now rewrite Ha. }
      cbv zeta. rewrite Hr. set (o := opts_of c (restrict fl a2) (dd_of c pd)) in *.
      pose proof (avail_restrict c _ _ Hkw Hd14) as Hav. fold o in Hav.
      set (pd' := pass_dd (dd_of c pd) (o_call o) (c_cfgd c)) in *.
      assert (Hgo: go_pack (fun x m => pack_h false x m (c_flags c) (avail_of false o) pd') ch (c_fields c)
                   = go_pack (fun x m => pack_h true x m (c_flags c) (avail_of true o) pd') ch (c_fields c)).
      { clear Hvals. revert Hch. generalize (c_fields c).
        induction ch as [|x ch IHch]; intros [|[p m] fs] Hch; cbn in *; try reflexivity; try discriminate.
        apply andb_true_iff in Hch. destruct Hch as [Hx Hrest].
        inversion IH as [|? ? IHx IHr]; subst.
        rewrite (IHx m (c_flags c) _ _ pd' Hav Hx). rewrite (IHch IHr fs Hrest). reflexivity. }
      rewrite Hgo.
      destruct (go_pack _ ch (c_fields c)) as [vs|]; [|discriminate].
      unfold finish. rewrite (project_partial o _ vs Hkw Hvals Hd14). reflexivity.
    - rewrite !pack_h_list. rewrite ok_h_list in Hok.
      assert (Hgo: go_items (fun x => pack_h false x members outer a1 pd) items
                   = go_items (fun x => pack_h true x members outer a2 pd) items).
      { induction items as [|x r IHr]; cbn in *; [reflexivity|].
        apply andb_true_iff in Hok. destruct Hok as [Hx Hrest].
        inversion IH as [|? ? IHx IHrest]; subst.
        rewrite (IHx members outer a1 a2 pd Ha Hx), (IHr IHrest Hrest). reflexivity. }
      rewrite Hgo. reflexivity.
    - rewrite !pack_h_dict. rewrite ok_h_dict in Hok.
      assert (Hgo: go_entries (fun x => pack_h false x members outer a1 pd) items
                   = go_entries (fun x => pack_h true x members outer a2 pd) items).
      { induction items as [|[k x] r IHr]; cbn in *; [reflexivity|].
        apply andb_true_iff in Hok. destruct Hok as [Hx Hrest].
        inversion IH as [|? ? IHx IHrest]; subst.
        rewrite (IHx members outer a1 a2 pd Ha Hx), (IHr IHrest Hrest). reflexivity. }
      rewrite Hgo. reflexivity.
  Qed.

  (* no leak: a nested class that enabled none of the keyword flags receives no keyword
     argument, whatever the outer class's options, flags and run-time values are *)

  Lemma restrict_no_flags outer a : restrict (both outer no_flags) a = no_kw.
  Proof. destruct outer as [o1 o2 o3 o4]. unfold restrict, both, no_flags. cbn. now rewrite !andb_false_r. Qed.

  Lemma pick_no_flags spec cid : flags_c ct cid = no_flags ->
    forall out a0, exists fl, pick spec out [cid] cid = Some fl /\ restrict fl a0 = no_kw.
  Proof.
    intros Hf out a0. unfold OptNested.pick. destruct nailed.
    - exists (both out no_flags). split; [|apply restrict_no_flags]. destruct spec.
      + unfold pick_spec, conforms. destruct (List.length ct); cbn; rewrite Nat.eqb_refl; cbn; now rewrite Hf.
      + cbn. rewrite Hf. destruct out as [o1 o2 o3 o4]. unfold both, no_flags, subflags. cbn.
        now rewrite !andb_false_r.
    - exists no_flags. cbn. rewrite Nat.eqb_refl. cbn. split; reflexivity.
  Qed.

  Theorem no_leak : forall spec cid ch outer outer' a a' pd,
    flags_c ct cid = no_flags ->
    pack_h spec (NObj cid ch) [cid] outer a pd = pack_h spec (NObj cid ch) [cid] outer' a' pd.
  Proof.
    intros spec cid ch outer outer' a a' pd Hf. rewrite !pack_h_obj.
    destruct (nth_error ct cid) as [c|] eqn:Ec; [|reflexivity].
    destruct (pick_no_flags spec cid Hf outer a) as [fl [E1 R1]].
    destruct (pick_no_flags spec cid Hf outer' a') as [fl' [E2 R2]].
    rewrite E1, E2. cbv zeta. rewrite R1, R2. reflexivity.
  Qed.

  (* codec path: the call of a nested class names no keyword at all, so EVERY nested class (whatever
     it enabled) is serialized identically under every owner *)
  Theorem codec_no_leak : nailed = false -> forall spec cid ch outer outer' a a' pd,
    pack_h spec (NObj cid ch) [cid] outer a pd = pack_h spec (NObj cid ch) [cid] outer' a' pd.
  Proof.
    intros Hn spec cid ch outer outer' a a' pd. rewrite !pack_h_obj.
    destruct (nth_error ct cid) as [c|] eqn:Ec; [|reflexivity].
    unfold OptNested.pick. rewrite Hn. cbn. rewrite Nat.eqb_refl. cbn. reflexivity.
  Qed.

  (* codec path: every class, mixin or plain, runs with its own Config.dialect and Config over the
     codec's default dialect, without keyword arguments; the same default dialect goes further down *)
  Theorem codec_obj : nailed = false -> forall spec cid ch outer a pd,
    pack_h spec (NObj cid ch) [cid] outer a pd =
    match nth_error ct cid with
    | Some c =>
        let o := opts_of c no_kw pd in
        match go_pack (fun x m => pack_h spec x m c.(c_flags) (avail_of spec o) pd) ch c.(c_fields) with
        | Some vs => finish spec o (map fst c.(c_fields)) vs
        | None => None end
    | None => None end.
  Proof.
    intros Hn spec cid ch outer a pd. rewrite pack_h_obj.
    destruct (nth_error ct cid) as [c|] eqn:Ec; [|reflexivity].
    unfold OptNested.pick, OptNested.dd_of. rewrite Hn. cbn. rewrite Nat.eqb_refl. cbn. reflexivity.
  Qed.

  (* what is passed down is the compiling builder's default dialect, never its Config.dialect or
     call dialect; from a mixin root (no default dialect) every class therefore runs with o_dd = None:
     the result does not depend on WHICH outer class compiled a plain nested class first *)
  Lemma pass_dd_none d cd : pass_dd None d cd = None.
  Proof. reflexivity. Qed.

  Lemma dd_of_none c : dd_of c None = None.
  Proof. unfold OptNested.dd_of. destruct nailed, (c_mixin c); reflexivity. Qed.

  (* a nested class without keyword flags under a mixin root: its part of the output is a function
     of its own class and instance only -- independent of the outer classes' Config, Config.dialect,
     call dialect, flags and run-time values *)
  Theorem no_leak_root : forall spec cid ch outer outer' a a',
    flags_c ct cid = no_flags ->
    pack_h spec (NObj cid ch) [cid] outer a None = pack_h spec (NObj cid ch) [cid] outer' a' None.
  Proof. intros. now apply no_leak. Qed.

  (* a nested class that set nothing (typically a plain dataclass without Config): under a mixin root
     its part of the output IS its own plain serialization, whatever the owners are *)
  Definition option_free (c: cls) : Prop :=
    c.(c_cfgd) = None /\ c.(c_cfg) = ns_unset /\ c.(c_sort) = false /\ c.(c_flags) = no_flags.
  Definition leaf (v: fval) : node := NLeaf (fst v) (snd v).

  Lemma go_pack_leaves f (vs: list fval) (fields: list (fplan * list nat)) :
    (forall v m, f (leaf v) m = Some v) -> List.length vs = List.length fields ->
    go_pack f (map leaf vs) fields = Some vs.
  Proof.
    intros Hf. revert fields. induction vs as [|v vs IH]; intros [|[p m] fields] Hl; cbn in *; try discriminate; [reflexivity|].
    rewrite Hf, IH by lia. reflexivity.
  Qed.

  Lemma clear_omit_id fs : forallb (fun p => negb p.(p_omit)) fs = true -> map clear_omit fs = fs.
  Proof.
    induction fs as [|p fs IH]; cbn; [reflexivity|]. intros H. apply andb_true_iff in H. destruct H as [Hp Hr].
    rewrite IH by exact Hr. f_equal. destruct p as [n a t tr d om]. cbn in *. apply negb_true_iff in Hp. now subst.
  Qed.

  Theorem option_free_is_plain : forall cid c vs outer a,
    nth_error ct cid = Some c -> option_free c ->
    List.length vs = List.length c.(c_fields) ->
    forallb (fun p => negb p.(p_omit)) (map fst c.(c_fields)) = true ->
    pack_h false (NObj cid (map leaf vs)) [cid] outer a None
    = Some (POpq 0, PDict (dict_of (plain_out (map fst c.(c_fields)) vs))).
  Proof.
    intros cid c vs outer a Hc (Hcd & Hcf & Hs & Hfl) Hlen Hom.
    rewrite pack_h_obj, Hc.
    assert (Hfc: flags_c ct cid = no_flags) by (unfold flags_c; now rewrite Hc).
    destruct (pick_no_flags false cid Hfc outer a) as [fl [E1 R1]].
    rewrite E1. cbv zeta. rewrite R1, dd_of_none.
    assert (Ho: opts_of c no_kw None = plain_opts).
    { unfold opts_of, plain_opts. rewrite Hcd, Hcf, Hs, Hfl. reflexivity. }
    rewrite Ho. rewrite go_pack_leaves; [|intros v m; destruct v; reflexivity | exact Hlen].
    unfold finish, plain_out. rewrite (clear_omit_id _ Hom).
    destruct (to_dict_model plain_opts (map fst (c_fields c)) vs) eqn:E.
    - reflexivity.
    - rewrite <- (clear_omit_id _ Hom) in E. rewrite plain_model_eq in E. discriminate.
  Qed.

  (* exactly the flags enabled on both sides reach a directly nested class *)
  Theorem forwarded_exactly : forall outer cid, pick_impl ct outer [cid] cid = Some (both outer (flags_c ct cid)).
  Proof.
    intros. cbn. destruct outer as [o1 o2 o3 o4], (flags_c ct cid) as [x1 x2 x3 x4]. unfold both, subflags. cbn.
    destruct o1, o2, o3, o4, x1, x2, x3, x4; reflexivity.
  Qed.
End Table.

(* ---- D8b: Union[A, B] holding a B, flag enabled on Outer and B but not on A ---- *)
Definition fl_on : flags := {| g_on := true; g_ba := false; g_dl := false; g_cx := false |}.
Definition fl_none : flags := {| g_on := false; g_ba := false; g_dl := false; g_cx := false |}.
Definition fld (n: string) : fplan :=
  {| p_name := n; p_alias := None; p_ty := TyOptional; p_trivial := true; p_default := DVal PNone; p_omit := false |}.
Definition d8b_ct : list cls :=
  [ {| c_mixin := true; c_cfgd := None; c_cfg := ns_unset; c_sort := false; c_flags := fl_on;      (* 0: Outer(u: Union[A, B]) *)
       c_fields := [({| p_name := "u"; p_alias := None; p_ty := TyPlain; p_trivial := false; p_default := DNo; p_omit := false |}, [1; 2])]; c_parent := None |};
    {| c_mixin := true; c_cfgd := None; c_cfg := ns_unset; c_sort := false; c_flags := fl_none; c_fields := [(fld "a", [])]; c_parent := None |};   (* 1: A *)
    {| c_mixin := true; c_cfgd := None; c_cfg := ns_unset; c_sort := false; c_flags := fl_on; c_fields := [(fld "b", [])]; c_parent := None |} ]%nat.  (* 2: B *)
Definition d8b_inst : node := NObj 0 [NObj 2 [NLeaf PNone PNone]].
Definition d8b_kw : kwv := {| kw_on := Some true; kw_ba := None; kw_dl := None |}.

Lemma d8b_impl : to_dict_h d8b_ct false d8b_inst 0 d8b_kw = Some (PDict [("u", PDict [("b", PNone)])]).
Proof. reflexivity. Qed.
Lemma d8b_spec : to_dict_h d8b_ct true d8b_inst 0 d8b_kw = Some (PDict [("u", PDict [])]).
Proof. reflexivity. Qed.

Definition nested_full_statement : Prop :=
  forall ct n cid k, to_dict_h ct true n cid k <> None -> to_dict_h ct false n cid k = to_dict_h ct true n cid k.

Theorem union_flags_refuted : ~ nested_full_statement.
Proof.
  intros H. specialize (H d8b_ct d8b_inst 0%nat d8b_kw). rewrite d8b_impl, d8b_spec in H.
  assert (E: Some (PDict [("u", PDict [("b", PNone)])]) = Some (PDict [("u", PDict [])])) by (apply H; discriminate).
  discriminate E.
Qed.

Theorem nested_partial : forall ct n cid k,
  ok_h ct true n [cid] root_flags k None = true -> to_dict_h ct false n cid k = to_dict_h ct true n cid k.
Proof.
  intros ct n cid k Hok. unfold to_dict_h. now rewrite (nested_project ct true n [cid] root_flags k k None eq_refl Hok).
Qed.

(* codec path: BasicEncoder(cls, default_dialect=dd).encode(x) *)
Theorem codec_partial : forall ct n cid dd,
  ok_h ct false n [cid] root_flags no_kw dd = true -> to_dict_codec ct false n cid dd = to_dict_codec ct true n cid dd.
Proof.
  intros ct n cid dd Hok. unfold to_dict_codec. now rewrite (nested_project ct false n [cid] root_flags no_kw no_kw dd eq_refl Hok).
Qed.

(* ---- a field of type A holding an instance of the subclass B(A) that enabled the omit_none flag:
   the call names the flags of the DECLARED class, so B never receives omit_none ---- *)
Definition sub_ct : list cls :=
  [ {| c_mixin := true; c_cfgd := None; c_cfg := ns_unset; c_sort := false; c_flags := fl_on;      (* 0: Outer(x: A) *)
       c_fields := [({| p_name := "x"; p_alias := None; p_ty := TyPlain; p_trivial := false; p_default := DNo; p_omit := false |}, [1])];
       c_parent := None |};
    {| c_mixin := true; c_cfgd := None; c_cfg := ns_unset; c_sort := false; c_flags := fl_none; c_fields := [(fld "a", [])]; c_parent := None |};
    {| c_mixin := true; c_cfgd := None; c_cfg := ns_unset; c_sort := false; c_flags := fl_on;
       c_fields := [(fld "a", []); (fld "b", [])]; c_parent := Some 1 |} ]%nat.
Definition sub_inst : node := NObj 0 [NObj 2 [NLeaf PNone PNone; NLeaf PNone PNone]].

Lemma sub_impl : to_dict_h sub_ct false sub_inst 0 d8b_kw = Some (PDict [("x", PDict [("a", PNone); ("b", PNone)])]).
Proof. reflexivity. Qed.
Lemma sub_spec : to_dict_h sub_ct true sub_inst 0 d8b_kw = Some (PDict [("x", PDict [])]).
Proof. reflexivity. Qed.

Theorem subclass_flags_refuted : ~ nested_full_statement.
Proof.
  intros H. specialize (H sub_ct sub_inst 0%nat d8b_kw). rewrite sub_impl, sub_spec in H.
  assert (E: Some (PDict [("x", PDict [("a", PNone); ("b", PNone)])]) = Some (PDict [("x", PDict [])])) by (apply H; discriminate).
  discriminate E.
Qed.
