(* C08 - kernel K13F (get_pack_method_default_flag_values: rendered defaults of the omit_none= /
   by_alias= keywords, translated from /repo on this run, itself calling the translated K3):
   the keyword defaults are what OptProj.ctx_of uses (look over the builder's four namespaces). *)
From Coq Require Import List String Ascii ZArith Bool.
From Verif Require Import Regex PyK OptProj OptEnc K3Proofs.
From VerifGen Require Import K3 K13F.
Import ListNotations.
Open Scope string_scope.

Definition pybool (b: bool) : kv := KStr (if b then "True" else "False").

(* bd: the dialect the builder was created for (None for the default method) *)
Theorem K13F_defaults_lemma : forall (o: opts) (bd: option ns),
  kw_default_omit_none (enc_ons bd) (enc_ons o.(o_cfgd)) (enc_ons (Some o.(o_cfg))) (enc_ons o.(o_dd))
  = Ok (pybool (look n_on (levels o bd))) /\
  kw_default_by_alias (enc_ons bd) (enc_ons o.(o_cfgd)) (enc_ons (Some o.(o_cfg))) (enc_ons o.(o_dd))
  = Ok (pybool (look n_ba (levels o bd))).
Proof.
  intros o bd. unfold kw_default_omit_none, kw_default_by_alias.
  change (KStr "omit_none") with (KStr (opt_str OOmitNone)).
  change (KStr "serialize_by_alias") with (KStr (opt_str OByAlias)).
  rewrite (K3_look_lemma bd o.(o_cfgd) (Some o.(o_cfg)) o.(o_dd) OOmitNone).
  rewrite (K3_look_lemma bd o.(o_cfgd) (Some o.(o_cfg)) o.(o_dd) OByAlias).
  cbn [bind opt_sel]. unfold levels, pybool.
  split; [destruct (look n_on _) | destruct (look n_ba _)]; reflexivity.
Qed.

(* the run-time value of the keyword parameters inside the method: the caller's value, else the
   DEFAULT METHOD's rendered default (builder dialect None) -- also when the call is then dispatched
   to a dialect-specific method (the source of known finding call-dialect-vs-flag-defaults) *)
Theorem ctx_kw_defaults_lemma : forall (o: opts),
  r_on (ctx_of o) = kwdef o.(o_kon) (look n_on (levels o None)) /\
  r_ba (ctx_of o) = kwdef o.(o_kba) (look n_ba (levels o None)).
Proof. intros. split; reflexivity. Qed.
