(* C16 (round 3) - the rendered literal of a value evaluates back to exactly that value. *)
From Coq Require Import List NArith ZArith Bool Lia Decimal DecimalN DecimalFacts.
From Verif Require Import PyStrLit PyStrLitProofs PyLit.
Import ListNotations.
Open Scope N_scope.

(* ------------------------------------------------------------------ induction on nested values *)
Section LitInd.
  Variable P : lit -> Prop.
  Hypothesis HStr : forall s, P (LStr s).
  Hypothesis HBytes : forall b, P (LBytes b).
  Hypothesis HInt : forall z, P (LInt z).
  Hypothesis HBool : forall b, P (LBool b).
  Hypothesis HNone : P LNone.
  Hypothesis HName : forall n, P (LName n).
  Hypothesis HTuple : forall l, Forall P l -> P (LTuple l).
  Fixpoint lit_ind' (v: lit) : P v :=
    match v with
    | LStr s => HStr s | LBytes b => HBytes b | LInt z => HInt z | LBool b => HBool b
    | LNone => HNone | LName n => HName n
    | LTuple l =>
        HTuple l ((fix go (l: list lit) : Forall P l :=
                     match l with
                     | [] => Forall_nil _
                     | x :: r => Forall_cons _ (lit_ind' x) (go r)
                     end) l)
    end.
End LitInd.

(* ------------------------------------------------------------------ tokens end where they should *)
Lemma ends_token_cons c r : ends_token (c :: r) = true ->
  is_ident_char c = false /\ is_quote c = false /\ (c =? 46) = false /\ (c =? LP) = false.
Proof.
  cbn. intros H.
  apply andb_true_iff in H. destruct H as [H H4].
  apply andb_true_iff in H. destruct H as [H H3].
  apply andb_true_iff in H. destruct H as [H1 H2].
  apply negb_true_iff in H1, H2, H3, H4. auto.
Qed.

Lemma ends_token_ctx r : ends_token r = true -> ctx_ok r = true.
Proof.
  destruct r as [|c r]; [reflexivity|]. intros H.
  destruct (ends_token_cons c r H) as (_ & Hq & _). cbn. rewrite Hq. reflexivity.
Qed.

Lemma ends_token_not_ident c r : ends_token (c :: r) = true -> is_ident_char c = false.
Proof. intros H. apply (ends_token_cons c r H). Qed.

Lemma ends_token_not_digit c r : ends_token (c :: r) = true -> is_digit c = false.
Proof.
  intros H. apply ends_token_not_ident in H. unfold is_ident_char in H. unfold is_digit.
  destruct ((48 <=? c) && (c <=? 57)); [discriminate | reflexivity].
Qed.

Lemma ends_comma r : ends_token (COMMA :: r) = true.
Proof. reflexivity. Qed.
Lemma ends_rp r : ends_token (RP :: r) = true.
Proof. reflexivity. Qed.

(* ------------------------------------------------------------------ numbers *)
Lemma read_uint_chars u : forall rest,
  match rest with c :: _ => is_digit c = false | [] => True end ->
  read_uint (uint_chars u ++ rest) = (u, rest).
Proof.
  induction u; intros rest H; cbn [uint_chars List.app read_uint];
    try (change (is_digit _) with true; cbv iota; rewrite IHu by exact H; reflexivity).
  destruct rest as [|c r]; [reflexivity|]. cbn [read_uint]. change (is_digit c = false) in H. rewrite H. reflexivity.
Qed.

Lemma to_uint_norm n : unorm (N.to_uint n) = N.to_uint n.
Proof. rewrite <- (Unsigned.of_to n) at 2. rewrite Unsigned.to_of. reflexivity. Qed.

Lemma unorm_not_nil d : unorm d <> Nil.
Proof. unfold unorm. destruct (nzhead d); discriminate. Qed.

Lemma to_uint_not_nil n : N.to_uint n <> Nil.
Proof. rewrite <- to_uint_norm. apply unorm_not_nil. Qed.

Lemma uint_beq_refl u : uint_beq u u = true.
Proof. apply internal_uint_dec_lb. reflexivity. Qed.

Lemma eval_number_render neg n rest :
  ends_token rest = true ->
  eval_number neg (render_nat n ++ rest) =
  Some (LInt (if neg then Z.opp (Z.of_N n) else Z.of_N n), rest).
Proof.
  intros H. unfold eval_number, render_nat.
  rewrite read_uint_chars.
  - pose proof (to_uint_not_nil n) as Hn. rewrite to_uint_norm, uint_beq_refl, H.
    rewrite Unsigned.of_to. destruct (N.to_uint n); [congruence | reflexivity ..].
  - destruct rest as [|c r]; [exact I|]. eapply ends_token_not_digit, H.
Qed.

(* the first character of a numeral is a digit *)
Lemma uint_chars_head u : u <> Nil -> exists c t, uint_chars u = c :: t /\ is_digit c = true.
Proof. destruct u; [congruence | intros _; cbn; eauto ..]. Qed.

Lemma digit_facts c : is_digit c = true ->
  is_quote c = false /\ (c =? 98) = false /\ (c =? LP) = false /\ (c =? 45) = false
  /\ c <> SP /\ c <> RP.
Proof.
  unfold is_digit, is_quote, SQ, DQ, LP, SP, RP. intros H. b2p.
  repeat split; try (apply N.eqb_neq; lia); try lia.
  apply orb_false_iff; split; apply N.eqb_neq; lia.
Qed.

Lemma eval_f_nat f n rest :
  ends_token rest = true ->
  eval_f (S f) (render_nat n ++ rest) = Some (LInt (Z.of_N n), rest).
Proof.
  intros H. destruct (uint_chars_head (N.to_uint n) (to_uint_not_nil n)) as (c & t & E & Hd).
  pose proof (eval_number_render false n rest H) as Hn. unfold render_nat in *. rewrite E in *.
  destruct (digit_facts c Hd) as (H1 & H2 & H3 & H4 & _).
  cbn [List.app eval_f]. rewrite H1, H2, H3, H4, Hd. cbn [andb]. exact Hn.
Qed.

Lemma eval_f_int f z rest :
  ends_token rest = true ->
  eval_f (S f) (render_int z ++ rest) = Some (LInt z, rest).
Proof.
  intros H. destruct z as [|p|p]; cbn [render_int].
  - apply (eval_f_nat f 0 rest H).
  - apply (eval_f_nat f (Npos p) rest H).
  - change ((45 :: render_nat (N.pos p)) ++ rest) with (45 :: (render_nat (N.pos p) ++ rest)).
    cbn [eval_f]. change (is_quote 45) with false. change (45 =? 98) with false.
    change (45 =? LP) with false. change (45 =? 45) with true. cbn [andb].
    rewrite eval_number_render by exact H. reflexivity.
Qed.

(* ------------------------------------------------------------------ names and keywords *)
Lemma read_ident_app n : forall rest,
  forallb is_ident_char n = true ->
  match rest with c :: _ => is_ident_char c = false | [] => True end ->
  read_ident (n ++ rest) = (n, rest).
Proof.
  induction n as [|c n IH]; intros rest Hn Hr.
  - cbn. destruct rest as [|c r]; [reflexivity|]. cbn. rewrite Hr. reflexivity.
  - cbn [forallb] in Hn. apply andb_true_iff in Hn. destruct Hn as [Hc Hn].
    cbn [List.app read_ident]. rewrite Hc, IH by assumption. reflexivity.
Qed.

Lemma ident_facts c : is_ident_char c = true ->
  is_quote c = false /\ (c =? LP) = false /\ (c =? 45) = false /\ c <> SP /\ c <> RP.
Proof.
  unfold is_ident_char, is_quote, SQ, DQ, LP, SP, RP. intros H.
  repeat match goal with
  | H: _ || _ = true |- _ => apply orb_true_iff in H; destruct H as [H|H]
  end; b2p;
  (repeat split; try (apply N.eqb_neq; lia); try lia;
   apply orb_false_iff; split; apply N.eqb_neq; lia).
Qed.

(* dispatch of eval_f on an identifier-like token [n] (nonempty, identifier characters, not
   starting with a digit) followed by a text that ends the token *)
Lemma eval_f_ident f n rest :
  n <> [] -> forallb is_ident_char n = true ->
  match n with c :: _ => is_digit c = false | [] => True end ->
  ends_token rest = true ->
  eval_f (S f) (n ++ rest) = eval_name (n ++ rest).
Proof.
  intros Hne Hn Hd Hr. destruct n as [|c n]; [congruence|].
  change (is_digit c = false) in Hd.
  cbn [forallb] in Hn. apply andb_true_iff in Hn. destruct Hn as [Hc Hn].
  destruct (ident_facts c Hc) as (H1 & H2 & H3 & _).
  cbn [List.app eval_f]. rewrite H1, H2, H3, Hd, Hc.
  (* the b-prefix test: the next character is never a quote *)
  assert (Hq: (match n ++ rest with q :: _ => is_quote q | [] => false end) = false).
  { destruct n as [|c2 n].
    - cbn [List.app]. destruct rest as [|c3 r]; [reflexivity|]. apply (ends_token_cons c3 r Hr).
    - cbn [List.app]. cbn [forallb] in Hn. apply andb_true_iff in Hn. destruct Hn as [Hc2 _].
      apply (ident_facts c2 Hc2). }
  rewrite Hq, andb_false_r. reflexivity.
Qed.

Lemma eval_name_app n rest :
  forallb is_ident_char n = true -> ends_token rest = true ->
  eval_name (n ++ rest) =
  if leqb n T_True then Some (LBool true, rest)
  else if leqb n T_False then Some (LBool false, rest)
  else if leqb n T_None then Some (LNone, rest)
  else Some (LName n, rest).
Proof.
  intros Hn Hr. unfold eval_name. rewrite read_ident_app; [rewrite Hr; reflexivity | exact Hn |].
  destruct rest as [|c r]; [exact I|]. eapply ends_token_not_ident, Hr.
Qed.

Lemma eval_f_name f n rest :
  name_ok n = true -> ends_token rest = true ->
  eval_f (S f) (n ++ rest) = Some (LName n, rest).
Proof.
  intros Hn Hr. unfold name_ok in Hn. destruct n as [|c n]; [discriminate|].
  apply andb_true_iff in Hn. destruct Hn as [Hn HN].
  apply andb_true_iff in Hn. destruct Hn as [Hn HF].
  apply andb_true_iff in Hn. destruct Hn as [Hn HT].
  apply andb_true_iff in Hn. destruct Hn as [Hi Hd].
  apply negb_true_iff in HN, HF, HT, Hd.
  rewrite eval_f_ident; [| discriminate | exact Hi | exact Hd | exact Hr].
  rewrite eval_name_app by assumption. rewrite HT, HF, HN. reflexivity.
Qed.

Lemma eval_f_kw f (kw: list N) rest :
  kw = T_True \/ kw = T_False \/ kw = T_None ->
  ends_token rest = true ->
  eval_f (S f) (kw ++ rest) =
  Some ((if leqb kw T_True then LBool true else if leqb kw T_False then LBool false else LNone), rest).
Proof.
  intros Hk Hr.
  rewrite eval_f_ident; [| destruct Hk as [-> | [-> | ->]]; discriminate
                          | destruct Hk as [-> | [-> | ->]]; reflexivity
                          | destruct Hk as [-> | [-> | ->]]; reflexivity | exact Hr].
  rewrite eval_name_app; [| destruct Hk as [-> | [-> | ->]]; reflexivity | exact Hr].
  destruct Hk as [-> | [-> | ->]]; reflexivity.
Qed.

(* ------------------------------------------------------------------ head of a rendering *)
Lemma forallb_valid s : forallb valid_cp s = true -> wf_str s.
Proof. intros H. apply Forall_forall. intros c Hc. eapply forallb_forall in H; eauto. Qed.

Lemma forallb_bytes s : forallb (fun c => c <? 256) s = true -> wf_bytes s.
Proof. intros H. apply Forall_forall. intros c Hc. eapply forallb_forall in H; eauto. b2p. exact H. Qed.

(* every rendering starts with a character that is neither a blank nor a closing parenthesis *)
Lemma render_head p v : wf_lit v -> exists c t, render_lit p v = c :: t /\ c <> SP /\ c <> RP.
Proof.
  unfold wf_lit. destruct v as [s|b|z|[|]| |n|l]; cbn [render_lit wf_litb]; intros Hw.
  - unfold py_repr. cbv zeta. pose proof (choose_quote_is_quote s) as Hq.
    destruct (quote_cases _ Hq) as [E|E]; rewrite E; eexists; eexists; (split; [reflexivity | split; discriminate]).
  - unfold py_repr_bytes. eexists; eexists; (split; [reflexivity | split; discriminate]).
  - destruct z as [|q|q]; cbn [render_int].
    + destruct (uint_chars_head _ (to_uint_not_nil 0)) as (c & t & E & Hd). unfold render_nat. rewrite E.
      destruct (digit_facts c Hd) as (_ & _ & _ & _ & A & B). eauto.
    + destruct (uint_chars_head _ (to_uint_not_nil (Npos q))) as (c & t & E & Hd). unfold render_nat. rewrite E.
      destruct (digit_facts c Hd) as (_ & _ & _ & _ & A & B). eauto.
    + eexists; eexists; (split; [reflexivity | split; discriminate]).
  - eexists; eexists; (split; [reflexivity | split; discriminate]).
  - eexists; eexists; (split; [reflexivity | split; discriminate]).
  - eexists; eexists; (split; [reflexivity | split; discriminate]).
  - unfold name_ok in Hw. destruct n as [|c n]; [discriminate|].
    repeat (apply andb_true_iff in Hw; destruct Hw as [Hw _]).
    destruct (ident_facts c Hw) as (_ & _ & _ & A & B). eauto.
  - destruct l as [|x [|y r]]; eexists; eexists; (split; [reflexivity | split; discriminate]).
Qed.

Lemma skip_sp_head c t : c <> SP -> skip_sp (c :: t) = c :: t.
Proof. intros H. cbn. destruct (N.eqb_spec c SP); [congruence | reflexivity]. Qed.

(* ------------------------------------------------------------------ the items loop *)
Definition elem_ok (p: N -> bool) (f: nat) (x: lit) : Prop :=
  forall rest, ends_token rest = true -> eval_f f (render_lit p x ++ rest) = Some (x, rest).

Lemma items_loop p f : forall l acc k rest,
  l <> [] -> (acc <> [] \/ (2 <= List.length l)%nat) ->
  Forall (fun x => wf_lit x /\ elem_ok p f x) l ->
  (List.length l <= k)%nat ->
  eval_items k (eval_f f) (render_items (render_lit p) l ++ RP :: rest) acc
  = Some (LTuple (List.rev acc ++ l), rest).
Proof.
  induction l as [|x l IH]; intros acc k rest Hne Hacc Hall Hk; [congruence|].
  inversion Hall as [|? ? [Hwx Hx] Hl]; subst.
  destruct k as [|k]; [cbn in Hk; lia|].
  destruct l as [|y r].
  - (* last element *)
    cbn [render_items eval_items]. rewrite Hx by apply ends_rp.
    rewrite skip_sp_head by discriminate.
    change (RP =? COMMA) with false. change (RP =? RP) with true. cbv iota.
    destruct acc as [|a acc']; [destruct Hacc as [Hacc|Hacc]; [congruence | cbn in Hacc; lia]|].
    cbn [List.rev]. rewrite <- app_assoc. reflexivity.
  - change (render_items (render_lit p) (x :: y :: r))
      with (render_lit p x ++ [COMMA; SP] ++ render_items (render_lit p) (y :: r)).
    rewrite <- !app_assoc. cbn [eval_items]. rewrite Hx by apply ends_comma.
    cbn [List.app]. rewrite skip_sp_head by discriminate.
    change (COMMA =? COMMA) with true. cbv iota.
    (* after the blank: the head of the next element *)
    inversion Hl as [|? ? [Hwy Hy] Hr]; subst.
    assert (Hh: exists c t, render_items (render_lit p) (y :: r) ++ RP :: rest = c :: t /\ c <> SP /\ c <> RP).
    { destruct (render_head p y Hwy) as (c & t & E & A & B).
      destruct r as [|z r'].
      - cbn [render_items]. rewrite E. cbn. eauto.
      - change (render_items (render_lit p) (y :: z :: r'))
          with (render_lit p y ++ [COMMA; SP] ++ render_items (render_lit p) (z :: r')).
        rewrite E. cbn. eauto. }
    destruct Hh as (c & t & E & A & B).
    change (skip_sp (SP :: ?l)) with (skip_sp l).
    rewrite E, (skip_sp_head c t A). destruct (N.eqb_spec c RP) as [Ec|_]; [congruence|].
    rewrite <- E. rewrite IH; [| discriminate | left; discriminate | exact Hl | cbn in Hk |- *; lia].
    cbn [List.rev]. rewrite <- app_assoc. reflexivity.
Qed.

(* ------------------------------------------------------------------ the theorem *)
Lemma size_elems l x : In x l -> (lit_size x <= fold_right (fun x a => lit_size x + a) O l)%nat.
Proof.
  induction l as [|y l IH]; [intros []|]. intros [->|H]; cbn; [lia|]. specialize (IH H). lia.
Qed.

Lemma size_len l : (List.length l <= fold_right (fun x a => lit_size x + a) O l)%nat.
Proof.
  induction l as [|y l IH]; [reflexivity|]. cbn.
  assert (1 <= lit_size y)%nat by (destruct y; cbn; lia). lia.
Qed.

Lemma eval_f_render p : oracle_ok p -> forall v, wf_lit v ->
  forall k rest, (lit_size v < k)%nat -> ends_token rest = true ->
  eval_f k (render_lit p v ++ rest) = Some (v, rest).
Proof.
  intros Hp. induction v using lit_ind'; intros Hw k rest Hn Hr;
    (destruct k as [|k]; [cbn in Hn; lia|]); unfold wf_lit in Hw; cbn [wf_litb] in Hw.
  - (* str *)
    cbn [render_lit]. unfold py_repr at 1. cbv zeta. cbn [List.app eval_f].
    rewrite choose_quote_is_quote.
    change (choose_quote s :: (repr_body p (choose_quote s) s ++ [choose_quote s]) ++ rest)
      with (py_repr p s ++ rest).
    rewrite repr_lex; [reflexivity | exact Hp | apply forallb_valid, Hw | apply ends_token_ctx, Hr].
  - (* bytes *)
    cbn [render_lit]. unfold py_repr_bytes at 1, py_repr_bytes_lit at 1. cbv zeta. cbn [List.app eval_f].
    change (is_quote 98) with false. change (98 =? 98) with true. rewrite choose_quote_is_quote. cbn [andb].
    change (98 :: choose_quote b :: (flat_map (esc_byte (choose_quote b)) b ++ [choose_quote b]) ++ rest)
      with (py_repr_bytes b ++ rest).
    rewrite repr_bytes_lex; [reflexivity | apply forallb_bytes, Hw | apply ends_token_ctx, Hr].
  - apply eval_f_int, Hr.
  - cbn [render_lit]. destruct b.
    + rewrite (eval_f_kw k T_True rest) by auto. reflexivity.
    + rewrite (eval_f_kw k T_False rest) by auto. reflexivity.
  - cbn [render_lit]. rewrite (eval_f_kw k T_None rest) by auto. reflexivity.
  - cbn [render_lit]. apply eval_f_name; assumption.
  - (* tuple *)
    cbn [lit_size] in Hn.
    assert (Hel: Forall (fun x => wf_lit x /\ elem_ok p k x) l).
    { apply Forall_forall. intros x Hx. split.
      - eapply forallb_forall in Hw; eauto.
      - intros r Hre. eapply Forall_forall in H; [|exact Hx]. apply H.
        + eapply forallb_forall in Hw; eauto.
        + pose proof (size_elems l x Hx). lia.
        + exact Hre. }
    destruct l as [|x [|y r]].
    + reflexivity.
    + (* one element: (x,) *)
      cbn [render_lit]. cbn [List.app eval_f].
      change (is_quote LP) with false. change (LP =? 98) with false. change (LP =? LP) with true. cbn [andb]. cbv iota.
      inversion Hel as [|? ? [Hwx Hx] _]; subst.
      destruct (render_head p x Hwx) as (c & t & E & A & B).
      rewrite <- app_assoc. cbn [List.app].
      assert (Eh: render_lit p x ++ COMMA :: RP :: rest = c :: (t ++ COMMA :: RP :: rest))
        by (rewrite E; reflexivity).
      rewrite Eh. rewrite skip_sp_head by exact A.
      destruct (N.eqb_spec c RP) as [Ec|_]; [congruence|].
      destruct k as [|k]; [cbn in Hn; lia|].
      rewrite <- Eh. cbn [eval_items].
      rewrite Hx by apply ends_comma. rewrite skip_sp_head by discriminate.
      change (COMMA =? COMMA) with true. cbv iota. rewrite skip_sp_head by discriminate.
      change (RP =? RP) with true. reflexivity.
    + cbn [render_lit]. cbn [List.app eval_f].
      change (is_quote LP) with false. change (LP =? 98) with false. change (LP =? LP) with true. cbn [andb]. cbv iota.
      rewrite <- app_assoc. cbn [List.app].
      inversion Hel as [|? ? [Hwx Hx] _]; subst.
      destruct (render_head p x Hwx) as (c & t & E & A & B).
      assert (Eh: render_items (render_lit p) (x :: y :: r) ++ RP :: rest
                  = c :: (t ++ [COMMA; SP] ++ render_items (render_lit p) (y :: r) ++ RP :: rest)).
      { change (render_items (render_lit p) (x :: y :: r))
          with (render_lit p x ++ [COMMA; SP] ++ render_items (render_lit p) (y :: r)).
        rewrite E. rewrite <- !app_assoc. reflexivity. }
      rewrite Eh. rewrite skip_sp_head by exact A.
      destruct (N.eqb_spec c RP) as [Ec|_]; [congruence|].
      rewrite <- Eh.
      rewrite (items_loop p k (x :: y :: r) [] k rest); [reflexivity | discriminate | right; cbn; lia | exact Hel |].
      pose proof (size_len (x :: y :: r)). lia.
Qed.

Lemma size_le_render p v : wf_lit v -> (lit_size v <= List.length (render_lit p v))%nat.
Proof.
  induction v as [s|b|z|b| |n|l H] using lit_ind'; intros Hw;
    try (destruct (render_head p _ Hw) as (c & t & E & _); rewrite E; cbn; lia).
  unfold wf_lit in Hw; cbn [wf_litb] in Hw. cbn [lit_size].
  assert (G: (fold_right (fun x a => lit_size x + a) O l <= List.length (render_items (render_lit p) l))%nat).
  { induction l as [|x l IHl]; [cbn; lia|].
    inversion H as [|? ? Hx Hl]; subst. cbn in Hw. b2p.
    specialize (IHl Hl H1). specialize (Hx H0).
    destruct l as [|y r].
    - cbn. lia.
    - change (render_items (render_lit p) (x :: y :: r))
        with (render_lit p x ++ [COMMA; SP] ++ render_items (render_lit p) (y :: r)).
      rewrite !app_length. cbn [fold_right] in *. cbn [List.length]. lia. }
  destruct l as [|x [|y r]].
  - cbn. lia.
  - cbn [render_lit]. cbn [render_items] in G. cbn [List.length]. rewrite app_length. cbn [List.length]. cbn [fold_right] in *. lia.
  - cbn [render_lit]. cbn [List.length]. rewrite app_length. cbn [List.length]. lia.
Qed.

Theorem render_eval p v rest :
  oracle_ok p -> wf_lit v -> ends_token rest = true ->
  eval_lit (render_lit p v ++ rest) = Some (v, rest).
Proof.
  intros Hp Hw Hr. unfold eval_lit. apply eval_f_render; try assumption.
  rewrite app_length. pose proof (size_le_render p v Hw). lia.
Qed.
