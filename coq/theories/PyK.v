(* Value universe and primitives for the kernels translated from /repo by
   tools/py2gallina.py.  Everything here is total and computable. *)
From Coq Require Import List String Ascii ZArith Bool Lia.
From Verif Require Import Regex.
Import ListNotations.
Open Scope string_scope.
Open Scope Z_scope.

Inductive exn := ValueError | TypeError | KeyError | IndexError | AttributeError | StopIter | OtherError.

Inductive res (A: Type) := Ok (a: A) | Raise (e: exn).
Arguments Ok {A} a.
Arguments Raise {A} e.

Definition bind {A B} (r: res A) (f: A -> res B) : res B :=
  match r with Ok a => f a | Raise e => Raise e end.
Notation "x <- r ;; k" := (bind r (fun x => k)) (at level 61, r at next level, right associativity).

Inductive kv :=
| KNone | KMissing
| KBool (b: bool) | KInt (z: Z) | KStr (s: string)
| KTuple (l: list kv) | KList (l: list kv)
| KDict (kvs: list (kv * kv))
| KNs (attrs: list (string * kv))
| KMatch (c: caps)
| KTd (minutes: Z) | KTz (minutes: Z)
| KObj (tag: nat).

(* ---- equality (structural) ---- *)
Fixpoint kv_eqb (a b: kv) {struct a} : bool :=
  let fix leqb (l1 l2: list kv) : bool :=
      match l1, l2 with
      | [], [] => true
      | x :: r1, y :: r2 => kv_eqb x y && leqb r1 r2
      | _, _ => false end in
  match a, b with
  | KNone, KNone | KMissing, KMissing => true
  | KBool x, KBool y => Bool.eqb x y
  | KInt x, KInt y => Z.eqb x y
  | KStr x, KStr y => String.eqb x y
  | KTuple x, KTuple y | KList x, KList y => leqb x y
  | KDict x, KDict y =>
      (fix deqb (l1 l2: list (kv * kv)) : bool :=
         match l1, l2 with
         | [], [] => true
         | (k1, v1) :: r1, (k2, v2) :: r2 => kv_eqb k1 k2 && kv_eqb v1 v2 && deqb r1 r2
         | _, _ => false end) x y
  | KNs x, KNs y =>
      (fix neqb (l1 l2: list (string * kv)) : bool :=
         match l1, l2 with
         | [], [] => true
         | (k1, v1) :: r1, (k2, v2) :: r2 => String.eqb k1 k2 && kv_eqb v1 v2 && neqb r1 r2
         | _, _ => false end) x y
  | KTd x, KTd y | KTz x, KTz y => Z.eqb x y
  | KObj x, KObj y => Nat.eqb x y
  | _, _ => false
  end.

(* ---- truthiness ---- *)
Definition k_truthy (v: kv) : bool :=
  match v with
  | KNone => false
  | KMissing => true
  | KBool b => b
  | KInt z => negb (z =? 0)
  | KStr s => negb (String.eqb s "")
  | KTuple l | KList l => match l with [] => false | _ => true end
  | KDict l => match l with [] => false | _ => true end
  | KTd m => negb (m =? 0)
  | _ => true
  end.

Definition k_is (a b: kv) : bool := kv_eqb a b.   (* used only against singletons None / MISSING / small ints *)
Definition k_eq (a b: kv) : bool := kv_eqb a b.

Definition k_ge (a b: kv) : res bool :=
  match a, b with
  | KInt x, KInt y => Ok (x >=? y)
  | _, _ => Raise TypeError end.

Definition k_neg (a: kv) : res kv :=
  match a with KInt x => Ok (KInt (- x)) | KBool b => Ok (KInt (if b then -1 else 0)) | _ => Raise TypeError end.

(* ---- int(str) for optional sign + ASCII digits ---- *)
Definition digit_of (c: ascii) : option Z :=
  let n := Z.of_nat (nat_of_ascii c) in
  if (48 <=? n) && (n <=? 57) then Some (n - 48) else None.

Fixpoint digits_val (s: string) (acc: Z) : option Z :=
  match s with
  | EmptyString => Some acc
  | String c r => match digit_of c with Some d => digits_val r (acc * 10 + d) | None => None end
  end.

Definition k_int (v: kv) : res kv :=
  match v with
  | KInt z => Ok (KInt z)
  | KBool b => Ok (KInt (if b then 1 else 0))
  | KStr (String c r) =>
      let body := if Ascii.eqb c "+" || Ascii.eqb c "-" then r else String c r in
      match body with
      | EmptyString => Raise ValueError
      | _ => match digits_val body 0 with
             | Some z => Ok (KInt (if Ascii.eqb c "-" then - z else z))
             | None => Raise ValueError end
      end
  | KStr EmptyString => Raise ValueError
  | _ => Raise TypeError
  end.

(* ---- regex objects ---- *)
Definition k_re_match (r: re) (v: kv) : res kv :=
  match v with
  | KStr s => match re_match r s with Some c => Ok (KMatch c) | None => Ok KNone end
  | _ => Raise TypeError end.

Definition k_group (m: kv) (n: Z) : res kv :=
  match m with
  | KMatch c => match cap_get (Z.to_nat n) c with Some s => Ok (KStr s) | None => Ok KNone end
  | _ => Raise AttributeError end.

Definition k_index (v: kv) (i: Z) : res kv :=
  match v with
  | KStr s => if i <? 0 then Raise IndexError else
              match String.get (Z.to_nat i) s with Some c => Ok (KStr (String c "")) | None => Raise IndexError end
  | KTuple l | KList l => if i <? 0 then Raise IndexError else
              match nth_error l (Z.to_nat i) with Some x => Ok x | None => Raise IndexError end
  | KNone => Raise TypeError
  | _ => Raise TypeError end.

(* ---- datetime.timedelta(hours=, minutes=) and datetime.timezone ---- *)
Definition k_timedelta_hm (h m: kv) : res kv :=
  match h, m with
  | KInt a, KInt b => Ok (KTd (a * 60 + b))
  | _, _ => Raise TypeError end.

Definition k_timezone (td: kv) : res kv :=
  match td with
  | KTd m => if (-1440 <? m) && (m <? 1440) then Ok (KTz m) else Raise ValueError
  | _ => Raise TypeError end.

Definition k_tz_utc : kv := KTz 0.

(* ---- namespaces (classes used as option records) ---- *)
Fixpoint ns_get (attrs: list (string * kv)) (name: string) : option kv :=
  match attrs with
  | [] => None
  | (k, v) :: r => if String.eqb k name then Some v else ns_get r name end.

Fixpoint ns_set (attrs: list (string * kv)) (name: string) (v: kv) : list (string * kv) :=
  match attrs with
  | [] => [(name, v)]
  | (k, x) :: r => if String.eqb k name then (k, v) :: r else (k, x) :: ns_set r name v end.

(* getattr(ns, name, default): None and other non-namespaces have no such attribute *)
Definition k_getattr3 (ns: kv) (name: kv) (dflt: kv) : kv :=
  match ns, name with
  | KNs attrs, KStr n => match ns_get attrs n with Some v => v | None => dflt end
  | _, _ => dflt end.

Definition k_getattr2 (ns: kv) (name: kv) : res kv :=
  match ns, name with
  | KNs attrs, KStr n => match ns_get attrs n with Some v => Ok v | None => Raise AttributeError end
  | _, _ => Raise AttributeError end.

Definition k_setattr (ns: kv) (name: kv) (v: kv) : res kv :=
  match ns, name with
  | KNs attrs, KStr n => Ok (KNs (ns_set attrs n v))
  | _, _ => Raise AttributeError end.

(* ---- dicts with insertion order ---- *)
Fixpoint d_get (kvs: list (kv * kv)) (k: kv) : option kv :=
  match kvs with
  | [] => None
  | (k', v) :: r => if kv_eqb k' k then Some v else d_get r k end.

Fixpoint d_set (kvs: list (kv * kv)) (k v: kv) : list (kv * kv) :=
  match kvs with
  | [] => [(k, v)]
  | (k', x) :: r => if kv_eqb k' k then (k', v) :: r else (k', x) :: d_set r k v end.

Definition k_dict_get (d k: kv) : res kv :=
  match d with KDict kvs => Ok (match d_get kvs k with Some v => v | None => KNone end) | _ => Raise AttributeError end.

Definition k_dict_get3 (d k dflt: kv) : res kv :=
  match d with KDict kvs => Ok (match d_get kvs k with Some v => v | None => dflt end) | _ => Raise AttributeError end.

Definition k_dict_set (d k v: kv) : res kv :=
  match d with KDict kvs => Ok (KDict (d_set kvs k v)) | _ => Raise TypeError end.
