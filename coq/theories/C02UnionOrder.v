(* C02 / kernel K21 (the two loops of pack.py:pack_union, re-translated from /repo on every run):
   the documented form of a union value whose class is that of a PASS-THROUGH member (int / str / float / bool / None ...:
   packer expression "value") is the value itself, at whatever position the member was declared -- in particular after a
   converting member whose packer never fails (Union[Decimal, int], Union[FrozenSet[str], str]).  Values of no pass-through
   member's class are handed to the converting packers in declared order. *)
From Coq Require Import List Bool Arith String.
From Verif Require Import UnionModel PackEmit K21Proofs.
From VerifGen Require Import K21.
Import ListNotations.

Lemma passthrough_as_is : forall pms v m,
  In m pms -> p_ident m = true -> class_of v = p_cls m -> run_pres (emit pms) v = Some v.
Proof.
  intros pms v m Hin Hid Hc.
  rewrite emit_pack_correct by (intro E; subst; inversion Hin).
  unfold pack_union. destruct (forallb p_ident pms); [reflexivity|].
  assert (E: existsb (fun m => p_ident m && String.eqb (class_of v) (p_cls m)) pms = true).
  { apply existsb_exists. exists m. split; [assumption|]. rewrite Hid, Hc, String.eqb_refl. reflexivity. }
  rewrite E. reflexivity.
Qed.

(* permuting the declaration never changes what a pass-through value becomes *)
Lemma passthrough_order_free : forall pms pms' v m,
  In m pms -> (forall x, In x pms -> In x pms') -> p_ident m = true -> class_of v = p_cls m ->
  run_pres (emit pms') v = run_pres (emit pms) v.
Proof.
  intros pms pms' v m Hin Hsub Hid Hc.
  rewrite (passthrough_as_is pms v m Hin Hid Hc).
  apply (passthrough_as_is pms' v m (Hsub m Hin) Hid Hc).
Qed.

(* the other values: the converting packers, once each, in declared order *)
Lemma converting_in_declared_order : forall pms v,
  pms <> [] -> forallb p_ident pms = false ->
  existsb (fun m => p_ident m && String.eqb (class_of v) (p_cls m)) pms = false ->
  run_pres (emit pms) v = first_some (fun m => p_enc m v) (dedup p_key Nat.eqb (filter (fun m => negb (p_ident m)) pms)).
Proof.
  intros pms v Hne Hall Hno. rewrite emit_pack_correct by assumption.
  unfold pack_union. rewrite Hall, Hno. reflexivity.
Qed.
