(* The "named tuples as dicts?" decision: serializer (pack_named_tuple) and JSON Schema
   (on_named_tuple), both translated from /repo on this run (VerifGen.K6N), agree with each
   other and with the model's Schema.nt_mode. *)
From Coq Require Import List String Ascii ZArith Bool.
From Verif Require Import Regex PyK JValid Schema.
From VerifGen Require Import K6N.
Import ListNotations.
Open Scope string_scope.

(* the field option `serialize`: absent, "as_dict", "as_list" *)
Definition enc_ov (ov: option bool) : kv :=
  match ov with None => KNone | Some true => KStr "as_dict" | Some false => KStr "as_list" end.

Theorem schema_mode_thm : forall (c: bool) (ov: option bool),
  schema_nt_as_dict (KBool c) (enc_ov ov) = Ok (KBool (nt_mode c ov)).
Proof. intros c [[|]|]; reflexivity. Qed.

Theorem pack_mode_thm : forall (c: bool) (ov: option bool),
  pack_nt_as_dict (KBool c) (enc_ov ov) = Ok (KBool (nt_mode c ov)).
Proof. intros c [[|]|]; reflexivity. Qed.

Theorem modes_agree_thm : forall (c: bool) (ov: option bool),
  pack_nt_as_dict (KBool c) (enc_ov ov) = schema_nt_as_dict (KBool c) (enc_ov ov).
Proof. intros. rewrite schema_mode_thm, pack_mode_thm. reflexivity. Qed.

(* any other engine string: the serializer refuses the class, the schema falls back to the class option *)
Theorem other_engine_thm : forall (c: bool) (s: string), s <> "as_dict" -> s <> "as_list" ->
  pack_nt_as_dict (KBool c) (KStr s) = Raise ValueError /\ schema_nt_as_dict (KBool c) (KStr s) = Ok (KBool c).
Proof.
  intros c s H1 H2. unfold pack_nt_as_dict, schema_nt_as_dict.
  apply String.eqb_neq in H1. apply String.eqb_neq in H2.
  cbn. unfold k_eq. cbn [kv_eqb]. rewrite H1, H2. split; reflexivity.
Qed.
