(* Proofs about the C05 model (Errs.v). All statements are universally quantified over the
   class (field list of any length), the input value and the behaviour of every decoder. *)
From Coq Require Import List String Ascii ZArith Bool Lia.
From Verif Require Import Core Errs.
Import ListNotations.
Open Scope string_scope.
Open Scope list_scope.

(* ------------------------------------------------------------------ *)
(* field loop on a dict input *)

Definition step_val (kvs: list (pv * pv)) (f: fspec) : option pv :=
  match lookup_field kvs f with
  | None => None
  | Some _ => Some (good_value kvs f) end.

Lemma read_key_dict : forall kvs f, read_key (VDict kvs) f = Ok (lookup_field kvs f).
Proof.
  intros kvs f. unfold read_key, lookup_field, py_get.
  destruct (d_lookup kvs (VStr (fs_key f))) as [v|]; [reflexivity|].
  destruct (fs_key2 f); reflexivity.
Qed.

Lemma field_step_dict : forall cls kvs f,
  field_step cls (VDict kvs) f =
  match field_bad kvs f with
  | Some b => Exn (exn_of_bad cls f b)
  | None => Ok (step_val kvs f) end.
Proof.
  intros cls kvs f. unfold field_step, field_bad, step_val, good_value.
  rewrite read_key_dict.
  destruct (lookup_field kvs f) as [v|].
  - destruct (fs_ident f); [reflexivity|].
    destruct (fs_nullable f && is_none v); [reflexivity|].
    destruct (fs_dec f v); reflexivity.
  - destruct (has_default f); reflexivity.
Qed.

Lemma field_loop_dict : forall cls kvs fs,
  field_loop cls (VDict kvs) fs =
  match first_bad kvs fs with
  | Some (f, b) => Exn (exn_of_bad cls f b)
  | None => Ok (map (step_val kvs) fs) end.
Proof.
  intros cls kvs fs. induction fs as [|f r IH]; [reflexivity|].
  cbn [field_loop first_bad map]. rewrite field_step_dict.
  destruct (field_bad kvs f) as [b|]; [reflexivity|].
  rewrite IH. destruct (first_bad kvs r) as [[g b]|]; reflexivity.
Qed.

Lemma fill_step : forall kvs f, fill f (step_val kvs f) = (fs_name f, good_value kvs f).
Proof.
  intros kvs f. unfold fill, step_val, good_value.
  destruct (lookup_field kvs f); reflexivity.
Qed.

Lemma fill_all_map : forall kvs fs,
  fill_all fs (map (step_val kvs) fs) = map (fun f => (fs_name f, good_value kvs f)) fs.
Proof.
  intros kvs fs. induction fs as [|f r IH]; [reflexivity|].
  cbn [fill_all map]. rewrite fill_step, IH. reflexivity.
Qed.

(* first_bad: operational definition vs. the declarative reading "first in declaration order" *)
Lemma first_bad_split : forall kvs fs f b,
  first_bad kvs fs = Some (f, b) ->
  exists pre post, fs = pre ++ f :: post /\
                   Forall (fun g => field_bad kvs g = None) pre /\ field_bad kvs f = Some b.
Proof.
  intros kvs fs. induction fs as [|g r IH]; intros f b H; [discriminate|].
  cbn [first_bad] in H. destruct (field_bad kvs g) as [bg|] eqn:Eg.
  - inversion H; subst. exists [], r. repeat split; auto.
  - destruct (IH _ _ H) as [pre [post [E [Hp Hf]]]].
    exists (g :: pre), post. subst r. repeat split; auto.
Qed.

Lemma first_bad_of_split : forall kvs pre f post b,
  Forall (fun g => field_bad kvs g = None) pre -> field_bad kvs f = Some b ->
  first_bad kvs (pre ++ f :: post) = Some (f, b).
Proof.
  intros kvs pre f post b Hp Hf. induction Hp as [|g pre' Hg _ IH]; cbn [app first_bad].
  - rewrite Hf. reflexivity.
  - rewrite Hg. exact IH.
Qed.

Lemma first_bad_none : forall kvs fs,
  first_bad kvs fs = None <-> Forall (fun g => field_bad kvs g = None) fs.
Proof.
  intros kvs fs. induction fs as [|g r IH]; cbn [first_bad].
  - split; auto.
  - destruct (field_bad kvs g) eqn:Eg.
    + split; [discriminate|]. intro H. inversion H; subst. congruence.
    + rewrite IH. split; intro H; [constructor; auto|inversion H; auto].
Qed.

Lemma first_bad_in : forall kvs fs f b, first_bad kvs fs = Some (f, b) -> In f fs.
Proof.
  intros kvs fs f b H. destruct (first_bad_split _ _ _ _ H) as [pre [post [E _]]].
  subst. apply in_or_app. right. left. reflexivity.
Qed.

(* ------------------------------------------------------------------ *)
(* the body of from_dict on a dict: closed form *)

Definition plain (c: cspec) : Prop := cs_pre c = None /\ cs_post c = None.

Lemma outer_handler_not_attr : forall A d (r: res A),
  (forall e, r = Exn e -> is_attribute_error e = false) -> outer_handler d r = r.
Proof.
  intros A d r H. unfold outer_handler. destruct r as [a|e]; [reflexivity|].
  specialize (H e eq_refl). destruct e; try reflexivity. discriminate.
Qed.

Lemma exn_of_bad_not_attr : forall cls f b, is_attribute_error (exn_of_bad cls f b) = false.
Proof. intros cls f [|v]; reflexivity. Qed.

Lemma touch_dict : forall c kvs, touch c (VDict kvs) = Ok tt.
Proof. intros c kvs. unfold touch. destruct (cs_fields c), (cs_forbid_extra c); reflexivity. Qed.

Theorem body_dict : forall c kvs,
  body c (VDict kvs) =
  if cs_forbid_extra c && negb (match extra_keys c kvs with [] => true | _ => false end)
  then Exn (XExtraKeys (extra_keys c kvs) (cs_name c))
  else match first_bad kvs (cs_fields c) with
       | Some (f, b) => Exn (exn_of_bad (cs_name c) f b)
       | None => Ok (map (step_val kvs) (cs_fields c)) end.
Proof.
  intros c kvs. unfold body.
  unfold extra_check. destruct (cs_forbid_extra c) eqn:Hf; cbn [andb].
  - destruct (extra_keys c kvs) as [|k ks] eqn:Ek; cbn [negb].
    + rewrite touch_dict, field_loop_dict. apply outer_handler_not_attr.
      intros e He. destruct (first_bad kvs (cs_fields c)) as [[g b]|]; [|discriminate].
      inversion He. apply exn_of_bad_not_attr.
    + reflexivity.
  - rewrite touch_dict, field_loop_dict. apply outer_handler_not_attr.
    intros e He. destruct (first_bad kvs (cs_fields c)) as [[g b]|]; [|discriminate].
    inversion He. apply exn_of_bad_not_attr.
Qed.

Theorem from_dict_dict : forall c kvs, plain c ->
  from_dict c (VDict kvs) =
  if cs_forbid_extra c && negb (match extra_keys c kvs with [] => true | _ => false end)
  then Exn (XExtraKeys (extra_keys c kvs) (cs_name c))
  else match first_bad kvs (cs_fields c) with
       | Some (f, b) => Exn (exn_of_bad (cs_name c) f b)
       | None => Ok (good_instance c kvs) end.
Proof.
  intros c kvs [Hpre Hpost]. unfold from_dict. rewrite Hpre, Hpost, body_dict.
  destruct (cs_forbid_extra c && _); [reflexivity|].
  destruct (first_bad kvs (cs_fields c)) as [[f b]|]; [reflexivity|].
  unfold good_instance. rewrite fill_all_map. reflexivity.
Qed.

(* non-mapping argument *)
Theorem body_nonmapping : forall c d, is_dict d = false -> body c d = Exn XValueError.
Proof.
  intros c d Hd. unfold body.
  assert (Hget: forall k, py_get d k = Exn XAttributeError) by (intro k; destruct d; cbn in Hd; try discriminate Hd; reflexivity).
  assert (Hin: (match extra_check c d with
                | Exn e => Exn e
                | Ok _ => match touch c d with
                          | Exn e => Exn e
                          | Ok _ => field_loop (cs_name c) d (cs_fields c) end
                end) = Exn XAttributeError).
  { unfold extra_check, touch. destruct (cs_forbid_extra c).
    - destruct d; cbn in Hd; try discriminate Hd; reflexivity.
    - destruct (cs_fields c) as [|f r].
      + rewrite Hd. reflexivity.
      + cbn [field_loop]. unfold field_step, read_key. rewrite Hget. reflexivity. }
  rewrite Hin. cbn [outer_handler]. rewrite Hd. reflexivity.
Qed.

Theorem from_dict_nonmapping : forall c d, plain c -> is_dict d = false ->
  from_dict c d = Exn XValueError.
Proof.
  intros c d [Hpre Hpost] Hd. unfold from_dict. rewrite Hpre, body_nonmapping by assumption. reflexivity.
Qed.

(* ------------------------------------------------------------------ *)
(* property-level statements *)

(* first bad field decides (declarative form) *)
Theorem first_bad_decides : forall c kvs pre f post b,
  plain c -> cs_fields c = pre ++ f :: post ->
  (cs_forbid_extra c = true -> extra_keys c kvs = []) ->
  Forall (fun g => field_bad kvs g = None) pre -> field_bad kvs f = Some b ->
  from_dict c (VDict kvs) = Exn (exn_of_bad (cs_name c) f b).
Proof.
  intros c kvs pre f post b Hpl Hfs Hex Hpre Hf.
  rewrite from_dict_dict by assumption.
  replace (cs_forbid_extra c && _) with false.
  - rewrite Hfs, (first_bad_of_split _ _ _ _ _ Hpre Hf). reflexivity.
  - destruct (cs_forbid_extra c); [|reflexivity]. rewrite (Hex eq_refl). reflexivity.
Qed.

Theorem extra_exact : forall c kvs, plain c ->
  cs_forbid_extra c = true -> extra_keys c kvs <> [] ->
  from_dict c (VDict kvs) = Exn (XExtraKeys (extra_keys c kvs) (cs_name c)).
Proof.
  intros c kvs Hpl Hf Hex. rewrite from_dict_dict by assumption. rewrite Hf.
  destruct (extra_keys c kvs); [congruence|]. reflexivity.
Qed.

(* the reported keys are exactly the keys of the input that are not allowed *)
Lemma extra_keys_spec : forall c kvs k,
  In k (extra_keys c kvs) <-> In k (map fst kvs) /\ key_allowed c k = false.
Proof.
  intros c kvs k. unfold extra_keys. rewrite filter_In. rewrite negb_true_iff. tauto.
Qed.

Theorem all_good_ok : forall c kvs, plain c ->
  (cs_forbid_extra c = true -> extra_keys c kvs = []) ->
  Forall (fun g => field_bad kvs g = None) (cs_fields c) ->
  from_dict c (VDict kvs) = Ok (good_instance c kvs).
Proof.
  intros c kvs Hpl Hex Hall. rewrite from_dict_dict by assumption.
  replace (cs_forbid_extra c && _) with false.
  - apply first_bad_none in Hall. rewrite Hall. reflexivity.
  - destruct (cs_forbid_extra c); [|reflexivity]. rewrite (Hex eq_refl). reflexivity.
Qed.

(* outcome set *)
Theorem outcomes : forall c d, plain c -> documented c d (from_dict c d).
Proof.
  intros c d Hpl. destruct (is_dict d) eqn:Hd.
  - destruct d; try discriminate. rename kvs into kvs.
    rewrite from_dict_dict by assumption.
    destruct (cs_forbid_extra c) eqn:Hf; cbn [andb].
    + destruct (extra_keys c kvs) as [|k ks] eqn:Ek; cbn [negb].
      * destruct (first_bad kvs (cs_fields c)) as [[f b]|] eqn:Efb.
        -- pose proof (first_bad_in _ _ _ _ Efb) as Hin.
           destruct (first_bad_split _ _ _ _ Efb) as [_ [_ [_ [_ Hb]]]].
           destruct b as [|v]; cbn [exn_of_bad].
           ++ apply DocMissing; auto. unfold field_bad in Hb.
              destruct (lookup_field kvs f); [|destruct (has_default f); [discriminate|reflexivity]].
              destruct (fs_ident f); [discriminate|]. destruct (fs_nullable f && is_none p); [discriminate|].
              destruct (fs_dec f p); discriminate.
           ++ eapply DocInvalid; eauto. unfold field_bad in Hb.
              destruct (lookup_field kvs f) as [w|]; [|destruct (has_default f); discriminate].
              destruct (fs_ident f); [discriminate|]. destruct (fs_nullable f && is_none w); [discriminate|].
              destruct (fs_dec f w); [discriminate|]. inversion Hb. reflexivity.
        -- apply DocOk. reflexivity.
      * rewrite <- Ek. apply DocExtra; auto. rewrite Ek. discriminate.
    + destruct (first_bad kvs (cs_fields c)) as [[f b]|] eqn:Efb.
      * pose proof (first_bad_in _ _ _ _ Efb) as Hin.
        destruct (first_bad_split _ _ _ _ Efb) as [_ [_ [_ [_ Hb]]]].
        destruct b as [|v]; cbn [exn_of_bad].
        -- apply DocMissing; auto. unfold field_bad in Hb.
           destruct (lookup_field kvs f); [|destruct (has_default f); [discriminate|reflexivity]].
           destruct (fs_ident f); [discriminate|]. destruct (fs_nullable f && is_none p); [discriminate|].
           destruct (fs_dec f p); discriminate.
        -- eapply DocInvalid; eauto. unfold field_bad in Hb.
           destruct (lookup_field kvs f) as [w|]; [|destruct (has_default f); discriminate].
           destruct (fs_ident f); [discriminate|]. destruct (fs_nullable f && is_none w); [discriminate|].
           destruct (fs_dec f w); [discriminate|]. inversion Hb. reflexivity.
      * apply DocOk. reflexivity.
  - rewrite from_dict_nonmapping by assumption. apply DocNonMapping. exact Hd.
Qed.

(* ValueError exactly for non-mappings *)
Theorem value_error_iff : forall c d, plain c ->
  (from_dict c d = Exn XValueError <-> is_dict d = false).
Proof.
  intros c d Hpl. split.
  - intro H. destruct (is_dict d) eqn:Hd; [|reflexivity]. destruct d; try discriminate.
    rewrite from_dict_dict in H by assumption.
    destruct (cs_forbid_extra c && _); [discriminate|].
    destruct (first_bad kvs (cs_fields c)) as [[f [|v]]|]; discriminate.
  - intro Hd. apply from_dict_nonmapping; assumption.
Qed.

(* no silent None / default: an instance is returned only when no field is bad, and then every
   field whose key is present holds the decoder's result for the input value *)
Theorem no_silent_default : forall c d r, plain c ->
  from_dict c d = Ok r ->
  exists kvs, d = VDict kvs /\ r = good_instance c kvs /\
    forall f, In f (cs_fields c) ->
      field_bad kvs f = None /\
      forall v, lookup_field kvs f = Some v ->
        good_value kvs f =
          (if fs_ident f then v
           else if fs_nullable f && is_none v then VNone
           else match fs_dec f v with Ok x => x | Exn _ => VNone end) /\
        (fs_ident f = false -> (fs_nullable f && is_none v) = false -> exists x, fs_dec f v = Ok x).
Proof.
  intros c d r Hpl H. destruct (is_dict d) eqn:Hd.
  2:{ rewrite from_dict_nonmapping in H by assumption. discriminate. }
  destruct d; try discriminate. exists kvs. split; [reflexivity|].
  rewrite from_dict_dict in H by assumption.
  destruct (cs_forbid_extra c && _); [discriminate|].
  destruct (first_bad kvs (cs_fields c)) as [[f b]|] eqn:Efb; [discriminate|].
  inversion H; subst r. split; [reflexivity|].
  apply first_bad_none in Efb. rewrite Forall_forall in Efb.
  intros f Hin. split; [apply Efb; exact Hin|].
  intros v Hv. split.
  - unfold good_value. rewrite Hv. reflexivity.
  - intros Hi Hn. specialize (Efb f Hin). unfold field_bad in Efb. rewrite Hv, Hi, Hn in Efb.
    destruct (fs_dec f v) as [x|e]; [exists x; reflexivity|discriminate].
Qed.

(* with user hooks: the only further exceptions are the ones user code raised itself *)
Theorem outcomes_hooks : forall c d0,
  let c0 := {| cs_name := cs_name c; cs_fields := cs_fields c; cs_forbid_extra := cs_forbid_extra c;
               cs_discr_keys := cs_discr_keys c; cs_pre := None; cs_post := None |} in
  match cs_pre c with
  | Some h => match h d0 with
              | Exn e => from_dict c d0 = Exn e            (* raised by the user's pre hook *)
              | Ok d => match from_dict c0 d with
                        | Exn e => from_dict c d0 = Exn e  (* documented, about the hook's result d *)
                        | Ok obj => from_dict c d0 = match cs_post c with Some p => p obj | None => Ok obj end
                        end
              end
  | None => match from_dict c0 d0 with
            | Exn e => from_dict c d0 = Exn e
            | Ok obj => from_dict c d0 = match cs_post c with Some p => p obj | None => Ok obj end
            end
  end.
Proof.
  intros c d0 c0. unfold from_dict. cbn [cs_pre cs_post c0].
  assert (Hb: forall d, body c0 d = body c d) by (intro d; reflexivity).
  destruct (cs_pre c) as [h|].
  - destruct (h d0) as [d|e]; [|reflexivity].
    rewrite Hb. destruct (body c d); reflexivity.
  - rewrite Hb. destruct (body c d0); reflexivity.
Qed.

(* field-less class (after fix abe4c99): same frame as every other class *)
Theorem fieldless_nonmapping : forall c d, plain c -> cs_fields c = [] -> is_dict d = false ->
  from_dict c d = Exn XValueError.
Proof. intros c d Hp _ Hd. apply from_dict_nonmapping; assumption. Qed.

(* ------------------------------------------------------------------ *)
(* unions *)

Lemma try_pass_cases : forall dec v,
  (exists x, dec v = Ok x /\ try_pass dec v = Some (Ok x)) \/
  (exists e, dec v = Exn e /\ is_exception e = true /\ try_pass dec v = None) \/
  (exists e, dec v = Exn e /\ is_exception e = false /\ try_pass dec v = Some (Exn e)).
Proof.
  intros dec v. unfold try_pass. destruct (dec v) as [x|e].
  - left. eauto.
  - destruct (is_exception e) eqn:E; [right; left|right; right]; eauto.
Qed.

(* r is produced by a member: the exact-type shortcut, an identity member, a try member or a fallback coercion *)
Inductive from_member (ms: list umember) (v: pv) : pv -> Prop :=
| FmExact : forall s coer, In (UExact s coer) ms -> exact_scalar s v = true -> from_member ms v v
| FmIdent : In UIdent ms -> from_member ms v v
| FmTry : forall dec x, In (UTry dec) ms -> dec v = Ok x -> from_member ms v x
| FmCoerce : forall s coer x, In (UExact s coer) ms -> coer v = Ok x -> from_member ms v x.

Lemma from_member_cons : forall m ms v x, from_member ms v x -> from_member (m :: ms) v x.
Proof.
  intros m ms v x H. destruct H.
  - eapply FmExact; [right; eassumption|assumption].
  - apply FmIdent. right. assumption.
  - eapply FmTry; [right; eassumption|assumption].
  - eapply FmCoerce; [right; eassumption|assumption].
Qed.

Lemma union_first_sound : forall ms v r, Forall (fun m => member_tame m v = true) ms ->
  union_first ms v = Some r -> exists x, r = Ok x /\ from_member ms v x.
Proof.
  intros ms v r Ht. induction Ht as [|m ms Hm _ IH]; intro H; [discriminate|].
  destruct m as [s coer| |dec]; cbn [union_first] in H.
  - destruct (exact_scalar s v) eqn:E.
    + inversion H; subst. exists v. split; [reflexivity|]. eapply FmExact; [left; reflexivity|exact E].
    + destruct (IH H) as [x [Hr Hx]]. exists x. split; [assumption|apply from_member_cons; assumption].
  - inversion H; subst. exists v. split; [reflexivity|]. apply FmIdent. left. reflexivity.
  - destruct (try_pass_cases dec v) as [[x [Hd Hp]]|[[e [Hd [He Hp]]]|[e [Hd [He Hp]]]]]; rewrite Hp in H.
    + inversion H; subst. exists x. split; [reflexivity|]. eapply FmTry; [left; reflexivity|exact Hd].
    + destruct (IH H) as [x [Hr Hx]]. exists x. split; [assumption|apply from_member_cons; assumption].
    + cbn [member_tame] in Hm. rewrite Hd in Hm. congruence.
Qed.

Lemma union_fallbacks_sound : forall ms v r, Forall (fun m => member_tame m v = true) ms ->
  union_fallbacks ms v = Some r -> exists x, r = Ok x /\ from_member ms v x.
Proof.
  intros ms v r Ht. induction Ht as [|m ms Hm _ IH]; intro H; [discriminate|].
  destruct m as [s coer| |dec]; cbn [union_fallbacks] in H.
  - destruct (try_pass_cases coer v) as [[x [Hd Hp]]|[[e [Hd [He Hp]]]|[e [Hd [He Hp]]]]]; rewrite Hp in H.
    + inversion H; subst. exists x. split; [reflexivity|]. eapply FmCoerce; [left; reflexivity|exact Hd].
    + destruct (IH H) as [x [Hr Hx]]. exists x. split; [assumption|apply from_member_cons; assumption].
    + cbn [member_tame] in Hm. rewrite Hd in Hm. congruence.
  - destruct (IH H) as [x [Hr Hx]]. exists x. split; [assumption|apply from_member_cons; assumption].
  - destruct (IH H) as [x [Hr Hx]]. exists x. split; [assumption|apply from_member_cons; assumption].
Qed.

(* a union either returns some member's result or raises exactly the final exception *)
Theorem union_outcomes : forall ms final v, Forall (fun m => member_tame m v = true) ms ->
  (exists x, union_run ms final v = Ok x /\ from_member ms v x) \/ union_run ms final v = Exn final.
Proof.
  intros ms final v Ht. unfold union_run.
  destruct (union_first ms v) as [r|] eqn:E1.
  - left. destruct (union_first_sound _ _ _ Ht E1) as [x [Hr Hx]]. subst. eauto.
  - destruct (union_fallbacks ms v) as [r|] eqn:E2.
    + left. destruct (union_fallbacks_sound _ _ _ Ht E2) as [x [Hr Hx]]. subst. eauto.
    + right. reflexivity.
Qed.

(* without tameness: the only other thing that can escape is a non-Exception BaseException
   raised by a member (`except Exception` does not catch it) *)
Lemma union_first_any : forall ms v r, union_first ms v = Some r ->
  (exists x, r = Ok x) \/ (exists e, r = Exn e /\ is_exception e = false).
Proof.
  intros ms v r. induction ms as [|m ms IH]; intro H; [discriminate|].
  destruct m as [s coer| |dec]; cbn [union_first] in H.
  - destruct (exact_scalar s v); [inversion H; left; eauto|auto].
  - inversion H; left; eauto.
  - destruct (try_pass_cases dec v) as [[x [Hd Hp]]|[[e [Hd [He Hp]]]|[e [Hd [He Hp]]]]]; rewrite Hp in H.
    + inversion H; left; eauto.
    + auto.
    + inversion H; right; eauto.
Qed.

Lemma union_fallbacks_any : forall ms v r, union_fallbacks ms v = Some r ->
  (exists x, r = Ok x) \/ (exists e, r = Exn e /\ is_exception e = false).
Proof.
  intros ms v r. induction ms as [|m ms IH]; intro H; [discriminate|].
  destruct m as [s coer| |dec]; cbn [union_fallbacks] in H; auto.
  destruct (try_pass_cases coer v) as [[x [Hd Hp]]|[[e [Hd [He Hp]]]|[e [Hd [He Hp]]]]]; rewrite Hp in H.
  - inversion H; left; eauto.
  - auto.
  - inversion H; right; eauto.
Qed.

Theorem union_exceptions : forall ms final v e, union_run ms final v = Exn e ->
  e = final \/ is_exception e = false.
Proof.
  intros ms final v e H. unfold union_run in H.
  destruct (union_first ms v) as [r|] eqn:E1.
  - destruct (union_first_any _ _ _ E1) as [[x Hx]|[e' [He' Hb]]]; rewrite H in *.
    + discriminate Hx.
    + inversion He'; subst. auto.
  - destruct (union_fallbacks ms v) as [r|] eqn:E2.
    + destruct (union_fallbacks_any _ _ _ E2) as [[x Hx]|[e' [He' Hb]]]; rewrite H in *.
      * discriminate Hx.
      * inversion He'; subst. auto.
    + inversion H. auto.
Qed.

(* garbage is rejected when no member is the `None` member *)
Lemma union_first_reject : forall ms v,
  Forall (fun m => member_accepts m v = false) ms ->
  Forall (fun m => member_tame m v = true) ms ->
  union_first ms v = None.
Proof.
  intros ms v Ha. induction Ha as [|m ms Hm _ IH]; intro Ht; [reflexivity|].
  inversion Ht as [|m' ms' Htm Ht']; subst.
  destruct m as [s coer| |dec]; cbn [union_first].
  - assert (Hex: exact_scalar s v = false).
    { cbn [member_accepts] in Hm. destruct s; try (apply orb_false_iff in Hm; tauto).
      destruct v; try reflexivity. discriminate Hm. }
    rewrite Hex. auto.
  - discriminate.
  - cbn [member_accepts] in Hm. cbn [member_tame] in Htm. unfold try_pass.
    destruct (dec v) as [x|e]; [discriminate|]. rewrite Htm. auto.
Qed.

Lemma union_fallbacks_reject : forall ms v,
  Forall (fun m => is_none_member m = false) ms ->
  Forall (fun m => member_accepts m v = false) ms ->
  Forall (fun m => member_tame m v = true) ms ->
  union_fallbacks ms v = None.
Proof.
  intros ms v Hn. induction Hn as [|m ms Hnm _ IH]; intros Ha Ht; [reflexivity|].
  inversion Ha as [|m1 ms1 Hm Ha']; subst. inversion Ht as [|m2 ms2 Htm Ht']; subst.
  destruct m as [s coer| |dec]; cbn [union_fallbacks]; auto.
  cbn [member_tame] in Htm. unfold try_pass.
  assert (Hc: exists e, coer v = Exn e).
  { cbn [member_accepts] in Hm. destruct s; try (apply orb_false_iff in Hm; destruct Hm as [_ Hm];
      destruct (coer v) as [x|e]; [discriminate|eauto]). discriminate. }
  destruct Hc as [e He]. rewrite He in *. rewrite Htm. auto.
Qed.

Theorem union_rejects_garbage : forall ms final v,
  Forall (fun m => is_none_member m = false) ms ->
  Forall (fun m => member_accepts m v = false) ms ->
  Forall (fun m => member_tame m v = true) ms ->
  union_run ms final v = Exn final.
Proof.
  intros ms final v Hn Ha Ht. unfold union_run.
  rewrite union_first_reject, union_fallbacks_reject by assumption. reflexivity.
Qed.

(* ------------------------------------------------------------------ *)
(* discriminators *)

Theorem discr_outcomes : forall field reg kvs,
  (forall tag, d_lookup kvs (VStr field) = Some tag -> hashable tag = true) ->
  let v := VDict kvs in
  discr_run field reg v = Exn (XMissingDiscriminator field) \/
  discr_run field reg v = Exn XNoVariant \/
  exists tag dec, d_lookup kvs (VStr field) = Some tag /\ reg_lookup reg tag = Some dec /\
                  discr_run field reg v = dec v.
Proof.
  intros field reg kvs Hh v. unfold discr_run, v. cbn [py_getitem_str].
  destruct (d_lookup kvs (VStr field)) as [tag|] eqn:El; [|left; reflexivity].
  rewrite (Hh tag eq_refl). cbn [negb].
  destruct (reg_lookup reg tag) as [dec|] eqn:Er; [|right; left; reflexivity].
  right; right. exists tag, dec. auto.
Qed.

Theorem discr_nofield_outcomes : forall variants v,
  Forall (fun dec => match dec v with Exn e => is_exception e = true | Ok _ => True end) variants ->
  discr_nofield variants v = Exn XNoVariant \/
  exists dec x, In dec variants /\ dec v = Ok x /\ discr_nofield variants v = Ok x.
Proof.
  intros variants v Ht. induction Ht as [|dec r Hd _ IH]; [left; reflexivity|].
  cbn [discr_nofield]. unfold try_pass. destruct (dec v) as [x|e] eqn:Ed.
  - right. exists dec, x. repeat split; auto. left. reflexivity.
  - rewrite Hd. destruct IH as [IH|[dec' [x [Hin [Hv Hr]]]]]; [left; assumption|].
    right. exists dec', x. repeat split; auto. right. assumption.
Qed.

(* ------------------------------------------------------------------ *)
(* discriminator dispatch with the lazily filled registry *)

Lemma sreg_set_lookup : forall reg t dec t',
  sreg_lookup (sreg_set reg t dec) t' = if String.eqb t t' then Some dec else sreg_lookup reg t'.
Proof.
  intros reg t dec t'. induction reg as [|[t'' d'] r IH]; cbn [sreg_set sreg_lookup].
  - reflexivity.
  - destruct (String.eqb t'' t) eqn:E1; cbn [sreg_lookup].
    + apply String.eqb_eq in E1. subst t''. destruct (String.eqb t t'); reflexivity.
    + destruct (String.eqb t'' t') eqn:E2.
      * apply String.eqb_eq in E2. subst t''. rewrite String.eqb_sym, E1. reflexivity.
      * exact IH.
Qed.

Lemma refill_lookup : forall vs reg t,
  sreg_lookup (refill reg vs) t = match owner vs t with Some d => Some d | None => sreg_lookup reg t end.
Proof.
  induction vs as [|[[t'|] dec] r IH]; intros reg t; cbn [refill fold_left owner fst snd].
  - reflexivity.
  - change (fold_left _ r (sreg_set reg t' dec)) with (refill (sreg_set reg t' dec) r).
    rewrite IH, sreg_set_lookup. destruct (owner r t); [reflexivity|].
    destruct (String.eqb t' t); reflexivity.
  - change (fold_left _ r reg) with (refill reg r). apply IH.
Qed.

(* invariant: whatever the registry holds is what the walk over the variants would put there *)
Definition reg_inv (vs: list variant) (reg: registry) : Prop :=
  forall t dec, sreg_lookup reg t = Some dec -> owner vs t = Some dec.

Lemma reg_inv_nil : forall vs, reg_inv vs [].
Proof. intros vs t dec H. discriminate H. Qed.

Lemma refill_inv_lookup : forall vs reg t, reg_inv vs reg ->
  sreg_lookup (refill reg vs) t = owner vs t.
Proof.
  intros vs reg t Hinv. rewrite refill_lookup. destruct (owner vs t) eqn:Eo; [reflexivity|].
  destruct (sreg_lookup reg t) as [d|] eqn:El; [|reflexivity].
  rewrite (Hinv _ _ El) in Eo. discriminate Eo.
Qed.

Lemma refill_inv : forall vs reg, reg_inv vs reg -> reg_inv vs (refill reg vs).
Proof. intros vs reg Hinv t dec H. rewrite refill_inv_lookup in H by assumption. exact H. Qed.

(* one call: the outcome does not depend on the state of the registry, and the invariant is kept *)
Theorem discr_call_spec : forall field vs reg v, reg_inv vs reg ->
  fst (discr_call field vs reg v) = discr_spec field vs v /\ reg_inv vs (snd (discr_call field vs reg v)).
Proof.
  intros field vs reg v Hinv. unfold discr_call, discr_spec.
  destruct (py_getitem_str v field) as [tag|e].
  2:{ destruct e; cbn [fst snd]; auto. }
  destruct (hashable tag); cbn [negb]; [|cbn [fst snd]; auto].
  destruct tag; cbn [tag_lookup]; try (cbn [fst snd]; split; [reflexivity|apply refill_inv; assumption]).
  (* tag = VStr s *)
  destruct (sreg_lookup reg s) as [dec|] eqn:El.
  - rewrite (Hinv _ _ El). cbn [fst snd]. split; [reflexivity|assumption].
  - cbn [fst snd]. rewrite refill_inv_lookup by assumption. split; [|apply refill_inv; assumption].
    destruct (owner vs s); reflexivity.
Qed.

(* whole histories, starting from the empty registry *)
Theorem discr_history_spec : forall field vs inputs reg, reg_inv vs reg ->
  discr_history field vs reg inputs = map (discr_spec field vs) inputs.
Proof.
  intros field vs inputs. induction inputs as [|v r IH]; intros reg Hinv; [reflexivity|].
  cbn [discr_history map]. destruct (discr_call_spec field vs reg v Hinv) as [H1 H2].
  destruct (discr_call field vs reg v) as [o reg']. cbn [fst snd] in *. rewrite H1, (IH reg' H2). reflexivity.
Qed.

(* the chosen variant's own outcome propagates unchanged, on the first call and on every later one *)
Theorem discr_variant_outcome_propagates : forall field vs reg kvs s dec,
  reg_inv vs reg ->
  d_lookup kvs (VStr field) = Some (VStr s) -> owner vs s = Some dec ->
  fst (discr_call field vs reg (VDict kvs)) = dec (VDict kvs).
Proof.
  intros field vs reg kvs s dec Hinv Hl Ho.
  rewrite (proj1 (discr_call_spec field vs reg (VDict kvs) Hinv)).
  unfold discr_spec. cbn [py_getitem_str]. rewrite Hl. cbn [hashable negb]. rewrite Ho. reflexivity.
Qed.
