(* Tie by translation: the copy / by-reference / comprehension decision of the sharing model
   (Share.seq_expr / Share.map_expr) is the decision function translated on every run from
   mashumaro/core/meta/types/pack.py:pack_collection (_make_sequence_expression,
   _make_mapping_expression) -- kernel K15. *)
From Coq Require Import List Bool.
From Verif Require Import Share CollDecision.
From VerifGen Require Import K15.
Import ListNotations.

Definition ir_of_seq_decision (d: decision) (ie: ir) : ir :=
  match d with DByRef => IId | DCopy => ICopy | DComp => ISeqComp ie end.
Definition ir_of_map_decision (d: decision) (ke ve: ir) : ir :=
  match d with DByRef => IId | DCopy => ICopy | DComp => IMapComp ke ve end.

Lemma seq_expr_is_source N o ie :
  seq_expr N o ie = ir_of_seq_decision (seq_decision (is_id ie) (inN N o) (origin_eqb o OList)) ie.
Proof.
  unfold seq_expr, seq_decision. destruct (is_id ie); destruct (inN N o); destruct (origin_eqb o OList); reflexivity.
Qed.

Lemma map_expr_is_source N o ke ve :
  map_expr N o ke ve =
  ir_of_map_decision (map_decision (is_id ke && is_id ve) (inN N o) (origin_eqb o ODict)) ke ve.
Proof.
  unfold map_expr, map_decision.
  destruct (is_id ke && is_id ve); destruct (inN N o); destruct (origin_eqb o ODict); reflexivity.
Qed.
