(* C13, decode side: "all six formats apply the same dialect-resolved decode plan".

   What a Decoder_F(T, default_dialect=D) does with a field is decided by
     - the key it reads            (alias if the field has one, else the name: no dialect option takes part);
     - the deserializer in force   (first source with a `deserialize` entry: class level, then the default
                                    dialect = <FormatDialect>.merge(D) -- the strategy map of DialectDoc.codec_strategies);
     - for named tuples, whether a dict or a list is expected: get_dialect_or_config_option("namedtuple_as_dict",
       False) (read site recorded by kernel K13), resolved over Config.dialect, Config, default dialect.
   The default dialect of each codec and the tables of the format dialects come from kernel K13C; merge is K2;
   resolution is K3.  New definitions only; nothing of DialectDoc / OptProj is changed. *)
From Coq Require Import List String Ascii ZArith Bool Lia.
From Verif Require Import Regex PyK OptProj DialectMerge DialectDoc.
From VerifGen Require Import K2 K3 K13 K13C.
Import ListNotations.
Open Scope string_scope.

(* ------------------------------------------------------------------ *)
(* namedtuple_as_dict at the default-dialect level of a codec           *)
(* ------------------------------------------------------------------ *)
Definition fmt_nd (f: fmt) : tri :=
  match fmt_dialect_name f with
  | Some (Some n) => match assoc format_dialect_options n with
                     | Some a => tri_of_kv (assoc a "namedtuple_as_dict") | None => U end
  | _ => U end.

(* no format dialect says anything about namedtuple_as_dict (tables of this run) *)
Lemma fmt_nd_unset : forallb (fun f => match fmt_nd f with U => true | _ => false end) all_fmts = true.
Proof. vm_compute. reflexivity. Qed.

(* the value at the default-dialect level: user's if set, else the format's *)
Definition codec_nd (f: fmt) (D: option tri) : tri :=
  match fmt_dialect_name f with
  | Some (Some _) => match D with Some d => merge_tri (fmt_nd f) d | None => fmt_nd f end
  | _ => match D with Some d => d | None => U end
  end.

(* first namespace that sets the option: Config.dialect, Config, default dialect (no call dialect in a codec) *)
Definition first_tri (l: list tri) : bool :=
  match filter (fun t => match t with U => false | _ => true end) l with
  | T :: _ => true | _ => false end.

Definition nd_in_force (f: fmt) (D: option tri) (cfgd cfg: tri) : bool := first_tri [cfgd; cfg; codec_nd f D].

Lemma codec_nd_basic f D : In f all_fmts -> codec_nd f D = codec_nd FBasic D.
Proof.
  intros Hf. pose proof (proj1 (forallb_forall _ _) fmt_nd_unset f Hf) as E.
  unfold codec_nd. change (fmt_dialect_name FBasic) with (Some (@None string)).
  destruct (fmt_dialect_name f) as [[n|]|]; try reflexivity.
  cbv beta in E. destruct (fmt_nd f); try discriminate E. destruct D as [[]|]; reflexivity.
Qed.

(* tie to K2: merging a format dialect that leaves namedtuple_as_dict unset with a user dialect keeps the user's value *)
Definition enc_nd (t: tri) : list (string * kv) := ns_set blank_dialect "namedtuple_as_dict" (enc_t t).

Lemma enc_nd_has_keys t : has_keys merge_loop_keys (enc_nd t).
Proof. unfold enc_nd. apply has_keys_set. exact blank_has_keys. Qed.

Lemma nd_in_five : In "namedtuple_as_dict" five_options.
Proof. cbn. tauto. Qed.

Theorem merge_nd_is_K2 a b nd :
  exists r, merge_options (KNs (enc_nd a)) (KNs (enc_nd b)) (KNs nd) = Ok (KNs r) /\
            option_of r "namedtuple_as_dict" = enc_t (merge_tri a b).
Proof.
  destruct (merge_total_five (enc_nd a) (enc_nd b) nd "namedtuple_as_dict" (enc_nd_has_keys a) (enc_nd_has_keys b) nd_in_five)
    as [r [E H]].
  exists r. split; [exact E|]. rewrite H. unfold option_of, enc_nd. rewrite !ns_get_set_same. apply enc_merge_tri.
Qed.

(* tie to K13: the option is read through the resolution function, with default False, at every site *)
Lemma nd_read_via_resolution :
  existsb (fun p => String.eqb (fst p) "namedtuple_as_dict") resolved_option_reads = true /\
  forallb (fun p => negb (String.eqb (fst p) "namedtuple_as_dict") || String.eqb (snd p) "False") resolved_option_reads = true.
Proof. split; vm_compute; reflexivity. Qed.

(* ------------------------------------------------------------------ *)
(* the decode plan                                                      *)
(* ------------------------------------------------------------------ *)
Record dfield := { f_name : string; f_alias : option string; f_ty : nat; f_namedtuple : bool }.

Definition key_read (d: dfield) : string := match d.(f_alias) with Some a => a | None => d.(f_name) end.

Section DecodePlan.
  Variable cls_eff : nat -> eff.        (* what the class itself says for the deserialize direction *)

  Definition choice_de (m: smap) (ty: nat) : eff :=
    match cls_eff ty with ENone => effective (sm_get m ty) "deserialize" | e => e end.

  (* key read, deserializer in force, (for named tuples) dict expected *)
  Definition dentry := (string * eff * bool)%type.

  Definition decode_plan (f: fmt) (D: option tri) (usr: option smap) (cfgd cfg: tri) (ds: list dfield) : list dentry :=
    map (fun d => (key_read d, choice_de (codec_strategies f usr) d.(f_ty),
                   d.(f_namedtuple) && nd_in_force f D cfgd cfg)) ds.

  Definition user_says_de (usr: option smap) (ty: nat) : bool :=
    match cls_eff ty with ENone =>
      match usr with Some u => match effective (sm_get u ty) "deserialize" with ENone => false | _ => true end | None => false end
    | _ => true end.

  (* no field type is left to a format-native deserialize entry *)
  Definition native_free_de (f: fmt) (usr: option smap) (ds: list dfield) : bool :=
    forallb (fun d => match effective (sm_get (fmt_strategies f) d.(f_ty)) "deserialize" with
                      | ENone => true | _ => user_says_de usr d.(f_ty) end) ds.

  Lemma choice_de_same f usr ty :
    match usr with Some u => dict_nodup u | None => True end ->
    (match effective (sm_get (fmt_strategies f) ty) "deserialize" with ENone => true | _ => user_says_de usr ty end) = true ->
    choice_de (codec_strategies f usr) ty = choice_de (codec_strategies FBasic usr) ty.
  Proof.
    intros HN H. unfold choice_de, user_says_de in *. destruct (cls_eff ty); try reflexivity.
    unfold codec_strategies. change (fmt_dialect_name FBasic) with (Some (@None string)).
    destruct (fmt_dialect_name f) as [[n|]|] eqn:En; try reflexivity.
    destruct usr as [u|].
    - destruct HN as [ND NE].
      rewrite (merge_strategies_effective (fmt_strategies f) u ty "deserialize" (fmt_strategies_nodup f) ND (NE ty)).
      unfold strategy_spec.
      destruct (sm_get u ty) as [[s|e]|] eqn:Eu; cbn [effective] in *; try reflexivity.
      + destruct (e_get e "deserialize") eqn:Ee; [reflexivity|].
        destruct (sm_get (fmt_strategies f) ty) as [[s|b]|]; cbn [effective] in *; try reflexivity; try discriminate.
        destruct (e_get b "deserialize"); [discriminate|reflexivity].
      + destruct (sm_get (fmt_strategies f) ty) as [[s|b]|]; cbn [effective] in *; try reflexivity; try discriminate.
        destruct (e_get b "deserialize"); [discriminate|reflexivity].
    - destruct (effective (sm_get (fmt_strategies f) ty) "deserialize") eqn:Ef; try discriminate. reflexivity.
  Qed.

  (* C13_same_decode_plan (partial): with no field left to a format-native deserializer, every format applies the
     decode plan of the basic codec for the same dialect *)
  Theorem same_decode_plan_partial f D usr cfgd cfg ds :
    In f all_fmts ->
    match usr with Some u => dict_nodup u | None => True end ->
    native_free_de f usr ds = true ->
    decode_plan f D usr cfgd cfg ds = decode_plan FBasic D usr cfgd cfg ds.
  Proof.
    intros Hf HN H. unfold decode_plan. apply map_ext_in. intros d Hd.
    unfold native_free_de in H. rewrite forallb_forall in H.
    rewrite (choice_de_same f usr _ HN (H d Hd)). unfold nd_in_force. rewrite (codec_nd_basic f D Hf). reflexivity.
  Qed.

  Definition same_decode_plan_full : Prop :=
    forall f D usr cfgd cfg ds, In f all_fmts ->
      match usr with Some u => dict_nodup u | None => True end ->
      decode_plan f D usr cfgd cfg ds = decode_plan FBasic D usr cfgd cfg ds.

  (* keys and the named-tuple mode never depend on the format, whatever the strategies *)
  Theorem decode_keys_and_nt_mode f D usr cfgd cfg ds :
    In f all_fmts ->
    map (fun e => (fst (fst e), snd e)) (decode_plan f D usr cfgd cfg ds) =
    map (fun e => (fst (fst e), snd e)) (decode_plan FBasic D usr cfgd cfg ds).
  Proof.
    intros Hf. unfold decode_plan. rewrite !map_map. apply map_ext. intros d. cbn [fst snd].
    unfold nd_in_force. rewrite (codec_nd_basic f D Hf). reflexivity.
  Qed.
End DecodePlan.

(* the faithful model violates the full statement exactly at a format-native type: MessagePack takes bytes as they
   come (pass_through), the basic codec decodes base64 text *)
Definition w_bytes : dfield := {| f_name := "by"; f_alias := None; f_ty := 5; f_namedtuple := false |}.

Lemma decode_native_witness :
  decode_plan (fun _ => ENone) FMsgpack None None U U [w_bytes] = [("by", EStrat 0, false)] /\
  decode_plan (fun _ => ENone) FBasic None None U U [w_bytes] = [("by", ENone, false)].
Proof. split; vm_compute; reflexivity. Qed.

Theorem same_decode_plan_full_refuted : ~ same_decode_plan_full (fun _ => ENone).
Proof.
  intros H. specialize (H FMsgpack None None U U [w_bytes]).
  destruct decode_native_witness as [A B]. rewrite A, B in H.
  assert (X: In FMsgpack all_fmts) by (cbn; tauto). specialize (H X I). discriminate.
Qed.

(* executable helpers for the correspondence *)
Definition de_choice_case := (fmt * option smap * nat * eff)%type.
Definition de_choice_case_ok (c: de_choice_case) : bool :=
  let '(f, usr, ty, e) := c in
  let g := effective (sm_get (codec_strategies f usr) ty) "deserialize" in
  eff_eqb g e || (match g, e with EFun 0, EStrat 0 => true | _, _ => false end).

Definition nd_case := (fmt * option tri * tri * tri * bool)%type.
Definition nd_case_ok (c: nd_case) : bool :=
  let '(f, D, cfgd, cfg, e) := c in Bool.eqb (nd_in_force f D cfgd cfg) e.

(* ------------------------------------------------------------------ *)
(* the remaining option: no_copy_collections at the default-dialect level (pack side)                  *)
(* collections are numbered as in K13C: list = 1, dict = 2; None = the dialect leaves the option unset  *)
(* ------------------------------------------------------------------ *)
Definition coll_ids (v: option kv) : option (list nat) :=
  match v with
  | Some (KTuple l) => Some (map (fun x => match x with KObj n => n | _ => 0%nat end) l)
  | _ => None end.

Definition fmt_nc (f: fmt) : option (list nat) :=
  match fmt_dialect_name f with
  | Some (Some n) => match assoc format_dialect_options n with Some a => coll_ids (assoc a "no_copy_collections") | None => None end
  | _ => None end.

Lemma fmt_nc_table : map fmt_nc all_fmts = [None; None; None; Some [1; 2]; Some [1; 2]; Some [1; 2]]%nat.
Proof. vm_compute. reflexivity. Qed.

(* what get_dialect_or_config_option("no_copy_collections", ()) yields for a codec whose shape class has no Config
   value for it (Config has no such option): the user's if set, else the format's, else () *)
Definition codec_nc (f: fmt) (D: option (option (list nat))) : list nat :=
  let usr := match D with Some (Some l) => Some l | _ => None end in
  match usr with
  | Some l => l
  | None => match fmt_nc f with Some l => l | None => [] end
  end.

Theorem codec_nc_user_wins f l : codec_nc f (Some (Some l)) = l.
Proof. reflexivity. Qed.

Theorem codec_nc_format_default f D :
  (match D with Some (Some _) => False | _ => True end) ->
  codec_nc f D = match fmt_nc f with Some l => l | None => [] end.
Proof. destruct D as [[l|]|]; intros H; try contradiction; reflexivity. Qed.

Definition nc_case := (fmt * option (option (list nat)) * list nat)%type.
Definition nc_case_ok (c: nc_case) : bool :=
  let '(f, D, e) := c in
  (fix eqb (a b: list nat) := match a, b with [], [] => true | x :: r, y :: s => Nat.eqb x y && eqb r s | _, _ => false end)
    (codec_nc f D) e.
