(* Case format and comparison functions for the C18 correspondence (harness/props/c18.py). *)
From Coq Require Import List Arith Bool ZArith.
From Verif Require Import Share.
Import ListNotations.

Record pcase := {
  pc_classes : list cls;
  pc_fmt : dialect;
  pc_lp : list leafk;
  pc_call : option dialect;
  pc_ntop : list origin;
  pc_ty : ty;
  pc_in : lv;
  pc_out : lv;        (* result observed on the library; fresh objects carry the label n0 *)
}.

Definition n0 : nat := 2000.

Definition leafk_eqb (a b: leafk) : bool :=
  match a, b with LDate, LDate | LDecimal, LDecimal | LBytearray, LBytearray => true | _, _ => false end.

Definition dummy_cls : cls := {| c_sup := false; c_nc := None; c_fields := [] |}.

Definition env_of (c: pcase) : env :=
  {| e_ct := fun i => nth i c.(pc_classes) dummy_cls;
     e_fmt := c.(pc_fmt);
     e_lp := fun k => existsb (leafk_eqb k) c.(pc_lp) |}.

Definition kind_code (k: kind) : nat :=
  match k with KList => 0 | KSet => 1 | KFrozenSet => 2 | KDeque => 3 | KTuple => 4
             | KDict => 5 | KOrderedDict => 6 | KDefaultDict => 7 | KCounter => 8 | KChainMap => 9 end.

(* fresh labels are collapsed to n0 *)
Fixpoint norm (v: lv) : lv :=
  let nl (l: nat) := if l <? n0 then l else n0 in
  match v with
  | VAtom _ => VAtom 0
  | VNone => VNone
  | VLeaf _ => VLeaf 0
  | VOpq l => VOpq (nl l)
  | VSeq k l xs => VSeq k (nl l) (map norm xs)
  | VMap k l kvs => VMap k (nl l) (map (fun kv => match kv with (a, b) => (norm a, norm b) end) kvs)
  | VObj c l fs => VObj c (nl l) (map norm fs)
  end.

Section RemoveFirst.
  Context {A: Type} (p: A -> bool).
  Fixpoint remove_first (ys: list A) : option (list A) :=
    match ys with
    | [] => None
    | y :: r => if p y then Some r
                else match remove_first r with Some r' => Some (y :: r') | None => None end
    end.
End RemoveFirst.

Definition is_set_kind (k: kind) : bool := match k with KSet | KFrozenSet => true | _ => false end.

(* sets are compared as multisets: the iteration order of a set the library builds is not
   the order of the list it was built from *)
Fixpoint lv_eqb (a b: lv) {struct a} : bool :=
  match a, b with
  | VAtom _, VAtom _ => true
  | VNone, VNone => true
  | VLeaf _, VLeaf _ => true
  | VOpq l, VOpq l' => Nat.eqb l l'
  | VSeq k l xs, VSeq k' l' ys =>
      kind_eqb k k' && Nat.eqb l l' &&
      if is_set_kind k then
        (fix perm (xs ys: list lv) {struct xs} : bool :=
           match xs with
           | [] => match ys with [] => true | _ => false end
           | x :: xs' => match remove_first (lv_eqb x) ys with
                         | Some ys' => perm xs' ys'
                         | None => false end
           end) xs ys
      else
      (fix go (xs ys: list lv) {struct xs} : bool :=
         match xs, ys with
         | [], [] => true
         | x :: xs', y :: ys' => lv_eqb x y && go xs' ys'
         | _, _ => false end) xs ys
  | VMap k l xs, VMap k' l' ys =>
      kind_eqb k k' && Nat.eqb l l' &&
      (fix go (xs ys: list (lv * lv)) {struct xs} : bool :=
         match xs, ys with
         | [], [] => true
         | p :: xs', q :: ys' =>
             match p, q with (a1, b1), (a2, b2) => lv_eqb a1 a2 && lv_eqb b1 b2 && go xs' ys' end
         | _, _ => false end) xs ys
  | VObj c l xs, VObj c' l' ys =>
      Nat.eqb c c' && Nat.eqb l l' &&
      (fix go (xs ys: list lv) {struct xs} : bool :=
         match xs, ys with
         | [], [] => true
         | x :: xs', y :: ys' => lv_eqb x y && go xs' ys'
         | _, _ => false end) xs ys
  | _, _ => false
  end.

(* model = library on this case, and the case lies in the domain of the theorems *)
Definition ok_pack (c: pcase) : bool :=
  let E := env_of c in
  conforms E c.(pc_in) c.(pc_ty) && all_old n0 c.(pc_in) &&
  lv_eqb (norm (fst (pack_top E c.(pc_call) c.(pc_ntop) c.(pc_ty) c.(pc_in) n0))) (norm c.(pc_out)).

Definition ok_unpack (c: pcase) : bool :=
  let E := env_of c in
  wconforms E c.(pc_in) c.(pc_ty) && all_old n0 c.(pc_in) &&
  lv_eqb (norm (fst (unpack_top E c.(pc_ty) c.(pc_in) n0))) (norm c.(pc_out)).

(* domain flag of the encode-side theorem (C18_share) and totality of the model on a case *)
Definition pack_udet (c: pcase) : bool :=
  udet (env_of c) c.(pc_in) c.(pc_call) c.(pc_ntop) true c.(pc_ty).
Definition pack_accepts (c: pcase) : bool :=
  accepts c.(pc_in) (cp (env_of c) c.(pc_ntop) true c.(pc_ty)).
