(* C15 - the holder objects of the codec path (core/meta/types/common.py: AttrsHolder, ValueSpec.attrs; the registry a
   codec's builders share) and the dataclass call site, over the decisions kernel K115a reads off /repo on every run.

   world    = class table (which classes own __mashumaro_to_dict__ in their own __dict__: the state the MIXIN path
              dispatches on) + one registry per codec created so far (class -> holder; the state the CODEC path binds its
              static calls to) + the allocation counter of holder objects.
   creating a codec compiles the shape type with a fresh empty registry: every dataclass position asks ValueSpec.attrs for
   the holder of its class (created when missing), runs a nested builder when K115a.pack_rebuild says so, and binds the call
   to `getattr(holder, method)`.
   Theorems: the model's `target` IS the resolution of the receiver K115a reads off pack_dataclass; decoding never
   dispatches on the runtime value; creating a codec leaves the class table and every earlier registry untouched and
   allocates only fresh holders (no holder is shared between two codecs), over arbitrary histories; histories with real
   codec creation give the outputs of the history model of C15Proofs.v.  A SELF-REFERENCING dataclass meets its own holder
   before the method is stored: the strict getattr raises - codec construction fails where the mixin path works
   (known finding C15/codec-selfref-construction); both readings of the kernel flag are stated. *)
From Coq Require Import List String Ascii ZArith Bool Lia.
From Verif Require Import C15Model C15Proofs C15Site.
From VerifGen Require Import K115a.
Import ListNotations.
Open Scope string_scope.

(* ------------------------------------------------------------------ *)
(* the call site                                                        *)
Definition nailed (m: mode) : bool := match m with Mixin => true | Codec => false end.

(* which class's generated method does the emitted call reach, for a position annotated [ann] and a value of runtime
   class [rc]?  (the annotated class always owns/gets one at method_loc: pack_dataclass builds it before emitting) *)
Definition resolve (E: env) (r: recv) (ann rc: cname) : option cdef :=
  match r with
  | RValueAttr => match dispatch E ann rc with Some c' => find_cls E c' | None => None end
  | RClassAttr | RBound => find_cls E ann
  end.

Theorem target_by_kernel E m ann rc : target E m ann rc = resolve E (K115a.pack_recv (nailed m)) ann rc.
Proof. destruct m; reflexivity. Qed.

Theorem method_loc_by_kernel m :
  K115a.pack_method_loc (nailed m) = (match m with Mixin => LClass | Codec => LHolder end) /\
  K115a.unpack_method_loc (nailed m) = (match m with Mixin => LClass | Codec => LHolder end).
Proof. destruct m; split; reflexivity. Qed.

(* from_dict / decode: neither path looks the method up on the runtime value (there is no instance yet) - the model's
   `unpack` has no dispatch *)
Theorem unpack_static b E ann rc rc' : resolve E (K115a.unpack_recv b) ann rc = resolve E (K115a.unpack_recv b) ann rc'.
Proof. destruct b; reflexivity. Qed.

(* ------------------------------------------------------------------ *)
(* holders and registries                                               *)
Record holder := mkH { h_id: nat; h_has: bool }.      (* identity; owns the generated method *)
Definition registry := list (cname * holder).         (* attrs_registry of ONE codec *)
Record cst := mkS { s_reg: registry; s_next: nat }.
Record world := mkW { w_env: env; w_regs: list registry; w_next: nat }.

Fixpoint reg_set (r: registry) (c: cname) (h: holder) : registry :=
  match r with
  | [] => [(c, h)]
  | (k, x) :: q => if String.eqb k c then (k, h) :: q else (k, x) :: reg_set q c h
  end.
Definition ids (r: registry) : list nat := map (fun p => h_id (snd p)) r.

Fixpoint ty_classes (t: ty) : list cname :=
  match t with
  | TInt | TStr | TDate => []
  | TList t' | TDict t' | TOpt t' => ty_classes t'
  | TTuple ts | TUnion ts => flat_map ty_classes ts
  | TData c => [c]
  end.

Section Compile.
  Variable E: env.
  Variable late: bool.                      (* K115a.pack_selfref_late *)
  Variable rebuild: bool -> bool -> bool.   (* K115a.pack_rebuild b_defined b_is_cls (no dialect, not nailed, same method name) *)
  Variable rcv: recv.                       (* K115a.pack_recv false *)
  Variable plan: aplan.                     (* K115a.attrs_plan false *)

  Section Fold.
    Variable step: cname -> cst -> res cst.
    Fixpoint fold_sites (l: list cname) (s: cst) : res cst :=
      match l with
      | [] => Ok s
      | x :: r => match step x s with Ok s' => fold_sites r s' | Err e => Err e end
      end.
  End Fold.

  (* ValueSpec.attrs for a non-nailed builder (APRegistry _ AKOrigin true) *)
  Definition attrs_of (c': cname) (s: cst) : option (holder * cst) :=
    match assoc (s_reg s) c' with
    | Some h => Some (h, s)
    | None => match plan with
              | APRegistry _ AKOrigin true =>
                  let h := mkH (s_next s) false in Some (h, mkS (reg_set (s_reg s) c' h) (S (s_next s)))
              | _ => None end
    end.

  (* one dataclass position annotated [c'] compiled by the builder of class [cur] (None: the codec's root builder, whose
     cls is the AttrsHolder "__root__").  The fuel bounds the NESTING of builders only. *)
  Fixpoint site (fuel: nat) (cur: option cname) (c': cname) (s: cst) {struct fuel} : res cst :=
    match fuel with
    | O => Err XUnmodelled
    | S n =>
        match attrs_of c' s with
        | None => Err XUnmodelled          (* another ValueSpec.attrs than the one this model follows *)
        | Some (h, s1) =>
        let is_cur := match cur with Some c => String.eqb c c' | None => false end in
        let built :=
          if rebuild (h_has h) is_cur then
            match find_cls E c' with
            | None => Err XRaw
            | Some d =>
                match fold_sites (site n (Some c')) (flat_map ty_classes (map f_ty (c_fields d))) s1 with
                | Ok s2 => Ok (mkS (reg_set (s_reg s2) c' (mkH (h_id h) true)) (s_next s2))   (* setattr(attrs, method, ...) *)
                | Err e => Err e
                end
            end
          else Ok s1 in
        match built with
        | Err e => Err e
        | Ok s2 =>
            match rcv with
            | RBound => match assoc (s_reg s2) c' with
                        | Some h2 => if h_has h2 || late then Ok s2 else Err XRaw      (* getattr(spec.attrs, method_name) *)
                        | None => Err XRaw end
            | _ => Ok s2
            end
        end
        end
    end.

  Definition compile_ty (t: ty) (next: nat) : res cst :=
    fold_sites (site (S (S (List.length E))) None) (ty_classes t) (mkS [] next).
End Compile.

Definition create_codec (w: world) (t: ty) : res world :=
  match compile_ty (w_env w) K115a.pack_selfref_late (fun d c => K115a.pack_rebuild d c false false false)
                   (K115a.pack_recv false) (K115a.attrs_plan false) t (w_next w) with
  | Ok s => Ok (mkW (w_env w) (w_regs w ++ [s_reg s])%list (s_next s))
  | Err e => Err e
  end.

(* ------------------------------------------------------------------ *)
(* only fresh holders                                                   *)
Lemma ids_reg_set r c h i : In i (ids (reg_set r c h)) -> In i (ids r) \/ i = h_id h.
Proof.
  induction r as [|[k x] q IH]; simpl.
  - intros [H|[]]; right; symmetry; exact H.
  - destruct (String.eqb k c); simpl.
    + intros [H|H]; [right; symmetry; exact H|left; right; exact H].
    + intros [H|H]; [left; left; exact H|]. destruct (IH H) as [H'|H']; [left; right; exact H'|right; exact H'].
Qed.

Lemma assoc_ids (r: registry) c h : assoc r c = Some h -> In (h_id h) (ids r).
Proof.
  induction r as [|[k x] q IH]; simpl; [discriminate|].
  destruct (String.eqb k c); [intros H; inversion H; subst; left; reflexivity|intros H; right; exact (IH H)].
Qed.

(* what a step may do to the allocation state: the counter grows, every holder identity of the result is an old one or
   was allocated in between *)
Definition grows (s s': cst) : Prop :=
  s_next s <= s_next s' /\ forall i, In i (ids (s_reg s')) -> In i (ids (s_reg s)) \/ (s_next s <= i < s_next s').

Lemma grows_refl s : grows s s.
Proof. split; [lia|intros i H; left; exact H]. Qed.

Lemma grows_trans a b c : grows a b -> grows b c -> grows a c.
Proof.
  intros [H1 H2] [H3 H4]. split; [lia|]. intros i Hi.
  destruct (H4 i Hi) as [H|H]; [|right; lia]. destruct (H2 i H) as [H'|H']; [left; exact H'|right; lia].
Qed.

Lemma attrs_of_grows plan c s h s1 : attrs_of plan c s = Some (h, s1) ->
  grows s s1 /\ (In (h_id h) (ids (s_reg s)) \/ (s_next s <= h_id h < s_next s1)).
Proof.
  unfold attrs_of. destruct (assoc (s_reg s) c) as [h0|] eqn:Ha.
  - intros H; inversion H; subst. split; [apply grows_refl|]. left. eapply assoc_ids; exact Ha.
  - destruct plan as [|k1 [|] [|]]; try discriminate. intros H; inversion H; subst; clear H. split.
    + split; simpl; [lia|]. intros i Hi. destruct (ids_reg_set _ _ _ _ Hi) as [H|H]; [left; exact H|right; simpl in H; lia].
    + right; simpl; lia.
Qed.

Lemma fold_sites_grows (step: cname -> cst -> res cst) :
  (forall x s s', step x s = Ok s' -> grows s s') ->
  forall l s s', fold_sites step l s = Ok s' -> grows s s'.
Proof.
  intros Hs. induction l as [|x r IH]; simpl; intros s s' H.
  - inversion H; subst; apply grows_refl.
  - destruct (step x s) as [s1|] eqn:H1; [|discriminate].
    eapply grows_trans; [eapply Hs; exact H1|eapply IH; exact H].
Qed.

Lemma site_grows E late rebuild rcv plan fuel :
  forall cur c s s', site E late rebuild rcv plan fuel cur c s = Ok s' -> grows s s'.
Proof.
  induction fuel as [|n IH]; intros cur c s s' H; simpl in H; [discriminate|].
  destruct (attrs_of plan c s) as [[h s1]|] eqn:Ha; [|discriminate].
  destruct (attrs_of_grows _ _ _ _ _ Ha) as [Hg Hh].
  set (is_cur := match cur with Some c0 => String.eqb c0 c | None => false end) in H.
  assert (Hb: forall s2,
    (if rebuild (h_has h) is_cur
     then match find_cls E c with
          | None => Err XRaw
          | Some d => match fold_sites (site E late rebuild rcv plan n (Some c)) (flat_map ty_classes (map f_ty (c_fields d))) s1 with
                      | Ok s2 => Ok (mkS (reg_set (s_reg s2) c (mkH (h_id h) true)) (s_next s2))
                      | Err e => Err e end end
     else Ok s1) = Ok s2 -> grows s s2).
  { intros s2 Hb. destruct (rebuild (h_has h) is_cur).
    - destruct (find_cls E c) as [d|]; [|discriminate].
      destruct (fold_sites _ _ s1) as [s3|] eqn:Hf; [|discriminate]. inversion Hb; subst; clear Hb.
      assert (G13: grows s1 s3) by (eapply fold_sites_grows; [intros x a b; apply IH|exact Hf]).
      pose proof (grows_trans _ _ _ Hg G13) as [G1 G2].
      split; simpl; [exact G1|]. intros i Hi. destruct (ids_reg_set _ _ _ _ Hi) as [H'|H']; [exact (G2 i H')|].
      simpl in H'. subst i. destruct Hh as [Hh|Hh]; [left; exact Hh|right]. destruct G13 as [G3 _]. lia.
    - inversion Hb; subst. exact Hg. }
  destruct (if rebuild (h_has h) is_cur then _ else _) as [s2|] eqn:Hbuilt; [|discriminate].
  specialize (Hb s2 eq_refl).
  destruct rcv.
  - inversion H; subst; exact Hb.
  - inversion H; subst; exact Hb.
  - destruct (assoc (s_reg s2) c) as [h2|]; [|discriminate].
    destruct (h_has h2 || late); [|discriminate]. inversion H; subst; exact Hb.
Qed.

Definition wf (w: world) : Prop := Forall (fun r => Forall (fun i => i < w_next w) (ids r)) (w_regs w).

(* creating a codec: the class table and every existing registry stay as they are, one registry is added, and every
   holder in it is a NEW object (its identity was never handed out before) *)
Theorem create_codec_frame w t w' : create_codec w t = Ok w' ->
  w_env w' = w_env w /\ w_next w <= w_next w' /\
  exists r, w_regs w' = (w_regs w ++ [r])%list /\ Forall (fun i => w_next w <= i < w_next w') (ids r).
Proof.
  unfold create_codec, compile_ty. intros H.
  destruct (fold_sites _ _ _) as [s|] eqn:Hf; [|discriminate]. inversion H; subst; clear H; simpl.
  assert (G: grows (mkS [] (w_next w)) s).
  { eapply fold_sites_grows; [|exact Hf]. intros x a b; apply site_grows. }
  destruct G as [G1 G2]; simpl in G1, G2.
  split; [reflexivity|]. split; [exact G1|]. exists (s_reg s). split; [reflexivity|].
  apply Forall_forall. intros i Hi. destruct (G2 i Hi) as [[]|Hr]; exact Hr.
Qed.

Theorem create_codec_wf w t w' : wf w -> create_codec w t = Ok w' -> wf w'.
Proof.
  intros Hw H. destruct (create_codec_frame _ _ _ H) as [_ [Hn [r [Hr Hf]]]].
  unfold wf. rewrite Hr. apply Forall_app. split.
  - eapply Forall_impl; [|exact Hw]. intros r0 H0. eapply Forall_impl; [|exact H0]. intros i Hi; simpl in Hi; lia.
  - constructor; [|constructor]. eapply Forall_impl; [|exact Hf]. intros i Hi; simpl in Hi; lia.
Qed.

(* no holder of the new codec is a holder of an existing codec *)
Theorem create_codec_disjoint w t w' : wf w -> create_codec w t = Ok w' ->
  exists r, w_regs w' = (w_regs w ++ [r])%list /\
            forall r0 i, In r0 (w_regs w) -> In i (ids r0) -> ~ In i (ids r).
Proof.
  intros Hw H. destruct (create_codec_frame _ _ _ H) as [_ [_ [r [Hr Hf]]]].
  exists r. split; [exact Hr|]. intros r0 i H0 Hi Hin.
  unfold wf in Hw. rewrite Forall_forall in Hw. specialize (Hw r0 H0). rewrite Forall_forall in Hw, Hf.
  specialize (Hw i Hi). specialize (Hf i Hin). simpl in Hw. lia.
Qed.

(* ------------------------------------------------------------------ *)
(* every static call of a constructed codec is bound                     *)
Definition owns (r: registry) (c: cname) : Prop := exists h, assoc r c = Some h /\ h_has h = true.
Definition field_classes (E: env) (c: cname) : list cname :=
  match find_cls E c with Some d => flat_map ty_classes (map f_ty (c_fields d)) | None => [] end.
(* a holder that owns its method was compiled when the holders of all field classes owned theirs *)
Definition closed_reg (E: env) (r: registry) : Prop :=
  forall c, owns r c -> forall c', In c' (field_classes E c) -> owns r c'.

Lemma assoc_reg_set_same r c h : assoc (reg_set r c h) c = Some h.
Proof.
  induction r as [|[k x] q IH]; simpl.
  - rewrite String.eqb_refl; reflexivity.
  - destruct (String.eqb k c) eqn:Hk; simpl; rewrite Hk; [reflexivity|exact IH].
Qed.

Lemma assoc_reg_set_other r c h k : k <> c -> assoc (reg_set r c h) k = assoc r k.
Proof.
  intros Hn. induction r as [|[k0 x] q IH]; simpl.
  - destruct (String.eqb c k) eqn:H; [apply String.eqb_eq in H; congruence|reflexivity].
  - destruct (String.eqb k0 c) eqn:Hk; simpl.
    + apply String.eqb_eq in Hk. subst k0.
      destruct (String.eqb c k) eqn:H; [apply String.eqb_eq in H; congruence|reflexivity].
    + destruct (String.eqb k0 k); [reflexivity|exact IH].
Qed.

Lemma owns_reg_set_true r c i k : owns r k -> owns (reg_set r c (mkH i true)) k.
Proof.
  intros [h [Ha Hh]]. destruct (String.eqb k c) eqn:Hk.
  - apply String.eqb_eq in Hk. subst k. exists (mkH i true). rewrite assoc_reg_set_same. split; reflexivity.
  - apply String.eqb_neq in Hk. exists h. rewrite (assoc_reg_set_other _ _ _ _ Hk). split; assumption.
Qed.

Lemma owns_attrs_of plan c s h s1 k : attrs_of plan c s = Some (h, s1) -> owns (s_reg s) k -> owns (s_reg s1) k.
Proof.
  unfold attrs_of. destruct (assoc (s_reg s) c) as [h0|] eqn:Ha.
  - intros H; inversion H; subst; auto.
  - destruct plan as [|k1 [|] [|]]; try discriminate. intros H; inversion H; subst; clear H. simpl.
    intros [h' [Hk Hh]]. exists h'. split; [|exact Hh]. rewrite assoc_reg_set_other; [exact Hk|].
    intros ->. rewrite Ha in Hk. discriminate.
Qed.

Lemma attrs_of_assoc plan c s h s1 : attrs_of plan c s = Some (h, s1) -> assoc (s_reg s1) c = Some h.
Proof.
  unfold attrs_of. destruct (assoc (s_reg s) c) as [h0|] eqn:Ha.
  - intros H; inversion H; subst; exact Ha.
  - destruct plan as [|k1 [|] [|]]; try discriminate. intros H; inversion H; subst; clear H. simpl.
    apply assoc_reg_set_same.
Qed.

(* after a position of class [c] compiled by the builder of [cur]: owners stay owners, the holder of [c] owns its
   method unless [c] is the class being compiled (its method is stored when its builder finishes), closedness is kept *)
Definition site_post (E: env) (cur: option cname) (c: cname) (s s': cst) : Prop :=
  (forall k, owns (s_reg s) k -> owns (s_reg s') k) /\ (owns (s_reg s') c \/ cur = Some c) /\
  (closed_reg E (s_reg s) -> closed_reg E (s_reg s')).

Lemma fold_sites_post E cur (step: cname -> cst -> res cst) :
  (forall x s s', step x s = Ok s' -> site_post E cur x s s') ->
  forall l s s', fold_sites step l s = Ok s' ->
    (forall k, owns (s_reg s) k -> owns (s_reg s') k) /\ (forall x, In x l -> owns (s_reg s') x \/ cur = Some x) /\
    (closed_reg E (s_reg s) -> closed_reg E (s_reg s')).
Proof.
  intros Hs. induction l as [|x r IH]; simpl; intros s s' H.
  - inversion H; subst. split; [|split]; auto. intros x [].
  - destruct (step x s) as [s1|] eqn:H1; [|discriminate].
    destruct (Hs _ _ _ H1) as [M1 [O1 C1]]. destruct (IH _ _ H) as [M2 [O2 C2]].
    split; [|split]; auto. intros y [->|Hy]; auto. destruct O1 as [O1|O1]; [left; auto|right; exact O1].
Qed.

(* the bound receiver; [rebuild] starts a nested builder at least when the holder lacks the method and the class is
   not the one being compiled (true of K115a.pack_rebuild: kernel_rebuild_ok below); strict or late binding *)
Lemma site_spec E late rebuild plan (Hreb: forall d b, rebuild d b = false -> d = true \/ b = true) fuel :
  forall cur c s s', site E late rebuild RBound plan fuel cur c s = Ok s' -> site_post E cur c s s'.
Proof.
  induction fuel as [|n IH]; intros cur c s s' H; simpl in H; [discriminate|].
  destruct (attrs_of plan c s) as [[h s1]|] eqn:Ha; [|discriminate].
  set (is_cur := match cur with Some c0 => String.eqb c0 c | None => false end) in H.
  assert (M01: forall k, owns (s_reg s) k -> owns (s_reg s1) k) by (intros k; eapply owns_attrs_of; exact Ha).
  assert (C01: closed_reg E (s_reg s) -> closed_reg E (s_reg s1)).
  { intros Hc k [hk [Hk1 Hk2]] c' Hin. apply M01. apply (Hc k); [|exact Hin].
    (* an owner of s1 is an owner of s: attrs_of adds a holder WITHOUT the method only *)
    unfold attrs_of in Ha. destruct (assoc (s_reg s) c) as [h0|] eqn:Hc0.
    - inversion Ha; subst. exists hk; split; assumption.
    - destruct plan as [|k1 [|] [|]]; try discriminate. inversion Ha; subst; clear Ha. simpl in Hk1.
      destruct (String.eqb k c) eqn:Hkc.
      + apply String.eqb_eq in Hkc. subst k. rewrite assoc_reg_set_same in Hk1. inversion Hk1; subst. discriminate.
      + apply String.eqb_neq in Hkc. rewrite (assoc_reg_set_other _ _ _ _ Hkc) in Hk1. exists hk; split; assumption. }
  destruct (rebuild (h_has h) is_cur) eqn:Hrb.
  - destruct (find_cls E c) as [d|] eqn:Hd; [|discriminate].
    destruct (fold_sites _ _ s1) as [s3|] eqn:Hf; [|discriminate].
    destruct (fold_sites_post E (Some c) _ (fun x a b => IH (Some c) x a b) _ _ _ Hf) as [M13 [O3 C13]].
    cbn [s_reg s_next] in H. rewrite assoc_reg_set_same in H. simpl in H. inversion H; subst; clear H.
    unfold site_post. cbn [s_reg s_next].
    assert (Own: owns (reg_set (s_reg s3) c (mkH (h_id h) true)) c)
      by (exists (mkH (h_id h) true); rewrite assoc_reg_set_same; split; reflexivity).
    split; [|split].
    + intros k Hk. apply owns_reg_set_true. auto.
    + left; exact Own.
    + intros Hc k Hk c' Hin.
      destruct (String.eqb k c) eqn:Hkc.
      * apply String.eqb_eq in Hkc. subst k.
        unfold field_classes in Hin. rewrite Hd in Hin.
        destruct (O3 c' Hin) as [Ho|Ho]; [apply owns_reg_set_true; exact Ho|inversion Ho; subst; exact Own].
      * apply String.eqb_neq in Hkc. apply owns_reg_set_true.
        apply (C13 (C01 Hc) k); [|exact Hin].
        destruct Hk as [hk [Hk1 Hk2]]. rewrite (assoc_reg_set_other _ _ _ _ Hkc) in Hk1. exists hk; split; assumption.
  - destruct (assoc (s_reg s1) c) as [h2|] eqn:H2; [|discriminate].
    destruct (h_has h2 || late); [|discriminate]. inversion H; subst; clear H.
    split; [|split]; auto.
    destruct (Hreb _ _ Hrb) as [Hd|Hd].
    + left. exists h. split; [eapply attrs_of_assoc; exact Ha|exact Hd].
    + right. unfold is_cur in Hd. destruct cur as [c0|]; [|discriminate]. apply String.eqb_eq in Hd. subst; reflexivity.
Qed.

Theorem compile_complete E late rebuild plan t next s :
  (forall d b, rebuild d b = false -> d = true \/ b = true) ->
  compile_ty E late rebuild RBound plan t next = Ok s ->
  (forall c, In c (ty_classes t) -> owns (s_reg s) c) /\ closed_reg E (s_reg s).
Proof.
  unfold compile_ty. intros Hreb H.
  destruct (fold_sites_post E None _ (fun x a b => site_spec E late rebuild plan Hreb _ None x a b) _ _ _ H) as [_ [O C]].
  split.
  - intros c Hc. destruct (O c Hc) as [Ho|Ho]; [exact Ho|discriminate].
  - apply C. intros c [h [Hc _]]. simpl in Hc. discriminate.
Qed.

(* the two facts about the translated kernel the theorem needs - re-checked against the source on every run *)
Lemma kernel_rebuild_ok : forall d b, K115a.pack_rebuild d b false false false = false -> d = true \/ b = true.
Proof. intros [|] [|]; vm_compute; auto; discriminate. Qed.
Lemma kernel_recv_bound : K115a.pack_recv false = RBound.
Proof. reflexivity. Qed.

(* a codec that could be constructed: every dataclass of the shape type has a holder owning its method, and so has -
   transitively - every class a compiled class mentions in its fields: no static call of the generated code is left
   unbound, none falls back to a method stored on a class.  For the strict and for the late binding. *)
Theorem create_codec_complete w t w' : create_codec w t = Ok w' ->
  exists r, w_regs w' = (w_regs w ++ [r])%list /\
            (forall c, In c (ty_classes t) -> owns r c) /\ closed_reg (w_env w) r.
Proof.
  unfold create_codec. rewrite kernel_recv_bound. intros H.
  destruct (compile_ty _ _ _ _ _ _ _) as [s|] eqn:Hc; [|discriminate]. inversion H; subst; clear H; simpl.
  exists (s_reg s). split; [reflexivity|]. eapply compile_complete; [|exact Hc]. exact kernel_rebuild_ok.
Qed.

(* the same for decoders (BasicDecoder / decode): unpack_dataclass read by the same kernel *)
Definition create_decoder (w: world) (t: ty) : res world :=
  match compile_ty (w_env w) K115a.unpack_selfref_late (fun d c => K115a.unpack_rebuild d c false false false)
                   (K115a.unpack_recv false) (K115a.attrs_plan false) t (w_next w) with
  | Ok s => Ok (mkW (w_env w) (w_regs w ++ [s_reg s])%list (s_next s))
  | Err e => Err e
  end.

Lemma kernel_unpack_rebuild_ok : forall d b, K115a.unpack_rebuild d b false false false = false -> d = true \/ b = true.
Proof. intros [|] [|]; vm_compute; auto; discriminate. Qed.
Lemma kernel_unpack_recv_bound : K115a.unpack_recv false = RBound.
Proof. reflexivity. Qed.

Theorem create_decoder_frame_complete w t w' : create_decoder w t = Ok w' ->
  w_env w' = w_env w /\ w_next w <= w_next w' /\
  exists r, w_regs w' = (w_regs w ++ [r])%list /\ Forall (fun i => w_next w <= i < w_next w') (ids r) /\
            (forall c, In c (ty_classes t) -> owns r c) /\ closed_reg (w_env w) r.
Proof.
  unfold create_decoder. rewrite kernel_unpack_recv_bound. intros H.
  destruct (compile_ty _ _ _ _ _ _ _) as [s|] eqn:Hc; [|discriminate]. inversion H; subst; clear H; simpl.
  assert (G: grows (mkS [] (w_next w)) s).
  { unfold compile_ty in Hc. eapply fold_sites_grows; [|exact Hc]. intros x a b; apply site_grows. }
  destruct G as [G1 G2]; simpl in G1, G2.
  split; [reflexivity|]. split; [exact G1|]. exists (s_reg s). split; [reflexivity|]. split.
  - apply Forall_forall. intros i Hi. destruct (G2 i Hi) as [[]|Hr]; exact Hr.
  - eapply compile_complete; [|exact Hc]. exact kernel_unpack_rebuild_ok.
Qed.

(* ------------------------------------------------------------------ *)
(* histories with real codec creation                                    *)
Definition after_create (w: world) (t: ty) : world :=
  match create_codec w t with Ok w' => w' | Err _ => w end.       (* a constructor that raises leaves nothing behind *)

Fixpoint outs_w (w: world) (ops: list op) : list (res val) :=
  match ops with
  | [] => []
  | OpCodec t _ :: r => outs_w (after_create w t) r
  | OpOneShot t _ :: r => outs_w (after_create w t) r
  | OpClass d comp :: r => outs_w (mkW (add_class (w_env w) d comp) (w_regs w) (w_next w)) r
  | OpCall m dl t v :: r => run_pack (w_env w) m dl t v :: outs_w w r
  end.

Fixpoint final_w (w: world) (ops: list op) : world :=
  match ops with
  | [] => w
  | OpCodec t _ :: r => final_w (after_create w t) r
  | OpOneShot t _ :: r => final_w (after_create w t) r
  | OpClass d comp :: r => final_w (mkW (add_class (w_env w) d comp) (w_regs w) (w_next w)) r
  | OpCall _ _ _ _ :: r => final_w w r
  end.

Lemma after_create_env w t : w_env (after_create w t) = w_env w.
Proof.
  unfold after_create. destruct (create_codec w t) as [w'|] eqn:H; [|reflexivity].
  destruct (create_codec_frame _ _ _ H) as [He _]; exact He.
Qed.

Lemma after_create_wf w t : wf w -> wf (after_create w t).
Proof.
  unfold after_create. intros Hw. destruct (create_codec w t) as [w'|] eqn:H; [|exact Hw].
  eapply create_codec_wf; [exact Hw|exact H].
Qed.

Lemma after_create_prefix w t : exists l, w_regs (after_create w t) = (w_regs w ++ l)%list.
Proof.
  unfold after_create. destruct (create_codec w t) as [w'|] eqn:H.
  - destruct (create_codec_frame _ _ _ H) as [_ [_ [r [Hr _]]]]. exists [r]; exact Hr.
  - exists []. rewrite app_nil_r; reflexivity.
Qed.

Theorem outs_w_env ops : forall w, outs_w w ops = outs (w_env w) ops.
Proof.
  induction ops as [|o r IH]; intros w; [reflexivity|]. destruct o; simpl.
  - rewrite IH, after_create_env; reflexivity.
  - rewrite IH, after_create_env; reflexivity.
  - rewrite IH; reflexivity.
  - rewrite IH; reflexivity.
Qed.

(* whatever is created in between: the observed calls are those of the initial class table, every registry that
   existed stays a prefix of the registries, and no two codecs ever share a holder (wf is kept) *)
Theorem frame_history_w w ops : names_ok (w_env w) = true -> Forall (in_dom (w_env w)) ops -> wf w ->
  outs_w w ops = calls (w_env w) ops /\ wf (final_w w ops) /\ exists l, w_regs (final_w w ops) = (w_regs w ++ l)%list.
Proof.
  intros Hn Hd Hw. split; [rewrite outs_w_env; apply frame_history; assumption|].
  clear Hn Hd. revert w Hw. induction ops as [|o r IH]; intros w Hw; simpl.
  - split; [exact Hw|exists []; rewrite app_nil_r; reflexivity].
  - destruct o.
    + destruct (IH _ (after_create_wf w t Hw)) as [H1 [l Hl]]. split; [exact H1|].
      destruct (after_create_prefix w t) as [l0 H0]. exists (l0 ++ l)%list. rewrite Hl, H0, app_assoc; reflexivity.
    + destruct (IH _ (after_create_wf w t Hw)) as [H1 [l Hl]]. split; [exact H1|].
      destruct (after_create_prefix w t) as [l0 H0]. exists (l0 ++ l)%list. rewrite Hl, H0, app_assoc; reflexivity.
    + apply (IH (mkW (add_class (w_env w) d compiled) (w_regs w) (w_next w))). exact Hw.
    + apply IH; exact Hw.
Qed.

(* ------------------------------------------------------------------ *)
(* examples and the self-reference                                       *)
Definition cls_ (n: cname) (fs: list fdef) (has: bool) : cdef := mkC n None fs None None None [] false false false has.

Definition E_h : env :=
  [cls_ "K0" [f_ "x" TInt] false;
   cls_ "K1" [f_ "a" (TData "K0"); f_ "l" (TList (TData "K0"))] false;
   cls_ "K2" [f_ "k" (TOpt (TData "K1")); f_ "u" (TUnion [TData "K0"; TDate])] true].

Definition reg_view (r: registry) : list (cname * bool) := map (fun p => (fst p, h_has (snd p))) r.

(* two codecs over the same classes: three holders each, every one owns its method, all six are different objects, the
   class table is the one we started from *)
Example holders_two_codecs :
  match create_codec (mkW E_h [] 0) (TList (TData "K2")) with
  | Ok w1 => match create_codec w1 (TData "K2") with
             | Ok w2 => (map reg_view (w_regs w2), map ids (w_regs w2), w_env w2)
             | Err _ => ([], [], []) end
  | Err _ => ([], [], []) end
  = ([[("K2", true); ("K1", true); ("K0", true)]; [("K2", true); ("K1", true); ("K0", true)]],
     [[0; 1; 2]; [3; 4; 5]]%nat, E_h).
Proof. vm_compute. reflexivity. Qed.

Definition E_self : env := [cls_ "K0" [f_ "x" TInt; f_ "n" (TOpt (TData "K0"))] false].
Definition v_self := VObj "K0" [("x", VInt 1); ("n", VObj "K0" [("x", VInt 2); ("n", VNone)])].

(* the strict binding (K115a.pack_selfref_late = false): the mixin path serializes the value, the codec cannot even be
   constructed *)
Theorem selfref_codec_refuted : K115a.pack_selfref_late = false ->
  exact E_self v_self (TData "K0") = true /\ no_lookalike_union E_self (TData "K0") = true /\
  run_pack (map (set_method ["K0"]) E_self) Mixin None (TOpt (TData "K0")) v_self
    = Ok (VDict [("x", VInt 1); ("n", VDict [("x", VInt 2); ("n", VNone)])]) /\
  create_codec (mkW E_self [] 0) (TData "K0") = Err XRaw.
Proof. intros H. vm_compute in H. first [discriminate H | (vm_compute; repeat split; reflexivity)]. Qed.

(* the late binding (after the repair): the codec is constructed with ONE holder that owns the method *)
Theorem selfref_codec_late : K115a.pack_selfref_late = true ->
  exists w', create_codec (mkW E_self [] 0) (TData "K0") = Ok w' /\ map reg_view (w_regs w') = [[("K0", true)]] /\ w_env w' = E_self.
Proof. intros H. vm_compute in H. first [discriminate H | (eexists; vm_compute; repeat split; reflexivity)]. Qed.

(* ------------------------------------------------------------------ *)
(* for the per-run tie: the registry a BasicEncoder (isp) / BasicDecoder built for [t] ends with *)
Definition compile_dir (isp: bool) (E: env) (t: ty) : res cst :=
  if isp then compile_ty E K115a.pack_selfref_late (fun d c => K115a.pack_rebuild d c false false false)
                         (K115a.pack_recv false) (K115a.attrs_plan false) t 0
  else compile_ty E K115a.unpack_selfref_late (fun d c => K115a.unpack_rebuild d c false false false)
                  (K115a.unpack_recv false) (K115a.attrs_plan false) t 0.

Definition view_eqb (a b: list (cname * bool)) : bool :=
  Nat.eqb (List.length a) (List.length b) &&
  forallb (fun p => existsb (fun q => String.eqb (fst p) (fst q) && Bool.eqb (snd p) (snd q)) b) a.

(* expected: Some view = constructed, these classes have holders (owning the method or not); None = the constructor raised *)
Definition holders_ok (isp: bool) (E: env) (t: ty) (ex: option (list (cname * bool))) : bool :=
  match compile_dir isp E t, ex with
  | Ok s, Some l => view_eqb (reg_view (s_reg s)) l && nodupb (map fst (s_reg s))
  | Err XRaw, None => true
  | _, _ => false
  end.

Lemma create_codec_compile_dir w t :
  w_next w = 0 -> create_codec w t = match compile_dir true (w_env w) t with
                                     | Ok s => Ok (mkW (w_env w) (w_regs w ++ [s_reg s])%list (s_next s))
                                     | Err e => Err e end.
Proof. intros H. unfold create_codec, compile_dir. rewrite H. reflexivity. Qed.
