(* C08 - theorems about kernel K3 = CodeBuilder.get_dialect_or_config_option as translated
   from /repo on this run (VerifGen.K3), and its link to OptProj.look. *)
From Coq Require Import List String Ascii ZArith Bool.
From Verif Require Import Regex PyK OptProj OptEnc.
From VerifGen Require Import K3.
Import ListNotations.
Open Scope string_scope.
Open Scope Z_scope.

(* getattr(ns, option, MISSING) *)
Definition ns_opt (n: kv) (opt: string) : kv := k_getattr3 n (KStr opt) KMissing.

Fixpoint first_nonmissing (l: list kv) (dflt: kv) : kv :=
  match l with
  | [] => dflt
  | x :: r => if kv_eqb x KMissing then first_nonmissing r dflt else x end.

(* the result is the first non-MISSING among [call dialect; Config.dialect; Config; default
   dialect], else the default *)
Theorem K3_order_lemma : forall d cd c dd opt dflt,
  get_dialect_or_config_option d cd c dd (KStr opt) dflt
  = Ok (first_nonmissing [ns_opt d opt; ns_opt cd opt; ns_opt c opt; ns_opt dd opt] dflt).
Proof.
  intros. unfold get_dialect_or_config_option, first_nonmissing, ns_opt, k_is.
  destruct (kv_eqb (k_getattr3 d (KStr opt) KMissing) KMissing); cbn [negb k_truthy]; [|reflexivity].
  destruct (kv_eqb (k_getattr3 cd (KStr opt) KMissing) KMissing); cbn [negb k_truthy]; [|reflexivity].
  destruct (kv_eqb (k_getattr3 c (KStr opt) KMissing) KMissing); cbn [negb k_truthy]; [|reflexivity].
  destruct (kv_eqb (k_getattr3 dd (KStr opt) KMissing) KMissing); cbn [negb k_truthy]; reflexivity.
Qed.

Lemma ns_opt_enc o x : ns_opt (enc_ons o) (opt_str x) = enc_tri (sel (opt_sel x) o).
Proof. destruct o as [n|]; destruct x; reflexivity. Qed.

Lemma first_nonmissing_enc l :
  first_nonmissing (map enc_tri l) (KBool false) = KBool (first_set l).
Proof. induction l as [|[] l IH]; cbn; auto. Qed.

(* OptProj.look is the translated lookup *)
Theorem K3_look_lemma : forall d cd c dd x,
  get_dialect_or_config_option (enc_ons d) (enc_ons cd) (enc_ons c) (enc_ons dd) (KStr (opt_str x)) (KBool false)
  = Ok (KBool (look (opt_sel x) [d; cd; c; dd])).
Proof.
  intros. rewrite K3_order_lemma, !ns_opt_enc. unfold look.
  change [enc_tri (sel (opt_sel x) d); enc_tri (sel (opt_sel x) cd); enc_tri (sel (opt_sel x) c); enc_tri (sel (opt_sel x) dd)]
    with (map enc_tri (map (sel (opt_sel x)) [d; cd; c; dd])).
  now rewrite first_nonmissing_enc.
Qed.
