(* C13, part "dialect=D is the same as a twin class whose default dialect is D":
   a small option-resolution model on top of the translated kernel
   K3 = CodeBuilder.get_dialect_or_config_option (VerifGen.K3).

   A class is abstracted to what option resolution reads: its Config namespace, its
   Config.dialect (KNone or a namespace), and whether TO_DICT_ADD_OMIT_NONE_FLAG /
   TO_DICT_ADD_BY_ALIAS_FLAG are enabled (builder.py get_pack_method_default_flag_values,
   _add_pack_method_with_dialect_lines).  dd = default_dialect of the builder (mixin formats /
   codecs), KNone for plain to_dict. *)
From Coq Require Import List String Ascii ZArith Bool Lia.
From Verif Require Import Regex PyK DialectMerge.
From VerifGen Require Import K3.
Import ListNotations.
Open Scope string_scope.

Record klass := mk_klass {
  k_cfg : kv;               (* Config *)
  k_cfgd : kv;              (* Config.dialect *)
  k_omit_none_flag : bool;  (* TO_DICT_ADD_OMIT_NONE_FLAG *)
  k_by_alias_flag : bool    (* TO_DICT_ADD_BY_ALIAS_FLAG *)
}.

Definition resolve (d cd cfg dd: kv) (o: string) (dflt: kv) : res kv :=
  get_dialect_or_config_option d cd cfg dd (KStr o) dflt.

(* the option is steered by a keyword of the generated method *)
Definition flag_of (k: klass) (o: string) : bool :=
  (String.eqb o "omit_none" && k_omit_none_flag k) || (String.eqb o "serialize_by_alias" && k_by_alias_flag k).

(* X.to_dict(dialect=D), no other keyword given.  With a keyword flag the default method
   (compiled with dialect None) forwards ITS OWN keyword default explicitly to the
   dialect-specific method: `packer(self, omit_none=omit_none, by_alias=by_alias, dialect=dialect)`. *)
Definition call_effective (k: klass) (D dd: kv) (o: string) (dflt: kv) : res kv :=
  if flag_of k o then resolve KNone (k_cfgd k) (k_cfg k) dd o dflt
  else resolve D (k_cfgd k) (k_cfg k) dd o dflt.

(* the twin: same class, Config.dialect := D, called without dialect *)
Definition twin_effective (k: klass) (D dd: kv) (o: string) (dflt: kv) : res kv :=
  resolve KNone D (k_cfg k) dd o dflt.

(* full statement (kept visible; false on /repo: D14 and the layering of Config.dialect) *)
Definition twin_full : Prop :=
  forall k D dd o dflt, call_effective k D dd o dflt = twin_effective k D dd o dflt.

(* D "covers" the class's own default dialect for option o: it sets o whenever that one does.
   Trivially true when the class has no Config.dialect. *)
Definition covers (D cd: kv) (o: string) : Prop :=
  is_set (look cd o) = true -> is_set (look D o) = true.

Theorem twin_partial k D dd o dflt :
  flag_of k o = false -> covers D (k_cfgd k) o ->
  call_effective k D dd o dflt = twin_effective k D dd o dflt.
Proof.
  intros HF HC. unfold call_effective, twin_effective, resolve. rewrite HF.
  rewrite !K3_first_set. cbn [first_set]. rewrite look_None. cbn [is_set kv_eqb negb].
  unfold covers in HC. destruct (is_set (look D o)) eqn:ED; [reflexivity|].
  destruct (is_set (look (k_cfgd k) o)) eqn:EC; [|reflexivity].
  specialize (HC eq_refl). discriminate.
Qed.

Corollary twin_partial_no_config_dialect k D dd o dflt :
  flag_of k o = false -> k_cfgd k = KNone ->
  call_effective k D dd o dflt = twin_effective k D dd o dflt.
Proof.
  intros HF HN. apply twin_partial; [exact HF|]. unfold covers. rewrite HN, look_None. cbn. discriminate.
Qed.

(* D14: TO_DICT_ADD_OMIT_NONE_FLAG + ADD_DIALECT_SUPPORT, D.omit_none = True *)
Definition d14_klass : klass := mk_klass (KNs []) KNone true false.
Definition d14_dialect : kv := KNs [("omit_none", KBool true)].

Lemma call_dialect_witness :
  call_effective d14_klass d14_dialect KNone "omit_none" (KBool false) = Ok (KBool false) /\
  twin_effective d14_klass d14_dialect KNone "omit_none" (KBool false) = Ok (KBool true).
Proof. split; vm_compute; reflexivity. Qed.

Theorem call_dialect_refuted : ~ twin_full.
Proof.
  intros H. specialize (H d14_klass d14_dialect KNone "omit_none" (KBool false)).
  destruct call_dialect_witness as [A B]. rewrite A, B in H. discriminate.
Qed.

(* the same for by_alias *)
Lemma call_dialect_witness_alias :
  call_effective (mk_klass (KNs []) KNone false true) (KNs [("serialize_by_alias", KBool true)]) KNone
                 "serialize_by_alias" (KBool false) = Ok (KBool false) /\
  twin_effective (mk_klass (KNs []) KNone false true) (KNs [("serialize_by_alias", KBool true)]) KNone
                 "serialize_by_alias" (KBool false) = Ok (KBool true).
Proof. split; vm_compute; reflexivity. Qed.

(* interpretation note, not a finding: a call dialect is LAYERED over the class's own
   Config.dialect, it does not replace it; hence the `covers` hypothesis *)
Lemma layered_witness :
  let k := mk_klass (KNs []) (KNs [("omit_none", KBool true)]) false false in
  call_effective k (KNs []) KNone "omit_none" (KBool false) = Ok (KBool true) /\
  twin_effective k (KNs []) KNone "omit_none" (KBool false) = Ok (KBool false).
Proof. split; vm_compute; reflexivity. Qed.

(* ------------------------------------------------------------------ *)
(* union of dataclass members (mixin path), keyword `dialect`           *)
(* ------------------------------------------------------------------ *)
(* pack.py pack_union: the members are tried in declaration order inside try/except; member i's
   branch is `value.__mashumaro_to_dict__(<flags enabled on the owner AND on member i>)`.
   The call dispatches dynamically on the instance, whatever its class; it fails (TypeError,
   next branch) only when it passes a keyword the instance's method does not have.
   members: does member i enable ADD_DIALECT_SUPPORT;  actual: does the instance's class.
   Result: is the call dialect forwarded to the instance. *)
Fixpoint union_forward (owner: bool) (members: list bool) (actual: bool) : option bool :=
  match members with
  | [] => None
  | m :: r => let f := owner && m in
              if implb f actual then Some f else union_forward owner r actual
  end.

Definition union_expected (owner actual: bool) : option bool := Some (owner && actual).

Definition union_full : Prop :=
  forall owner members actual, In actual members ->
    union_forward owner members actual = union_expected owner actual.

Theorem union_partial owner members actual :
  In actual members -> (forall m, In m members -> m = actual) ->
  union_forward owner members actual = union_expected owner actual.
Proof.
  intros HI HA. destruct members as [|m r]; [destruct HI|].
  assert (m = actual) by (apply HA; left; reflexivity). subst m. cbn.
  destruct owner, actual; reflexivity.
Qed.

(* D8b: Outer(u: Union[A, B]), dialect support on Outer and B, not on A; value is a B *)
Lemma union_member_flags_witness :
  union_forward true [false; true] true = Some false /\ union_expected true true = Some true.
Proof. split; reflexivity. Qed.

Theorem union_member_flags_refuted : ~ union_full.
Proof.
  intros H. specialize (H true [false; true] true (or_intror (or_introl eq_refl))).
  cbn in H. discriminate.
Qed.
