(* C11, serialization: "for every member value v: encode_U(v) = encode_member(v)" with MEMBERSHIP in the model.

   [rty] = UnionDeepEnc.pty whose leaves also carry their typing membership ([conf]: is the value an
   instance of the leaf type -- for a leaf such as List[int] this is deeper than the class).
   [rconf] = membership of a value in a type (Optional: None or the argument; Union: some member;
   List / Tuple / Dict: the exact container class and every item), [rmem] = the property's reference:
   at every union the FIRST member, in declaration order, to which the value BELONGS packs it.
   Main theorem [member_value_partial]: for a value of the type, the generated packer (UnionDeepEnc.qenc,
   pack_union at union positions) equals [rmem] and does not raise, provided the branches that fire on
   the value agree ([rwd], the hereditary wire_disjoint) -- the premise that fails exactly in finding
   union-encode-untyped-try. *)
From Coq Require Import List String Ascii ZArith Bool Lia.
From Verif Require Import UnionModel UnionProofs UnionDeep UnionDeepProofs UnionDeepEnc UnionDeepEncProofs.
Import ListNotations.
Local Open Scope list_scope.

Inductive rty :=
| RLeaf (cls: string) (isval: bool) (enc: uv -> option uv) (conf: uv -> bool)
| RU (l: list (nat * rty))
| ROpt (t: rty)
| RList (t: rty)
| RTupV (t: rty)
| RTupF (l: list rty)
| RDict (t: rty).

Fixpoint to_pty (r: rty) : pty :=
  match r with
  | RLeaf c i f _ => QLeaf c i f
  | RU l => QU (map (fun p => match p with (e, t) => (e, to_pty t) end) l)
  | ROpt t => QOpt (to_pty t)
  | RList t => QList (to_pty t)
  | RTupV t => QTupV (to_pty t)
  | RTupF l => QTupF (map to_pty l)
  | RDict t => QDict (to_pty t)
  end.

Definition is_str (v: uv) : bool := match v with UStr _ => true | _ => false end.

Fixpoint forallb2 {A B} (f: A -> B -> bool) (l: list A) (l': list B) : bool :=
  match l, l' with
  | [], [] => true
  | a :: r, b :: r' => f a b && forallb2 f r r'
  | _, _ => false end.

(* typing membership *)
Fixpoint rconf (r: rty) : uv -> bool :=
  match r with
  | RLeaf _ _ _ conf => conf
  | RU l => fun v => existsb (fun p => match p with (_, t) => rconf t v end) l
  | ROpt t => fun v => is_none v || rconf t v
  | RList t => fun v => match v with UList xs => forallb (rconf t) xs | _ => false end
  | RTupV t => fun v => match v with UTuple xs => forallb (rconf t) xs | _ => false end
  | RTupF l => fun v => match v with UTuple xs => forallb2 (fun f x => f x) (map rconf l) xs | _ => false end
  | RDict t => fun v => match v with UDict kvs => forallb (fun kv => is_str (fst kv) && rconf t (snd kv)) kvs | _ => false end
  end.

(* reference: the first member the value belongs to packs it; the container plumbing is that of qgen *)
Fixpoint rmem (r: rty) : uv -> option uv :=
  match r with
  | RLeaf _ _ enc _ => enc
  | RU l => fun v => (fix go (l: list (nat * rty)) : option uv :=
                        match l with
                        | [] => None
                        | (_, t) :: rest => if rconf t v then rmem t v else go rest end) l
  | ROpt t => opt_dec (rmem t)
  | RList t => seq_run UList (rmem t)
  | RTupV t => seq_run UList (rmem t)
  | RTupF l => fun v => option_map UList (tup_items (map rmem l) v 0)
  | RDict t => dict_run Some (rmem t)
  end.

Definition go_mem (v: uv) := fix go (l: list (nat * rty)) : option uv :=
  match l with
  | [] => None
  | (_, t) :: rest => if rconf t v then rmem t v else go rest end.

(* domain: along the members the value belongs to, the branches that fire agree *)
Fixpoint rwd (r: rty) : uv -> bool :=
  match r with
  | RLeaf _ _ _ _ => fun _ => true
  | RU l => fun v => wire_disjoint (map (qmember pack_union) (map (fun p => match p with (e, t) => (e, to_pty t) end) l)) v
                     && forallb (fun p => match p with (_, t) => implb (rconf t v) (rwd t v) end) l
  | ROpt t => fun v => is_none v || rwd t v
  | RList t | RTupV t => seq_all (rwd t)
  | RTupF l => fun v => tup_all (map rwd l) v 0
  | RDict t => dict_all (rwd t)
  end.

(* leaves: the packer of a leaf type accepts the values of the type; the packer "value" belongs to a leaf
   whose values have exactly the class named in the class check *)
Definition leaf_ok (cls: string) (isval: bool) (enc: uv -> option uv) (conf: uv -> bool) : Prop :=
  forall v, conf v = true -> enc v <> None /\ (isval = true -> class_of v = cls /\ enc v = Some v).

Fixpoint rleaves (r: rty) : Prop :=
  match r with
  | RLeaf c i f conf => leaf_ok c i f conf
  | RU l => fold_right (fun p Q => rleaves (snd p) /\ Q) True l
  | ROpt t | RList t | RTupV t | RDict t => rleaves t
  | RTupF l => fold_right (fun t Q => rleaves t /\ Q) True l
  end.

Section RtyInd.
  Variable P : rty -> Prop.
  Hypothesis HLeaf : forall c i f g, P (RLeaf c i f g).
  Hypothesis HU : forall l, Forall (fun p => P (snd p)) l -> P (RU l).
  Hypothesis HOpt : forall t, P t -> P (ROpt t).
  Hypothesis HList : forall t, P t -> P (RList t).
  Hypothesis HTupV : forall t, P t -> P (RTupV t).
  Hypothesis HTupF : forall l, Forall P l -> P (RTupF l).
  Hypothesis HDict : forall t, P t -> P (RDict t).
  Fixpoint rty_ind' (t: rty) : P t :=
    match t with
    | RLeaf c i f g => HLeaf c i f g
    | RU l => HU l ((fix go (l: list (nat * rty)) : Forall (fun p => P (snd p)) l :=
                       match l with
                       | [] => Forall_nil _
                       | p :: r => Forall_cons p (match p as p0 return P (snd p0) with (e, t') => rty_ind' t' end) (go r)
                       end) l)
    | ROpt t' => HOpt t' (rty_ind' t')
    | RList t' => HList t' (rty_ind' t')
    | RTupV t' => HTupV t' (rty_ind' t')
    | RTupF l => HTupF l ((fix go (l: list rty) : Forall P l :=
                             match l with [] => Forall_nil _ | x :: r => Forall_cons x (rty_ind' x) (go r) end) l)
    | RDict t' => HDict t' (rty_ind' t')
    end.
End RtyInd.

Definition renc (r: rty) : uv -> option uv := qenc (to_pty r).

(* what is proved for every type: on its values the generated packer is the membership reference, and succeeds *)
Definition PR (r: rty) : Prop :=
  forall v, rleaves r -> rconf r v = true -> qcoh (to_pty r) v -> rwd r v = true ->
    renc r v = rmem r v /\ rmem r v <> None.

Definition to_p (p: nat * rty) : nat * pty := match p with (e, t) => (e, to_pty t) end.

Lemma renc_RU : forall l, renc (RU l) = pack_union (map (qmember pack_union) (map to_p l)).
Proof. reflexivity. Qed.

(* the branch of a member to which the value belongs fires, with the member's own output *)
Lemma member_fires : forall e t v, PR t -> rleaves t -> rconf t v = true -> qcoh (to_pty t) v -> rwd t v = true ->
  p_accepts (qmember pack_union (to_p (e, t))) v = true /\ p_out (qmember pack_union (to_p (e, t))) v = rmem t v.
Proof.
  intros e t v IH Hl Hc Hq Hw. destruct (IH v Hl Hc Hq Hw) as [He Hn].
  destruct t as [c [|] f g| | | | | |]; unfold renc in He; simpl in *;
    unfold p_accepts, p_out, p_ident, p_e, p_enc, p_cls; simpl.
  - destruct (Hl v Hc) as [_ H2]. destruct (H2 eq_refl) as [Hcls Hv]. rewrite Hcls, String.eqb_refl, Hv. split; reflexivity.
  - split; [|reflexivity]. destruct (f v); [reflexivity | contradiction Hn; reflexivity].
  - unfold qenc in He; simpl in He. rewrite He. split; [|reflexivity].
    destruct ((fix go (l0 : list (nat * rty)) : option uv := match l0 with | [] => None | (_, t) :: rest => if rconf t v then rmem t v else go rest end) l);
      [reflexivity | contradiction Hn; reflexivity].
  - unfold qenc in He; simpl in He. rewrite He. split; [|reflexivity].
    destruct (opt_dec (rmem t) v); [reflexivity | contradiction Hn; reflexivity].
  - unfold qenc in He; simpl in He. rewrite He. split; [|reflexivity].
    destruct (seq_run UList (rmem t) v); [reflexivity | contradiction Hn; reflexivity].
  - unfold qenc in He; simpl in He. rewrite He. split; [|reflexivity].
    destruct (seq_run UList (rmem t) v); [reflexivity | contradiction Hn; reflexivity].
  - unfold qenc in He; simpl in He. rewrite He. split; [|reflexivity].
    destruct (option_map UList (tup_items (map rmem l) v 0)); [reflexivity | contradiction Hn; reflexivity].
  - unfold qenc in He; simpl in He. rewrite He. split; [|reflexivity].
    destruct (dict_run Some (rmem t) v); [reflexivity | contradiction Hn; reflexivity].
Qed.

Lemma union_case : forall l, Forall (fun p => PR (snd p)) l -> PR (RU l).
Proof.
  intros l IH v Hl Hc Hq Hw. rewrite renc_RU.
  simpl in Hq. destruct Hq as [Hpc Hql].
  simpl in Hw. apply andb_true_iff in Hw. destruct Hw as [Hwd Hwl].
  change (map (fun p : nat * rty => let (e, t) := p in (e, to_pty t)) l) with (map to_p l) in *.
  (* walk to the first member the value belongs to; [pre] = members already passed *)
  assert (G: forall pre suf, l = pre ++ suf ->
             Forall (fun p => PR (snd p)) suf ->
             fold_right (fun p Q => rleaves (snd p) /\ Q) True suf ->
             existsb (fun p => match p with (_, t) => rconf t v end) suf = true ->
             fold_right (fun p Q => qcoh (snd p) v /\ Q) True (map to_p suf) ->
             forallb (fun p => match p with (_, t) => implb (rconf t v) (rwd t v) end) suf = true ->
             pack_union (map (qmember pack_union) (map to_p l)) v = go_mem v suf /\ go_mem v suf <> None).
  { intros pre suf. revert pre. induction suf as [|[e t] r IHr]; intros pre El HP HL HE HQ HW; [discriminate HE|].
    simpl in HE, HL, HQ, HW. inversion HP as [|? ? Ht Hr]; subst. simpl in Ht.
    destruct HL as [Hlt Hlr]. destruct HQ as [Hqt Hqr]. apply andb_true_iff in HW; destruct HW as [Hwt Hwr].
    simpl. destruct (rconf t v) eqn:Ec.
    - simpl in Hwt.
      destruct (member_fires e t v Ht Hlt Ec Hqt Hwt) as [Ha Ho].
      assert (Hin: In (qmember pack_union (to_p (e, t))) (map (qmember pack_union) (map to_p (pre ++ (e, t) :: r)))).
      { apply in_map. apply in_map. apply in_or_app. right. left. reflexivity. }
      rewrite (pack_union_partial _ v _ Hpc Hin Ha Hwd). rewrite Ho.
      split; [reflexivity | exact (proj2 (Ht v Hlt Ec Hqt Hwt))].
    - simpl in HE. apply (IHr (pre ++ [(e, t)])); try assumption.
      rewrite <- app_assoc. reflexivity. }
  apply (G [] l eq_refl IH); assumption.
Qed.

Lemma mapO_some_ext : forall {A B} (f g: A -> option B) l,
  Forall (fun x => f x = g x /\ g x <> None) l -> mapO f l = mapO g l /\ mapO g l <> None.
Proof.
  intros A B f g l H; induction H as [|x r [Hx Hn] _ [IH1 IH2]]; simpl; [split; [reflexivity | discriminate]|].
  rewrite Hx. destruct (g x); [|contradiction Hn; reflexivity]. rewrite IH1.
  destruct (mapO g r); [split; [reflexivity | discriminate] | contradiction IH2; reflexivity].
Qed.

Lemma seq_case_r : forall t xs (w: list uv -> uv) d, PR t -> rleaves t ->
  iter_of d = Some xs -> forallb (rconf t) xs = true -> seq_All (qcoh (to_pty t)) d -> seq_all (rwd t) d = true ->
  seq_run UList (renc t) d = seq_run UList (rmem t) d /\ seq_run UList (rmem t) d <> None.
Proof.
  intros t xs w d IH Hl Hi Hc Hq Hw. unfold seq_run. rewrite Hi.
  unfold seq_all in Hw; rewrite Hi in Hw. specialize (Hq xs Hi).
  rewrite forallb_forall in Hc, Hw. rewrite Forall_forall in Hq.
  assert (F: Forall (fun x => renc t x = rmem t x /\ rmem t x <> None) xs).
  { apply Forall_forall. intros x Hx. apply IH; auto. }
  destruct (mapO_some_ext _ _ _ F) as [E N]. rewrite E.
  destruct (mapO (rmem t) xs); [split; [reflexivity | discriminate] | contradiction N; reflexivity].
Qed.

Lemma tup_case_r : forall l, Forall PR l -> fold_right (fun t Q => rleaves t /\ Q) True l ->
  forall xs all i, skipn i all = xs -> forallb2 (fun f x => f x) (map rconf l) xs = true ->
  tup_All (map qcoh (map to_pty l)) (UTuple all) i -> tup_all (map rwd l) (UTuple all) i = true ->
  tup_items (map renc l) (UTuple all) i = tup_items (map rmem l) (UTuple all) i /\ tup_items (map rmem l) (UTuple all) i <> None.
Proof.
  intros l H; induction H as [|t r Ht _ IH]; intros HL xs all i Hs Hc Hq Hw; simpl in *; [split; [reflexivity | discriminate]|].
  destruct xs as [|x xr]; [discriminate Hc|]. apply andb_true_iff in Hc; destruct Hc as [Hcx Hcr].
  destruct HL as [Hlt Hlr]. destruct Hq as [Hq1 Hq2].
  assert (Hn: nth_error all i = Some x).
  { clear -Hs. revert all Hs. induction i as [|i IHi]; intros all Hs; destruct all as [|a al]; simpl in *; try discriminate.
    - inversion Hs; reflexivity.
    - apply IHi; exact Hs. }
  rewrite Hn in *. apply andb_true_iff in Hw; destruct Hw as [Hw1 Hw2].
  destruct (Ht x Hlt Hcx (Hq1 x eq_refl) Hw1) as [E N]. rewrite E.
  destruct (rmem t x); [|contradiction N; reflexivity].
  assert (Hs': skipn (S i) all = xr).
  { clear -Hs. revert all Hs. induction i as [|i IHi]; intros all Hs; destruct all as [|a al]; simpl in *; try discriminate.
    - inversion Hs; reflexivity.
    - apply IHi; exact Hs. }
  destruct (IH Hlr xr all (S i) Hs' Hcr Hq2 Hw2) as [E2 N2]. rewrite E2.
  destruct (tup_items (map rmem r) (UTuple all) (S i)); [split; [reflexivity | discriminate] | contradiction N2; reflexivity].
Qed.

Theorem member_value_partial : forall r, PR r.
Proof.
  induction r as [c i f g|l IH|t IH|t IH|t IH|l IH|t IH] using rty_ind'.
  - intros v Hl Hc _ _. split; [reflexivity | exact (proj1 (Hl v Hc))].
  - apply union_case; exact IH.
  - intros v Hl Hc Hq Hw. unfold renc, qenc; simpl. unfold opt_dec. simpl in Hc, Hq, Hw.
    destruct (is_none v) eqn:E; [split; [reflexivity | discriminate]|]. simpl in Hc, Hw.
    apply (IH v Hl Hc (Hq eq_refl) Hw).
  - intros v Hl Hc Hq Hw. simpl in Hc. destruct v as [| | | | |xs| | |]; try discriminate Hc.
    apply (seq_case_r t xs UList (UList xs) IH Hl eq_refl Hc Hq Hw).
  - intros v Hl Hc Hq Hw. simpl in Hc. destruct v as [| | | | | |xs| |]; try discriminate Hc.
    apply (seq_case_r t xs UList (UTuple xs) IH Hl eq_refl Hc Hq Hw).
  - intros v Hl Hc Hq Hw. simpl in Hc. destruct v as [| | | | | |xs| |]; try discriminate Hc.
    unfold renc, qenc; simpl. simpl in Hq, Hw, Hl.
    change (map (qgen pack_union) (map to_pty l)) with (map qenc (map to_pty l)).
    rewrite map_map. change (map (fun x => qenc (to_pty x)) l) with (map renc l).
    destruct (tup_case_r l IH Hl xs xs 0 eq_refl Hc Hq Hw) as [E N]. rewrite E.
    destruct (tup_items (map rmem l) (UTuple xs) 0); [split; [reflexivity | discriminate] | contradiction N; reflexivity].
  - intros v Hl Hc Hq Hw. simpl in Hc. destruct v as [| | | | | | |kvs|]; try discriminate Hc.
    unfold renc, qenc; simpl. unfold dict_run; simpl. simpl in Hq, Hw, Hl. unfold dict_All in Hq; simpl in Hq. unfold dict_all in Hw; simpl in Hw.
    specialize (Hq kvs eq_refl). rewrite forallb_forall in Hc, Hw. rewrite Forall_forall in Hq.
    assert (F: Forall (fun kv : uv * uv =>
                 (let (k, x) := kv in match Some k, qgen pack_union (to_pty t) x with Some k', Some y => Some (k', y) | _, _ => None end) =
                 (let (k, x) := kv in match Some k, rmem t x with Some k', Some y => Some (k', y) | _, _ => None end) /\
                 (let (k, x) := kv in match Some k, rmem t x with Some k', Some y => Some (k', y) | _, _ => None end) <> None) kvs).
    { apply Forall_forall. intros [k x] Hi. specialize (Hc _ Hi). simpl in Hc. apply andb_true_iff in Hc; destruct Hc as [_ Hcx].
      destruct (IH x Hl Hcx (Hq _ Hi) (Hw _ Hi)) as [E N]. unfold renc, qenc in E. rewrite E.
      destruct (rmem t x); [split; [reflexivity | discriminate] | contradiction N; reflexivity]. }
    destruct (mapO_some_ext _ _ _ F) as [E N]. rewrite E.
    match goal with |- option_map _ ?m = _ /\ _ => destruct m end; [split; [reflexivity | discriminate] | contradiction N; reflexivity].
Qed.

(* ---------------- per-run cases (harness: deep_enc_part) ---------------- *)
(* finite membership table of a leaf type, observed with the harness's conforms() *)
Definition tbb (l: list (uv * bool)) (d: uv) : bool :=
  match find (fun p => uv_eqb (fst p) d) l with Some p => snd p | None => false end.

Record rcase := RCA {
  rc_t : rty;
  rc_v : uv;
  rc_conf : bool;          (* harness conforms(tp, v) *)
  rc_obs : option uv;      (* the real encoder *)
  rc_ref : option uv       (* the Python reference (first conforming member) *)
}.
(* the two definitions of membership coincide *)
Definition rcase_conf (c: rcase) : bool := Bool.eqb (rconf (rc_t c) (rc_v c)) (rc_conf c).
(* the two membership references coincide *)
Definition rcase_ref (c: rcase) : bool := implb (rc_conf c) (ouv_eqb (rmem (rc_t c) (rc_v c)) (rc_ref c)).
(* the theorem, evaluated: on the domain the model of the generated packer is the reference *)
Definition rcase_thm (c: rcase) : bool :=
  implb (rconf (rc_t c) (rc_v c) && rwd (rc_t c) (rc_v c)) (ouv_eqb (renc (rc_t c) (rc_v c)) (rmem (rc_t c) (rc_v c))).
Definition rcase_ok (c: rcase) : bool := rcase_conf c && rcase_ref c && rcase_thm c.
Definition rcase_indomain (c: rcase) : bool := rconf (rc_t c) (rc_v c) && rwd (rc_t c) (rc_v c).
