(* The tie (T) for tuples with an unpacked segment: the index / slice plan the type-level
   model uses ([TyModel.tu_plan], hand-written closed form) IS the output of the arg_indexes
   loop of pack_tuple / unpack_tuple as translated from /repo on this run (kernel K7), and the
   flags of a type are what the loop is run on. *)
From Coq Require Import List ZArith Bool Lia.
From Verif Require Import Core TupleIdx TyModel K7Proofs.
From VerifGen Require Import K7.
Import ListNotations.

(* is_unpack(type_arg) for the arguments of Tuple[pre..., Unpack[mid], post...] *)
Definition tu_flags (pre post: list sty) : list bool :=
  repeat false (length pre) ++ true :: repeat false (length post).

Lemma tu_plan_is_expected u m : tu_plan u m = expected u m.
Proof. reflexivity. Qed.

Theorem tu_plan_is_code pre post :
  arg_indexes (tu_flags pre post) = Some (tu_plan (length pre) (length post)).
Proof. unfold tu_flags. rewrite tu_plan_is_expected. apply arg_indexes_one_unpack. Qed.

(* the plans stored in the IR by the generator model are the code's *)
Theorem cu_plan_is_code pre mid post :
  exists us um ut, cu true (STupleU pre mid post) = UTupleU (tu_plan (length pre) (length post)) us um ut /\
                   arg_indexes (tu_flags pre post) = Some (tu_plan (length pre) (length post)).
Proof. eexists _, _, _. split; [reflexivity | apply tu_plan_is_code]. Qed.

Theorem cp_plan_is_code pre mid post :
  exists es em et, cp true (STupleU pre mid post) = ETupleU (tu_plan (length pre) (length post)) es em et /\
                   arg_indexes (tu_flags pre post) = Some (tu_plan (length pre) (length post)).
Proof. eexists _, _, _. split; [reflexivity | apply tu_plan_is_code]. Qed.
