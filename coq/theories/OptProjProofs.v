(* C08 - proofs about the flat option model OptProj.v *)
From Coq Require Import List String Ascii ZArith Bool Lia Sorting.Sorted Sorting.Permutation.
From Verif Require Import OptProj.
Import ListNotations.
Open Scope string_scope.
Open Scope Z_scope.

(* ------------------------------------------------------------------ *)
(* generic list facts                                                   *)
Lemma combine_map_l {A B C} (f: A -> C) (l: list A) (m: list B) :
  combine (map f l) m = map (fun r => (f (fst r), snd r)) (combine l m).
Proof. revert m. induction l as [|x l IH]; intros [|y m]; cbn; try reflexivity. now rewrite IH. Qed.

Lemma combine_self_map {A B} (g: A -> B) (l: list A) :
  combine l (map g l) = map (fun x => (x, g x)) l.
Proof. induction l as [|x l IH]; cbn; [reflexivity | now rewrite IH]. Qed.

Lemma flat_map_map {A B C} (g: A -> B) (f: B -> list C) (l: list A) :
  flat_map f (map g l) = flat_map (fun x => f (g x)) l.
Proof. induction l as [|x l IH]; cbn; [reflexivity | now rewrite IH]. Qed.

Lemma flat_mapM_single {A C} (f: A -> option (list C)) (h: A -> C) (l: list A) :
  (forall x, In x l -> f x = Some [h x]) -> flat_mapM f l = Some (map h l).
Proof.
  induction l as [|x l IH]; intros H; cbn; [reflexivity|].
  rewrite (H x (or_introl eq_refl)). rewrite IH; [reflexivity|]. intros y Hy. apply H. now right.
Qed.

Lemma flat_mapM_map {A B C} (g: A -> B) (f: B -> option (list C)) (l: list A) :
  flat_mapM f (map g l) = flat_mapM (fun x => f (g x)) l.
Proof. induction l as [|x l IH]; cbn; [reflexivity | now rewrite IH]. Qed.

(* the induction over the field list *)
Lemma flat_mapM_filter_pointwise {A C} (keep: A -> bool) (f: A -> option (list C)) (g: A -> list C) (l: list A) :
  (forall x, In x l -> if keep x then f x = Some (g x) else g x = []) ->
  flat_mapM f (filter keep l) = Some (flat_map g l).
Proof.
  induction l as [|x l IH]; intros H; cbn; [reflexivity|].
  pose proof (H x (or_introl eq_refl)) as Hx.
  assert (Hl: forall y, In y l -> if keep y then f y = Some (g y) else g y = []) by (intros y Hy; apply H; now right).
  destruct (keep x); cbn.
  - rewrite Hx, (IH Hl). reflexivity.
  - rewrite Hx. cbn. now apply IH.
Qed.

(* ------------------------------------------------------------------ *)
(* sorting                                                              *)
Section SortFacts.
  Context {A: Type} (key: A -> string).

  Lemma insert_by_perm x l : Permutation (insert_by key x l) (x :: l).
  Proof.
    induction l as [|y l IH]; cbn; [apply Permutation_refl|].
    destruct (String.leb (key x) (key y)); [apply Permutation_refl|].
    eapply perm_trans; [apply perm_skip, IH | apply perm_swap].
  Qed.

  Lemma sort_by_perm l : Permutation (sort_by key l) l.
  Proof.
    induction l as [|x l IH]; cbn; [constructor|].
    eapply perm_trans; [apply insert_by_perm | now apply perm_skip].
  Qed.

  Lemma sort_by_in x l : In x (sort_by key l) <-> In x l.
  Proof. split; apply Permutation_in; [|apply Permutation_sym]; apply sort_by_perm. Qed.

  Definition key_le (a b: A) : Prop := String.leb (key a) (key b) = true.

  Lemma insert_by_sorted x l : Sorted key_le l -> Sorted key_le (insert_by key x l).
  Proof.
    induction l as [|y l IH]; intros Hs; cbn; [repeat constructor|].
    destruct (String.leb (key x) (key y)) eqn:E.
    - constructor; [exact Hs | constructor; exact E].
    - inversion Hs as [|? ? Hs' Hd]; subst.
      constructor; [now apply IH|].
      assert (Hyx: key_le y x).
      { unfold key_le. destruct (String.leb_total (key x) (key y)) as [H|H]; [congruence | exact H]. }
      destruct l as [|z l]; cbn; [constructor; exact Hyx|].
      destruct (String.leb (key x) (key z)); constructor; [exact Hyx|].
      inversion Hd; subst; assumption.
  Qed.

  Lemma sort_by_sorted l : Sorted key_le (sort_by key l).
  Proof. induction l as [|x l IH]; cbn; [constructor | now apply insert_by_sorted]. Qed.
End SortFacts.

Lemma insert_by_map {A B} (ka: A -> string) (kb: B -> string) (g: A -> B) x l :
  (forall a, kb (g a) = ka a) ->
  insert_by kb (g x) (map g l) = map g (insert_by ka x l).
Proof.
  intros Hk. induction l as [|y l IH]; cbn; [reflexivity|].
  rewrite !Hk. destruct (String.leb (ka x) (ka y)); cbn; [reflexivity | now rewrite IH].
Qed.

Lemma sort_by_map {A B} (ka: A -> string) (kb: B -> string) (g: A -> B) l :
  (forall a, kb (g a) = ka a) ->
  sort_by kb (map g l) = map g (sort_by ka l).
Proof.
  intros Hk. unfold sort_by. induction l as [|x l IH]; cbn; [reflexivity|].
  rewrite IH. now apply insert_by_map.
Qed.

(* ------------------------------------------------------------------ *)
(* the plain body                                                       *)
Definition plainv (r: row) : pv :=
  if nullable (fst r) && is_none (fst (snd r)) then PNone else pval (fst r) (snd r).
Definition plain_entry (r: row) : string * pv := ((fst r).(p_name), plainv r).
Definition clear_row (r: row) : row := (clear_omit (fst r), snd r).

Definition plain_ctx : sctx := ctx_of plain_opts.

Lemma plain_ctx_eq : plain_ctx =
  {| s_on := false; s_od := false; s_ba := false; s_fon := false; s_fba := false; r_on := false; r_ba := false |}.
Proof. reflexivity. Qed.

Lemma is_none_true v : is_none v = true -> v = PNone.
Proof. destruct v; cbn; congruence. Qed.

Lemma emit_kw_plain r : emit_kw plain_ctx (clear_row r) = Some [plain_entry r].
Proof.
  destruct r as [p [raw packed]]. rewrite plain_ctx_eq.
  unfold emit_kw, plain_entry, plainv, clear_row, key_kw, guarded, guard, pval, nullable, p_tynull, default_is_none, default_value; cbn.
  destruct (p_alias p); destruct (ty_nullable (p_ty p)); destruct (p_trivial p); cbn;
    destruct (is_none raw) eqn:En; cbn; try reflexivity;
    try (apply is_none_true in En; subst; reflexivity);
    destruct (p_default p) as [|[]|]; cbn; try reflexivity;
    try (apply is_none_true in En; subst; reflexivity); try discriminate.
Qed.

Lemma emit_lit_plain r :
  nullable (fst r) && negb (fst r).(p_trivial) = false ->
  emit_lit plain_ctx (clear_row r) = Some [plain_entry r].
Proof.
  destruct r as [p [raw packed]]. rewrite plain_ctx_eq. intros H.
  unfold emit_lit, plain_entry, plainv, clear_row, key_lit, pval in *; cbn in *.
  change (nullable (clear_omit p)) with (nullable p).
  destruct (p_alias p); destruct (nullable p); destruct (p_trivial p); cbn in *; try discriminate;
    destruct (is_none raw) eqn:En; cbn; try reflexivity; apply is_none_true in En; subst; reflexivity.
Qed.

Lemma existsb_false_in {A} (f: A -> bool) l x : existsb f l = false -> In x l -> f x = false.
Proof.
  intros H Hin. destruct (f x) eqn:E; [|reflexivity].
  assert (existsb f l = true) by (apply existsb_exists; eauto). congruence.
Qed.

Lemma plain_model_eq fs vs :
  to_dict_model plain_opts (map clear_omit fs) vs = Some (map plain_entry (combine fs vs)).
Proof.
  unfold to_dict_model, body. cbn [o_sort plain_opts]. cbv zeta.
  rewrite combine_map_l.
  change (fun r : fplan * fval => (clear_omit (fst r), snd r)) with clear_row.
  change (fplan * fval)%type with row.
  assert (Hf: forall l: list row, filter (fun r : row => negb (p_omit (fst r))) (map clear_row l) = map clear_row l).
  { induction l as [|r l IH]; cbn; [reflexivity | now rewrite IH]. }
  rewrite Hf. fold plain_ctx. rewrite !flat_mapM_map.
  match goal with |- (if ?b then _ else _) = _ => destruct b eqn:E end.
  - apply flat_mapM_single. intros r _. apply emit_kw_plain.
  - unfold use_kwargs in E. rewrite plain_ctx_eq in E. cbn in E.
    rewrite !orb_false_r in E. rewrite andb_false_r, orb_false_r in E.
    apply flat_mapM_single. intros r Hr.
    apply emit_lit_plain.
    apply (existsb_false_in _ _ (fst (clear_row r))) in E; [exact E|].
    apply in_map, in_map, Hr.
Qed.

Lemma plain_out_eq fs vs : plain_out fs vs = map plain_entry (combine fs vs).
Proof. unfold plain_out. now rewrite plain_model_eq. Qed.

(* ------------------------------------------------------------------ *)
(* one field: generated statement block = projection of the plain entry *)
Definition coherent (c: sctx) (e: eff) : Prop :=
  c.(s_od) = e.(e_od) /\
  (if c.(s_fon) then c.(r_on) = e.(e_on) else c.(s_on) = e.(e_on)) /\
  (if c.(s_fba) then c.(r_ba) = e.(e_ba) else c.(s_ba) = e.(e_ba)).

Lemma guard_eq od p raw : guard od p raw = negb (od && equals_default p raw).
Proof.
  unfold guard, equals_default. destruct od; cbn; [|reflexivity].
  destruct (default_value p) as [[]|]; reflexivity.
Qed.

Lemma guarded_eq od p raw l :
  guarded (guard od p raw) l = Some (if od && equals_default p raw then [] else l).
Proof. rewrite guard_eq. unfold guarded. destruct (od && equals_default p raw); reflexivity. Qed.

Lemma py_eq_none_l d : py_eq PNone d = is_none d.
Proof. destruct d; reflexivity. Qed.
Lemma py_eq_none_r v : py_eq v PNone = is_none v.
Proof. destruct v as [|[]| | | | | | | |]; reflexivity. Qed.

Lemma equals_default_none_value p : equals_default p PNone = default_is_none p.
Proof.
  unfold equals_default, default_is_none. destruct (default_value p) as [[]|]; reflexivity.
Qed.

Lemma equals_default_dn p raw : default_is_none p = true -> equals_default p raw = is_none raw.
Proof.
  unfold equals_default, default_is_none. destruct (default_value p) as [[]|]; try discriminate.
  intros _. apply py_eq_none_r.
Qed.

Lemma key_kw_spec c e p : coherent c e -> key_kw c p = spec_key e p.
Proof.
  intros (_ & _ & Hb). unfold key_kw, spec_key. destruct (p_alias p); [|reflexivity].
  destruct (s_fba c); rewrite Hb; reflexivity.
Qed.

Lemma emit_kw_spec c e r :
  coherent c e -> row_ok r = true -> (fst r).(p_omit) = false ->
  emit_kw c r = Some (project_row e (r, plain_entry r)).
Proof.
  intros Hc Hok Hom. pose proof (key_kw_spec c e (fst r) Hc) as Hk.
  destruct Hc as (Hod & Hon & _).
  destruct r as [p [raw packed]].
  unfold emit_kw, project_row, plain_entry, plainv, dropped, row_ok in *; cbn [fst snd] in *.
  rewrite Hom, Hk. cbn [orb]. rewrite !guarded_eq. rewrite <- Hod.
  destruct (nullable p) eqn:En; cbn [andb] in *.
  - destruct (is_none raw) eqn:Enone; cbn [andb negb orb] in *.
    + (* raw is None *)
      apply is_none_true in Enone. subst raw. rewrite equals_default_none_value.
      destruct (p_trivial p) eqn:Et; unfold pval; rewrite ?Et; cbn [fst snd andb];
      destruct (s_fon c) eqn:Ef; destruct (s_on c) eqn:Es; destruct (s_od c) eqn:Eo;
        destruct (default_is_none p) eqn:Ed; cbn; rewrite <- ?Hon; cbn;
        try reflexivity; destruct (r_on c); reflexivity.
    + (* raw is not None *)
      cbn in Hok. assert (Hpn: is_none (pval p (raw, packed)) = false) by (now apply negb_true_iff).
      rewrite Hpn, andb_false_r. cbn [orb].
      destruct (p_trivial p) eqn:Et.
      * assert (Hpv: pval p (raw, packed) = raw) by (unfold pval; rewrite Et; reflexivity).
        rewrite Hpv.
        destruct (default_is_none p) eqn:Ed.
        -- rewrite (equals_default_dn _ _ Ed), Enone, !andb_false_r. cbn.
           destruct (s_on c), (s_fon c), (s_od c); reflexivity.
        -- destruct (s_on c), (s_fon c), (s_od c), (equals_default p raw); reflexivity.
      * cbn [andb].
        destruct (default_is_none p) eqn:Ed.
        -- rewrite (equals_default_dn _ _ Ed), Enone, !andb_false_r. cbn. reflexivity.
        -- destruct (s_od c), (equals_default p raw); reflexivity.
  - cbn in Hok. assert (Hpn: is_none (pval p (raw, packed)) = false) by (now apply negb_true_iff).
    rewrite Hpn, andb_false_r. cbn [orb].
    destruct (s_od c), (equals_default p raw); reflexivity.
Qed.

Lemma emit_lit_spec c e r :
  coherent c e -> row_ok r = true -> (fst r).(p_omit) = false ->
  nullable (fst r) && negb (fst r).(p_trivial) = false ->
  nullable (fst r) && (c.(s_on) || c.(s_fon)) = false ->
  c.(s_fba) && has_alias (fst r) = false ->
  c.(s_od) = false ->
  emit_lit c r = Some (project_row e (r, plain_entry r)).
Proof.
  intros (Hod & Hon & Hba) Hok Hom Hnt Hnn Hal Hsod.
  destruct r as [p [raw packed]].
  unfold emit_lit, project_row, plain_entry, plainv, dropped, row_ok in *; cbn [fst snd] in *.
  rewrite Hom, <- Hod, Hsod. cbn [orb andb]. rewrite orb_false_r.
  assert (Hkey: key_lit c p = spec_key e p).
  { unfold key_lit, spec_key, has_alias in *. destruct (p_alias p); [|reflexivity].
    rewrite andb_true_r in Hal. rewrite Hal in Hba. now rewrite Hba. }
  rewrite Hkey.
  destruct (nullable p) eqn:En; cbn [andb negb] in *.
  - apply negb_false_iff in Hnt. apply orb_false_iff in Hnn. destruct Hnn as [Hs Hf].
    rewrite Hf in Hon. rewrite <- Hon, Hs. cbn [andb].
    unfold pval. rewrite Hnt. cbn [fst].
    destruct (is_none raw) eqn:E; [apply is_none_true in E; subst|]; reflexivity.
  - cbn in Hok. apply negb_true_iff in Hok. rewrite Hok, andb_false_r. reflexivity.
Qed.

(* ------------------------------------------------------------------ *)
(* the body: induction over the field list                              *)
Lemma forallb_in {A} (f: A -> bool) l x : forallb f l = true -> In x l -> f x = true.
Proof. intros H. now apply (proj1 (forallb_forall f l) H). Qed.

Definition keep (r: row) : bool := negb (p_omit (fst r)).
Definition with_plain (r: row) : prow := (r, plain_entry r).

Lemma body_rows (c: sctx) (e: eff) (rows: list row) :
  coherent c e -> (forall r, In r rows -> row_ok r = true) ->
  (if use_kwargs c (map fst (filter keep rows))
   then flat_mapM (emit_kw c) (filter keep rows)
   else flat_mapM (emit_lit c) (filter keep rows))
  = Some (flat_map (fun r => project_row e (with_plain r)) rows).
Proof.
  intros Hc Hrows.
  destruct (use_kwargs c (map fst (filter keep rows))) eqn:Eform.
  - apply flat_mapM_filter_pointwise. intros r Hr. unfold keep.
    destruct (p_omit (fst r)) eqn:Eo; cbn.
    + unfold with_plain, project_row, dropped. cbn [fst snd]. rewrite Eo. reflexivity.
    + apply emit_kw_spec; auto.
  - unfold use_kwargs in Eform.
    apply orb_false_iff in Eform. destruct Eform as [Eform Hsod].
    apply orb_false_iff in Eform. destruct Eform as [Eform Hal].
    apply orb_false_iff in Eform. destruct Eform as [Hnt Hnn].
    apply flat_mapM_filter_pointwise. intros r Hr. unfold keep.
    destruct (p_omit (fst r)) eqn:Eo; cbn.
    + unfold with_plain, project_row, dropped. cbn [fst snd]. rewrite Eo. reflexivity.
    + assert (Hin: In (fst r) (map fst (filter keep rows))).
      { apply in_map, filter_In. split; [exact Hr|]. unfold keep. now rewrite Eo. }
      apply emit_lit_spec; auto.
      * apply (existsb_false_in _ _ _ Hnt Hin).
      * destruct (s_on c || s_fon c); [|apply andb_false_r].
        rewrite andb_true_r in *. apply (existsb_false_in _ _ _ Hnn Hin).
      * destruct (s_fba c); [|reflexivity]. cbn in *. apply (existsb_false_in _ _ _ Hal Hin).
Qed.

Theorem body_project (c: sctx) (e: eff) (fs: list fplan) (vs: list fval) :
  coherent c e -> vals_ok fs vs = true ->
  body c e.(e_sort) (combine fs vs) = Some (project e fs vs (plain_out fs vs)).
Proof.
  intros Hc Hv. unfold vals_ok in Hv. apply andb_true_iff in Hv. destruct Hv as [_ Hv].
  unfold project. cbv zeta. rewrite plain_out_eq, combine_self_map.
  change (fun x : fplan * fval => (x, plain_entry x)) with with_plain.
  unfold body. cbv zeta. change (fun r : row => negb (p_omit (fst r))) with keep.
  destruct (e_sort e).
  - rewrite (sort_by_map row_name prow_name with_plain) by reflexivity.
    rewrite flat_map_map. apply body_rows; [exact Hc|].
    intros r Hr. apply (forallb_in _ _ _ Hv). exact (proj1 (sort_by_in row_name r _) Hr).
  - rewrite flat_map_map. apply body_rows; [exact Hc|].
    intros r Hr. apply (forallb_in _ _ _ Hv). exact Hr.
Qed.

(* ------------------------------------------------------------------ *)
(* dispatch: the context the method runs in is coherent with the reference
   precedence, off the D14 corner                                        *)
Lemma bd_eq o : kw_ok o = true -> (if o_fdl o then o_call o else None) = o_call o.
Proof.
  unfold kw_ok. intros H. apply andb_true_iff in H. destruct H as [_ H].
  destruct (o_fdl o); [reflexivity|]. destruct (o_call o); [discriminate | reflexivity].
Qed.

Lemma coherent_of o : kw_ok o = true -> flag_defaults_ok o = true -> coherent (ctx_of o) (eff_of o).
Proof.
  intros Hk Hd. pose proof (bd_eq o Hk) as Hbd.
  unfold flag_defaults_ok in Hd. apply andb_true_iff in Hd. destruct Hd as [Hdon Hdba].
  apply negb_true_iff in Hdon. apply negb_true_iff in Hdba.
  unfold kw_ok in Hk. apply andb_true_iff in Hk. destruct Hk as [Hk Hk3].
  apply andb_true_iff in Hk. destruct Hk as [Hk1 Hk2].
  unfold coherent, ctx_of, eff_of. cbn. rewrite Hbd. repeat split.
  - unfold d14_on in Hdon. destruct (o_fon o) eqn:Ef.
    + destruct (o_kon o); [reflexivity|]. cbn.
      destruct (o_fdl o) eqn:Edl; cbn in Hdon.
      * apply negb_false_iff, eqb_prop in Hdon. now rewrite Hdon.
      * destruct (o_call o); [discriminate | reflexivity].
    + destruct (o_kon o); [discriminate | reflexivity].
  - unfold d14_ba in Hdba. destruct (o_fba o) eqn:Ef.
    + destruct (o_kba o); [reflexivity|]. cbn.
      destruct (o_fdl o) eqn:Edl; cbn in Hdba.
      * apply negb_false_iff, eqb_prop in Hdba. now rewrite Hdba.
      * destruct (o_call o); [discriminate | reflexivity].
    + destruct (o_kba o); [discriminate | reflexivity].
Qed.

Definition project_statement (o: opts) (fs: list fplan) (vs: list fval) : Prop :=
  to_dict_model o fs vs = Some (project (eff_of o) fs vs (plain_out fs vs)).

Theorem project_partial o fs vs :
  kw_ok o = true -> vals_ok fs vs = true -> flag_defaults_ok o = true -> project_statement o fs vs.
Proof.
  intros Hk Hv Hd. unfold project_statement, to_dict_model.
  change (o_sort o) with (e_sort (eff_of o)).
  apply body_project; [now apply coherent_of | exact Hv].
Qed.

(* the produced mapping (dict semantics: a repeated key keeps its first position, last value) *)
Corollary project_partial_dict o fs vs :
  kw_ok o = true -> vals_ok fs vs = true -> flag_defaults_ok o = true ->
  option_map dict_of (to_dict_model o fs vs) = Some (dict_of (project (eff_of o) fs vs (plain_out fs vs))).
Proof. intros Hk Hv Hd. now rewrite (project_partial o fs vs Hk Hv Hd). Qed.

(* ------------------------------------------------------------------ *)
(* D14: a call dialect against the forwarded keyword defaults           *)
Definition ns_T : ns := {| n_on := T; n_od := U; n_ba := T |}.
Definition d14_opts : opts :=
  {| o_call := Some ns_T; o_cfgd := None; o_cfg := ns_unset; o_dd := None; o_sort := false;
     o_fon := true; o_fba := true; o_fdl := true; o_fcx := false; o_kon := None; o_kba := None |}.
Definition d14_fields : list fplan :=
  [ {| p_name := "a"; p_alias := None; p_ty := TyOptional; p_trivial := true; p_default := DVal PNone; p_omit := false |};
    {| p_name := "b"; p_alias := Some "bb"; p_ty := TyPlain; p_trivial := true; p_default := DVal (PInt 1); p_omit := false |} ].
Definition d14_vals : list fval := [(PNone, PNone); (PInt 1, PInt 1)].

Lemma d14_model : to_dict_model d14_opts d14_fields d14_vals = Some [("a", PNone); ("b", PInt 1)].
Proof. reflexivity. Qed.
Lemma d14_spec : project (eff_of d14_opts) d14_fields d14_vals (plain_out d14_fields d14_vals) = [("bb", PInt 1)].
Proof. reflexivity. Qed.

Theorem project_full_refuted :
  ~ (forall o fs vs, kw_ok o = true -> vals_ok fs vs = true -> project_statement o fs vs).
Proof.
  intros H. specialize (H d14_opts d14_fields d14_vals eq_refl eq_refl).
  unfold project_statement in H. rewrite d14_model, d14_spec in H. discriminate.
Qed.

(* a NaN default under omit_default: only a float NaN is the default; None and other values stay *)
Definition nan_opts : opts :=
  {| o_call := None; o_cfgd := None; o_cfg := {| n_on := U; n_od := T; n_ba := U |}; o_dd := None; o_sort := false;
     o_fon := false; o_fba := false; o_fdl := false; o_fcx := false; o_kon := None; o_kba := None |}.
Definition nan_fields : list fplan :=
  [ {| p_name := "m"; p_alias := None; p_ty := TyOptional; p_trivial := true; p_default := DVal PNaN; p_omit := false |};
    {| p_name := "n"; p_alias := None; p_ty := TyOptional; p_trivial := true; p_default := DVal PNaN; p_omit := false |};
    {| p_name := "s"; p_alias := None; p_ty := TyOptional; p_trivial := true; p_default := DVal PNaN; p_omit := false |} ].
Definition nan_vals : list fval := [(PNone, PNone); (PNaN, PNaN); (PStr "q", PStr "q")].

Lemma nan_default_example :
  kw_ok nan_opts = true /\ vals_ok nan_fields nan_vals = true /\ flag_defaults_ok nan_opts = true /\
  to_dict_model nan_opts nan_fields nan_vals = Some [("m", PNone); ("s", PStr "q")].
Proof. repeat split; reflexivity. Qed.

(* a union of three or more members one of which is None (formerly known finding
   omit-none-wide-union, repaired in /repo 906a805): nullable like Optional, omit_none drops its None *)
Definition wide_opts : opts :=
  {| o_call := None; o_cfgd := None; o_cfg := {| n_on := T; n_od := U; n_ba := U |}; o_dd := None; o_sort := false;
     o_fon := false; o_fba := false; o_fdl := false; o_fcx := false; o_kon := None; o_kba := None |}.
Definition wide_fields : list fplan :=
  [ {| p_name := "u"; p_alias := None; p_ty := TyUnionNone; p_trivial := true; p_default := DNo; p_omit := false |};
    {| p_name := "o"; p_alias := None; p_ty := TyAnnotated (TyFinal TyOptional); p_trivial := true; p_default := DNo; p_omit := false |};
    {| p_name := "w"; p_alias := None; p_ty := TyFinal TyUnionNone; p_trivial := false; p_default := DNo; p_omit := false |} ].
Definition wide_vals : list fval := [(PNone, PNone); (PNone, PNone); (POpq 1, PStr "2020-01-01")].

Lemma wide_union_example :
  kw_ok wide_opts = true /\ vals_ok wide_fields wide_vals = true /\ flag_defaults_ok wide_opts = true /\
  to_dict_model wide_opts wide_fields wide_vals = Some [("w", PStr "2020-01-01")].
Proof. repeat split; reflexivity. Qed.

(* the corner is exactly D14: outside flag_defaults_ok the body still projects, but with the
   DEFAULT METHOD's keyword defaults instead of the call dialect's values *)
Definition eff_d14 (o: opts) : eff :=
  {| e_on := if o.(o_fon) then kwdef o.(o_kon) (look n_on (levels o None)) else look n_on (levels o o.(o_call));
     e_od := look n_od (levels o o.(o_call));
     e_ba := if o.(o_fba) then kwdef o.(o_kba) (look n_ba (levels o None)) else look n_ba (levels o o.(o_call));
     e_sort := o.(o_sort) |}.

Lemma coherent_d14 o : kw_ok o = true -> coherent (ctx_of o) (eff_d14 o).
Proof.
  intros Hk. pose proof (bd_eq o Hk) as Hbd.
  unfold coherent, ctx_of, eff_d14. cbn. rewrite Hbd. repeat split.
  - destruct (o_fon o); reflexivity.
  - destruct (o_fba o); reflexivity.
Qed.

Theorem project_actual o fs vs :
  kw_ok o = true -> vals_ok fs vs = true ->
  to_dict_model o fs vs = Some (project (eff_d14 o) fs vs (plain_out fs vs)).
Proof.
  intros Hk Hv. unfold to_dict_model. change (o_sort o) with (e_sort (eff_d14 o)).
  apply body_project; [now apply coherent_d14 | exact Hv].
Qed.

(* ------------------------------------------------------------------ *)
(* what the projection means (spec sanity, independent of the body)     *)
Lemma project_unsorted e fs vs plain : e.(e_sort) = false ->
  project e fs vs plain = flat_map (project_row e) (combine (combine fs vs) plain).
Proof. intros H. unfold project. now rewrite H. Qed.

Lemma project_sorted_rows e fs vs plain : e.(e_sort) = true ->
  exists rows, project e fs vs plain = flat_map (project_row e) rows
               /\ Permutation rows (combine (combine fs vs) plain)
               /\ Sorted (key_le prow_name) rows.
Proof.
  intros H. exists (sort_by prow_name (combine (combine fs vs) plain)). unfold project. rewrite H.
  split; [reflexivity | split; [apply sort_by_perm | apply sort_by_sorted]].
Qed.

(* no value is changed, and keys are only the field's name or alias *)
Lemma project_row_values e r k v : In (k, v) (project_row e r) ->
  v = snd (snd r) /\ (k = (fst (fst r)).(p_name) \/ (fst (fst r)).(p_alias) = Some k).
Proof.
  unfold project_row. destruct (dropped _ _ _ _); cbn; [tauto|].
  intros [H|[]]. inversion H; subst. split; [reflexivity|].
  unfold spec_key. destruct (p_alias (fst (fst r))); [destruct (e_ba e)|]; auto.
Qed.
