(* C08 - theorems about kernel K8 as translated from /repo on this run (VerifGen.K8):
   get_pack_method_flags (flags forwarded to a nested dataclass) and the
   kwargs-vs-dict-literal test of _add_pack_method_lines. *)
From Coq Require Import List String Ascii ZArith Bool.
From Verif Require Import Regex PyK PyK_c08 OptProj.
From VerifGen Require Import K8.
Import ListNotations.
Open Scope string_scope.
Open Scope Z_scope.

Definition enc_flags (f: flags) : kv :=
  KNs [(c_TO_DICT_ADD_OMIT_NONE_FLAG, KBool f.(g_on)); (c_TO_DICT_ADD_BY_ALIAS_FLAG, KBool f.(g_ba));
       (c_ADD_DIALECT_SUPPORT, KBool f.(g_dl)); (c_ADD_SERIALIZATION_CONTEXT, KBool f.(g_cx))].

Definition flag_args (f: flags) : list string :=
  (if f.(g_on) then ["omit_none=omit_none"] else []) ++ (if f.(g_ba) then ["by_alias=by_alias"] else [])
  ++ (if f.(g_dl) then ["dialect=dialect"] else []) ++ (if f.(g_cx) then ["context=context"] else []).

(* the argument list of the nested call names exactly the flags enabled on BOTH classes *)
Theorem K8_forward_lemma : forall a b : flags,
  get_pack_method_flags (enc_flags a) (enc_flags b) = Ok (KStr (String.concat ", " (flag_args (both a b)))).
Proof.
  intros [a1 a2 a3 a4] [b1 b2 b3 b4].
  destruct a1, a2, a3, a4, b1, b2, b3, b4; vm_compute; reflexivity.
Qed.

Lemma flag_args_in f s : In s (flag_args f) <->
  (s = "omit_none=omit_none" /\ f.(g_on) = true) \/ (s = "by_alias=by_alias" /\ f.(g_ba) = true) \/
  (s = "dialect=dialect" /\ f.(g_dl) = true) \/ (s = "context=context" /\ f.(g_cx) = true).
Proof.
  destruct f as [a b c d]. unfold flag_args. cbn [g_on g_ba g_dl g_cx].
  destruct a, b, c, d; cbn; intuition (try discriminate; auto).
Qed.

(* ---- kwargs-vs-literal ---- *)
Definition res_truthy (r: res kv) : option bool :=
  match r with Ok v => Some (k_truthy v) | Raise _ => None end.

Lemma use_kwargs_test_truthy (A B AL: kv) (on fon fba od: bool) :
  res_truthy (use_kwargs_test A B (KBool on) (KBool fon) (KBool fba) AL (KBool od))
  = Some (k_truthy A || (k_truthy B && (on || fon)) || (fba && k_truthy AL) || od).
Proof.
  unfold use_kwargs_test.
  destruct (k_truthy A) eqn:EA; destruct (k_truthy B) eqn:EB; destruct on, fon, fba; destruct (k_truthy AL) eqn:EL;
    destruct od; repeat (progress (cbn; rewrite ?EA, ?EB, ?EL)); reflexivity.
Qed.

Definition names_of (f: fplan -> bool) (fs: list fplan) : kv :=
  KList (map (fun p => KStr p.(p_name)) (filter f fs)).
Definition aliases_of (fs: list fplan) : kv :=
  KDict (flat_map (fun p => match p.(p_alias) with Some a => [(KStr p.(p_name), KStr a)] | None => [] end) fs).

Lemma truthy_names f fs : k_truthy (names_of f fs) = existsb f fs.
Proof.
  unfold names_of. induction fs as [|p fs IH]; cbn; [reflexivity|].
  destruct (f p); cbn; [reflexivity | exact IH].
Qed.

Lemma truthy_aliases fs : k_truthy (aliases_of fs) = existsb has_alias fs.
Proof.
  unfold aliases_of, has_alias. induction fs as [|p fs IH]; cbn; [reflexivity|].
  destruct (p_alias p); cbn; [reflexivity | exact IH].
Qed.

(* OptProj.use_kwargs is the translated test, evaluated on the collections the builder fills *)
Theorem K8_use_kwargs_lemma : forall (c: sctx) (fs: list fplan),
  res_truthy (use_kwargs_test (names_of (fun p => nullable p && negb p.(p_trivial)) fs) (names_of nullable fs)
                              (KBool c.(s_on)) (KBool c.(s_fon)) (KBool c.(s_fba)) (aliases_of fs) (KBool c.(s_od)))
  = Some (use_kwargs c fs).
Proof.
  intros. rewrite use_kwargs_test_truthy, !truthy_names, truthy_aliases. reflexivity.
Qed.
