(* C07 — executable glue (no proofs): the translated argument assembly (BindK107a.code_assembly over kernel K107a) run on a
   generated layout, compared with the constructor call `return cls(<pos>, <kw>=.., **kwargs)` that the real builder
   emitted for that class. *)
From Coq Require Import List String Bool.
From Verif Require Import PyK Bind BindCases BindK107a.
Import ListNotations.

(* one real call: layout index, `**kwargs` present, keyword names, positional names (in order) *)
Definition call_ok (lays: list lay) (c: nat * bool * list string * list string) : bool :=
  match c with
  | (i, b, kw, pos) =>
    match resolved (nth i lays dummy_lay) with
    | None => false
    | Some L =>
      match code_assembly L with
      | Ok r => kv_eqb r (KTuple [KBool b; enc_names kw; enc_names pos])
      | Raise _ => false
      end
    end
  end.
