(* Theorems about K11 = get_pack_method_name / get_unpack_method_name / InternalMethodName.from_public
   as translated from /repo on this run (VerifGen.K11), for the format names the mixins declare. *)
From Coq Require Import List String Ascii ZArith Bool Lia.
From Verif Require Import Regex PyK PyK_names.
From VerifGen Require Import K11.
Import ListNotations.
Open Scope string_scope.

Inductive dir := DPack | DUnpack.

(* h: value of hash_type_args(type_args) (used only when type_args is non-empty);
   codec: the encoder / decoder argument (None = absent) *)
Definition mname (d: dir) (h: string) (targs: list kv) (f: string) (codec: kv) : res kv :=
  match d with
  | DPack => get_pack_method_name (KStr h) (KTuple targs) (KStr f) codec
  | DUnpack => get_unpack_method_name (KStr h) (KTuple targs) (KStr f) codec
  end.

Definition has_codec (c: kv) : bool := negb (kv_eqb c KNone).
Definition all_formats : list string := default_format_name :: mixin_format_names.

Definition is_hex (c: ascii) : bool :=
  let n := nat_of_ascii c in
  ((48 <=? n) && (n <=? 57) || (97 <=? n) && (n <=? 102))%nat.
Fixpoint hexstr (s: string) : bool :=
  match s with EmptyString => true | String c r => is_hex c && hexstr r end.

Lemma str_app_nil_r s : s ++ "" = s.
Proof. induction s as [|c r IH]; simpl; [reflexivity | rewrite IH; reflexivity]. Qed.

Lemma str_len_app a b : String.length (a ++ b) = (String.length a + String.length b)%nat.
Proof. induction a as [|c r IH]; simpl; [reflexivity | rewrite IH; reflexivity]. Qed.

Lemma app_cancel_r s : forall a b, a ++ s = b ++ s -> a = b.
Proof.
  induction a as [|c r IH]; intros b H; destruct b as [|c' r']; simpl in H.
  - reflexivity.
  - exfalso. apply (f_equal String.length) in H. simpl in H. rewrite str_len_app in H. lia.
  - exfalso. apply (f_equal String.length) in H. simpl in H. rewrite str_len_app in H. lia.
  - inversion H. f_equal. apply IH. assumption.
Qed.

Lemma string_cons_inj a b x y : String a x = String b y -> a = b /\ x = y.
Proof. intro H. inversion H. split; reflexivity. Qed.

Ltac peel :=
  repeat match goal with
  | H : String _ _ = String _ _ |- _ =>
      apply string_cons_inj in H;
      let Hc := fresh "Hc" in destruct H as [Hc H];
      first [discriminate Hc | (try subst); try clear Hc]
  | H : EmptyString = String _ _ |- _ => discriminate H
  | H : String _ _ = EmptyString |- _ => discriminate H
  | H : (?h ++ _) = String _ _ |- _ => is_var h; destruct h; simpl in H
  | H : String _ _ = (?h ++ _) |- _ => is_var h; destruct h; simpl in H
  | H : (?h ++ _) = EmptyString |- _ => is_var h; destruct h; simpl in H
  | H : EmptyString = (?h ++ _) |- _ => is_var h; destruct h; simpl in H
  | H : hexstr (String _ _) = true |- _ =>
      simpl in H; first [discriminate H | apply andb_true_iff in H; destruct H as [_ H]]
  end.

Ltac split_in H :=
  simpl in H; repeat (destruct H as [H|H]; [symmetry in H; subst | ]); try contradiction.

(* closed form of the generated names (checked against the translated code for every declared format) *)
Definition pre_of (d: dir) : string := match d with DPack => "to_" | DUnpack => "from_" end.
Definition body (d: dir) (f: string) (codec args: bool) (h: string) : string :=
  if negb (String.eqb f default_format_name) && codec then pre_of d ++ f
  else pre_of d ++ default_format_name ++ (if String.eqb f default_format_name then "" else "_" ++ f)
       ++ (if args then "_" ++ h else "").
Definition nonnil {A} (l: list A) : bool := match l with [] => false | _ => true end.

Lemma mname_spec d h ta f c :
  In f all_formats ->
  mname d h ta f c = Ok (KStr ("__mashumaro_" ++ body d f (has_codec c) (nonnil ta) h ++ "__")).
Proof.
  intros Hf. unfold all_formats in Hf. unfold has_codec.
  split_in Hf; destruct d; destruct ta;
    unfold mname, get_pack_method_name, get_unpack_method_name, k_is;
    destruct (kv_eqb c KNone); cbn; rewrite ?str_app_nil_r; reflexivity.
Qed.

(* every declared combination yields a name (no exception path) *)
Theorem method_names_total : forall d h ta f c,
  In f all_formats -> exists n, mname d h ta f c = Ok (KStr n).
Proof. intros. eexists. apply mname_spec. assumption. Qed.

Lemma body_inj d1 d2 f1 f2 c1 c2 a1 a2 h1 h2 :
  In f1 all_formats -> In f2 all_formats -> hexstr h1 = true -> hexstr h2 = true ->
  body d1 f1 c1 a1 h1 = body d2 f2 c2 a2 h2 ->
  d1 = d2 /\ f1 = f2 /\
  (f1 <> default_format_name -> c1 = c2) /\
  ((f1 = default_format_name \/ c1 = false) -> a1 = a2 /\ (a1 = true -> h1 = h2)).
Proof.
  intros Hf1 Hf2 Hh1 Hh2 H. unfold all_formats in Hf1, Hf2.
  assert (Hd : d1 = d2).
  { destruct d1, d2; try reflexivity; exfalso; unfold body in H;
      destruct (negb (f1 =? default_format_name) && c1), (negb (f2 =? default_format_name) && c2);
      simpl in H; discriminate H. }
  subst d2.
  split_in Hf1; split_in Hf2; destruct d1, c1, c2, a1, a2; cbn in H;
    peel;
    try (rewrite <- (str_app_nil_r h1) in H; rewrite <- (str_app_nil_r h2) in H; apply app_cancel_r in H; subst);
    (repeat split; intros; try reflexivity; try congruence; try discriminate;
     try match goal with H : _ \/ _ |- _ => destruct H; try discriminate; try congruence end).
Qed.

(* distinct (direction, format, with-codec) never share a method name; without a codec (and for
   "dict") distinct type-argument hashes do not either *)
Theorem method_names_injective : forall d1 d2 h1 h2 ta1 ta2 f1 f2 c1 c2 n,
  In f1 all_formats -> In f2 all_formats -> hexstr h1 = true -> hexstr h2 = true ->
  mname d1 h1 ta1 f1 c1 = Ok n -> mname d2 h2 ta2 f2 c2 = Ok n ->
  d1 = d2 /\ f1 = f2 /\
  (f1 <> default_format_name -> has_codec c1 = has_codec c2) /\
  ((f1 = default_format_name \/ has_codec c1 = false) ->
   (ta1 = [] <-> ta2 = []) /\ (ta1 <> [] -> h1 = h2)).
Proof.
  intros d1 d2 h1 h2 ta1 ta2 f1 f2 c1 c2 n Hf1 Hf2 Hh1 Hh2 H1 H2.
  rewrite (mname_spec _ _ _ _ _ Hf1) in H1. rewrite (mname_spec _ _ _ _ _ Hf2) in H2.
  rewrite <- H2 in H1. clear H2. inversion H1 as [H]. clear H1.
  apply app_cancel_r in H.
  destruct (body_inj _ _ _ _ _ _ _ _ _ _ Hf1 Hf2 Hh1 Hh2 H) as [Hd [Hf [Hc Ha]]].
  split; [exact Hd|]. split; [exact Hf|]. split; [exact Hc|].
  intro Hp. destruct (Ha Hp) as [Hn Hh]. split.
  - destruct ta1, ta2; simpl in Hn; try discriminate; split; intro; try reflexivity; discriminate.
  - intro Hne. apply Hh. destruct ta1; [contradiction | reflexivity].
Qed.

(* ------------------------------------------------------------------ *)
(* the class namespace as a method table: setattr(cls, name, f) overwrites.  Registering the generated
   method of every (direction, declared format, with/without codec) under its K11 name - in ANY order -
   leaves each of them retrievable under its own name: formats never overwrite each other. *)
Require Import Coq.Sorting.Permutation.

Definition cfg := (dir * string * bool)%type.          (* direction, format name, codec given *)

Definition cfg_name (c: cfg) : string :=
  match c with (d, f, e) =>
    match mname d "" [] f (if e then KObj 1 else KNone) with Ok (KStr n) => n | _ => "" end end.

(* "dict" has one method per direction (the codec argument is ignored for it) *)
Definition all_cfgs : list cfg :=
  flat_map (fun d => (d, default_format_name, false)
                     :: flat_map (fun f => [(d, f, false); (d, f, true)]) mixin_format_names)
           [DPack; DUnpack].

Section Table.
  Context {A: Type}.
  Fixpoint t_get (t: list (string * A)) (k: string) : option A :=
    match t with [] => None | (k', v) :: r => if String.eqb k' k then Some v else t_get r k end.
  Fixpoint t_set (t: list (string * A)) (k: string) (v: A) : list (string * A) :=
    match t with
    | [] => [(k, v)]
    | (k', x) :: r => if String.eqb k' k then (k', v) :: r else (k', x) :: t_set r k v end.

  Lemma t_get_set_same t k v : t_get (t_set t k v) k = Some v.
  Proof.
    induction t as [|[k' x] r IH]; simpl.
    - rewrite String.eqb_refl. reflexivity.
    - destruct (String.eqb k' k) eqn:E; simpl; rewrite E; [reflexivity | exact IH].
  Qed.

  Lemma t_get_set_other t k m v : k <> m -> t_get (t_set t k v) m = t_get t m.
  Proof.
    intro NE. induction t as [|[k' x] r IH]; simpl.
    - destruct (String.eqb k m) eqn:E; [apply String.eqb_eq in E; contradiction | reflexivity].
    - destruct (String.eqb k' k) eqn:E; simpl.
      + apply String.eqb_eq in E. subst k'.
        destruct (String.eqb k m) eqn:E2; [apply String.eqb_eq in E2; contradiction | reflexivity].
      + destruct (String.eqb k' m); [reflexivity | exact IH].
  Qed.

  Definition register (t: list (string * A)) (l: list (string * A)) : list (string * A) :=
    fold_left (fun t kv => t_set t (fst kv) (snd kv)) l t.

  Lemma register_other l : forall t m, ~ In m (map fst l) -> t_get (register t l) m = t_get t m.
  Proof.
    induction l as [|[k v] r IH]; intros t m H; simpl; [reflexivity|].
    rewrite IH by (intro; apply H; right; assumption).
    apply t_get_set_other. intro; subst. apply H. left. reflexivity.
  Qed.

  Lemma register_get l : forall t k v, NoDup (map fst l) -> In (k, v) l -> t_get (register t l) k = Some v.
  Proof.
    induction l as [|[k' v'] r IH]; intros t k v ND Hin; [contradiction|].
    simpl in ND. inversion ND as [|? ? NI ND']; subst. simpl.
    destruct Hin as [Heq|Hin].
    - inversion Heq; subst. rewrite register_other by exact NI. apply t_get_set_same.
    - apply IH; assumption.
  Qed.
End Table.

Fixpoint nodupb_str (l: list string) : bool :=
  match l with [] => true | x :: r => negb (existsb (String.eqb x) r) && nodupb_str r end.

Lemma nodupb_str_NoDup l : nodupb_str l = true -> NoDup l.
Proof.
  induction l as [|x r IH]; simpl; intro H; [constructor|].
  apply andb_true_iff in H. destruct H as [H1 H2]. constructor; [|apply IH; exact H2].
  intro Hin. apply negb_true_iff in H1.
  assert (existsb (String.eqb x) r = true) as E
      by (apply existsb_exists; exists x; split; [exact Hin | apply String.eqb_refl]).
  rewrite E in H1. discriminate.
Qed.

(* the names of all declared configurations are pairwise distinct (finite: computed on the translated code) *)
Lemma all_cfg_names_distinct : nodupb_str (map cfg_name all_cfgs) = true.
Proof. vm_compute. reflexivity. Qed.

Theorem method_table_no_overwrite : forall (order: list cfg) (c: cfg),
  Permutation order all_cfgs -> In c all_cfgs ->
  t_get (register [] (map (fun x => (cfg_name x, x)) order)) (cfg_name c) = Some c.
Proof.
  intros order c HP Hin. apply register_get.
  - rewrite map_map. simpl.
    apply (Permutation_NoDup (l := map cfg_name all_cfgs)).
    + apply Permutation_map. apply Permutation_sym. exact HP.
    + apply nodupb_str_NoDup. exact all_cfg_names_distinct.
  - apply in_map_iff. exists c. split; [reflexivity|].
    apply (Permutation_in c (Permutation_sym HP)). exact Hin.
Qed.
