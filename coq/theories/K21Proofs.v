(* C11 / K21: the method emitted by the (translated) loops of pack.py:pack_union computes
   UnionModel.pack_union.  Re-checked on every run against the current translation (coq/gen/K21.v). *)
From Coq Require Import List Bool Arith String Lia.
From Verif Require Import UnionModel UnionProofs PackEmit.
From VerifGen Require Import K21.
Import ListNotations.
Local Open Scope list_scope.

Lemma pe_eqb_iff : forall a b, pe_eqb a b = true <-> p_e a = p_e b.
Proof.
  intros a b; unfold pe_eqb; destruct (p_e a), (p_e b); split; intro H; try discriminate; try reflexivity.
  - apply Nat.eqb_eq in H; congruence.
  - inversion H; apply Nat.eqb_refl.
Qed.

Lemma pe_eqb_refl : forall a, pe_eqb a a = true.
Proof. intro a; apply pe_eqb_iff; reflexivity. Qed.

Lemma pe_eqb_ident : forall a b, pe_eqb a b = true -> p_ident a = p_ident b.
Proof. intros a b H; apply pe_eqb_iff in H; unfold p_ident; rewrite H; reflexivity. Qed.

Lemma pe_eqb_sym : forall a b, pe_eqb a b = pe_eqb b a.
Proof.
  intros a b; destruct (pe_eqb a b) eqn:E; symmetry.
  - apply pe_eqb_iff; symmetry; apply pe_eqb_iff; exact E.
  - destruct (pe_eqb b a) eqn:E2; [|reflexivity]. apply pe_eqb_iff in E2. symmetry in E2. apply pe_eqb_iff in E2. congruence.
Qed.

Lemma pe_eqb_trans_l : forall a b c, pe_eqb a b = true -> pe_eqb a c = pe_eqb b c.
Proof.
  intros a b c H. apply pe_eqb_iff in H. unfold pe_eqb. rewrite H. reflexivity.
Qed.

Definition nonid (m: pmember) : bool := negb (p_ident m).

(* what one iteration of loop A does *)
Lemma stepA_eq : forall s m,
  stepA s m =
  {| ps_packers := if packers_mem m s then ps_packers s
                   else if p_ident m then m :: ps_packers s else ps_packers s ++ [m];
     ps_types := types_add m (p_cls m) (ps_types s) |}.
Proof.
  intros [pk ty] m. unfold stepA, packers_mem; simpl.
  destruct (existsb (pe_eqb m) pk); simpl; [reflexivity|]. destruct (p_ident m); reflexivity.
Qed.

(* de-duplication by expression, explicit accumulator of representatives already present *)
Fixpoint ddp (seen: list pmember) (l: list pmember) : list pmember :=
  match l with
  | [] => []
  | m :: r => if existsb (pe_eqb m) seen then ddp seen r else m :: ddp (m :: seen) r
  end.

Lemma ddp_ext : forall l s1 s2, (forall m, existsb (pe_eqb m) s1 = existsb (pe_eqb m) s2) -> ddp s1 l = ddp s2 l.
Proof.
  induction l as [|m r IH]; intros s1 s2 H; simpl; [reflexivity|].
  rewrite (H m). destruct (existsb (pe_eqb m) s2); [apply IH; exact H|].
  f_equal. apply IH. intro x; simpl. rewrite (H x). reflexivity.
Qed.

Lemma existsb_app_b : forall {A} (f: A -> bool) l1 l2, existsb f (l1 ++ l2) = existsb f l1 || existsb f l2.
Proof. intros; apply existsb_app. Qed.

(* packers after loop A: the identity representative (if any) first, then the other expressions *)
Definition pid (l: list pmember) := filter p_ident l.
Definition pnon (l: list pmember) := filter nonid l.

Lemma existsb_split : forall m l, existsb (pe_eqb m) l =
  if p_ident m then existsb (pe_eqb m) (pid l) else existsb (pe_eqb m) (pnon l).
Proof.
  intros m l; induction l as [|x r IH]; simpl; [destruct (p_ident m); reflexivity|].
  unfold pid, pnon, nonid in *; simpl. destruct (p_ident x) eqn:Ex; simpl.
  - destruct (p_ident m) eqn:Em; simpl; rewrite IH; [reflexivity|].
    destruct (pe_eqb m x) eqn:E; [|reflexivity]. apply pe_eqb_ident in E. congruence.
  - destruct (p_ident m) eqn:Em; simpl; rewrite IH; [|reflexivity].
    destruct (pe_eqb m x) eqn:E; [|reflexivity]. apply pe_eqb_ident in E. congruence.
Qed.

Lemma ident_all_eq : forall a b, p_ident a = true -> p_ident b = true -> pe_eqb a b = true.
Proof.
  intros a b Ha Hb. unfold p_ident in *. apply pe_eqb_iff. destruct (p_e a), (p_e b); try discriminate; reflexivity.
Qed.

Lemma foldA_packers : forall l s,
  ps_packers s = pid (ps_packers s) ++ pnon (ps_packers s) ->
  let s' := fold_left stepA l s in
  ps_packers s' = pid (ps_packers s') ++ pnon (ps_packers s') /\
  pnon (ps_packers s') = pnon (ps_packers s) ++ ddp (pnon (ps_packers s)) (pnon l) /\
  pid (ps_packers s') = (match pid (ps_packers s) with
                         | [] => match pid l with [] => [] | m0 :: _ => [m0] end
                         | x => x end).
Proof.
  induction l as [|m r IH]; intros s Ho; cbn [fold_left]; cbv zeta.
  - unfold pnon at 3; unfold pid at 4; simpl. rewrite app_nil_r. repeat split; try assumption. destruct (pid (ps_packers s)); reflexivity.
  - rewrite stepA_eq.
    set (s1 := {| ps_packers := if packers_mem m s then ps_packers s else if p_ident m then m :: ps_packers s else ps_packers s ++ [m];
                  ps_types := types_add m (p_cls m) (ps_types s) |}).
    unfold packers_mem in s1.
    destruct (p_ident m) eqn:Em.
    + (* identity member *)
      assert (Hn: pnon (m :: r) = pnon r) by (unfold pnon, nonid; simpl; rewrite Em; reflexivity).
      assert (Hi: pid (m :: r) = m :: pid r) by (unfold pid; simpl; rewrite Em; reflexivity).
      rewrite Hn, Hi.
      destruct (existsb (pe_eqb m) (ps_packers s)) eqn:E.
      * assert (Hs1: ps_packers s1 = ps_packers s) by reflexivity.
        assert (Ho1: ps_packers s1 = pid (ps_packers s1) ++ pnon (ps_packers s1)) by (rewrite Hs1; exact Ho).
        destruct (IH s1 Ho1) as [H1 [H2 H3]]. rewrite Hs1 in H2, H3. repeat split; try assumption.
        rewrite H3. rewrite existsb_split, Em in E. destruct (pid (ps_packers s)); [discriminate | reflexivity].
      * assert (Hs1: ps_packers s1 = m :: ps_packers s) by reflexivity.
        assert (Hp: pid (ps_packers s) = []).
        { rewrite existsb_split, Em in E. destruct (pid (ps_packers s)) as [|x t] eqn:P; [reflexivity|].
          exfalso. simpl in E. assert (p_ident x = true).
          { assert (In x (pid (ps_packers s))) by (rewrite P; left; reflexivity). unfold pid in H. apply filter_In in H. tauto. }
          rewrite (ident_all_eq m x Em H) in E. discriminate. }
        assert (Ho1: ps_packers s1 = pid (ps_packers s1) ++ pnon (ps_packers s1)).
        { rewrite Hs1. unfold pid, pnon, nonid; simpl. rewrite Em; simpl. f_equal.
          fold (pid (ps_packers s)). fold nonid. fold (pnon (ps_packers s)). rewrite Hp. simpl.
          rewrite Ho at 1. rewrite Hp. reflexivity. }
        destruct (IH s1 Ho1) as [H1 [H2 H3]]. rewrite Hs1 in H2, H3.
        assert (Q1: pnon (m :: ps_packers s) = pnon (ps_packers s)) by (unfold pnon, nonid; simpl; rewrite Em; reflexivity).
        assert (Q2: pid (m :: ps_packers s) = m :: pid (ps_packers s)) by (unfold pid; simpl; rewrite Em; reflexivity).
        rewrite Q1 in H2. rewrite Q2, Hp in H3. repeat split; try assumption. rewrite Hp. exact H3.
    + (* other expression *)
      assert (Hn: pnon (m :: r) = m :: pnon r) by (unfold pnon, nonid; simpl; rewrite Em; reflexivity).
      assert (Hi: pid (m :: r) = pid r) by (unfold pid; simpl; rewrite Em; reflexivity).
      rewrite Hn, Hi. cbn [ddp].
      assert (Esplit: existsb (pe_eqb m) (ps_packers s) = existsb (pe_eqb m) (pnon (ps_packers s))) by (rewrite existsb_split, Em; reflexivity).
      rewrite <- Esplit.
      destruct (existsb (pe_eqb m) (ps_packers s)) eqn:E.
      * assert (Hs1: ps_packers s1 = ps_packers s) by reflexivity.
        assert (Ho1: ps_packers s1 = pid (ps_packers s1) ++ pnon (ps_packers s1)) by (rewrite Hs1; exact Ho).
        destruct (IH s1 Ho1) as [H1 [H2 H3]]. rewrite Hs1 in H2, H3. repeat split; assumption.
      * assert (Hs1: ps_packers s1 = ps_packers s ++ [m]) by reflexivity.
        assert (Q1: pnon (ps_packers s ++ [m]) = pnon (ps_packers s) ++ [m]).
        { unfold pnon. rewrite filter_app. simpl. unfold nonid at 2. rewrite Em. reflexivity. }
        assert (Q2: pid (ps_packers s ++ [m]) = pid (ps_packers s)).
        { unfold pid. rewrite filter_app. simpl. rewrite Em. apply app_nil_r. }
        assert (Ho1: ps_packers s1 = pid (ps_packers s1) ++ pnon (ps_packers s1)).
        { rewrite Hs1, Q1, Q2, app_assoc, <- Ho. reflexivity. }
        destruct (IH s1 Ho1) as [H1 [H2 H3]]. rewrite Hs1 in H2, H3. rewrite Q1 in H2. rewrite Q2 in H3.
        repeat split; try assumption. rewrite H2, <- app_assoc. simpl. f_equal. f_equal.
        apply ddp_ext. intro x. rewrite existsb_app_b. simpl. rewrite orb_false_r. apply orb_comm.
Qed.

(* ---------------- packer_arg_types ---------------- *)
Definition tget (m: pmember) (l: list (pmember * list string)) : list string :=
  match find (fun p => pe_eqb m (fst p)) l with Some p => snd p | None => [] end.

Lemma tget_add : forall l m m' c,
  tget m' (types_add m c l) = if pe_eqb m' m then tget m' l ++ [c] else tget m' l.
Proof.
  induction l as [|p r IH]; intros m m' c; unfold tget in *; simpl.
  - destruct (pe_eqb m' m); reflexivity.
  - destruct (pe_eqb m (fst p)) eqn:E; simpl.
    + rewrite (pe_eqb_sym m' m). rewrite (pe_eqb_trans_l m (fst p) m' E). rewrite (pe_eqb_sym (fst p) m').
      destruct (pe_eqb m' (fst p)); reflexivity.
    + destruct (pe_eqb m' (fst p)) eqn:E2.
      * assert (pe_eqb m' m = false) as ->; [|reflexivity].
        destruct (pe_eqb m' m) eqn:E3; [|reflexivity].
        rewrite (pe_eqb_sym m' m) in E3. rewrite (pe_eqb_trans_l m m' (fst p) E3) in E. congruence.
      * apply IH.
Qed.

Lemma foldA_types : forall l s m',
  tget m' (ps_types (fold_left stepA l s)) = tget m' (ps_types s) ++ map p_cls (filter (pe_eqb m') l).
Proof.
  induction l as [|m r IH]; intros s m'; cbn [fold_left]; [simpl; rewrite app_nil_r; reflexivity|].
  rewrite IH, stepA_eq. cbn [ps_types]. rewrite tget_add. simpl.
  destruct (pe_eqb m' m); simpl; [rewrite <- app_assoc|]; reflexivity.
Qed.

Lemma filter_ident : forall m0 l, p_ident m0 = true -> filter (pe_eqb m0) l = pid l.
Proof.
  intros m0 l H; induction l as [|x r IH]; simpl; [reflexivity|]. unfold pid in *; simpl.
  destruct (p_ident x) eqn:Ex.
  - rewrite (ident_all_eq m0 x H Ex), IH. reflexivity.
  - assert (pe_eqb m0 x = false) as ->; [|exact IH].
    destruct (pe_eqb m0 x) eqn:E; [|reflexivity]. apply pe_eqb_ident in E. congruence.
Qed.

(* ---------------- class names of the identity block ---------------- *)
Lemma stepN_mem : forall l acc c, name_mem c (fold_left stepN l acc) = name_mem c acc || name_mem c l.
Proof.
  induction l as [|x r IH]; intros acc c; simpl; [rewrite orb_false_r; reflexivity|].
  rewrite IH. unfold stepN. destruct (name_mem x acc) eqn:E; simpl.
  - destruct (String.eqb c x) eqn:Ec; simpl; [|reflexivity].
    apply String.eqb_eq in Ec; subst. rewrite E. reflexivity.
  - unfold name_mem at 1. rewrite existsb_app. simpl. rewrite orb_false_r.
    fold (name_mem c acc). rewrite <- orb_assoc. reflexivity.
Qed.

Lemma stepN_nonempty : forall l acc, (l <> [] \/ acc <> []) -> fold_left stepN l acc <> [].
Proof.
  induction l as [|x r IH]; intros acc H; simpl; [destruct H; [congruence | assumption]|].
  apply IH. right. unfold stepN. destruct (name_mem x acc) eqn:E.
  - destruct acc; [discriminate | discriminate].
  - destruct acc; discriminate.
Qed.

Lemma check_names : forall names v, names <> [] ->
  check_holds (if Nat.ltb 1 (List.length names) then PIn names else PIs (hd EmptyString names)) v
  = name_mem (class_of v) names.
Proof.
  intros [|n [|n2 r]] v H; simpl; [congruence | rewrite orb_false_r; reflexivity | reflexivity].
Qed.

Lemma ident_class : forall v l,
  name_mem (class_of v) (map p_cls (pid l)) = existsb (fun m => p_ident m && String.eqb (class_of v) (p_cls m)) l.
Proof.
  intros v l; induction l as [|x r IH]; simpl; [reflexivity|]. unfold pid in *; simpl.
  destruct (p_ident x); simpl; rewrite <- IH; reflexivity.
Qed.

(* ---------------- the try blocks ---------------- *)
Lemma ddp_dedup : forall l seen seenk,
  (forall m, In m l -> p_ident m = false) ->
  (forall m, p_ident m = false -> existsb (pe_eqb m) seen = existsb (Nat.eqb (p_key m)) seenk) ->
  ddp seen l = dedup_aux p_key Nat.eqb seenk l.
Proof.
  induction l as [|m r IH]; intros seen seenk Hl Hs; simpl; [reflexivity|].
  assert (Hm: p_ident m = false) by (apply Hl; left; reflexivity).
  rewrite (Hs m Hm). destruct (existsb (Nat.eqb (p_key m)) seenk); [apply IH; [intros; apply Hl; right; assumption | exact Hs]|].
  f_equal. apply IH; [intros; apply Hl; right; assumption|].
  intros x Hx. simpl. rewrite (Hs x Hx). f_equal.
  unfold pe_eqb, p_key, p_ident in *. destruct (p_e x), (p_e m); try discriminate; reflexivity.
Qed.

Lemma ddp_nil : forall l seen, seen = [] -> ddp seen l = [] -> l = [].
Proof. intros [|m r] seen -> H; [reflexivity | simpl in H; discriminate]. Qed.

Lemma run_tries : forall D rest v, (forall m, In m D -> p_ident m = false) -> forall s,
  run_plines (map (stepB s) D ++ rest) v =
  match first_some (fun m => p_enc m v) D with Some x => Some x | None => run_plines rest v end.
Proof.
  induction D as [|m r IH]; intros rest v H s; simpl; [reflexivity|].
  assert (Hm: p_ident m = false) by (apply H; left; reflexivity).
  unfold stepB at 1. rewrite Hm. destruct (Nat.ltb 1 _); simpl;
    (destruct (p_enc m v); [reflexivity | apply IH; intros; apply H; right; assumption]).
Qed.

Lemma pnon_all : forall l m, In m (pnon l) -> p_ident m = false.
Proof. intros l m H. unfold pnon, nonid in H. apply filter_In in H. destruct H as [_ H]. apply negb_true_iff in H. exact H. Qed.

Lemma ddp_incl : forall l seen m, In m (ddp seen l) -> In m l.
Proof.
  induction l as [|x r IH]; intros seen m H; simpl in *; [assumption|].
  destruct (existsb (pe_eqb x) seen); [right; eapply IH; eassumption|].
  destruct H as [->|H]; [left; reflexivity | right; eapply IH; eassumption].
Qed.

Lemma run_plines_cons : forall l r v, run_plines (l :: r) v = match run_pline l v with Some o => o | None => run_plines r v end.
Proof. reflexivity. Qed.

(* the emitted method is the model's pack_union *)
Theorem emit_pack_correct : forall pms v, pms <> [] -> run_pres (emit pms) v = pack_union pms v.
Proof.
  intros pms v Hne. unfold emit.
  set (s := fold_left stepA pms pst0).
  pose proof (foldA_packers pms pst0 eq_refl) as HF. cbv zeta in HF. destruct HF as [Ho [Hn Hi]]. fold s in Ho, Hn, Hi. simpl in Hn, Hi.
  set (D := ddp [] (pnon pms)) in *.
  assert (HD: forall m, In m D -> p_ident m = false) by (intros m Hm; apply (pnon_all pms); eapply ddp_incl; exact Hm).
  assert (Hded: D = dedup p_key Nat.eqb (filter (fun m => negb (p_ident m)) pms)).
  { unfold D, dedup. apply ddp_dedup; [apply pnon_all | reflexivity]. }
  unfold pack_union. rewrite <- Hded.
  rewrite Ho, Hn, Hi.
  destruct (pid pms) as [|m0 t] eqn:Hp.
  - (* no identity member *)
    assert (Hall: forallb p_ident pms = false).
    { destruct pms as [|x r]; [congruence|]. simpl. destruct (p_ident x) eqn:Ex; [|reflexivity].
      unfold pid in Hp; simpl in Hp; rewrite Ex in Hp; discriminate. }
    assert (Hex: existsb (fun m => p_ident m && String.eqb (class_of v) (p_cls m)) pms = false).
    { rewrite <- ident_class, Hp. reflexivity. }
    rewrite Hall, Hex. simpl.
    assert (Hc: (Nat.eqb (List.length D) 1 && match D with m :: _ => p_ident m | [] => false end) = false).
    { destruct D as [|m r] eqn:ED; [rewrite andb_false_r; reflexivity|]. rewrite (HD m (or_introl eq_refl)). apply andb_false_r. }
    rewrite Hc. simpl. rewrite (run_tries D [PLRaise] v HD s). simpl. destruct (first_some (fun m => p_enc m v) D); reflexivity.
  - (* an identity member exists: m0 represents "value" *)
    assert (Hm0: p_ident m0 = true).
    { assert (In m0 (pid pms)) by (rewrite Hp; left; reflexivity). unfold pid in H. apply filter_In in H. tauto. }
    destruct D as [|d1 dr] eqn:ED.
    + (* "value" is the only expression *)
      assert (pnon pms = []) by (apply (ddp_nil (pnon pms) [] eq_refl); exact ED).
      assert (Hall: forallb p_ident pms = true).
      { apply forallb_forall. intros x Hx. destruct (p_ident x) eqn:Ex; [reflexivity|].
        assert (In x (pnon pms)) by (unfold pnon, nonid; apply filter_In; split; [exact Hx | rewrite Ex; reflexivity]).
        rewrite H in H0. destruct H0. }
      rewrite Hall. simpl. rewrite Hm0. reflexivity.
    + assert (Hall: forallb p_ident pms = false).
      { destruct (forallb p_ident pms) eqn:E; [|reflexivity]. rewrite forallb_forall in E.
        assert (In d1 pms). { assert (In d1 (pnon pms)) by (apply (ddp_incl (pnon pms) [] d1); change (ddp [] (pnon pms)) with D; rewrite ED; left; reflexivity). unfold pnon in H. apply filter_In in H. tauto. }
        specialize (E d1 H). rewrite (HD d1 (or_introl eq_refl)) in E. discriminate. }
      rewrite Hall. replace (Nat.eqb (List.length ([m0] ++ d1 :: dr)) 1) with false by reflexivity.
      cbn [andb run_pres]. change ([m0] ++ d1 :: dr) with (m0 :: (d1 :: dr)).
      rewrite map_cons, <- app_comm_cons, run_plines_cons.
      unfold stepB at 1. rewrite Hm0.
      assert (Hty: types_get m0 s = map p_cls (pid pms)).
      { change (types_get m0 s) with (tget m0 (ps_types s)). unfold s. rewrite foldA_types. simpl.
        rewrite (filter_ident m0 pms Hm0). reflexivity. }
      rewrite Hty.
      set (names := fold_left stepN (map p_cls (pid pms)) []).
      assert (Hnn: names <> []) by (apply stepN_nonempty; left; rewrite Hp; discriminate).
      assert (Hck: check_holds (if Nat.ltb 1 (List.length names) then PIn names else PIs (hd EmptyString names)) v
                   = existsb (fun m => p_ident m && String.eqb (class_of v) (p_cls m)) pms).
      { rewrite (check_names names v Hnn). unfold names. rewrite stepN_mem. simpl. apply ident_class. }
      assert (Hline: run_pline (if Nat.ltb 1 (List.length names) then PLIdent (PIn names) else PLIdent (PIs (hd EmptyString names))) v
                     = if existsb (fun m => p_ident m && String.eqb (class_of v) (p_cls m)) pms then Some (Some v) else None).
      { rewrite <- Hck. destruct (Nat.ltb 1 (List.length names)); reflexivity. }
      rewrite Hline.
      destruct (existsb (fun m => p_ident m && String.eqb (class_of v) (p_cls m)) pms); [reflexivity|].
      rewrite (run_tries (d1 :: dr) [PLRaise] v HD s). simpl.
      destruct (p_enc d1 v); [reflexivity|]. destruct (first_some (fun m => p_enc m v) dr); reflexivity.
Qed.
