(* C19: which keywords the generated call of a nested dataclass's to_dict passes - tied to the source through C08's
   kernel K8 (CodeBuilder.get_pack_method_flags, translated from builder.py on every run; K8Proofs.K8_forward_lemma).

   In Hooks.pack a field of the class being built (context option pc, other keyword options px) declared with
   dataclass cs is packed by  call_mixin (pc && c_ctx cs) (xf_and px (c_xf cs)) ...  : the context keyword is passed iff
   BOTH classes enabled ADD_SERIALIZATION_CONTEXT, each other keyword iff both enabled its option.  Here: that is what
   the translated get_pack_method_flags renders into the call expression. *)
From Coq Require Import List String Ascii ZArith Bool.
From Verif Require Import Regex PyK PyK_c08 OptProj K8Proofs Hooks.
From VerifGen Require Import K8.
Import ListNotations.

Definition hflags (ctx: bool) (x: xf) : flags :=
  match x with (on, ba, dl) => {| g_on := on; g_ba := ba; g_dl := dl; g_cx := ctx |} end.

Lemma both_hflags : forall a x b y, both (hflags a x) (hflags b y) = hflags (a && b) (xf_and x y).
Proof. intros a [[x1 x2] x3] b [[y1 y2] y3]. reflexivity. Qed.

(* the keyword list of `value.__mashumaro_to_dict__(<...>)` emitted into the to_dict of a class with options
   (pc, px) for a position declared with a class with options (sc, sx) *)
Theorem k8_call_keywords :
  forall pc px sc sx,
    get_pack_method_flags (enc_flags (hflags pc px)) (enc_flags (hflags sc sx))
    = Ok (KStr (String.concat ", " (flag_args (hflags (pc && sc) (xf_and px sx))))).
Proof. intros. rewrite K8_forward_lemma, both_hflags. reflexivity. Qed.

(* read off: context=context is in the call iff both classes opted in *)
Corollary k8_context_forwarded :
  forall pc px sc sx,
    In "context=context"%string (flag_args (hflags (pc && sc) (xf_and px sx))) <-> pc = true /\ sc = true.
Proof.
  intros pc [[x1 x2] x3] sc [[y1 y2] y3]. rewrite flag_args_in. cbn.
  destruct pc, sc; cbn; intuition (try discriminate; auto).
Qed.

(* ... and this is the pair (pass, px) Hooks.pack hands to call_mixin at a dataclass position *)
Lemma pack_dc_keywords :
  forall E stubs cr i j fs c pc px k,
    pack E stubs Mixin (VInst cr i j fs) (TDc c) pc px k
    = call_mixin E stubs (pc && c_ctx (cls E c)) (xf_and px (c_xf (cls E c))) k cr i j
                 (map (fun kx => match kx with (n, x) => (n, pack E stubs Mixin x) end) fs).
Proof. reflexivity. Qed.
