(* Kernel primitives used by the K8 translation (tools/kernels/k8_packflags.py):
   list.append, f-string concatenation of strings, str.join. *)
From Coq Require Import List String Ascii ZArith Bool.
From Verif Require Import Regex PyK.
Import ListNotations.
Open Scope string_scope.

Definition k_append (l x: kv) : res kv :=
  match l with KList xs => Ok (KList (xs ++ [x])) | _ => Raise AttributeError end.

(* f"...{a}...{b}": every piece must be a str (format(str) is the identity) *)
Fixpoint concat_strs (l: list kv) : option string :=
  match l with
  | [] => Some ""
  | KStr s :: r => match concat_strs r with Some t => Some (s ++ t) | None => None end
  | _ => None end.
Definition k_fstr (l: list kv) : res kv :=
  match concat_strs l with Some s => Ok (KStr s) | None => Raise TypeError end.

Fixpoint join_strs (sep: string) (l: list kv) : option string :=
  match l with
  | [] => Some ""
  | [KStr s] => Some s
  | KStr s :: r => match join_strs sep r with Some t => Some (s ++ sep ++ t) | None => None end
  | _ => None end.
Definition k_join (sep l: kv) : res kv :=
  match sep, l with
  | KStr s, (KList xs | KTuple xs) => match join_strs s xs with Some t => Ok (KStr t) | None => Raise TypeError end
  | _, _ => Raise TypeError end.

(* ---- field types as kernel values (K16: CodeBuilder.is_field_nullable) ----
   plain type: KObj 0; typing.Any: KObj 1; type(None): KObj 2; None: KNone;
   Optional[X]: KTuple [KStr "Optional"]; wider union with None: KTuple [KStr "UnionNone"];
   unconstrained TypeVar: KTuple [KStr "TypeVarAny"];
   Annotated[t, ...]: KTuple [KStr "Annotated"; t]; Final[t]: KTuple [KStr "Final"; t]; Final: KTuple [KStr "Final"] *)
Definition ty_any : kv := KObj 1.
Definition ty_nonetype : kv := KObj 2.
Definition ty_tag (tag: string) (v: kv) : bool :=
  match v with KTuple (KStr s :: _) => String.eqb s tag | _ => false end.
(* helpers.is_annotated / is_final / is_optional / is_type_var_any(get_real_type(...)) *)
Definition ty_is_annotated (v: kv) : bool := ty_tag "Annotated" v.
Definition ty_is_final (v: kv) : bool := ty_tag "Final" v.
Definition ty_is_optional (v: kv) : bool := ty_tag "Optional" v.
Definition ty_is_typevar_any (v: kv) : bool := ty_tag "TypeVarAny" v.
(* helpers.get_type_origin: typ.__origin__ (for Annotated[t, ...] that is t), else typ *)
Definition ty_origin (v: kv) : kv :=
  match v with KTuple [KStr _; t] => if ty_is_annotated v then t else v | _ => v end.
Definition ty_is_union (v: kv) : bool := ty_tag "Optional" v || ty_tag "UnionNone" v.
(* get_args: Final[t] -> (t,); Optional[X] -> (X, NoneType); the wider union -> (X, Y, NoneType) *)
Definition ty_args (v: kv) : kv :=
  match v with
  | KTuple [KStr _; t] => if ty_is_final v then KTuple [t] else KTuple []
  | KTuple [KStr _] => if ty_tag "Optional" v then KTuple [KObj 0; ty_nonetype]
                       else if ty_tag "UnionNone" v then KTuple [KObj 0; KObj 3; ty_nonetype] else KTuple []
  | _ => KTuple [] end.
(* ---- type variables (declared types of the fields of a generic class) ----
   a variable the specialisation binds to t: KTuple [KStr "TypeVar"; t];
   a variable left unbound whose declaration carries bound=t: KTuple [KStr "TypeVarBound"; t]
   (the unbound, unconstrained variable is KTuple [KStr "TypeVarAny"], above).
   CodeBuilder.get_real_type = substitute_type_params with the resolved parameters of the specialisation:
   the bound variable becomes its binding, everything else is left as it is *)
Definition ty_real (v: kv) : kv :=
  match v with KTuple [KStr s; t] => if String.eqb s "TypeVar" then t else v | _ => v end.

(* helpers.get_type_var_meaning (fixes/C08-typevar-bound-nullable.diff): a variable nobody binds stands for its bound *)
Definition ty_unbound (v: kv) : kv :=
  match v with KTuple [KStr s; t] => if String.eqb s "TypeVarBound" then t else v | _ => v end.

(* x in <tuple / list> *)
Definition k_in (x c: kv) : res bool :=
  match c with KTuple l | KList l => Ok (existsb (kv_eqb x) l) | _ => Raise TypeError end.

(* nesting depth: the bound for `while True:` loops that descend into a component of the value *)
Fixpoint kv_depth (v: kv) : nat :=
  match v with
  | KTuple l | KList l => S ((fix go (l: list kv) : nat := match l with [] => O | x :: r => Nat.max (kv_depth x) (go r) end) l)
  | _ => O end.

(* `while True:` whose body either rebinds the loop variable (Some) or breaks (None) *)
Fixpoint k_iter (fuel: nat) (step: kv -> res (option kv)) (x: kv) : res kv :=
  match fuel with
  | O => Raise OtherError
  | S n => match step x with
           | Ok (Some y) => k_iter n step y
           | Ok None => Ok x
           | Raise e => Raise e end
  end.

(* ---- set.add on a set kept as a duplicate-free list (K17) ---- *)
Definition k_set_add (s x: kv) : res kv :=
  match s with
  | KList l => Ok (KList (if existsb (kv_eqb x) l then l else l ++ [x]))
  | _ => Raise AttributeError end.
