(* Kernel primitives used by the K8 translation (tools/kernels/k8_packflags.py):
   list.append, f-string concatenation of strings, str.join. *)
From Coq Require Import List String Ascii ZArith Bool.
From Verif Require Import Regex PyK.
Import ListNotations.
Open Scope string_scope.

Definition k_append (l x: kv) : res kv :=
  match l with KList xs => Ok (KList (xs ++ [x])) | _ => Raise AttributeError end.

(* f"...{a}...{b}": every piece must be a str (format(str) is the identity) *)
Fixpoint concat_strs (l: list kv) : option string :=
  match l with
  | [] => Some ""
  | KStr s :: r => match concat_strs r with Some t => Some (s ++ t) | None => None end
  | _ => None end.
Definition k_fstr (l: list kv) : res kv :=
  match concat_strs l with Some s => Ok (KStr s) | None => Raise TypeError end.

Fixpoint join_strs (sep: string) (l: list kv) : option string :=
  match l with
  | [] => Some ""
  | [KStr s] => Some s
  | KStr s :: r => match join_strs sep r with Some t => Some (s ++ sep ++ t) | None => None end
  | _ => None end.
Definition k_join (sep l: kv) : res kv :=
  match sep, l with
  | KStr s, (KList xs | KTuple xs) => match join_strs s xs with Some t => Ok (KStr t) | None => Raise TypeError end
  | _, _ => Raise TypeError end.
