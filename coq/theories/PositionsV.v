(* C10: the compilation along a path whose type steps are not given but *dispatched*: every position carries the
   valuation of the library's own test expressions for its type (computed by the harness with the real predicates),
   and the translated dispatch chains (VerifGen.K5D) decide which descent site is taken.  compile_v = dispatch, then
   K5PKernel.compile. *)
From Coq Require Import List String Ascii ZArith Bool Arith Lia.
From Verif Require Import Regex PyK PyK_strat PyK_c08 OptProj Strategies StrategiesProofs Positions K5Kernel K5PKernel
                          PositionsProofs Dispatch.
From VerifGen Require Import K5D.
Import ListNotations.
Open Scope string_scope.
Open Scope list_scope.

Inductive vnode :=
| VType (p: string -> bool) (decl: kv)                 (* p: outcome of the dispatch tests for the current type *)
| VSelf (p: string -> bool) (f: fieldopts) (decl: kv)  (* the current type is Self: p must dispatch to the Self site *)
| VData (f: fieldopts) (decl: kv).                      (* the current type is a dataclass (its own handler, registered
                                                           before the dispatch chains): on to one of its fields *)

Definition dispatch (d: dir) (p: string -> bool) : string :=
  match d with Ser => dispatch_pack p | De => dispatch_unpack p end.

Definition node_of (d: dir) (v: vnode) : option node :=
  match v with
  | VType p decl => match site_of (dispatch d p) with SStep k => Some (NType k decl) | _ => None end
  | VSelf p f decl => match site_of (dispatch d p) with SSelf => Some (NField true f decl) | _ => None end
  | VData f decl => Some (NField false f decl)
  end.

Fixpoint path_of (d: dir) (vp: list vnode) : option (list node) :=
  match vp with
  | [] => Some []
  | v :: r => match node_of d v, path_of d r with Some n, Some p => Some (n :: p) | _, _ => None end
  end.

(* None: some position's type does not dispatch to a descent site (the model has nothing to say) *)
Definition compile_v (d: dir) (P: prims) (Sr: sources) (spec holder e: kv) (vp: list vnode) : option (res (option (nat * kv))) :=
  match path_of d vp with
  | Some path => Some (compile d P Sr spec holder e path 0)
  | None => None
  end.

(* what a valuation must say for a step kind: the route hypotheses of Dispatch.v *)
Definition routes_to (p: string -> bool) (k: tstep) : Prop :=
  match k with
  | TOptional => agree p [special; ("is_union(spec.type)", true); ("is_optional(spec.type, resolved_type_params)", true)]
  | TMember => agree p [special; ("is_union(spec.type)", true); ("is_optional(spec.type, resolved_type_params)", false)]
  | TNewType => agree p (before_newtype ++ [("is_new_type(spec.type)", true)])
  | TNamedField => agree p (plain_collection ++ [("ensure_generic_collection_subclass(spec, list)", false);
                                 ("ensure_generic_collection_subclass(spec, collections.deque)", false);
                                 ("issubclass(spec.origin_type, tuple)", true); ("is_named_tuple(spec.origin_type)", true)])
  | TTupleItem => agree p (plain_collection ++ [("ensure_generic_collection_subclass(spec, list)", false);
                                 ("ensure_generic_collection_subclass(spec, collections.deque)", false);
                                 ("issubclass(spec.origin_type, tuple)", true); ("is_named_tuple(spec.origin_type)", false);
                                 ("ensure_generic_collection(spec)", true)])
  | TTypedKey => agree p (plain_collection ++ not_sequence_like ++ [("is_typed_dict(spec.origin_type)", true)])
  | TElement =>
      agree p (plain_collection ++ [("issubclass(spec.origin_type, tuple)", false);
                                     ("ensure_generic_collection_subclass(spec, list, deque, Set)", true);
                                     ("ensure_generic_collection_subclass(spec, list)", true)]) \/
      agree p (plain_collection ++ not_sequence_like ++
               [("is_typed_dict(spec.origin_type)", false); ("issubclass(spec.origin_type, types.MappingProxyType)", false);
                ("ensure_generic_mapping(spec, args, Mapping)", true)])
  end.

Definition routes_self (p: string -> bool) : Prop :=
  agree p (before_newtype ++ [("is_new_type(spec.type)", false); ("is_literal(spec.type)", false);
                               ("spec.type is typing_extensions.LiteralString", false); ("is_self(spec.type)", true)]).

Lemma routes_site d p k : routes_to p k -> site_of (dispatch d p) = SStep k.
Proof.
  intros H. destruct k; cbn [routes_to] in H.
  - destruct (route_newtype p H), d; assumption.
  - destruct (route_optional p H), d; assumption.
  - destruct H as [H|H]; [destruct (route_list p H)|destruct (route_mapping p H)]; destruct d; assumption.
  - destruct (route_union p H), d; assumption.
  - destruct (route_tuple p H), d; assumption.
  - destruct (route_named_tuple p H), d; assumption.
  - destruct (route_typed_dict p H), d; assumption.
Qed.

Lemma routes_self_site d p : routes_self p -> site_of (dispatch d p) = SSelf.
Proof. intros H. destruct (route_self p H), d; assumption. Qed.

(* a valuated path and the step-kind path it stands for *)
Inductive stands_for : list vnode -> list node -> Prop :=
| sf_nil : stands_for [] []
| sf_type p k decl vr r : routes_to p k -> stands_for vr r -> stands_for (VType p decl :: vr) (NType k decl :: r)
| sf_self p f decl vr r : routes_self p -> stands_for vr r -> stands_for (VSelf p f decl :: vr) (NField true f decl :: r)
| sf_data f decl vr r : stands_for vr r -> stands_for (VData f decl :: vr) (NField false f decl :: r).

Lemma path_of_stands d vp path : stands_for vp path -> path_of d vp = Some path.
Proof.
  induction 1 as [|p k decl vr r Hr _ IH|p f decl vr r Hr _ IH|f decl vr r _ IH]; cbn [path_of node_of].
  - reflexivity.
  - rewrite (routes_site d p k Hr), IH. reflexivity.
  - rewrite (routes_self_site d p Hr), IH. reflexivity.
  - rewrite IH. reflexivity.
Qed.

(* the dispatched compilation is the reference of Positions.v over the path the valuations stand for *)
Theorem c10_positions_dispatched d P e vp path c :
  e <> KNone -> stands_for vp path ->
  compile_v d P (x_S c) (spec_of P c) (x_holder c) e vp =
    Some (Ok (match ref_compile P d (ctxs P c path) 0 with Some (n, sw) => Some (n, emit d (Some sw) e) | None => None end)).
Proof.
  intros He Hs. unfold compile_v. rewrite (path_of_stands d vp path Hs).
  f_equal. apply compile_ref. exact He.
Qed.
