(* C12 - a registry-free REFERENCE semantics of the whole dispatch (both modes, any nesting of class-level dispatchers)
   and the proof that the stateful dispatcher of Discr.v computes it after every history: no hypothesis about nested
   dispatchers (plain_carriers / no_nested) is needed, only uniqueness of the tags the input carries. *)
From Coq Require Import List Arith Bool Lia.
From Verif Require Import Discr DiscrSpec DiscrProofs.
Import ListNotations.

Section Ref.
  Variable acc : cls -> list nat -> verdict.
  Variable sites : list site.

  (* first class (in walk order) whose from_dict yields an instance *)
  Fixpoint ref_loop (enter: nat -> outcome) (vs: list nat) : outcome :=
    match vs with
    | [] => ONotFound
    | v :: r => match enter v with OInst c => OInst c | _ => ref_loop enter r end
    end.

  (* known finding variant-keyerror-misreported: a KeyError leaving the selected class is reported as "no suitable variant" *)
  Definition keyerr_to_notfound (o: outcome) : outcome := o.      (* the selected class's own KeyError surfaces *)

  (* what the property says, by recursion over the nesting only: no registry, no history *)
  Fixpoint ref_disp (cl: list cls) (fuel: nat) (s: site) (inp: inkeys) (present: list nat) : outcome :=
    match fuel with
    | 0 => OBadSite
    | S f =>
        if negb (site_ok s (length cl)) then OBadSite else
        let enter c := match config_site sites c with
                       | None => leaf acc cl c present
                       | Some (_, sj) => ref_disp cl f sj inp present
                       end in
        if s_field s then
          match assoc (s_fid s) inp with
          | None => OMissing
          | Some Unhashable => ONotFound
          | Some (Hashable t) =>
              match carriers cl s t with
              | [] => ONotFound                                (* nobody carries the tag *)
              | c :: _ => keyerr_to_notfound (enter c)         (* THE class that carries it is entered *)
              end
          end
        else ref_loop enter (variants cl s)
    end.

  Definition ref_decode (cl: list cls) (i: nat) (inp: inkeys) (present: list nat) : outcome :=
    match nth_error sites i with
    | None => OBadSite
    | Some s => ref_disp cl (S (S (length cl))) s inp present
    end.

  (* every tag the input carries under the key of some field dispatcher is carried by at most one eligible class there *)
  Definition uniq_all (cl: list cls) (inp: inkeys) : Prop :=
    forall j sj t, nth_error sites j = Some sj -> s_field sj = true -> site_ok sj (length cl) = true ->
      assoc (s_fid sj) inp = Some (Hashable t) -> tag_unique cl sj t.

  (* no site is in the region of known finding optional-union-nonetype-variant (there the FIRST miss crashes: the answer
     depends on the history, see C12_optional_union_refuted) *)
  Definition no_crash : Prop := forall j sj, nth_error sites j = Some sj -> crash_on_refill sj = false.

  Lemma no_crash_always : no_crash.
  Proof. intros j sj _. reflexivity. Qed.

  Lemma carriers_unique cl s t c : wf cl -> site_ok s (length cl) = true -> tag_unique cl s t ->
    carries cl s c t -> carriers cl s t = [c].
  Proof.
    intros W OK U C.
    pose proof (proj2 (tag_uniqueb_iff cl s t W OK) U) as L. unfold tag_uniqueb in L. apply Nat.leb_le in L.
    pose proof (proj2 (carriers_In cl s t c W OK) C) as I.
    destruct (carriers cl s t) as [|a [|b l]]; cbn in *; [destruct I | destruct I as [<-|[]]; reflexivity | lia].
  Qed.

  Lemma carriers_nil cl s t : wf cl -> site_ok s (length cl) = true -> (forall c, ~ carries cl s c t) -> carriers cl s t = [].
  Proof.
    intros W OK NO. destruct (carriers cl s t) as [|a l] eqn:E; [reflexivity|].
    exfalso. apply (NO a). apply (carriers_In cl s t a W OK). rewrite E. left. reflexivity.
  Qed.

  Definition enter_agrees (cl: list cls) (enter: st -> nat -> st * outcome) (eref: nat -> outcome) : Prop :=
    forall x1 c, inv sites cl x1 -> snd (enter x1 c) = eref c.

  Lemma refill_retry_ref cl enter eref top codec k s t x0 :
    wf cl -> enter_ok sites cl enter -> enter_agrees cl enter eref ->
    key_site sites k = Some s -> site_ok s (length cl) = true -> crash_on_refill s = false -> tag_unique cl s t -> inv sites cl x0 ->
    snd (refill_retry enter top codec k s t x0)
    = match carriers cl s t with [] => ONotFound | c :: _ => keyerr_to_notfound (eref c) end.
  Proof.
    intros W EO EA K OK NC U [E RS]. unfold refill_retry. rewrite NC.
    set (r' := refill (classes x0) s (get_reg k (regs x0))).
    set (rs := if codec then reset_nested top (built (classes x0) s) (regs x0) else regs x0).
    assert (I': inv sites cl (mark codec (built (classes x0) s) (St (classes x0) ((k, r') :: rs) (comp x0) (cur x0)))).
    { apply inv_mark. split; [exact E|]. intros k2 s2 t2 c2 K2 Hin. cbn in *. destruct (rkey_eqb k2 k) eqn:EQ.
      - apply rkey_eqb_eq in EQ. subst k2. rewrite K in K2. injection K2 as <-.
        apply refill_sound in Hin; [|rewrite E; exact W|rewrite E; exact OK].
        destruct Hin as [Hin|Hin]; [|exact Hin]. eapply RS; eassumption.
      - eapply RS; [exact K2|]. unfold rs in Hin. destruct codec; [eapply get_reg_reset; exact Hin | exact Hin]. }
    destruct (reg_get t r') as [c|] eqn:G'.
    - assert (C: carries cl s c t).
      { apply reg_get_In in G'. unfold r' in G'. rewrite E in G'. apply refill_sound in G'; [|exact W|exact OK].
        destruct G' as [G'|G']; [|exact G']. rewrite <- E. eapply RS; eassumption. }
      rewrite (carriers_unique cl s t c W OK U C).
      exact (EA _ c I').
    - cbn [snd]. rewrite carriers_nil; [reflexivity | exact W | exact OK|]. intros c C.
      destruct (refill_complete _ _ (get_reg k (regs x0)) _ _ W C) as [c' E']. unfold r' in G'. rewrite E in G'. congruence.
  Qed.

  Lemma field_body_ref cl enter eref top codec k s t x :
    wf cl -> enter_ok sites cl enter -> enter_agrees cl enter eref ->
    key_site sites k = Some s -> site_ok s (length cl) = true -> crash_on_refill s = false -> tag_unique cl s t -> inv sites cl x ->
    snd (field_body enter top codec k s t x)
    = match carriers cl s t with [] => ONotFound | c :: _ => keyerr_to_notfound (eref c) end.
  Proof.
    intros W EO EA K OK NC U I. unfold field_body.
    destruct (reg_get t (get_reg k (regs x))) as [c|] eqn:G; [|apply refill_retry_ref; assumption].
    destruct (has_method codec x c); [|apply refill_retry_ref; assumption].
    assert (C: carries cl s c t).
    { destruct I as [E RS]. rewrite <- E. eapply RS; [exact K | apply reg_get_In; exact G]. }
    rewrite (carriers_unique cl s t c W OK U C). exact (EA _ c I).
  Qed.

  Lemma loop_body_ref cl enter eref : enter_ok sites cl enter -> enter_agrees cl enter eref ->
    forall vs x, inv sites cl x -> snd (loop_body enter vs x) = ref_loop eref vs.
  Proof.
    intros EO EA. induction vs as [|v vs IH]; intros x I; cbn [loop_body ref_loop]; [reflexivity|].
    pose proof (EA _ v I) as H. pose proof (EO _ v I) as I1.
    destruct (enter x v) as [x1 o]. cbn [snd fst] in *. subst o.
    destruct (eref v); try (apply IH; exact I1). reflexivity.
  Qed.

  Lemma dispatcher_ref : forall fuel top codec k s x inp present,
    wf (classes x) -> reg_sound sites x -> key_site sites k = Some s ->
    (exists j, nth_error sites j = Some s) -> uniq_all (classes x) inp -> no_crash ->
    snd (dispatcher acc sites fuel top codec k s x inp present) = ref_disp (classes x) fuel s inp present.
  Proof.
    induction fuel as [|f IH]; intros top codec k s x inp present W RS K [j Hj] UA NCR; cbn [dispatcher ref_disp]; [reflexivity|].
    destruct (negb (site_ok s (length (classes x)))) eqn:OK; [reflexivity|].
    apply negb_false_iff in OK.
    set (enter := enter_with acc sites (fun k' s' x' => dispatcher acc sites f top codec k' s' x' inp present) top codec present).
    set (eref := fun c => match config_site sites c with
                          | None => leaf acc (classes x) c present
                          | Some (_, sj) => ref_disp (classes x) f sj inp present
                          end).
    assert (EO: enter_ok sites (classes x) enter).
    { intros x1 c [E1 RS1]. unfold enter, enter_with.
      destruct (config_site sites c) as [[j' sj]|] eqn:C; [|split; assumption].
      assert (K': key_site sites (if codec then (top, S c) else (j', 0)) = Some sj).
      { destruct codec; unfold key_site; cbn; [rewrite C; reflexivity | eapply config_site_nth; exact C]. }
      pose proof (dispatcher_inv acc sites f top codec _ sj x1 inp present (eq_ind_r wf W E1) RS1 K') as H.
      rewrite E1 in H. exact H. }
    assert (EA: enter_agrees (classes x) enter eref).
    { intros x1 c [E1 RS1]. unfold enter, enter_with, eref.
      destruct (config_site sites c) as [[j' sj]|] eqn:C; [|cbn [snd]; rewrite E1; reflexivity].
      assert (K': key_site sites (if codec then (top, S c) else (j', 0)) = Some sj).
      { destruct codec; unfold key_site; cbn; [rewrite C; reflexivity | eapply config_site_nth; exact C]. }
      rewrite (IH top codec _ sj x1 inp present (eq_ind_r wf W E1) RS1 K');
        [rewrite E1; reflexivity | exists j'; eapply config_site_nth; exact C | rewrite E1; exact UA | exact NCR]. }
    assert (I: inv sites (classes x) x) by (split; [reflexivity | exact RS]).
    destruct (s_field s) eqn:F.
    - destruct (assoc (s_fid s) inp) as [[t|]|] eqn:A; [|reflexivity|reflexivity].
      rewrite (field_body_ref (classes x) enter eref top codec k s t x W EO EA K OK (NCR j s Hj) (UA j s t Hj F OK A) I).
      reflexivity.
    - apply (loop_body_ref (classes x) (fun x1 v => enter (mark codec [v] x1) v) eref); [| |exact I].
      + intros x1 c I1. apply EO, inv_mark, I1.
      + intros x1 c I1. apply EA, inv_mark, I1.
  Qed.

  (* one call from ANY sound state - whatever the format of the call and whatever per-format methods earlier calls
     left compiled ([cur], [comp] are unconstrained) *)
  Lemma decode1_ref x i inp present :
    wf (classes x) -> reg_sound sites x -> uniq_all (classes x) inp -> no_crash ->
    snd (decode1 acc sites x i inp present) = ref_decode (classes x) i inp present.
  Proof.
    intros W RS UA NCR. unfold decode1, ref_decode.
    destruct (nth_error sites i) as [s|] eqn:Es; [|reflexivity].
    exact (dispatcher_ref (S (S (length (classes x)))) i (s_codec s) (i, 0) s x inp present W RS Es (ex_intro _ i Es) UA NCR).
  Qed.

  (* the same call through the dispatcher compiled for another format (from_msgpack, orjson's from_json, ...): the
     class-level registries are shared with format 0, the variants' per-format methods are compiled on demand, a
     registered variant without its own method is a miss (refill, retry) - the answer is the reference answer all the same *)
  Theorem decode_ref_fmt pre f i inp present :
    uniq_all (defs pre) inp -> no_crash ->
    snd (step acc sites (final acc sites pre) (DecodeF f i inp present)) = Some (ref_decode (defs pre) i inp present).
  Proof.
    intros UA NCR. pose proof (registry_invariant acc sites pre) as RS. pose proof (wf_defs pre) as W.
    pose proof (final_classes acc sites pre) as CL. set (x := final acc sites pre) in *.
    rewrite <- CL in W, UA |- *. cbn [step].
    pose proof (decode1_ref (set_cur f x) i inp present W RS UA NCR) as H.
    destruct (decode1 acc sites (set_cur f x) i inp present) as [x' o]. cbn [snd] in *. rewrite H. reflexivity.
  Qed.

  (* AFTER ANY HISTORY the answer of the real (stateful) dispatcher is the reference answer - with nested class-level
     dispatchers of either mode, rejecting classes, leaked KeyErrors; only uniqueness of the input's tags is assumed *)
  Theorem decode_ref pre i inp present :
    uniq_all (defs pre) inp -> no_crash ->
    snd (step acc sites (final acc sites pre) (Decode i inp present)) = Some (ref_decode (defs pre) i inp present).
  Proof.
    intros UA NCR. pose proof (registry_invariant acc sites pre) as RS. pose proof (wf_defs pre) as W.
    pose proof (final_classes acc sites pre) as CL. set (x := final acc sites pre) in *.
    rewrite <- CL in W, UA |- *. cbn [step]. unfold decode1, ref_decode.
    destruct (nth_error sites i) as [s|] eqn:Es; [|reflexivity].
    pose proof (dispatcher_ref (S (S (length (classes x)))) i (s_codec s) (i, 0) s x inp present W RS Es (ex_intro _ i Es) UA NCR) as H.
    destruct (dispatcher acc sites (S (S (length (classes x)))) i (s_codec s) (i, 0) s x inp present) as [x' o].
    cbn [snd] in *. rewrite H. reflexivity.
  Qed.
  (* entering a class in the reference semantics: a leaf, or the class's own dispatcher (either mode) *)
  Definition ref_enter (cl: list cls) (fuel: nat) (inp: inkeys) (present: list nat) (c: nat) : outcome :=
    match config_site sites c with
    | None => leaf acc cl c present
    | Some (_, sj) => ref_disp cl fuel sj inp present
    end.

  (* the relational form WITHOUT plain_carriers: the unique class carrying the tag is ENTERED - an instance / its own error
     if it is a plain class, the answer of its own dispatcher (on the same input) if it declares one; nobody -> NotFound *)
  Theorem registry_nested pre i s inp t present o :
    nth_error sites i = Some s -> s_field s = true -> site_ok s (length (defs pre)) = true ->
    assoc (s_fid s) inp = Some (Hashable t) -> uniq_all (defs pre) inp ->
    snd (step acc sites (final acc sites pre) (Decode i inp present)) = Some o ->
    (forall c, carries (defs pre) s c t -> o = ref_enter (defs pre) (S (length (defs pre))) inp present c)
    /\ ((forall c, ~ carries (defs pre) s c t) -> o = ONotFound).
  Proof.
    intros Hs Hf OK HT UA E. rewrite (decode_ref pre i inp present UA no_crash_always) in E. injection E as <-.
    pose proof (wf_defs pre) as W. unfold ref_decode. rewrite Hs. cbn [ref_disp]. rewrite OK. cbn [negb]. rewrite Hf, HT.
    split.
    - intros c C. rewrite (carriers_unique (defs pre) s t c W OK (UA i s t Hs Hf OK HT) C). reflexivity.
    - intros NO. rewrite (carriers_nil (defs pre) s t W OK NO). reflexivity.
  Qed.

  (* no-field mode WITHOUT no_nested: the first class, in walk order (subclasses before supertypes), whose entering yields
     an instance - a plain class that accepts, or a nested dispatcher that finds one *)
  Theorem nofield_nested pre i s inp present :
    nth_error sites i = Some s -> s_field s = false -> site_ok s (length (defs pre)) = true ->
    uniq_all (defs pre) inp ->
    snd (step acc sites (final acc sites pre) (Decode i inp present))
    = Some (ref_loop (ref_enter (defs pre) (S (length (defs pre))) inp present) (variants (defs pre) s)).
  Proof.
    intros Hs Hf OK UA. rewrite (decode_ref pre i inp present UA no_crash_always).
    unfold ref_decode. rewrite Hs. cbn [ref_disp]. rewrite OK. cbn [negb]. rewrite Hf. reflexivity.
  Qed.
End Ref.

(* same classes => same answer, whatever was decoded, created or registered before: history independence at full
   generality (nested dispatchers included) *)
Corollary history_independent_ref acc sites pre1 pre2 i inp present :
  defs pre1 = defs pre2 -> uniq_all sites (defs pre1) inp -> no_crash sites ->
  snd (step acc sites (final acc sites pre1) (Decode i inp present))
  = snd (step acc sites (final acc sites pre2) (Decode i inp present)).
Proof.
  intros E UA NCR. rewrite (decode_ref acc sites pre1 i inp present UA NCR).
  rewrite E in UA. rewrite (decode_ref acc sites pre2 i inp present UA NCR). rewrite E. reflexivity.
Qed.

(* ... and the format of the call is irrelevant too: from_dict, from_msgpack, from_json after ANY two histories (with
   calls in any formats) that defined the same classes *)
Corollary format_independent acc sites pre1 pre2 f1 f2 i inp present :
  defs pre1 = defs pre2 -> uniq_all sites (defs pre1) inp -> no_crash sites ->
  snd (step acc sites (final acc sites pre1) (DecodeF f1 i inp present))
  = snd (step acc sites (final acc sites pre2) (DecodeF f2 i inp present))
  /\ snd (step acc sites (final acc sites pre1) (DecodeF f1 i inp present))
     = snd (step acc sites (final acc sites pre2) (Decode i inp present)).
Proof.
  intros E UA NCR. rewrite (decode_ref_fmt acc sites pre1 f1 i inp present UA NCR).
  rewrite E in UA. rewrite (decode_ref_fmt acc sites pre2 f2 i inp present UA NCR).
  rewrite (decode_ref acc sites pre2 i inp present UA NCR). rewrite E. split; reflexivity.
Qed.

(* computable form of the hypothesis (what the harness evaluates) *)
Definition uniq_allb (sites: list site) (cl: list cls) (inp: inkeys) : bool :=
  forallb (fun sj => if s_field sj
                     then match assoc (s_fid sj) inp with
                          | Some (Hashable t) => negb (site_ok sj (length cl)) || tag_uniqueb cl sj t
                          | _ => true
                          end
                     else true) sites.

Lemma uniq_allb_sound sites cl inp : wf cl -> uniq_allb sites cl inp = true -> uniq_all sites cl inp.
Proof.
  intros W H j sj t Hj F OK A. unfold uniq_allb in H. rewrite forallb_forall in H.
  pose proof (H sj (nth_error_In _ _ Hj)) as B. rewrite F, A, OK in B. cbn in B.
  apply (tag_uniqueb_iff cl sj t W OK). exact B.
Qed.

(* case-file helper: wherever the input's tags are unique, the REFERENCE answer equals what the implementation did *)
Fixpoint ref_agrees (sites: list site) (cl: list cls) (ops: list op) (observed: list (option outcome)) : bool :=
  match ops, observed with
  | [], [] => true
  | Define ps tg tu rq ke :: r, _ :: obs => ref_agrees sites (cl ++ [define cl ps tg tu rq ke]) r obs
  | Decode i inp present :: r, o :: obs | DecodeF _ i inp present :: r, o :: obs =>
      (if uniq_allb sites cl inp && forallb (fun sj => negb (crash_on_refill sj)) sites then oout_eqb (Some (ref_decode acc_req sites cl i inp present)) o else true)
      && ref_agrees sites cl r obs
  | _ :: r, _ :: obs => ref_agrees sites cl r obs
  | _, _ => false
  end.

Definition case_ok_ref (c: list site * list op * list (option outcome) * list (option bool)) : bool :=
  let '(sites, ops, expected, flags) := c in case_ok c && ref_agrees sites [] ops expected.

Lemma no_crashb_sound sites : forallb (fun sj => negb (crash_on_refill sj)) sites = true -> no_crash sites.
Proof.
  intros H j sj Hj. rewrite forallb_forall in H. apply negb_true_iff. apply H. eapply nth_error_In. exact Hj.
Qed.
