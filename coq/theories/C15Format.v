(* C15, format family inside the model.

   Every format (msgpack / orjson / json / yaml / toml) has three kinds of entry points that share ONE document
   function [doc] (the library encoder: msgpack.packb, orjson.dumps, ...) and ONE parser [undoc]:
     EMixin    x.to_<fmt>([dialect=X]) / D.from_<fmt>(b[, dialect=X])     nailed builder; default dialect = the format's
               built-in dialect FD, the user dialect X arrives with the call      (mixins/<fmt>.py)
     ECodec    <Fmt>Encoder(T[, default_dialect=X]).encode(x) / <Fmt>Decoder     codec builder; default dialect =
               FD.merge(X)  (or FD)                                              (codecs/<fmt>.py)
     EOneShot  <fmt>_encode(x, T) / <fmt>_decode(b, T)                           = a codec without user dialect
   The option part of Dialect.merge is NOT modelled by hand: it is the kernel K2 (VerifGen.K2.merge_options)
   translated from /repo/mashumaro/dialect.py on every run, with the key tuple of its loop from K13; the theorems
   below go through its specification DialectMerge.merge_options_total (proved about the translated text).
   Dialects are attribute namespaces (PyK.kv, as the kernels see them); the two options the packer model
   understands (serialize_by_alias, omit_none) are read off them. *)
From Coq Require Import List String Ascii ZArith Bool.
From Verif Require Import PyK DialectMerge.
From VerifGen Require Import K2 K13 K13C.
From Verif Require Import C15Model C15Proofs.
Import ListNotations.
Open Scope string_scope.

Definition dialect_ns := list (string * kv).

Definition read_opt (ns: dialect_ns) (key: string) : option bool :=
  match option_of ns key with KBool b => Some b | _ => None end.
Definition opts_of (ns: dialect_ns) : opts :=
  mkO (read_opt ns "serialize_by_alias") (read_opt ns "omit_none") (read_opt ns "omit_default").

(* the attribute is a bool or Sentinel.MISSING (what Dialect declares) *)
Definition opt_wf (ns: dialect_ns) (key: string) : bool :=
  match option_of ns key with KBool _ | KMissing => true | _ => false end.
Definition ns_wf (ns: dialect_ns) : bool :=
  opt_wf ns "serialize_by_alias" && opt_wf ns "omit_none" && opt_wf ns "omit_default".

(* FD.merge(X), option part, as translated from the source *)
Definition merged (fd x: dialect_ns) : PyK.res kv := merge_options (KNs fd) (KNs x) (KNs []).

Inductive entry := EMixin | ECodec | EOneShot.
Definition mode_of (e: entry) : mode := match e with EMixin => Mixin | _ => Codec end.

Definition bindr {A B} (r: res A) (f: A -> res B) : res B :=
  match r with C15Model.Ok a => f a | Err e => Err e end.

(* the (call, default) dialect layers an entry point compiles with; None = the merge failed *)
Definition layers_of (e: entry) (fd: dialect_ns) (x: option dialect_ns) : option (opts * opts) :=
  match e, x with
  | EMixin, Some ns => Some (opts_of ns, opts_of fd)
  | EMixin, None => Some (no_opts, opts_of fd)
  | ECodec, Some ns => match merged fd ns with
                       | PyK.Ok (KNs r) => Some (no_opts, opts_of r)
                       | _ => None end
  | ECodec, None => Some (no_opts, opts_of fd)
  | EOneShot, _ => Some (no_opts, opts_of fd)          (* the one-shot functions take no dialect *)
  end.

Section Format.
  Context {D: Type}.
  Variable doc : val -> res D.          (* one document function per format *)
  Variable undoc : D -> option val.     (* one parser per format; None = the library rejects the bytes *)

  Definition fmt_encode (e: entry) (E: env) (fd: dialect_ns) (x: option dialect_ns) (t: ty) (v: val) : res D :=
    match layers_of e fd x with
    | Some (c, d) => bindr (pack E (mode_of e) c d v t) doc
    | None => Err XRaw
    end.

  Definition fmt_decode (e: entry) (E: env) (t: ty) (b: D) : res val :=
    match undoc b with Some d => unpack E (mode_of e) d t | None => Err XRaw end.
End Format.

(* document functions used by the correspondence (the libraries are oracles; only what they REJECT is modelled):
   msgpack / json / orjson / yaml accept every basic value of the grammar; TOML needs a table at the top and has no null *)
Fixpoint has_none (v: val) : bool :=
  match v with
  | VNone => true
  | VList l | VTuple l => existsb has_none l
  | VDict kvs | VObj _ kvs => existsb (fun kv => has_none (snd kv)) kvs
  | _ => false
  end.
(* equality of documents up to the order of mapping keys (yaml.dump sorts them) *)
Fixpoint val_sim (a b: val) {struct a} : bool :=
  match a, b with
  | VList x, VList y | VTuple x, VTuple y =>
      (fix go (l1 l2: list val) : bool :=
         match l1, l2 with
         | [], [] => true
         | p :: r1, q :: r2 => val_sim p q && go r1 r2
         | _, _ => false end) x y
  | VDict x, VDict y =>
      Nat.eqb (List.length x) (List.length y) &&
      (fix go (l1: list (string * val)) : bool :=
         match l1 with
         | [] => true
         | kv :: r1 => match kv with
                       | (k, v) => match assoc y k with Some v' => val_sim v v' | None => false end
                       end && go r1
         end) x
  | _, _ => val_eqb a b
  end.

Definition doc_id (v: val) : res val := C15Model.Ok v.
Definition doc_toml (v: val) : res val :=
  match v with VDict _ => if has_none v then Err XRaw else C15Model.Ok v | _ => Err XRaw end.

(* what the libraries reject / render, as far as the grammar can produce it (leaks of non-basic values through unions):
   msgpack.packb and json.dumps raise on a date or a dataclass instance; yaml.safe_dump writes a date as a timestamp
   (parsed back as a date, compared as ISO text) and raises on an instance *)
Fixpoint is_basic (dates_ok: bool) (v: val) : bool :=
  match v with
  | VNone | VInt _ | VStr _ => true
  | VDate _ => dates_ok
  | VList l | VTuple l => forallb (is_basic dates_ok) l
  | VDict kvs => forallb (fun kv => is_basic dates_ok (snd kv)) kvs
  | VObj _ _ => false
  end.
Fixpoint render_dates (v: val) : val :=
  match v with
  | VDate s => VStr s
  | VList l => VList (map render_dates l)
  | VTuple l => VList (map render_dates l)
  | VDict kvs => VDict (map (fun kv => match kv with (k, x) => (k, render_dates x) end) kvs)
  | _ => v
  end.
Definition doc_basic (v: val) : res val := if is_basic false v then C15Model.Ok v else Err XRaw.
Definition doc_yaml (v: val) : res val := if is_basic true v then C15Model.Ok (render_dates v) else Err XRaw.

(* ---- which built-in format dialect touches a type of the grammar: read off the tables the kernel K13C extracts
   from mashumaro/codecs/*.py and mashumaro/mixins/*.py on every run.  The STRATEGY part of dialects is not in this
   model; where a built-in dialect has a strategy for `date` (pass_through turns the date member of a union into an
   identity member and lets dates through into the document) union-reaching types are outside its domain. *)
Definition plan_of (fmt: string) : option string :=
  match find (fun p => match p with (m, _, _) => String.eqb m fmt end) codec_plan with
  | Some (_, _, plan) => Some plan
  | None => None
  end.
Definition dialect_name_of (fmt: string) : option string :=
  match plan_of fmt with
  | Some plan => if String.prefix "merge:" plan then Some (String.substring 6 (String.length plan - 6) plan) else None
  | None => None
  end.
Definition strategy_types_of (dname: string) : list nat :=
  match find (fun p => String.eqb (fst p) dname) format_dialect_strategies with
  | Some (_, sm) => map fst sm
  | None => []
  end.
Definition fmt_touches (fmt tyname: string) : bool :=
  match dialect_name_of fmt, find (fun p => String.eqb (fst p) tyname) type_ids with
  | Some dn, Some (_, id) => existsb (Nat.eqb id) (strategy_types_of dn)
  | _, _ => false
  end.

Fixpoint ty_has_union (t: ty) : bool :=
  match t with
  | TUnion _ => true
  | TList t' | TDict t' | TOpt t' => ty_has_union t'
  | TTuple ts => existsb ty_has_union ts
  | _ => false
  end.
Definition env_has_union (E: env) : bool :=
  existsb (fun d => existsb (fun f => ty_has_union (f_ty f)) (c_fields d)) E.
Definition fmt_sets (fmt opt: string) : bool :=
  match dialect_name_of fmt with
  | Some dn => match find (fun p => String.eqb (fst p) dn) format_dialect_options with
               | Some (_, os) => existsb (fun p => String.eqb (fst p) opt) os
               | None => false end
  | None => false
  end.
(* outside the domain of the format model: a union somewhere and a built-in dialect that has a strategy for `date`
   or sets no_copy_collections (then Dict[str,str] / List[int] members become identity members of the union) *)
Definition strategy_sensitive (fmt: string) (E: env) (t: ty) : bool :=
  (ty_has_union t || env_has_union E) && (fmt_touches fmt "date" || fmt_sets fmt "no_copy_collections").

Definition doc_for (fmt: string) : val -> res val :=
  if String.eqb fmt "toml" then doc_toml
  else if String.eqb fmt "yaml" then doc_yaml
  else if String.eqb fmt "orjson" then doc_id       (* orjson renders dates itself; instances only leak through unions *)
  else doc_basic.
Definition reorders_keys (fmt: string) : bool := String.eqb fmt "toml" || String.eqb fmt "yaml".

Example fmt_touches_table :
  map (fun f => fmt_touches f "date") ["msgpack"; "orjson"; "json"; "yaml"; "toml"] = [false; true; false; false; true].
Proof. vm_compute. reflexivity. Qed.
Example fmt_sets_table :
  map (fun f => fmt_sets f "no_copy_collections") ["msgpack"; "orjson"; "json"; "yaml"; "toml"] = [true; true; false; false; true].
Proof. vm_compute. reflexivity. Qed.

(* ------------------------------------------------------------------ *)
Lemma in_loop_by_alias : In "serialize_by_alias" merge_loop_keys.
Proof. simpl. tauto. Qed.
Lemma in_loop_omit_none : In "omit_none" merge_loop_keys.
Proof. simpl. tauto. Qed.
Lemma in_loop_omit_default : In "omit_default" merge_loop_keys.
Proof. simpl. tauto. Qed.

Lemma read_merged a b r key :
  In key merge_loop_keys -> opt_wf b key = true ->
  (forall k, In k merge_loop_keys ->
     option_of r k = if is_set (option_of b k) then option_of b k else option_of a k) ->
  read_opt r key = match read_opt b key with Some v => Some v | None => read_opt a key end.
Proof.
  intros Hin Hwf Hspec. unfold read_opt. rewrite (Hspec key Hin). unfold opt_wf in Hwf.
  destruct (option_of b key); try discriminate Hwf; reflexivity.
Qed.

(* the layers of the mixin entry point (X with the call, FD as default) and of the codec entry point
   (FD.merge(X) as default) resolve every option of every class alike, unless X contradicts a Config *)
Lemma opt_merge_swap x c fdo :
  opt_compat x c = true ->
  opt_or x (opt_or c (opt_or fdo false)) =
  opt_or None (opt_or c (opt_or (match x with Some v => Some v | None => fdo end) false)).
Proof.
  unfold opt_compat. destruct x as [b|], c as [b'|]; simpl; intros H; try reflexivity.
  apply Bool.eqb_prop in H. subst. reflexivity.
Qed.

Lemma format_layers_agree E fd ns r :
  ns_wf ns = true ->
  (forall k, In k merge_loop_keys ->
     option_of r k = if is_set (option_of ns k) then option_of ns k else option_of fd k) ->
  dialect_compat_o E (opts_of ns) = true ->
  forall d d', In d E -> same_shape d d' ->
    eff_by_alias (opts_of ns) (opts_of fd) d' = eff_by_alias no_opts (opts_of r) d /\
    eff_omit_none (opts_of ns) (opts_of fd) d' = eff_omit_none no_opts (opts_of r) d /\
    eff_omit_default (opts_of ns) (opts_of fd) d' = eff_omit_default no_opts (opts_of r) d.
Proof.
  intros Hwf Hspec Hc d d' Hin [_ [_ [_ [[Hba Hon] [[Hod _] _]]]]].
  unfold ns_wf in Hwf. apply andb_true_iff in Hwf. destruct Hwf as [Hwf W3].
  apply andb_true_iff in Hwf. destruct Hwf as [W1 W2].
  unfold dialect_compat_o in Hc. rewrite forallb_forall in Hc. specialize (Hc d Hin).
  apply andb_true_iff in Hc. destruct Hc as [Hc C3]. apply andb_true_iff in Hc. destruct Hc as [C1 C2].
  unfold eff_by_alias, eff_omit_none, eff_omit_default, opts_of. simpl. rewrite <- Hba, <- Hon, <- Hod.
  rewrite (read_merged fd ns r _ in_loop_by_alias W1 Hspec), (read_merged fd ns r _ in_loop_omit_none W2 Hspec),
          (read_merged fd ns r _ in_loop_omit_default W3 Hspec).
  unfold opts_of in C1, C2, C3. simpl in C1, C2, C3.
  repeat split; apply opt_merge_swap; assumption.
Qed.

Section FormatTheorems.
  Context {D: Type}.
  Variable doc : val -> res D.
  Variable undoc : D -> option val.

  (* all encoding entry points of a format agree: with a caller dialect X ... *)
  Theorem format_agree_dialect E fd ns t v :
    has_keys merge_loop_keys fd -> has_keys merge_loop_keys ns -> ns_wf ns = true ->
    no_lookalike_union E t = true -> dialect_compat_o E (opts_of ns) = true -> names_ok E = true ->
    exact E v t = true ->
    fmt_encode doc EMixin E fd (Some ns) t v = fmt_encode doc ECodec E fd (Some ns) t v.
  Proof.
    intros Hfd Hns Hwf Hl Hc Hn Hex.
    destruct (merge_options_total fd ns [] Hfd Hns) as [r [Hm [Hspec _]]].
    unfold fmt_encode, layers_of, merged. rewrite Hm. simpl mode_of.
    unfold no_lookalike_union in Hl. apply andb_true_iff in Hl. destruct Hl as [Ht He].
    rewrite (proj1 (all_good E E Mixin (opts_of ns) (opts_of fd) no_opts (opts_of r) (extends_refl E) He
                      (format_layers_agree E fd ns r Hwf Hspec Hc) Hn v t Hex Ht)).
    reflexivity.
  Qed.

  (* ... and without one (mixin method, codec object, one-shot function) *)
  Theorem format_agree_plain E fd t v :
    no_lookalike_union E t = true -> names_ok E = true -> exact E v t = true ->
    fmt_encode doc EMixin E fd None t v = fmt_encode doc ECodec E fd None t v /\
    fmt_encode doc EOneShot E fd None t v = fmt_encode doc ECodec E fd None t v.
  Proof.
    intros Hl Hn Hex. unfold fmt_encode, layers_of. simpl mode_of.
    unfold no_lookalike_union in Hl. apply andb_true_iff in Hl. destruct Hl as [Ht He].
    rewrite (proj1 (all_good E E Mixin no_opts (opts_of fd) no_opts (opts_of fd) (extends_refl E) He
                      (layers_same no_opts (opts_of fd) E) Hn v t Hex Ht)).
    split; reflexivity.
  Qed.

  (* a format codec for List[T] / Dict[str, T] packs elementwise before the one document function is applied *)
  Theorem format_codec_list E fd x t l c d :
    layers_of ECodec fd x = Some (c, d) ->
    fmt_encode doc ECodec E fd x (TList t) (VList l) =
    bindr (fmap VList (mapM (fun e => pack E Codec c d e t) l)) doc.
  Proof. intros Hl. unfold fmt_encode. rewrite Hl. simpl mode_of. rewrite (comp_list E Codec c d t l). reflexivity. Qed.

  Theorem format_codec_dict E fd x t kvs c d :
    layers_of ECodec fd x = Some (c, d) ->
    fmt_encode doc ECodec E fd x (TDict t) (VDict kvs) =
    bindr (fmap VDict (mapM (fun kv => fmap (pair (fst kv)) (pack E Codec c d (snd kv) t)) kvs)) doc.
  Proof. intros Hl. unfold fmt_encode. rewrite Hl. simpl mode_of. rewrite (comp_dict E Codec c d t kvs). reflexivity. Qed.

  (* decoding: every entry point parses with the same function, then the two paths agree on every document *)
  Theorem format_decode_agree E t b :
    fmt_decode undoc EMixin E t b = norm (fmt_decode undoc ECodec E t b) /\
    fmt_decode undoc EOneShot E t b = fmt_decode undoc ECodec E t b.
  Proof.
    unfold fmt_decode. simpl mode_of. split; [|reflexivity].
    destruct (undoc b) as [d|]; [apply unpack_agree_all|reflexivity].
  Qed.

  Theorem format_decode_agree_data E c b :
    fmt_decode undoc EMixin E (TData c) b = fmt_decode undoc ECodec E (TData c) b.
  Proof. unfold fmt_decode. simpl mode_of. destruct (undoc b) as [d|]; [apply unpack_agree_data|reflexivity]. Qed.
End FormatTheorems.

(* ------------------------------------------------------------------ *)
(* refutation: when the user dialect contradicts a Config the entry points differ (call dialect has the highest,
   default dialect the lowest priority) - e.g. TOML: Config.omit_none = False on the class, X.omit_none = True *)
Definition ns5 (ba on: kv) : dialect_ns :=
  [("serialize_by_alias", ba); ("namedtuple_as_dict", KMissing); ("omit_none", on); ("omit_default", KMissing);
   ("no_copy_collections", KMissing)].
Definition fd_toml : dialect_ns := ns5 KMissing (KBool true).       (* TOMLDialect.omit_none = True *)
Definition E_fm : env :=
  [mkC "A" None [mkF "x" (Some "a_x") TInt; mkF "y" None (TOpt TInt)] None (Some false) None [] false false false true].
Definition v_fm := VObj "A" [("x", VInt 1); ("y", VNone)].

Lemma format_priority_witness :
  fmt_encode (fun v => C15Model.Ok v) EMixin E_fm fd_toml (Some (ns5 KMissing (KBool true))) (TData "A") v_fm
    = C15Model.Ok (VDict [("x", VInt 1)]) /\
  fmt_encode (fun v => C15Model.Ok v) ECodec E_fm fd_toml (Some (ns5 KMissing (KBool true))) (TData "A") v_fm
    = C15Model.Ok (VDict [("x", VInt 1); ("y", VNone)]).
Proof. split; vm_compute; reflexivity. Qed.

(* non-vacuity: TOML's built-in omit_none reaches the codec through the translated merge although the user dialect
   only asks for aliases; all three entry points give the same document *)
Definition E_fx : env :=
  [mkC "A" None [mkF "x" (Some "a_x") TInt; mkF "y" None (TOpt TInt)] None None None [] false false false true;
   mkC "B" None [mkF "l" None (TList (TData "A")); mkF "m" None (TDict (TData "A"))] None None None [] false false false true].
Definition v_fx := VObj "B" [("l", VList [VObj "A" [("x", VInt 1); ("y", VNone)]]);
                             ("m", VDict [("k", VObj "A" [("x", VInt 2); ("y", VInt 3)])])].
Lemma format_example :
  let x := ns5 (KBool true) KMissing in
  has_keys merge_loop_keys fd_toml /\ has_keys merge_loop_keys x /\ ns_wf x = true /\
  dialect_compat_o E_fx (opts_of x) = true /\ exact E_fx v_fx (TData "B") = true /\
  fmt_encode (fun v => C15Model.Ok v) ECodec E_fx fd_toml (Some x) (TData "B") v_fx
    = C15Model.Ok (VDict [("l", VList [VDict [("a_x", VInt 1)]]);
                          ("m", VDict [("k", VDict [("a_x", VInt 2); ("y", VInt 3)])])]).
Proof.
  repeat split; try (vm_compute; reflexivity);
    intros k Hk; simpl in Hk; repeat (destruct Hk as [<-|Hk]; [simpl; discriminate|]); destruct Hk.
Qed.

(* ------------------------------------------------------------------ *)
(* the built-in format dialects AS READ FROM THE SOURCE (kernel K13C: format_dialect_options), completed with
   Sentinel.MISSING for the options they do not set *)
Definition complete_ns (os: list (string * kv)) : dialect_ns :=
  map (fun k => (k, match ns_get os k with Some v => v | None => KMissing end)) merge_loop_keys.

Lemma ns_get_complete os k : In k merge_loop_keys -> ns_get (complete_ns os) k <> None.
Proof.
  unfold complete_ns. induction merge_loop_keys as [|k0 r IH]; simpl; [tauto|].
  intros [->|Hin]; [rewrite String.eqb_refl; discriminate|].
  destruct (String.eqb k0 k); [discriminate|apply IH; exact Hin].
Qed.

Lemma complete_has_keys os : has_keys merge_loop_keys (complete_ns os).
Proof. intros k Hk. apply ns_get_complete. exact Hk. Qed.

Definition builtin_dialects : list (string * dialect_ns) :=
  map (fun p => (fst p, complete_ns (snd p))) format_dialect_options.

Section BuiltinTheorems.
  Context {D: Type}.
  Variable doc : val -> res D.

  (* for every built-in dialect the source defines, every user dialect given as its set options, every shape *)
  Theorem format_agree_builtin name fd xs E t v :
    In (name, fd) builtin_dialects -> ns_wf (complete_ns xs) = true ->
    no_lookalike_union E t = true -> dialect_compat_o E (opts_of (complete_ns xs)) = true -> names_ok E = true ->
    exact E v t = true ->
    fmt_encode doc EMixin E fd (Some (complete_ns xs)) t v = fmt_encode doc ECodec E fd (Some (complete_ns xs)) t v.
  Proof.
    intros Hin Hwf Hl Hc Hn Hex. unfold builtin_dialects in Hin. apply in_map_iff in Hin.
    destruct Hin as [[n os] [Heq _]]. inversion Heq; subst.
    apply (format_agree_dialect doc); try assumption; apply complete_has_keys.
  Qed.
End BuiltinTheorems.

(* TOML's omit_none is among them (non-vacuity of the built-in table w.r.t. the modelled options) *)
Example builtin_toml_omit_none :
  exists fd, In ("TOMLDialect", fd) builtin_dialects /\ opts_of fd = mkO None (Some true) None.
Proof. eexists. split; [vm_compute; right; right; left; reflexivity|vm_compute; reflexivity]. Qed.
