(* C17: the namespace of generated code is assembled with dict.setdefault from rendered names
   (builder.py ensure_object_imported / ensure_module_imported); local classes are rendered
   through clean_id (types/common.py).  Model + what it implies for identity binding. *)
From Coq Require Import List String Ascii Bool Arith Lia.
Import ListNotations.
Open Scope string_scope.

Section NS.
  Variable V : Type.
  Definition ns := list (string * V).

  Fixpoint lookup (k : string) (m : ns) : option V :=
    match m with
    | [] => None
    | (k', v) :: r => if String.eqb k k' then Some v else lookup k r
    end.

  (* dict.setdefault: an existing key keeps its value *)
  Definition setdefault (k : string) (v : V) (m : ns) : ns :=
    match lookup k m with Some _ => m | None => (m ++ [(k, v)])%list end.

  (* dict.update semantics (NOT what the library does; used to show the difference) *)
  Definition ns_update_one (k : string) (v : V) (m : ns) : ns := (k, v) :: m.

  Variable render : V -> string.

  Definition ns_setdefault (objs : list V) (m0 : ns) : ns :=
    fold_left (fun m o => setdefault (render o) o m) objs m0.

  Lemma lookup_app k m1 m2 :
    lookup k (m1 ++ m2)%list = match lookup k m1 with Some v => Some v | None => lookup k m2 end.
  Proof.
    induction m1 as [| [k' v] r IH]; simpl; [reflexivity|].
    destruct (String.eqb k k'); [reflexivity | exact IH].
  Qed.

  Lemma setdefault_keeps k v k' v' m :
    lookup k m = Some v -> lookup k (setdefault k' v' m) = Some v.
  Proof.
    intros H. unfold setdefault. destruct (lookup k' m); [exact H|].
    rewrite lookup_app, H. reflexivity.
  Qed.

  Lemma setdefault_new k v m : lookup k m = None -> lookup k (setdefault k v m) = Some v.
  Proof.
    intros H. unfold setdefault. rewrite H. rewrite lookup_app, H. simpl.
    rewrite String.eqb_refl. reflexivity.
  Qed.

  Lemma setdefault_other k k' v m :
    k <> k' -> lookup k m = None -> lookup k (setdefault k' v m) = None.
  Proof.
    intros Hn H. unfold setdefault. destruct (lookup k' m); [exact H|].
    rewrite lookup_app, H. simpl. apply String.eqb_neq in Hn. rewrite Hn. reflexivity.
  Qed.

  Lemma fold_keeps objs : forall m k v,
    lookup k m = Some v -> lookup k (ns_setdefault objs m) = Some v.
  Proof.
    induction objs as [| a r IH]; intros m k v H; simpl; [exact H|].
    apply IH. apply setdefault_keeps. exact H.
  Qed.

  (* if rendering is injective on the objects imported (and the names are fresh), every
     rendered name denotes its own object *)
  Theorem binding_partial objs : forall m0 o,
    NoDup (map render objs) ->
    (forall o', In o' objs -> lookup (render o') m0 = None) ->
    In o objs -> lookup (render o) (ns_setdefault objs m0) = Some o.
  Proof.
    induction objs as [| a r IH]; intros m0 o ND Fresh Hin; [destruct Hin|].
    simpl. inversion ND as [| x l Hnotin ND']; subst.
    destruct Hin as [-> | Hin].
    - apply fold_keeps. apply setdefault_new. apply Fresh. left. reflexivity.
    - apply IH; [exact ND' | | exact Hin].
      intros o' Ho'. apply setdefault_other.
      + intros E. apply Hnotin. rewrite <- E. apply in_map. exact Ho'.
      + apply Fresh. right. exact Ho'.
  Qed.

  (* two objects with one rendered name: the name denotes the FIRST one imported, for both *)
  Theorem first_wins o1 o2 rest :
    render o1 = render o2 ->
    lookup (render o2) (ns_setdefault (o1 :: o2 :: rest) []) = Some o1.
  Proof.
    intros E. simpl. apply fold_keeps. apply setdefault_keeps.
    unfold setdefault. simpl. rewrite E. rewrite String.eqb_refl. reflexivity.
  Qed.
End NS.

(* ---------------------------------------------------------------- clean_id (ASCII) *)

Definition is_digit (c : ascii) : bool :=
  let n := nat_of_ascii c in ((48 <=? n) && (n <=? 57))%nat.
Definition is_word (c : ascii) : bool :=
  let n := nat_of_ascii c in
  (is_digit c || ((65 <=? n) && (n <=? 90)) || ((97 <=? n) && (n <=? 122)) || (n =? 95))%nat.

Fixpoint map_nonword (s : string) : string :=
  match s with
  | EmptyString => EmptyString
  | String c r => String (if is_word c then c else "_"%char) (map_nonword r)
  end.

(* re.sub(r"\W|^(?=\d)", "_", value), "_" for the empty string *)
Definition clean_id (s : string) : string :=
  match s with
  | EmptyString => "_"
  | String c _ => if is_digit c then String "_"%char (map_nonword s) else map_nonword s
  end.

Definition local_render (qualified : string) : string := clean_id qualified.

Lemma clean_id_collision :
  "m.A_B" <> "m.A.B" /\ clean_id "m.A_B" = clean_id "m.A.B".
Proof. split; [discriminate | reflexivity]. Qed.
