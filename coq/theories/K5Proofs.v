(* Tie between the code translated from /repo (VerifGen.K5) and the reference resolution
   of Strategies.v: on every encoded source record the two translated consumers return
   exactly `resolve`, i.e. the minimum of the enabled (level, key) registrations. *)
From Coq Require Import List String Ascii ZArith Bool Arith Lia.
From Verif Require Import Regex PyK PyK_strat Strategies StrategiesProofs.
From VerifGen Require Import K5.
From Verif Require Import K5Kernel.
Import ListNotations.
Open Scope string_scope.
Open Scope nat_scope.
Open Scope list_scope.

Definition enc_osv (o: option sval) : kv := match o with Some v => enc_sval v | None => KNone end.

Fixpoint gen_of (l: list kv) : gen :=
  match l with [] => GNil | x :: r => GYield x (gen_of r) end.

Lemma gen_app_nil g : gen_app g GNil = g.
Proof. induction g as [|v r IH|e]; cbn; [reflexivity|rewrite IH; reflexivity|reflexivity]. Qed.

(* ---- lookups in encoded tables ---- *)
Lemma d_get_enc_table t k :
  d_get (map (fun p => (fst p, enc_sval (snd p))) t) k = option_map enc_sval (tlookup t k).
Proof.
  induction t as [|[k' v] r IH]; [reflexivity|]. cbn. destruct (kv_eqb k' k); [reflexivity|exact IH].
Qed.

Lemma dict_get_table t k : k_dict_get (enc_table t) k = Ok (enc_osv (tlookup t k)).
Proof. unfold enc_table, k_dict_get. rewrite d_get_enc_table. destruct (tlookup t k); reflexivity. Qed.

Lemma getattr_dialect t :
  k_getattr2 (enc_dialect (Some t)) (KStr "serialization_strategy") = Ok (enc_table t).
Proof. reflexivity. Qed.
Lemma getattr_cfg_dialect S : k_getattr2 (enc_cfg S) (KStr "dialect") = Ok (enc_dialect (t_cfgd S)).
Proof. reflexivity. Qed.
Lemma getattr_cfg_ss S : k_getattr2 (enc_cfg S) (KStr "serialization_strategy") = Ok (enc_table (t_cfg S)).
Proof. reflexivity. Qed.

Lemma meta_get_strat S :
  k_dict_get (enc_meta S) (KStr "serialization_strategy") = Ok (enc_osv (f_strat S)).
Proof. unfold enc_meta. destruct (f_ser S), (f_de S), (f_strat S); reflexivity. Qed.
Lemma meta_get_ser S :
  k_dict_get (enc_meta S) (KStr "serialize") = Ok (match f_ser S with Some f => enc_fnv f | None => KNone end).
Proof. unfold enc_meta. destruct (f_ser S), (f_de S), (f_strat S); reflexivity. Qed.
Lemma meta_get_de S :
  k_dict_get (enc_meta S) (KStr "deserialize") = Ok (match f_de S with Some f => enc_fnv f | None => KNone end).
Proof. unfold enc_meta. destruct (f_ser S), (f_de S), (f_strat S); reflexivity. Qed.

Lemma enc_fnv_not_none f : k_is (enc_fnv f) KNone = false.
Proof. destruct f; reflexivity. Qed.

(* ---- the generators ---- *)
Definition level_items (S: sources) (k: kv) : list (option sval) :=
  flat_map (fun l => match tbl S l with Some t => [tlookup t k] | None => [] end) levels.

Definition key_items (S: sources) (k: kv) : list (option sval) :=
  if k_is_hashable k then f_strat S :: level_items S k else [].

Arguments enc_table : simpl never.

Lemma iter_inner_spec S k :
  iter_serialization_strategies_inner (enc_dialect (t_call S)) (enc_cfg S) (enc_dialect (t_dflt S)) k
  = gen_of (map enc_osv (level_items S k)).
Proof.
  unfold iter_serialization_strategies_inner, level_items, levels.
  rewrite !getattr_cfg_dialect, !getattr_cfg_ss. cbn [gbind flat_map tbl].
  destruct (t_call S) as [tc|], (t_cfgd S) as [td|], (t_dflt S) as [tf|];
    cbn -[k_dict_get]; rewrite ?dict_get_table; cbn; rewrite ?dict_get_table; cbn; reflexivity.
Qed.

Lemma iter_spec S k :
  iter_serialization_strategies (enc_dialect (t_call S)) (enc_cfg S) (enc_dialect (t_dflt S)) (enc_meta S) k
  = gen_of (map enc_osv (key_items S k)).
Proof.
  unfold iter_serialization_strategies, key_items. cbn [k_truthy].
  destruct (k_is_hashable k); [|reflexivity].
  rewrite meta_get_strat. cbn [gbind]. rewrite gen_app_nil, iter_inner_spec. reflexivity.
Qed.

(* ---- the inner loop: first effective value of one key's generator ---- *)
Fixpoint first_effect (d: dir) (os: list (option sval)) : option winner :=
  match os with
  | [] => None
  | o :: r => match bindo o (effect d) with Some w => Some w | None => first_effect d r end
  end.

Lemma for_strategy_ser_spec os : forall A B C M An T O ct typ K,
  get_overridden_serialization_method_for_strategy A B C M An T O ct typ K (gen_of (map enc_osv os)) KNone
  = match first_effect Ser os with Some w => Ok (enc_winner Ser w) | None => K KNone end.
Proof.
  induction os as [|o r IH]; intros; [reflexivity|].
  destruct o as [[|s e|a g s e]|]; cbn [map gen_of enc_osv first_effect bindo effect].
  - reflexivity.
  - destruct s as [[]|], e as [[]|]; cbn; try reflexivity; apply IH.
  - destruct a, g; cbn; reflexivity.
  - cbn. apply IH.
Qed.

Lemma for_strategy_de_spec os : forall A B C M An T O ct typ K,
  get_overridden_deserialization_method_for_strategy A B C M An T O ct typ K (gen_of (map enc_osv os)) KNone
  = match first_effect De os with Some w => Ok (enc_winner De w) | None => K KNone end.
Proof.
  induction os as [|o r IH]; intros; [reflexivity|].
  destruct o as [[|s e|a g s e]|]; cbn [map gen_of enc_osv first_effect bindo effect].
  - reflexivity.
  - destruct s as [[]|], e as [[]|]; cbn; try reflexivity; apply IH.
  - destruct a, g; cbn; reflexivity.
  - cbn. apply IH.
Qed.

(* ---- the outer loop over the key list ---- *)
Fixpoint first_key (d: dir) (S: sources) (ks: list kv) : option winner :=
  match ks with
  | [] => None
  | k :: r => match first_effect d (key_items S k) with Some w => Some w | None => first_key d S r end
  end.

Lemma for_typ_ser_spec S ks : forall An T O ct K,
  get_overridden_serialization_method_for_typ (enc_dialect (t_call S)) (enc_cfg S) (enc_dialect (t_dflt S))
    (enc_meta S) An T O ct K ks KNone
  = match first_key Ser S ks with Some w => Ok (enc_winner Ser w) | None => K KNone end.
Proof.
  induction ks as [|k r IH]; intros; [reflexivity|].
  cbn [get_overridden_serialization_method_for_typ first_key].
  rewrite iter_spec, for_strategy_ser_spec.
  destruct (first_effect Ser (key_items S k)); [reflexivity|apply IH].
Qed.

Lemma for_typ_de_spec S ks : forall An T O ct K,
  get_overridden_deserialization_method_for_typ (enc_dialect (t_call S)) (enc_cfg S) (enc_dialect (t_dflt S))
    (enc_meta S) An T O ct K ks KNone
  = match first_key De S ks with Some w => Ok (enc_winner De w) | None => K KNone end.
Proof.
  induction ks as [|k r IH]; intros; [reflexivity|].
  cbn [get_overridden_deserialization_method_for_typ first_key].
  rewrite iter_spec, for_strategy_de_spec.
  destruct (first_effect De (key_items S k)); [reflexivity|apply IH].
Qed.

(* ---- the two consumers, in nested form ---- *)
Definition nested (d: dir) (S: sources) (ks: list kv) : option winner :=
  match f_opt S d with
  | Some f => Some (fnv_winner f)
  | None => first_key d S ks
  end.

Definition enc_ow (d: dir) (o: option winner) : kv :=
  match o with Some w => enc_winner d w | None => KNone end.

Lemma enc_fnv_winner d f : enc_winner d (fnv_winner f) = enc_fnv f.
Proof. destruct f; reflexivity. Qed.

Lemma ser_nested S An T O :
  get_overridden_serialization_method (enc_dialect (t_call S)) (enc_cfg S) (enc_dialect (t_dflt S))
    (enc_meta S) An T O = Ok (enc_ow Ser (nested Ser S (keys_of An T O))).
Proof.
  unfold get_overridden_serialization_method, nested, keys_of. rewrite meta_get_ser. cbn [bind f_opt].
  destruct (f_ser S) as [f|].
  - cbn [k_truthy]. rewrite enc_fnv_not_none. cbn. rewrite enc_fnv_winner. reflexivity.
  - cbn [k_truthy k_is kv_eqb negb].
    destruct (k_truthy An); cbn [bind k_list_insert k_iter_list Z.ltb Z.compare Z.to_nat insert_at];
      rewrite for_typ_ser_spec; destruct (first_key Ser S _); reflexivity.
Qed.

Lemma de_nested S An T O :
  get_overridden_deserialization_method (enc_dialect (t_call S)) (enc_cfg S) (enc_dialect (t_dflt S))
    (enc_meta S) An T O = Ok (enc_ow De (nested De S (keys_of An T O))).
Proof.
  unfold get_overridden_deserialization_method, nested, keys_of. rewrite meta_get_de. cbn [bind f_opt].
  destruct (f_de S) as [f|].
  - cbn [k_truthy]. rewrite enc_fnv_not_none. cbn. rewrite enc_fnv_winner. reflexivity.
  - cbn [k_truthy k_is kv_eqb negb].
    destruct (k_truthy An); cbn [bind k_list_insert k_iter_list Z.ltb Z.compare Z.to_nat insert_at];
      rewrite for_typ_de_spec; destruct (first_key De S _); reflexivity.
Qed.

(* ---- nested form = first hit of the documented enumeration ---- *)
Lemma first_hit_app {A B} (f: A -> option B) (a b: list A) :
  first_hit f (a ++ b) = match first_hit f a with Some x => Some x | None => first_hit f b end.
Proof. induction a as [|x r IH]; [reflexivity|]. cbn. destruct (f x); [reflexivity|exact IH]. Qed.

Definition key_regs (S: sources) (d: dir) (k: kv) : option winner :=
  option_map snd (first_hit (reg_at S d k) levels).

Fixpoint first_regs (d: dir) (S: sources) (ks: list kv) : option winner :=
  match ks with
  | [] => None
  | k :: r => match key_regs S d k with Some w => Some w | None => first_regs d S r end
  end.

Lemma key_items_effect S d k :
  first_effect d (key_items S k) =
  if k_is_hashable k
  then match bindo (f_strat S) (effect d) with Some w => Some w | None => key_regs S d k end
  else None.
Proof.
  unfold key_items, key_regs, reg_at. destruct (k_is_hashable k); [|reflexivity].
  cbn [first_effect]. destruct (bindo (f_strat S) (effect d)); [reflexivity|].
  unfold level_items, levels. cbn [flat_map tbl first_hit].
  destruct (t_call S) as [tc|], (t_cfgd S) as [td|], (t_dflt S) as [tf|]; cbn [app first_effect bindo];
    repeat match goal with |- context [bindo (tlookup ?t k) (effect d)] =>
      destruct (bindo (tlookup t k) (effect d)); cbn [option_map snd]; try reflexivity end.
Qed.

Lemma key_regs_unhashable S d k : k_is_hashable k = false -> key_regs S d k = None.
Proof. intros H. unfold key_regs, reg_at. rewrite H. reflexivity. Qed.

Lemma first_key_regs d S ks :
  first_key d S ks =
  match (if existsb k_is_hashable ks then bindo (f_strat S) (effect d) else None) with
  | Some w => Some w
  | None => first_regs d S ks
  end.
Proof.
  induction ks as [|k r IH]; [reflexivity|].
  cbn [first_key first_regs existsb]. rewrite key_items_effect.
  destruct (k_is_hashable k) eqn:Hk; cbn [orb].
  - destruct (bindo (f_strat S) (effect d)) eqn:Ef; [reflexivity|].
    destruct (key_regs S d k); [reflexivity|].
    rewrite IH. destruct (existsb k_is_hashable r); reflexivity.
  - rewrite (key_regs_unhashable S d k Hk). exact IH.
Qed.

Lemma block_hit S d ks0 i k :
  nth_error ks0 i = Some k ->
  option_map snd (first_hit (at_slot S ks0 d) (map (SReg i) levels)) = key_regs S d k.
Proof.
  intros H. unfold key_regs, levels. cbn [map first_hit at_slot]. rewrite H. cbn [bindo].
  repeat match goal with |- context [reg_at S d k ?l] => destruct (reg_at S d k l); cbn [option_map snd]; try reflexivity end.
Qed.

Lemma first_regs_enum d S : forall ks pre,
  first_regs d S ks =
  option_map snd (first_hit (at_slot S (pre ++ ks) d)
                            (flat_map (fun i => map (SReg i) levels) (seq (List.length pre) (List.length ks)))).
Proof.
  induction ks as [|k r IH]; intros pre; [reflexivity|].
  cbn [first_regs List.length seq flat_map]. rewrite first_hit_app.
  assert (Hn: nth_error (pre ++ k :: r) (List.length pre) = Some k).
  { rewrite nth_error_app2 by lia. rewrite Nat.sub_diag. reflexivity. }
  pose proof (block_hit S d _ _ _ Hn) as Hb.
  destruct (first_hit (at_slot S (pre ++ k :: r) d) (map (SReg (List.length pre)) levels)) as [[s w]|].
  - cbn in Hb. rewrite <- Hb. reflexivity.
  - cbn in Hb. rewrite <- Hb.
    specialize (IH (pre ++ [k])). rewrite <- app_assoc in IH. cbn [app] in IH.
    rewrite app_length in IH. cbn [List.length] in IH. rewrite Nat.add_1_r in IH. exact IH.
Qed.

Theorem nested_resolve d S ks : nested d S ks = option_map snd (resolve S ks d).
Proof.
  unfold nested, resolve, enumeration. cbn [first_hit at_slot].
  destruct (f_opt S d) as [f|]; cbn [option_map snd]; [reflexivity|].
  rewrite first_key_regs.
  destruct (if existsb k_is_hashable ks then bindo (f_strat S) (effect d) else None); [reflexivity|].
  apply (first_regs_enum d S ks []).
Qed.

Lemma enc_ow_result d r : enc_ow d (option_map snd r) = enc_result d r.
Proof. destruct r as [[s w]|]; reflexivity. Qed.

(* ---- main tie: translated code = reference resolution ---- *)
Theorem ser_kernel_resolve S An T O :
  get_overridden_serialization_method (enc_dialect (t_call S)) (enc_cfg S) (enc_dialect (t_dflt S))
    (enc_meta S) An T O = Ok (enc_result Ser (resolve S (keys_of An T O) Ser)).
Proof. rewrite ser_nested, nested_resolve, enc_ow_result. reflexivity. Qed.

Theorem de_kernel_resolve S An T O :
  get_overridden_deserialization_method (enc_dialect (t_call S)) (enc_cfg S) (enc_dialect (t_dflt S))
    (enc_meta S) An T O = Ok (enc_result De (resolve S (keys_of An T O) De)).
Proof. rewrite de_nested, nested_resolve, enc_ow_result. reflexivity. Qed.

Theorem kernel_resolve d S An T O :
  kernel d S An T O = Ok (enc_result d (resolve S (keys_of An T O) d)).
Proof. destruct d; [apply ser_kernel_resolve|apply de_kernel_resolve]. Qed.

(* ---- the first registry handler: what is emitted for the field ---- *)
Theorem codegen_resolve d S An T O e :
  codegen d S An T O e = Ok (emit d (resolve S (keys_of An T O) d) e).
Proof.
  destruct d; unfold codegen, pack_type_with_overridden_serialization, unpack_type_with_overridden_deserialization.
  - rewrite ser_kernel_resolve. cbn [bind].
    destruct (resolve S (keys_of An T O) Ser) as [[s [|m|n|v]]|]; reflexivity.
  - rewrite de_kernel_resolve. cbn [bind].
    destruct (resolve S (keys_of An T O) De) as [[s [|m|n|v]]|]; reflexivity.
Qed.

(* ---- the two directions are one function ---- *)
Lemma enc_sval_swap_ann v d :
  enc_winner (flip d) (swap_winner (WAnn v)) = k_expr_wrapper (wrapper_tag (flip d)) (enc_sval (swap_sval v)).
Proof. reflexivity. Qed.

Theorem kernel_sym d S An T O :
  kernel (flip d) (swap_sources S) An T O
  = Ok (enc_result (flip d) (swap_result (resolve S (keys_of An T O) d))).
Proof. rewrite kernel_resolve, resolve_swap. reflexivity. Qed.

(* ---- the statements used by props/C10_precedence.v ---- *)
Theorem c10_precedence d S An T O e :
  let ks := keys_of An T O in
  kernel d S An T O = Ok (enc_result d (resolve S ks d)) /\
  codegen d S An T O e = Ok (emit d (resolve S ks d) e) /\
  is_lexmin S ks d (resolve S ks d) /\
  (forall r, is_lexmin S ks d r -> r = resolve S ks d).
Proof.
  intros ks. split; [apply kernel_resolve|]. split; [apply codegen_resolve|].
  split; [apply resolve_is_lexmin|apply lexmin_unique].
Qed.

Theorem c10_empty d S An T O e :
  (forall s, at_slot S (keys_of An T O) d s = None) ->
  kernel d S An T O = Ok KNone /\ codegen d S An T O e = Ok KNone.
Proof.
  intros H. apply resolve_none_iff in H.
  rewrite kernel_resolve, codegen_resolve, H. split; reflexivity.
Qed.

Theorem c10_pass_through d S An T O e s :
  is_lexmin S (keys_of An T O) d (Some (s, WPass)) ->
  kernel d S An T O = Ok k_pass_through /\ codegen d S An T O e = Ok e.
Proof.
  intros H. apply lexmin_unique in H.
  rewrite kernel_resolve, codegen_resolve, <- H. split; reflexivity.
Qed.

Theorem c10_sym S An T O :
  let ks := keys_of An T O in
  kernel Ser S An T O = Ok (enc_result Ser (resolve S ks Ser)) /\
  kernel De S An T O = Ok (enc_result De (resolve S ks De)) /\
  (forall d, resolve (swap_sources S) ks (flip d) = swap_result (resolve S ks d)) /\
  (forall d, kernel (flip d) (swap_sources S) An T O = Ok (enc_result (flip d) (swap_result (resolve S ks d)))).
Proof.
  intros ks. split; [apply kernel_resolve|]. split; [apply kernel_resolve|].
  split; intros d; [apply resolve_swap|apply kernel_sym].
Qed.

(* ---- Registry.get: which keys reach the resolution ---- *)
Lemma registry_prepare_spec rt org isann t o a :
  registry_prepare rt org isann (mk_spec t o a) =
  Ok (match keys_after rt org isann t a with (a', t', o') => mk_spec t' o' a' end).
Proof.
  unfold registry_prepare, keys_after, mk_spec. cbn. destruct (isann t); reflexivity.
Qed.

Theorem c10_keys d S rt org isann t o a e :
  first_handler d S rt org isann (mk_spec t o a) e =
  match keys_after rt org isann t a with
  | (a', t', o') => Ok (emit d (resolve S (keys_of a' t' o') d) e)
  end.
Proof.
  unfold first_handler. rewrite registry_prepare_spec.
  destruct (keys_after rt org isann t a) as [[a' t'] o']. cbn [bind mk_spec k_getattr2 ns_get String.eqb Ascii.eqb Bool.eqb].
  cbn. apply codegen_resolve.
Qed.
