(* C05 / kernel K105c: vocabulary and meaning of the prologue of the dispatcher emitted by
   DiscriminatedUnionUnpackerBuilder._add_body for a discriminator with a field (coq/gen/K105c.v,
   tools/kernels/k105c_discr_prologue.py).  Python meaning with exception classes: value[<field>] is Core.py_getitem_str
   (KeyError for a missing key, TypeError for a non-mapping), hash(tag) raises TypeError for an unhashable tag, an
   `except C:` clause catches exactly class C here (the raised classes are the builtin KeyError / TypeError).
   Definitions only. *)
From Coq Require Import List String Bool.
From Verif Require Import Core Errs.
Import ListNotations.

Inductive dexc := DKeyError | DTypeError.

Inductive dstmt :=
| DTry (body: list dstmt) (handlers: list (dexc * list dstmt))   (* try: body / except C1: h1 / except C2: h2 ... *)
| DReadTag                    (* discriminator = value[<field>] *)
| DHash                       (* hash(discriminator) *)
| DRaiseMissing               (* raise MissingDiscriminatorError(<field>) from None *)
| DIfNotDict (body orelse: list dstmt)   (* if not isinstance(value, dict): body / else: orelse *)
| DRaiseValueError            (* raise ValueError('Argument for ... should be a dict instance') from None *)
| DReraise                    (* raise *)
| DRaiseNoVariant.            (* raise SuitableVariantNotFoundError(<type>, <field>, discriminator) from None *)

Definition catches (c: dexc) (e: exn) : bool :=
  match c, e with
  | DKeyError, XKeyError | DTypeError, XTypeError => true
  | _, _ => false end.

Fixpoint find_handler (hs: list (dexc * list dstmt)) (e: exn) : option (list dstmt) :=
  match hs with
  | [] => None
  | (c, h) :: r => if catches c e then Some h else find_handler r e end.

Section ListRunD.
  Variable run : dstmt -> option pv -> res (option pv).
  Fixpoint run_dlist (l: list dstmt) (tag: option pv) {struct l} : res (option pv) :=
    match l with
    | [] => Ok tag
    | s :: r => match run s tag with Exn e => Exn e | Ok t => run_dlist r t end
    end.
End ListRunD.

Section RunPrologue.
  Variable field : string.
  Variable v : pv.

  (* [cur]: the exception being handled (for a bare `raise`); state: the local `discriminator` *)
  Fixpoint run_d (cur: option exn) (s: dstmt) (tag: option pv) {struct s} : res (option pv) :=
    match s with
    | DTry b hs =>
        match run_dlist (run_d cur) b tag with
        | Ok t => Ok t
        | Exn e =>
            (fix handle (l: list (dexc * list dstmt)) : res (option pv) :=
               match l with
               | [] => Exn e
               | (c, h) :: r => if catches c e then run_dlist (run_d (Some e)) h tag else handle r
               end) hs
        end
    | DReadTag => match py_getitem_str v field with Ok t => Ok (Some t) | Exn e => Exn e end
    | DHash => match tag with
               | Some t => if hashable t then Ok tag else Exn XTypeError
               | None => Exn (XOther "NameError") end
    | DRaiseMissing => Exn (XMissingDiscriminator field)
    | DIfNotDict b o => if is_dict v then run_dlist (run_d cur) o tag else run_dlist (run_d cur) b tag
    | DRaiseValueError => Exn XValueError
    | DReraise => match cur with Some e => Exn e | None => Exn (XOther "RuntimeError") end
    | DRaiseNoVariant => Exn XNoVariant
    end.

  Definition run_prologue (p: list dstmt) : res (option pv) := run_dlist (run_d None) p None.
End RunPrologue.
