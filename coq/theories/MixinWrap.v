(* C04: the mixin methods from_<format> / to_<format> as programs - generated ones from what K104b / K104c read in
   mashumaro/core/meta/code/builder.py, the two plain ones (json, yaml) from the method bodies K104a recognised in
   mashumaro/mixins/{json,yaml}.py - run with the meaning of CodecWrap.v over the format model: they are Fmt.decode /
   Fmt.encode, hence the same functions as the Decoder / Encoder objects (FmtEntriesProofs.v). *)
From Coq Require Import List String ZArith Bool.
From Verif Require Import Fmt FmtProofs FmtDialectSource FmtEntries CodecWrap CodecWrapProofs FmtEntriesProofs
                          EncKwargs EncKwargsProofs.
From VerifGen Require Import K40 K104a K104b K104c.
Import ListNotations.
Open Scope string_scope.

(* the pack method: def, one return statement (K104b's decision), install *)
Definition pack_prog (r: rstmt) : list cinstr :=
  [IDef; match r with RPlain => IReturnExpr | _ => IReturnPost end; IInstallDef].

Definition no_kwargs (m: mentry) : bool := match m_enc_kwargs m with [] => true | _ => false end.

Definition mixin_from_prog (m: mentry) (dialect_given: bool) : list cinstr :=
  match m_kind m with
  | MGenerated => if dialect_given then from_dialect_prog true else from_plain_prog true
  | MPlain => [IDef; IPre; IReturnExpr; IInstallDef]            (* plain Python: return cls.from_dict of decoder(data) *)
  end.
Definition mixin_to_prog (m: mentry) (dialect_given: bool) : list cinstr :=
  match m_kind m with
  | MGenerated => pack_prog ((if dialect_given then ret_dialect else ret_plain) true (negb (no_kwargs m)))
  | MPlain => [IDef; IReturnPost; IInstallDef]                  (* plain Python: return encoder of self.to_dict *)
  end.

Section Methods.
  Variable render : lkind -> string -> string.
  Variable parse_leaf : lkind -> string -> option string.
  Variable urender : nat -> lkind -> string -> string.
  Variable uparse : nat -> lkind -> string -> option string.
  Variable E : env.
  Variable EN : enums.
  Variable doc : Type.
  Variable ser : fmt -> bv -> doc.
  Variable parse : fmt -> doc -> option bv.

  Definition no_method (x: uval doc) : option (uval doc) := None.
  (* the caller's dialect in force: X with `dialect=X`, nothing otherwise *)
  Definition call_dialect (dialect_given: bool) (X: udialect) : udialect := if dialect_given then X else no_user.

  Definition mixin_from (F: fmt) (m: mentry) (dialect_given: bool) (X: udialect) (t: ty) : uval doc -> option (uval doc) :=
    call (uval doc) (uval doc) (pre_of doc parse F) (post_of doc ser F)
         (unpack_expr parse_leaf uparse E EN doc (eff_lsem F (call_dialect dialect_given X)) t) no_method
         (install (mixin_from_prog m dialect_given) None NotInstalled).
  Definition mixin_to (F: fmt) (m: mentry) (dialect_given: bool) (X: udialect) (t: ty) : uval doc -> option (uval doc) :=
    call (uval doc) (uval doc) (pre_of doc parse F) (post_of doc ser F)
         (pack_expr render urender E EN doc (eff_lsem F (call_dialect dialect_given X)) t) no_method
         (install (mixin_to_prog m dialect_given) None NotInstalled).

  Theorem mixin_from_is_decode F m dg X t d :
    mixin_from F m dg X t (UDoc doc d)
    = res_opt doc (UObj doc) (decode parse_leaf uparse E EN doc parse (eff_lsem F (call_dialect dg X)) F t d).
  Proof.
    unfold mixin_from, mixin_from_prog, decode.
    destruct (m_kind m); destruct dg; simpl; destruct (parse F d); reflexivity.
  Qed.

  Theorem mixin_to_is_encode F m dg X t v :
    mixin_to F m dg X t (UObj doc v)
    = res_opt doc (UDoc doc) (encode render urender E EN doc ser (eff_lsem F (call_dialect dg X)) F t v).
  Proof.
    unfold mixin_to, mixin_to_prog, encode.
    destruct (m_kind m); destruct dg; destruct (no_kwargs m); simpl;
      match goal with |- context [pack ?a ?b ?c ?d ?e ?f ?g ?h] => destruct (pack a b c d e f g h) end; reflexivity.
  Qed.

  (* mixin method with `dialect=X` and codec object with `default_dialect=X`: the same function of the document / value;
     without a dialect on either side likewise (X = no_user) *)
  Theorem mixin_and_codec_alike F c m X t bmd bme Md Me :
    assoc_fmt F source_codecs = Some c ->
    (bmd = true -> forall x, unpack_expr parse_leaf uparse E EN doc (rule_lsem F (c_dec_rule c) X) t x = Md x) ->
    (bme = true -> forall x, pack_expr render urender E EN doc (rule_lsem F (c_enc_rule c) X) t x = Me x) ->
    (forall d, decoder_obj parse_leaf uparse E EN doc ser parse F c X t bmd Md (UDoc doc d) = mixin_from F m true X t (UDoc doc d)) /\
    (forall v, encoder_obj render urender E EN doc ser parse F c X t bme Me (UObj doc v) = mixin_to F m true X t (UObj doc v)).
  Proof.
    intros Hc HMd HMe. split.
    - intro d. rewrite (decoder_obj_is_decode parse_leaf uparse E EN doc ser parse F c X t bmd Md Hc HMd).
      rewrite mixin_from_is_decode. reflexivity.
    - intro v. rewrite (encoder_obj_is_encode render urender E EN doc ser parse F c X t bme Me Hc HMe).
      rewrite mixin_to_is_encode. reflexivity.
  Qed.
End Methods.
