(* C16 (round 3) - a safe branch table renders every default value as a literal expression that
   denotes it and evaluates back to it. *)
From Coq Require Import List NArith ZArith Bool Lia Decimal DecimalN.
From Verif Require Import PyStrLit PyStrLitProofs PyLit PyLitProofs Splice DefaultLit.
Import ListNotations.
Open Scope N_scope.

Lemma find_safe t v a : forallb branch_safe t = true -> find_branch t v = Some a ->
  exists g, branch_safe (g, a) = true /\ guard_matches g v = true.
Proof.
  induction t as [|[g a'] t IH]; [discriminate|]. cbn [forallb find_branch]. intros Hs Hf.
  apply andb_true_iff in Hs. destruct Hs as [Hb Hs].
  destruct (guard_matches g v) eqn:E.
  - injection Hf as <-. eauto.
  - apply IH; assumption.
Qed.

Lemma find_total t v : ends_in_else t = true -> find_branch t v <> None.
Proof.
  unfold ends_in_else. intros H.
  assert (E: exists t' a, t = t' ++ [(GElse, a)]).
  { destruct (List.rev t) as [|[g a] l] eqn:Er; [discriminate|]. destruct g; try discriminate.
    exists (List.rev l), a. rewrite <- (rev_involutive t), Er. reflexivity. }
  destruct E as (t' & a & ->). clear H.
  induction t' as [|[g a'] t' IH]; cbn [List.app find_branch].
  - discriminate.
  - destruct (guard_matches g v); [discriminate | exact IH].
Qed.

(* the fresh names are names *)
Lemma uint_chars_digits u : forallb is_digit (uint_chars u) = true.
Proof. induction u; cbn [uint_chars forallb]; try reflexivity; rewrite IHu; reflexivity. Qed.

Lemma digit_ident c : is_digit c = true -> is_ident_char c = true.
Proof. unfold is_digit, is_ident_char. intros ->. reflexivity. Qed.

Lemma objname_ok i : name_ok (objname i) = true.
Proof.
  unfold objname, name_ok.
  assert (H: forallb is_ident_char (118 :: 95 :: render_nat (N.of_nat i)) = true).
  { cbn [forallb]. change (is_ident_char 118) with true. change (is_ident_char 95) with true. cbn [andb].
    unfold render_nat. apply forallb_forall. intros c Hc.
    apply digit_ident. pose proof (uint_chars_digits (N.to_uint (N.of_nat i))) as Hd.
    eapply forallb_forall in Hd; eauto. }
  rewrite H. reflexivity.
Qed.

Section Sound.
  Variable t : list (dguard * daction).
  Hypothesis Hsafe : branches_safe t = true.

  Let Hall : forallb branch_safe t = true.
  Proof. unfold branches_safe in Hsafe. apply andb_true_iff in Hsafe. apply Hsafe. Qed.
  Let Helse : ends_in_else t = true.
  Proof. unfold branches_safe in Hsafe. apply andb_true_iff in Hsafe. apply Hsafe. Qed.

  Lemma dsize_elems l x : In x l -> (dsize x <= fold_right (fun x a => dsize x + a) O l)%nat.
  Proof.
    induction l as [|y l IH]; [intros []|]. intros [->|H]; cbn; [lia|]. specialize (IH H). lia.
  Qed.

  Lemma shape_f_sound : forall n v, (dsize v < n)%nat -> dwf t v = true ->
    exists l, shape_f n t v = Some l /\ denotes l v /\ wf_lit l.
  Proof.
    induction n as [|n IH]; intros v Hn Hw; [lia|].
    cbn [shape_f].
    destruct (find_branch t v) as [a|] eqn:Ef; [| exfalso; eapply find_total; eauto].
    destruct (find_safe t v a Hall Ef) as (g & Hb & Hm).
    destruct a.
    - (* str(value.value) *)
      destruct g; try discriminate Hb. destruct v; try discriminate Hm.
      eexists. split; [reflexivity|]. split; [constructor | reflexivity].
    - (* repr *)
      destruct g; try discriminate Hb.
      + destruct v; try discriminate Hm; (eexists; split; [reflexivity|]; split; [constructor|]); try reflexivity.
        exact Hw.
      + destruct v; try discriminate Hm. cbn [dwf] in Hw. rewrite Ef in Hw. discriminate.
    - (* tuple, element-wise *)
      destruct g; try discriminate Hb. destruct v as [| | | | | |l|]; try discriminate Hm.
      cbn [dwf] in Hw. cbn [dsize] in Hn.
      assert (G: exists ls, (fix go (l: list dval) : option (list lit) :=
                    match l with
                    | [] => Some []
                    | x :: r => match shape_f n t x, go r with
                                | Some a, Some b => Some (a :: b)
                                | _, _ => None
                                end
                    end) l = Some ls /\ Forall2 denotes ls l /\ forallb wf_litb ls = true).
      { assert (Hin: forall x, In x l -> (dsize x < n)%nat /\ dwf t x = true).
        { intros x Hx. split.
          - pose proof (dsize_elems l x Hx). lia.
          - eapply forallb_forall in Hw; eauto. }
        clear Hn Hw Ef Hm. induction l as [|x r IHr].
        - exists []. repeat split; constructor.
        - destruct (Hin x (or_introl eq_refl)) as [Hx1 Hx2].
          destruct (IH x Hx1 Hx2) as (lx & Ex & Dx & Wx).
          destruct IHr as (ls & Els & Dls & Wls); [intros y Hy; apply Hin; right; exact Hy|].
          exists (lx :: ls). rewrite Ex, Els. repeat split.
          + constructor; assumption.
          + cbn [forallb]. unfold wf_lit in Wx. rewrite Wx, Wls. reflexivity. }
      destruct G as (ls & Els & Dls & Wls). rewrite Els. cbn [option_map].
      eexists. split; [reflexivity|]. split; [constructor; exact Dls | exact Wls].
    - (* import by name *)
      eexists. split; [reflexivity|]. split; [constructor | apply objname_ok].
    - destruct g; discriminate Hb.
  Qed.

  Theorem shape_sound v : dwf t v = true ->
    exists l, shape t v = Some l /\ denotes l v /\
      forall p rest, oracle_ok p -> ends_token rest = true ->
        eval_lit (render_lit p l ++ rest) = Some (l, rest).
  Proof.
    intros Hw. destruct (shape_f_sound (S (dsize v)) v (Nat.lt_succ_diag_r _) Hw) as (l & E & D & W).
    exists l. split; [exact E|]. split; [exact D|]. intros p rest Hp Hr. apply render_eval; assumption.
  Qed.
End Sound.

(* the pre-fix table (repr applied to a whole tuple, defect cb2c8da) is not safe, and its rendering
   of a tuple that holds an object is not a literal of the model *)
Definition table_repr_tuple : list (dguard * daction) :=
  [(GIntFlag, AStrIntValue); (GTypeIn [TStr; TInt; TBool; TNone], ARepr); (GFiniteFloat, ARepr);
   (GPlainTuple, ARepr); (GElse, AImportByName)].
Lemma repr_tuple_refuted :
  branches_safe table_repr_tuple = false /\ shape table_repr_tuple (DTuple [DOther 1; DInt 1]) = None.
Proof. split; reflexivity. Qed.
