(* C05 / kernel K105a: vocabulary and meaning of the lines that FieldUnpackerCodeBlockBuilder.build (builder.py)
   emits for ONE field of a generated from_dict.

   The function is translated to Gallina on every run (coq/gen/K105a.v, tools/kernels/k105a_field_block.py): it maps five
   facts about the field to a list of abstract statements.  This file gives the statements their Python meaning,
   with exception classes: d.get on a non-mapping raises what Core.py_get says (AttributeError), the unpacker
   expression raises whatever the field's decoder raises, the handler is a BARE `except:` (every class, BaseException
   included, becomes InvalidFieldValue).  K105aProofs.v proves that the emitted block computes Errs.field_step.
   Definitions only. *)
From Coq Require Import List String Bool.
From Verif Require Import Core Errs.
Import ListNotations.

Inductive tgt := TValue | TField.              (* the locals `value` and `__<name>` *)
Inductive ksel := KAlias | KName | KKey.       (* {alias!r} | '<name>' | {key!r}, key = name if alias is None else alias *)
Inductive sexpr :=
| EUnpack                                      (* the unpacker expression of the field type, over the local `value` *)
| ETgt (t: tgt)                                (* the text "value" / "__<name>" *)
| ENone.                                       (* the text "None" *)

Inductive fstmt :=
| SGet (t: tgt) (k: ksel)                      (* <t> = d.get(<k>, MISSING) *)
| SIfMissing (t: tgt) (body: list fstmt)       (* if <t> is MISSING: *)
| SIfNotMissing (t: tgt) (body: list fstmt)    (* if <t> is not MISSING: *)
| SIfNotNone (t: tgt) (body: list fstmt)       (* if <t> is not None: *)
| SElse (body: list fstmt)                     (* else:  (of the `if` right before it) *)
| SRaiseMissing                                (* raise MissingField('<name>',<type>,cls) from None *)
| STry (body: list fstmt)                      (* try: <body> / except: raise InvalidFieldValue('<name>',<type>,value,cls) *)
| SSetKw (e: sexpr)                            (* kwargs['<name>'] = <e> *)
| SSetField (e: sexpr).                        (* __<name> = <e> *)

Definition tgt_eqb (a b: tgt) : bool := match a, b with TValue, TValue | TField, TField => true | _, _ => false end.
(* comparison of the expression TEXTS *)
Definition sexpr_eqb (a b: sexpr) : bool :=
  match a, b with
  | EUnpack, EUnpack | ENone, ENone => true
  | ETgt x, ETgt y => tgt_eqb x y
  | _, _ => false end.

(* locals: None = the MISSING sentinel (or not yet bound) *)
Record flocals := { l_value : option pv; l_field : option pv; l_kw : option pv }.
Definition flocals0 : flocals := {| l_value := None; l_field := None; l_kw := None |}.
Definition get_t (t: tgt) (st: flocals) : option pv := match t with TValue => l_value st | TField => l_field st end.
Definition set_t (t: tgt) (x: option pv) (st: flocals) : flocals :=
  match t with
  | TValue => {| l_value := x; l_field := l_field st; l_kw := l_kw st |}
  | TField => {| l_value := l_value st; l_field := x; l_kw := l_kw st |} end.
Definition set_kw (x: pv) (st: flocals) : flocals := {| l_value := l_value st; l_field := l_field st; l_kw := Some x |}.
Definition missing_obj : pv := VOther "MISSING".
Definition obj_of (o: option pv) : pv := match o with Some v => v | None => missing_obj end.

Section ListRun.
  (* [run prev s st]: prev = the statement before s was an `if` whose test failed; result: new locals and the same
     flag for the next statement *)
  Variable run : bool -> fstmt -> flocals -> res (flocals * bool).
  Fixpoint run_list (prev: bool) (l: list fstmt) (st: flocals) {struct l} : res flocals :=
    match l with
    | [] => Ok st
    | s :: r => match run prev s st with
                | Exn e => Exn e
                | Ok (st', p) => run_list p r st' end
    end.
End ListRun.

Section RunField.
  Variable cls : string.
  Variable f : fspec.
  Variable d : pv.

  Definition key_of (k: ksel) : string :=
    match k with
    | KAlias | KKey => fs_key f
    | KName => match fs_key2 f with Some k2 => k2 | None => fs_name f end
    end.

  Definition eval (e: sexpr) (st: flocals) : res pv :=
    match e with
    | EUnpack => fs_dec f (obj_of (l_value st))
    | ETgt t => Ok (obj_of (get_t t st))
    | ENone => Ok VNone end.

  Definition branch (taken: bool) (r: res flocals) (st: flocals) : res (flocals * bool) :=
    if taken then match r with Ok st' => Ok (st', false) | Exn e => Exn e end else Ok (st, true).

  Fixpoint run_s (prev: bool) (s: fstmt) (st: flocals) {struct s} : res (flocals * bool) :=
    match s with
    | SGet t k => match py_get d (key_of k) with
                  | Exn e => Exn e
                  | Ok o => Ok (set_t t o st, false) end
    | SIfMissing t b =>
        branch (match get_t t st with None => true | Some _ => false end) (run_list run_s false b st) st
    | SIfNotMissing t b =>
        branch (match get_t t st with None => false | Some _ => true end) (run_list run_s false b st) st
    | SIfNotNone t b =>
        branch (match get_t t st with Some VNone => false | _ => true end) (run_list run_s false b st) st
    | SElse b => branch prev (run_list run_s false b st) st
    | SRaiseMissing => Exn (XMissingField (fs_name f) cls)
    | STry b => match run_list run_s false b st with
                | Ok st' => Ok (st', false)
                | Exn _ => Exn (XInvalidFieldValue (fs_name f) (obj_of (l_value st)) cls) end   (* bare except *)
    | SSetKw e => match eval e st with Ok x => Ok (set_kw x st, false) | Exn e' => Exn e' end
    | SSetField e => match eval e st with Ok x => Ok (set_t TField (Some x) st, false) | Exn e' => Exn e' end
    end.

  (* the whole block; what the constructor call receives for this field: kwargs.get(name) if the block writes to
     kwargs (None: the key is not in kwargs, the dataclass default applies), else the local __name *)
  Definition run_block (in_kwargs: bool) (b: list fstmt) : res (option pv) :=
    match run_list run_s false b flocals0 with
    | Exn e => Exn e
    | Ok st => Ok (if in_kwargs then l_kw st else l_field st) end.
End RunField.

(* the five facts `build` looks at, read off the field spec of Errs.v *)
Definition p_nba (f: fspec) : bool := match fs_key2 f with Some _ => true | None => false end.
Definition p_dnone (f: fspec) : bool := match fs_default f with Some VNone => true | _ => false end.
