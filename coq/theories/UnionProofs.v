(* C11: proofs about the union / optional / literal model (UnionModel.v). *)
From Coq Require Import List String Ascii ZArith Bool Lia.
From Verif Require Import UnionModel.
Import ListNotations.
Open Scope Z_scope.

(* ------------------------------------------------------------------ *)
(* equality tests                                                       *)

Lemma skind_eqb_eq : forall a b, skind_eqb a b = true <-> a = b.
Proof. intros a b; split; [destruct a, b; simpl; congruence | intros ->; destruct b; reflexivity]. Qed.

Lemma skind_eqb_refl : forall a, skind_eqb a a = true.
Proof. destruct a; reflexivity. Qed.

Lemma mkey_eqb_eq : forall a b, mkey_eqb a b = true <-> a = b.
Proof.
  intros [x|x] [y|y]; simpl; split; intro H; try discriminate.
  - apply skind_eqb_eq in H; congruence.
  - inversion H; apply skind_eqb_refl.
  - apply Nat.eqb_eq in H; congruence.
  - inversion H; apply Nat.eqb_refl.
Qed.

(* induction principle for the nested value type *)
Section UvInd.
  Variable P : uv -> Prop.
  Hypothesis HNone : P UNone.
  Hypothesis HBool : forall b, P (UBool b).
  Hypothesis HInt : forall z, P (UInt z).
  Hypothesis HFloat : forall i r, P (UFloat i r).
  Hypothesis HStr : forall s, P (UStr s).
  Hypothesis HList : forall l, Forall P l -> P (UList l).
  Hypothesis HTuple : forall l, Forall P l -> P (UTuple l).
  Hypothesis HDict : forall l, Forall (fun p => P (fst p) /\ P (snd p)) l -> P (UDict l).
  Hypothesis HObj : forall c r, P (UObj c r).
  Fixpoint uv_ind' (v: uv) : P v :=
    let go := fix go (l: list uv) : Forall P l :=
      match l with [] => Forall_nil _ | x :: r => Forall_cons x (uv_ind' x) (go r) end in
    match v with
    | UNone => HNone | UBool b => HBool b | UInt z => HInt z | UFloat i r => HFloat i r | UStr s => HStr s
    | UList l => HList l (go l)
    | UTuple l => HTuple l (go l)
    | UDict l => HDict l ((fix god (l: list (uv * uv)) : Forall (fun p => P (fst p) /\ P (snd p)) l :=
                             match l with
                             | [] => Forall_nil _
                             | p :: r => Forall_cons p (match p as p0 return (P (fst p0) /\ P (snd p0)) with (k, x) => conj (uv_ind' k) (uv_ind' x) end) (god r)
                             end) l)
    | UObj c r => HObj c r
    end.
End UvInd.

Definition leqb := fix leq (l1 l2: list uv) {struct l1} : bool :=
  match l1, l2 with
  | [], [] => true
  | x :: r1, y :: r2 => uv_eqb x y && leq r1 r2
  | _, _ => false end.
Definition deqb := fix deq (l1 l2: list (uv * uv)) {struct l1} : bool :=
  match l1, l2 with
  | [], [] => true
  | p1 :: r1, p2 :: r2 =>
      match p1, p2 with (k1, v1), (k2, v2) => uv_eqb k1 k2 && uv_eqb v1 v2 && deq r1 r2 end
  | _, _ => false end.

Lemma uv_eqb_list : forall l l', uv_eqb (UList l) (UList l') = leqb l l'.
Proof. reflexivity. Qed.
Lemma uv_eqb_tuple : forall l l', uv_eqb (UTuple l) (UTuple l') = leqb l l'.
Proof. reflexivity. Qed.
Lemma uv_eqb_dict : forall l l', uv_eqb (UDict l) (UDict l') = deqb l l'.
Proof. reflexivity. Qed.

Lemma leqb_eq : forall l, Forall (fun a => forall b, uv_eqb a b = true -> a = b) l ->
  forall l', leqb l l' = true -> l = l'.
Proof.
  induction 1 as [|x r Hx _ IH]; intros [|y r'] H; simpl in H; try discriminate; [reflexivity|].
  apply andb_true_iff in H; destruct H as [H1 H2]. f_equal; [apply Hx; assumption | apply IH; assumption].
Qed.

Lemma deqb_eq : forall l, Forall (fun p => (forall b, uv_eqb (fst p) b = true -> fst p = b) /\
                                            (forall b, uv_eqb (snd p) b = true -> snd p = b)) l ->
  forall l', deqb l l' = true -> l = l'.
Proof.
  induction 1 as [|[k x] r [Hk Hx] _ IH]; intros [|[k' x'] r'] H; simpl in H; try discriminate; [reflexivity|].
  apply andb_true_iff in H; destruct H as [H12 H3]. apply andb_true_iff in H12; destruct H12 as [H1 H2].
  simpl in *. rewrite (Hk _ H1), (Hx _ H2), (IH _ H3). reflexivity.
Qed.

Lemma uv_eqb_eq : forall a b, uv_eqb a b = true -> a = b.
Proof.
  induction a as [| b0 | z | iv r | s | l IH | l IH | l IH | c r] using uv_ind'; intros b H;
    destruct b; try discriminate H; try reflexivity.
  - simpl in H. apply Bool.eqb_prop in H; congruence.
  - simpl in H. apply Z.eqb_eq in H; congruence.
  - simpl in H. apply andb_true_iff in H; destruct H as [H1 H2]. apply String.eqb_eq in H2; subst.
    destruct iv, iv0; try discriminate; [apply Z.eqb_eq in H1; subst|]; reflexivity.
  - simpl in H. apply String.eqb_eq in H; congruence.
  - rewrite uv_eqb_list in H. f_equal. eapply leqb_eq; eassumption.
  - rewrite uv_eqb_tuple in H. f_equal. eapply leqb_eq; eassumption.
  - rewrite uv_eqb_dict in H. f_equal. eapply deqb_eq; eassumption.
  - simpl in H. apply andb_true_iff in H; destruct H as [H1 H2].
    apply String.eqb_eq in H1; apply String.eqb_eq in H2; congruence.
Qed.

Lemma uv_eqb_refl : forall a, uv_eqb a a = true.
Proof.
  induction a as [| b0 | z | iv r | s | l IH | l IH | l IH | c r] using uv_ind'; simpl;
    auto using Bool.eqb_reflx, Z.eqb_refl, String.eqb_refl.
  - destruct iv; rewrite ?Z.eqb_refl, String.eqb_refl; reflexivity.
  - change (leqb l l = true). induction IH as [|x r Hx _ IHr]; simpl; [reflexivity | rewrite Hx, IHr; reflexivity].
  - change (leqb l l = true). induction IH as [|x r Hx _ IHr]; simpl; [reflexivity | rewrite Hx, IHr; reflexivity].
  - change (deqb l l = true). induction IH as [|[k x] r [Hk Hx] _ IHr]; simpl in *; [reflexivity | rewrite Hk, Hx, IHr; reflexivity].
  - rewrite !String.eqb_refl; reflexivity.
Qed.

Lemma ouv_eqb_eq : forall a b, ouv_eqb a b = true -> a = b.
Proof. intros [a|] [b|]; simpl; intro H; try discriminate; [apply uv_eqb_eq in H; congruence | reflexivity]. Qed.

Lemma ouv_eqb_refl : forall a, ouv_eqb a a = true.
Proof. destruct a; simpl; auto using uv_eqb_refl. Qed.

(* ------------------------------------------------------------------ *)
(* first_some                                                           *)

Section FirstSomeFacts.
  Context {A B: Type}.

  Lemma first_some_ext_in : forall (f g: A -> option B) l,
    (forall a, In a l -> f a = g a) -> first_some f l = first_some g l.
  Proof.
    induction l as [|a r IH]; intro H; simpl; [reflexivity|].
    rewrite (H a (or_introl eq_refl)). destruct (g a); [reflexivity|].
    apply IH; intros; apply H; right; assumption.
  Qed.

  Lemma first_some_some : forall (f: A -> option B) l y,
    first_some f l = Some y -> exists a, In a l /\ f a = Some y.
  Proof.
    induction l as [|a r IH]; simpl; intros y H; [discriminate|].
    destruct (f a) eqn:E.
    - inversion H; subst; exists a; auto.
    - destruct (IH _ H) as [a' [Hi Hf]]; exists a'; auto.
  Qed.

  Lemma first_some_none : forall (f: A -> option B) l,
    first_some f l = None <-> (forall a, In a l -> f a = None).
  Proof.
    induction l as [|a r IH]; simpl.
    - split; [intros _ a [] | reflexivity].
    - split.
      + intros H a' Hi. destruct (f a) eqn:E; [discriminate|].
        destruct Hi as [<-|Hi]; [assumption | apply IH; assumption].
      + intro H. rewrite (H a (or_introl eq_refl)). apply IH; intros; apply H; right; assumption.
  Qed.

  Lemma first_some_hit : forall (f: A -> option B) l a,
    In a l -> f a <> None -> exists a' y, In a' l /\ f a' = Some y /\ first_some f l = Some y.
  Proof.
    intros f l a Hi Hn. destruct (first_some f l) eqn:E.
    - destruct (first_some_some _ _ _ E) as [a' [H1 H2]]. exists a', b; auto.
    - exfalso; apply Hn. eapply first_some_none; eauto.
  Qed.
End FirstSomeFacts.

Lemma orelse_none_r : forall {B} (a: option B), orelse a None = a.
Proof. destruct a; reflexivity. Qed.

(* ------------------------------------------------------------------ *)
(* dedup: skipping a repeated key does not change the first success     *)

Section DedupFacts.
  Context {A K B: Type} (key: A -> K) (keqb: K -> K -> bool) (f: A -> option B).
  Hypothesis keqb_spec : forall x y, keqb x y = true <-> x = y.

  Lemma existsb_keqb : forall k seen, existsb (keqb k) seen = true <-> In k seen.
  Proof.
    intros k seen; rewrite existsb_exists; split.
    - intros [x [Hi He]]; apply keqb_spec in He; subst; assumption.
    - intro Hi; exists k; split; [assumption | apply keqb_spec; reflexivity].
  Qed.

  Lemma first_some_dedup_aux : forall l seen,
    (forall a, In a l -> In (key a) seen -> f a = None) ->
    (forall a b, In a l -> In b l -> key a = key b -> f a = f b) ->
    first_some f (dedup_aux key keqb seen l) = first_some f l.
  Proof.
    induction l as [|a r IH]; intros seen Hs Hc; simpl; [reflexivity|].
    destruct (existsb (keqb (key a)) seen) eqn:E.
    - apply existsb_keqb in E. rewrite (Hs a (or_introl eq_refl) E).
      apply IH; intros; [apply Hs | apply Hc]; auto; right; assumption.
    - simpl. destruct (f a) eqn:Fa; [reflexivity|].
      apply IH.
      + intros b Hb [Hk|Hk].
        * rewrite <- Fa. apply Hc; [right; assumption | left; reflexivity | symmetry; assumption].
        * apply Hs; [right; assumption | assumption].
      + intros; apply Hc; auto; right; assumption.
  Qed.

  Lemma first_some_dedup : forall l,
    (forall a b, In a l -> In b l -> key a = key b -> f a = f b) ->
    first_some f (dedup key keqb l) = first_some f l.
  Proof. intros l Hc; apply first_some_dedup_aux; [intros a _ [] | assumption]. Qed.

  Lemma dedup_aux_incl : forall l seen a, In a (dedup_aux key keqb seen l) -> In a l.
  Proof.
    induction l as [|x r IH]; simpl; intros seen a H; [assumption|].
    destruct (existsb (keqb (key x)) seen).
    - right; eapply IH; eassumption.
    - destruct H as [->|H]; [left; reflexivity | right; eapply IH; eassumption].
  Qed.
End DedupFacts.

Lemma dedup_aux_Forall2 : forall {A K} (key: A -> K) (keqb: K -> K -> bool) (R: A -> A -> Prop),
  (forall a b, R a b -> key a = key b) ->
  forall l l' seen, Forall2 R l l' ->
  Forall2 R (dedup_aux key keqb seen l) (dedup_aux key keqb seen l').
Proof.
  intros A K key keqb R HR l l' seen H; revert seen; induction H as [|a b r r' Hab Hr IH]; intro seen; simpl.
  - constructor.
  - rewrite <- (HR _ _ Hab). destruct (existsb (keqb (key a)) seen); [apply IH | constructor; [assumption | apply IH]].
Qed.

Lemma first_some_Forall2 : forall {A B} (f g: A -> option B) (R: A -> A -> Prop),
  (forall a b, R a b -> f a = g b) ->
  forall l l', Forall2 R l l' -> first_some f l = first_some g l'.
Proof.
  intros A B f g R HR l l' H; induction H as [|a b r r' Hab Hr IH]; simpl; [reflexivity|].
  rewrite (HR _ _ Hab). destruct (g b); [reflexivity | exact IH].
Qed.

(* ------------------------------------------------------------------ *)
(* union unpacker                                                       *)

Section UnionFacts.
  Variable co : skind -> uv -> option uv.

  (* members emitted from one expression behave alike (same expression, same function) *)
  Definition coherent (ms: list member) (d: uv) : Prop :=
    forall e f g, In (MN e f) ms -> In (MN e g) ms -> f d = g d.

  Lemma att1_coherent : forall ms d, coherent ms d ->
    forall a b, In a ms -> In b ms -> member_key a = member_key b -> att1 d a = att1 d b.
  Proof.
    intros ms d Hc [k|e f] [k'|e' g] Ha Hb Hk; simpl in *; try discriminate.
    - inversion Hk; reflexivity.
    - inversion Hk; subst. eapply Hc; eassumption.
  Qed.

  Lemma att2_coherent : forall ms d,
    forall a b, In a ms -> In b ms -> member_key a = member_key b -> att2 co d a = att2 co d b.
  Proof.
    intros ms d [k|e f] [k'|e' g] Ha Hb Hk; simpl in *; try discriminate; [inversion Hk|]; reflexivity.
  Qed.

  (* the generator's de-duplication of members is semantically invisible *)
  Theorem union_dec_dedup : forall ms d, coherent ms d -> union_dec co ms d = union_run co ms d.
  Proof.
    intros ms d Hc. unfold union_dec, union_run.
    rewrite (first_some_dedup member_key mkey_eqb (att1 d) mkey_eqb_eq ms (att1_coherent ms d Hc)).
    rewrite (first_some_dedup member_key mkey_eqb (att2 co d) mkey_eqb_eq ms (att2_coherent ms d)).
    reflexivity.
  Qed.

  Lemma has_kind_iff : forall k d, has_kind k d = true <-> kind_of d = Some k.
  Proof.
    intros k d; unfold has_kind; destruct (kind_of d) as [k'|]; split; intro H; try discriminate.
    - apply skind_eqb_eq in H; congruence.
    - inversion H; apply skind_eqb_refl.
  Qed.

  Lemma scalar_member_In : forall k ms, scalar_member k ms = true <-> In (MS k) ms.
  Proof.
    intros k ms; unfold scalar_member; rewrite existsb_exists; split.
    - intros [[k'|e f] [Hi He]]; [apply skind_eqb_eq in He; subst; assumption | discriminate].
    - intro Hi; exists (MS k); split; [assumption | apply skind_eqb_refl].
  Qed.

  Lemma exact_hit_false : forall ms d, exact_hit ms d = false ->
    forall k, In (MS k) ms -> has_kind k d = false.
  Proof.
    intros ms d H k Hi. destruct (has_kind k d) eqn:E; [|reflexivity].
    apply has_kind_iff in E. unfold exact_hit in H; rewrite E in H.
    apply scalar_member_In in Hi. congruence.
  Qed.

  (* A: an input of exact scalar member class, not shadowed, is returned unchanged by pass 1 *)
  Lemma pass1_exact : forall k d ms,
    kind_of d = Some k -> scalar_member k ms = true -> shadow_free k d ms = true ->
    first_some (att1 d) ms = Some d.
  Proof.
    intros k d ms Hk; induction ms as [|m r IH]; simpl; intros Hm Hs; [discriminate|].
    destruct m as [k'|e f]; simpl in *.
    - destruct (skind_eqb k k') eqn:E.
      + apply skind_eqb_eq in E; subst k'. apply has_kind_iff in Hk; rewrite Hk; reflexivity.
      + assert (has_kind k' d = false) as ->.
        { destruct (has_kind k' d) eqn:E2; [|reflexivity]. apply has_kind_iff in E2.
          rewrite Hk in E2; inversion E2; subst. rewrite skind_eqb_refl in E; discriminate. }
        apply IH; assumption.
    - destruct (f d); [discriminate|]. apply IH; assumption.
  Qed.

  (* B: without an exact hit, pass 1 is the first accepting non-scalar member *)
  Lemma pass1_nonscalar : forall ms d,
    (forall k, In (MS k) ms -> has_kind k d = false) ->
    first_some (att1 d) ms = first_some (ref_nonscalar d) ms.
  Proof.
    intros ms d H; apply first_some_ext_in; intros [k|e f] Hi; simpl; [|reflexivity].
    rewrite (H k Hi); reflexivity.
  Qed.

  (* C: the fallbacks are the scalar coercions of the reference when the None fallback is harmless *)
  Lemma pass2_ref : forall ms d, none_safe ms d = true ->
    first_some (att2 co d) ms = first_some (ref_scalar co d) ms.
  Proof.
    intros ms d H; apply first_some_ext_in; intros [k|e f] Hi; simpl; [|reflexivity].
    destruct k; simpl; try reflexivity.
    unfold none_safe in H; apply orb_true_iff in H; destruct H as [H|H].
    - apply negb_true_iff in H. apply scalar_member_In in Hi; congruence.
    - rewrite H; reflexivity.
  Qed.

  Theorem union_run_ref : forall ms d,
    none_safe ms d = true -> no_shadow ms d = true -> union_run co ms d = ref_union co ms d.
  Proof.
    intros ms d Hn Hs. unfold union_run, ref_union.
    destruct (exact_hit ms d) eqn:E.
    - unfold exact_hit in E. unfold no_shadow in Hs. destruct (kind_of d) as [k|] eqn:Hk; [|discriminate].
      rewrite E in Hs. rewrite (pass1_exact k d ms Hk E Hs); reflexivity.
    - rewrite (pass1_nonscalar ms d (exact_hit_false ms d E)), (pass2_ref ms d Hn); reflexivity.
  Qed.

  Theorem union_decode_partial : forall ms d,
    coherent ms d -> none_safe ms d = true -> no_shadow ms d = true ->
    union_dec co ms d = ref_union co ms d.
  Proof. intros; rewrite union_dec_dedup by assumption; apply union_run_ref; assumption. Qed.

  (* D: where the fallbacks differ from the reference coercions, the result is the None constant *)
  Lemma pass2_dev : forall ms d,
    first_some (att2 co d) ms <> first_some (ref_scalar co d) ms ->
    first_some (att2 co d) ms = Some UNone.
  Proof.
    induction ms as [|m r IH]; intros d H; simpl in *; [congruence|].
    destruct m as [k|e f]; simpl in *; [|apply IH; assumption].
    destruct k; simpl in *; try (destruct (co _ d); [congruence | apply IH; assumption]).
    reflexivity.
  Qed.

  (* the only ways the generated method can differ from the reference *)
  Theorem union_deviation_char : forall ms d, coherent ms d ->
    union_dec co ms d <> ref_union co ms d ->
    no_shadow ms d = false \/
    (scalar_member KNone ms = true /\ is_none d = false /\ union_dec co ms d = Some UNone).
  Proof.
    intros ms d Hc Hne. rewrite union_dec_dedup in * by assumption.
    destruct (no_shadow ms d) eqn:Hs; [right | left; reflexivity].
    destruct (none_safe ms d) eqn:Hn; [exfalso; apply Hne; apply union_run_ref; assumption|].
    unfold none_safe in Hn; apply orb_false_iff in Hn; destruct Hn as [H1 H2].
    apply negb_false_iff in H1. split; [assumption | split; [assumption|]].
    unfold union_run, ref_union in *.
    destruct (exact_hit ms d) eqn:E.
    - exfalso; apply Hne. unfold exact_hit in E; unfold no_shadow in Hs.
      destruct (kind_of d) as [k|] eqn:Hk; [|discriminate]. rewrite E in Hs.
      rewrite (pass1_exact k d ms Hk E Hs); reflexivity.
    - rewrite (pass1_nonscalar ms d (exact_hit_false ms d E)) in *.
      destruct (first_some (ref_nonscalar d) ms); simpl in *; [congruence|].
      apply pass2_dev; assumption.
  Qed.

  (* a shadowed scalar input gets the first accepting non-scalar member's result *)
  Lemma shadowed_pass1 : forall k d ms,
    kind_of d = Some k -> shadow_free k d ms = false ->
    first_some (att1 d) ms = first_some (ref_nonscalar d) ms /\ first_some (ref_nonscalar d) ms <> None.
  Proof.
    intros k d ms Hk; induction ms as [|m r IH]; simpl; intro Hs; [discriminate|].
    destruct m as [k'|e f]; simpl in *.
    - destruct (skind_eqb k k') eqn:E; [discriminate|].
      assert (has_kind k' d = false) as ->.
      { destruct (has_kind k' d) eqn:E2; [|reflexivity]. apply has_kind_iff in E2.
        rewrite Hk in E2; inversion E2; subst. rewrite skind_eqb_refl in E; discriminate. }
      apply IH; assumption.
    - destruct (f d); [split; [reflexivity | discriminate] | apply IH; assumption].
  Qed.

  Theorem union_shadow_result : forall ms d, coherent ms d -> no_shadow ms d = false ->
    union_dec co ms d = first_some (ref_nonscalar d) ms /\ union_dec co ms d <> None /\ exact_hit ms d = true.
  Proof.
    intros ms d Hc Hs. rewrite union_dec_dedup by assumption. unfold no_shadow in Hs.
    destruct (kind_of d) as [k|] eqn:Hk; [|discriminate].
    destruct (scalar_member k ms) eqn:Hm; [|discriminate].
    destruct (shadowed_pass1 k d ms Hk Hs) as [H1 H2].
    unfold union_run. rewrite H1. destruct (first_some (ref_nonscalar d) ms) eqn:E; [|congruence].
    simpl. repeat split; [discriminate|]. unfold exact_hit; rewrite Hk; assumption.
  Qed.

  (* no cross-coercion *)
  Theorem no_cross_coercion : forall ms d k, coherent ms d ->
    kind_of d = Some k -> In (MS k) ms -> no_shadow ms d = true -> union_dec co ms d = Some d.
  Proof.
    intros ms d k Hc Hk Hi Hs. rewrite union_dec_dedup by assumption.
    apply scalar_member_In in Hi. unfold no_shadow in Hs; rewrite Hk, Hi in Hs.
    unfold union_run; rewrite (pass1_exact k d ms Hk Hi Hs); reflexivity.
  Qed.

  Lemma scalars_first_shadow_free : forall k d ms,
    scalars_first ms = true -> scalar_member k ms = true -> shadow_free k d ms = true.
  Proof.
    intros k d; induction ms as [|m r IH]; simpl; intros H1 H2; [reflexivity|].
    destruct m as [k'|e f]; simpl in *.
    - destruct (skind_eqb k k'); [reflexivity | apply IH; assumption].
    - exfalso. unfold scalar_member in H2. apply existsb_exists in H2. destruct H2 as [m [Hi Hm]].
      rewrite forallb_forall in H1. specialize (H1 m Hi). destruct m; discriminate.
  Qed.

  Theorem scalars_first_no_shadow : forall ms d, scalars_first ms = true -> no_shadow ms d = true.
  Proof.
    intros ms d H; unfold no_shadow. destruct (kind_of d) as [k|]; [|reflexivity].
    destruct (scalar_member k ms) eqn:E; [|reflexivity]. apply scalars_first_shadow_free; assumption.
  Qed.

  (* whatever is returned comes from a member; nothing is invented *)
  Theorem union_result_from_member : forall ms d r, union_dec co ms d = Some r ->
    (exact_hit ms d = true /\ r = d) \/
    (exists e f, In (MN e f) ms /\ f d = Some r) \/
    (exists k, In (MS k) ms /\ coerce co k d = Some r).
  Proof.
    intros ms d r H. unfold union_dec, union_run in H.
    set (l := dedup member_key mkey_eqb ms) in *.
    assert (Hincl: forall a, In a l -> In a ms) by (intros a Ha; eapply dedup_aux_incl; exact Ha).
    destruct (first_some (att1 d) l) eqn:E1; simpl in H.
    - inversion H; subst. destruct (first_some_some _ _ _ E1) as [[k|e f] [Hi Hf]]; simpl in Hf.
      + destruct (has_kind k d) eqn:Hk; [|discriminate]. inversion Hf; subst. left; split; [|reflexivity].
        apply has_kind_iff in Hk. unfold exact_hit; rewrite Hk. apply scalar_member_In; auto.
      + right; left; exists e, f; auto.
    - destruct (first_some_some _ _ _ H) as [[k|e f] [Hi Hf]]; simpl in Hf; [|discriminate].
      right; right; exists k; auto.
  Qed.

  (* raises exactly when every attempt fails; with a None member it never raises *)
  Theorem union_raises_iff : forall ms d, coherent ms d ->
    (union_dec co ms d = None <-> forall m, In m ms -> att1 d m = None /\ att2 co d m = None).
  Proof.
    intros ms d Hc. rewrite union_dec_dedup by assumption. unfold union_run; split.
    - intros H m Hi. destruct (first_some (att1 d) ms) eqn:E1; [discriminate|]. simpl in H.
      split; eapply first_some_none; eauto.
    - intro H. assert (first_some (att1 d) ms = None) as -> by (apply first_some_none; intros; apply H; assumption).
      simpl. apply first_some_none; intros; apply H; assumption.
  Qed.

  Theorem none_member_never_raises : forall ms d, coherent ms d ->
    In (MS KNone) ms -> union_dec co ms d <> None.
  Proof.
    intros ms d Hc Hi H. pose proof (proj1 (union_raises_iff ms d Hc) H) as H'.
    destruct (H' _ Hi) as [_ H2]; simpl in H2; discriminate.
  Qed.

  (* determinism: the result is a function of the members' keys and behaviour at d, in order *)
  Definition magree (d: uv) (a b: member) : Prop :=
    member_key a = member_key b /\ att1 d a = att1 d b /\ att2 co d a = att2 co d b.

  Theorem union_deterministic : forall ms ms' d, Forall2 (magree d) ms ms' ->
    union_dec co ms d = union_dec co ms' d.
  Proof.
    intros ms ms' d H. unfold union_dec, union_run, dedup.
    assert (F: Forall2 (magree d) (dedup_aux member_key mkey_eqb [] ms) (dedup_aux member_key mkey_eqb [] ms')).
    { apply dedup_aux_Forall2; [intros a b [Hk _]; exact Hk | assumption]. }
    rewrite (first_some_Forall2 (att1 d) (att1 d) (magree d) (fun a b Hab => proj1 (proj2 Hab)) _ _ F).
    rewrite (first_some_Forall2 (att2 co d) (att2 co d) (magree d) (fun a b Hab => proj2 (proj2 Hab)) _ _ F).
    reflexivity.
  Qed.

  (* ---------------- Optional ---------------- *)
  Theorem opt_none : forall f, opt_dec f UNone = Some UNone.
  Proof. reflexivity. Qed.

  Theorem opt_not_none : forall f d, is_none d = false -> opt_dec f d = f d.
  Proof. intros f d H; unfold opt_dec; rewrite H; reflexivity. Qed.

  Lemma is_none_kind : forall d, is_none d = false -> forall k, kind_of d = Some k -> k <> KNone.
  Proof. intros d H k Hk; destruct d; simpl in *; try discriminate; inversion Hk; discriminate. Qed.

  Theorem opt_ref_nonscalar : forall e f d,
    opt_dec f d = ref_union co [MN e f; MS KNone] d /\ opt_dec f d = ref_union co [MS KNone; MN e f] d.
  Proof.
    intros e f d. destruct d; unfold opt_dec, ref_union, exact_hit; simpl;
      try (split; reflexivity); destruct (f _); split; reflexivity.
  Qed.

  Theorem opt_ref_scalar : forall k d, k <> KNone ->
    (forall x, kind_of x = Some k -> co k x = Some x) ->
    opt_dec (co k) d = ref_union co [MS k; MS KNone] d /\ opt_dec (co k) d = ref_union co [MS KNone; MS k] d.
  Proof.
    intros k d Hk Hex. destruct (is_none d) eqn:Hn.
    - destruct d; try discriminate. unfold opt_dec, ref_union, exact_hit; simpl.
      destruct k; simpl; split; reflexivity.
    - unfold opt_dec; rewrite Hn. unfold ref_union, exact_hit.
      destruct (kind_of d) as [k'|] eqn:Hkd.
      + destruct (skind_eqb k' k) eqn:E.
        * apply skind_eqb_eq in E; subst k'. simpl. rewrite skind_eqb_refl. simpl.
          replace (skind_eqb k KNone) with false by (destruct k; try reflexivity; congruence).
          simpl. rewrite (Hex d Hkd). split; reflexivity.
        * assert (k' <> KNone) by (eapply is_none_kind; eassumption).
          simpl. rewrite E. replace (skind_eqb k' KNone) with false by (destruct k'; try reflexivity; congruence).
          simpl. rewrite Hn. destruct k; try congruence; simpl; rewrite ?orelse_none_r;
            destruct (co _ d); split; reflexivity.
      + simpl. rewrite Hn. destruct k; try congruence; simpl; destruct (co _ d); split; reflexivity.
  Qed.
End UnionFacts.

(* ------------------------------------------------------------------ *)
(* union packer                                                         *)

Definition pcoherent (pms: list pmember) (v: uv) : Prop :=
  forall a b, In a pms -> In b pms -> p_ident a = false -> p_ident b = false ->
              p_key a = p_key b -> p_enc a v = p_enc b v.

Lemma wire_disjoint_spec : forall pms v, wire_disjoint pms v = true ->
  forall m1 m2, In m1 pms -> In m2 pms -> p_accepts m1 v = true -> p_accepts m2 v = true ->
  p_out m1 v = p_out m2 v.
Proof.
  intros pms v H m1 m2 H1 H2 A1 A2. unfold wire_disjoint in H.
  rewrite forallb_forall in H. specialize (H m1 H1). rewrite forallb_forall in H. specialize (H m2 H2).
  rewrite A1, A2 in H. simpl in H. apply ouv_eqb_eq; assumption.
Qed.

(* serializing picks (the output of) the member matching the value, whenever the
   branches that fire on the value agree *)
Theorem pack_union_partial : forall pms v m, pcoherent pms v ->
  In m pms -> p_accepts m v = true -> wire_disjoint pms v = true ->
  pack_union pms v = p_out m v.
Proof.
  intros pms v m Hc Hi Ha Hw. unfold pack_union.
  destruct (forallb p_ident pms) eqn:Eall.
  - rewrite forallb_forall in Eall. unfold p_out. rewrite (Eall m Hi). reflexivity.
  - destruct (existsb (fun m0 => p_ident m0 && String.eqb (class_of v) (p_cls m0)) pms) eqn:Eid.
    + apply existsb_exists in Eid. destruct Eid as [m' [Hi' H']]. apply andb_true_iff in H'. destruct H' as [Hid Hcl].
      assert (A': p_accepts m' v = true) by (unfold p_accepts; rewrite Hid; assumption).
      rewrite (wire_disjoint_spec pms v Hw m m' Hi Hi' Ha A'). unfold p_out; rewrite Hid; reflexivity.
    + assert (Hni: p_ident m = false).
      { destruct (p_ident m) eqn:E; [|reflexivity]. exfalso.
        assert (existsb (fun m0 => p_ident m0 && String.eqb (class_of v) (p_cls m0)) pms = true).
        { apply existsb_exists. exists m. split; [assumption|]. unfold p_accepts in Ha. rewrite E in Ha. rewrite E, Ha. reflexivity. }
        congruence. }
      set (l := filter (fun m0 => negb (p_ident m0)) pms).
      assert (Hl: forall a, In a l -> In a pms /\ p_ident a = false).
      { intros a H. apply filter_In in H. destruct H as [H1 H2]. apply negb_true_iff in H2. auto. }
      rewrite (first_some_dedup p_key Nat.eqb (fun m0 => p_enc m0 v) Nat.eqb_eq l).
      2:{ intros a b Ha' Hb' Hk. destruct (Hl a Ha'), (Hl b Hb'). apply Hc; assumption. }
      assert (Hm: In m l) by (apply filter_In; split; [assumption | rewrite Hni; reflexivity]).
      assert (Hne: p_enc m v <> None).
      { unfold p_accepts in Ha. rewrite Hni in Ha. destruct (p_enc m v); [discriminate | discriminate]. }
      destruct (first_some_hit (fun m0 => p_enc m0 v) l m Hm Hne) as [m' [y [Hi' [He' Hf]]]].
      rewrite Hf. destruct (Hl m' Hi') as [Hp' Hn'].
      assert (A': p_accepts m' v = true) by (unfold p_accepts; rewrite Hn', He'; reflexivity).
      rewrite (wire_disjoint_spec pms v Hw m m' Hi Hp' Ha A'). unfold p_out; rewrite Hn'. symmetry; assumption.
Qed.

(* ------------------------------------------------------------------ *)
(* Literal                                                              *)

Section LiteralFacts.
  Variable bdec : uv -> option uv.
  Variable benc : uv -> option uv.

  Lemma py_eq_of_eqb : forall a b, uv_eqb a b = true -> py_eq a b = true.
  Proof.
    intros a b H. apply uv_eqb_eq in H; subst b. unfold py_eq.
    destruct (num_val a); [apply Z.eqb_refl | apply uv_eqb_refl].
  Qed.

  (* with the class check, `==` against a non-float constant is identity of the value *)
  Lemma class_and_eq : forall v w, is_float w = false ->
    same_class v w && py_eq v w = uv_eqb v w.
  Proof.
    intros v w Hf. unfold same_class, py_eq.
    destruct w; try discriminate; destruct v; try reflexivity;
      try (match goal with iv: option Z |- _ => destruct iv end);
      cbn [num_val uv_eqb class_of]; try reflexivity; try apply andb_false_r;
      try (repeat match goal with x: bool |- _ => destruct x end; reflexivity).
    match goal with |- context [String.eqb ?a ?b && (String.eqb ?a ?b && _)] => destruct (String.eqb a b) end; reflexivity.
  Qed.

  Lemma lit_nofloat_In : forall lits l, lit_nofloat lits = true -> In l lits ->
    is_float (lit_wire l) = false /\ is_float (lit_const l) = false.
  Proof.
    intros lits l H Hi. unfold lit_nofloat in H. rewrite forallb_forall in H. specialize (H l Hi).
    apply andb_true_iff in H; destruct H as [H1 H2]. split; apply negb_true_iff; assumption.
  Qed.

  Lemma lit_match_strict : forall v l, is_float (lit_wire l) = false ->
    lit_match bdec v l = lit_strict bdec v l.
  Proof. intros v l H; destruct l; simpl in *; try reflexivity; apply class_and_eq; assumption. Qed.

  (* Literal positions accept exactly their listed values and return the listed constant *)
  Theorem lit_dec_full : forall lits v, lit_nofloat lits = true ->
    lit_dec bdec lits v = ref_lit bdec lits v.
  Proof.
    intros lits v H. unfold lit_dec, ref_lit. apply first_some_ext_in. intros l Hi.
    destruct (lit_nofloat_In lits l H Hi) as [Hw _]. rewrite (lit_match_strict v l Hw). reflexivity.
  Qed.

  Theorem lit_enc_full : forall lits v, lit_nofloat lits = true ->
    lit_enc benc lits v = ref_lit_enc benc lits v.
  Proof.
    intros lits v H. unfold lit_enc, ref_lit_enc. apply first_some_ext_in. intros l Hi.
    destruct (lit_nofloat_In lits l H Hi) as [_ Hc]. unfold lit_pmatch. rewrite (class_and_eq v _ Hc). reflexivity.
  Qed.

  (* whatever is accepted, the result is one of the listed constants *)
  Theorem lit_dec_returns_listed : forall lits v c, lit_dec bdec lits v = Some c ->
    exists l, In l lits /\ c = lit_const l /\ lit_match bdec v l = true.
  Proof.
    intros lits v c H. unfold lit_dec in H. destruct (first_some_some _ _ _ H) as [l [Hi Hl]].
    destruct (lit_match bdec v l) eqn:M; [|discriminate]. inversion Hl; eauto.
  Qed.

  Lemma lit_strict_match : forall v l, lit_strict bdec v l = true -> lit_match bdec v l = true.
  Proof.
    intros v l; destruct l; simpl; auto; intro H; rewrite (py_eq_of_eqb _ _ H);
      apply uv_eqb_eq in H; subst; unfold same_class; rewrite String.eqb_refl; reflexivity.
  Qed.

  (* every listed value is accepted (also for float-valued enum members) *)
  Theorem lit_dec_accepts_listed : forall lits v l, In l lits -> lit_strict bdec v l = true ->
    lit_dec bdec lits v <> None.
  Proof.
    intros lits v l Hi Hs H. unfold lit_dec in H.
    pose proof (proj1 (first_some_none _ _) H l Hi) as Hl. simpl in Hl.
    rewrite (lit_strict_match v l Hs) in Hl. discriminate.
  Qed.
End LiteralFacts.

(* ------------------------------------------------------------------ *)
(* nested unions                                                        *)

Section UtyInd.
  Variable P : uty -> Prop.
  Hypothesis HS : forall k, P (TS k).
  Hypothesis HL : forall e f, P (TLeaf e f).
  Hypothesis HU : forall e l, Forall P l -> P (TU e l).
  Fixpoint uty_ind' (t: uty) : P t :=
    match t with
    | TS k => HS k
    | TLeaf e f => HL e f
    | TU e l => HU e l ((fix go (l: list uty) : Forall P l :=
                           match l with
                           | [] => Forall_nil _
                           | x :: r => Forall_cons x (uty_ind' x) (go r) end) l)
    end.
End UtyInd.

Section NestedFacts.
  Variable co : skind -> uv -> option uv.

  Lemma tdec_TU : forall e l, tdec co (TU e l) = union_dec co (map (tmember co) l).
  Proof. reflexivity. Qed.

  Lemma tref_TU : forall e l, tref co (TU e l) = ref_union co (map (rmember co) l).
  Proof. reflexivity. Qed.

  (* hereditary coherence: in every union inside t, members with one expression id agree on d *)
  Fixpoint tcoh (d: uv) (t: uty) : Prop :=
    match t with
    | TU _ l => coherent (map (tmember co) l) d /\ fold_right (fun t' P => tcoh d t' /\ P) True l
    | _ => True end.

  Lemma scalar_member_agree : forall d ms ms', Forall2 (magree co d) ms ms' ->
    forall k, scalar_member k ms = scalar_member k ms'.
  Proof.
    intros d ms ms' H k; induction H as [|a b r r' [Hk _] _ IH]; [reflexivity|].
    unfold scalar_member in *; simpl. rewrite IH. f_equal.
    destruct a, b; simpl in Hk; try discriminate; try reflexivity. inversion Hk; reflexivity.
  Qed.

  Lemma ref_union_ext : forall d ms ms', Forall2 (magree co d) ms ms' ->
    ref_union co ms d = ref_union co ms' d.
  Proof.
    intros d ms ms' H. unfold ref_union, exact_hit.
    assert (E: (match kind_of d with Some k => scalar_member k ms | None => false end) =
               (match kind_of d with Some k => scalar_member k ms' | None => false end)).
    { destruct (kind_of d); [apply (scalar_member_agree d); assumption | reflexivity]. }
    rewrite E.
    rewrite (first_some_Forall2 (ref_nonscalar d) (ref_nonscalar d) (magree co d)) with (l' := ms');
      [| intros a b [Hk [H1 _]]; destruct a, b; simpl in *; try discriminate; auto | assumption].
    rewrite (first_some_Forall2 (ref_scalar co d) (ref_scalar co d) (magree co d)) with (l' := ms');
      [reflexivity | | assumption].
    intros a b [Hk _]; destruct a, b; simpl in *; try discriminate; [inversion Hk|]; reflexivity.
  Qed.

  Theorem nested_union_partial : forall t d, tcoh d t -> tsafe co d t = true ->
    tdec co t d = tref co t d.
  Proof.
    induction t as [k|e f|e l IH] using uty_ind'; intros d Hc Hs.
    - (* a scalar type on its own: the None type decodes to None whatever the input *)
      destruct k; try reflexivity. simpl in *. rewrite Hs. reflexivity.
    - reflexivity.
    - rewrite tdec_TU, tref_TU. simpl in Hc, Hs. destruct Hc as [Hc Hcl].
      apply andb_true_iff in Hs; destruct Hs as [Hs Hsl]. apply andb_true_iff in Hs; destruct Hs as [Hn Hsh].
      rewrite (union_decode_partial co _ d Hc Hn Hsh).
      apply ref_union_ext.
      clear Hc Hn Hsh. induction l as [|x r IHr]; simpl; [constructor|].
      inversion IH as [|x' r' Hx Hr]; subst. simpl in Hcl, Hsl. destruct Hcl as [Hcx Hcr].
      apply andb_true_iff in Hsl; destruct Hsl as [Hsx Hsr].
      constructor; [|apply IHr; assumption].
      destruct x as [k|e' f|e' l']; unfold magree; simpl; repeat split; try reflexivity.
      apply (Hx d Hcx Hsx).
  Qed.
End NestedFacts.

(* ------------------------------------------------------------------ *)
(* positions of one shape are resolved independently                    *)
Theorem shape_positions : forall co ps,
  Forall (fun p => coherent (fst p) (snd p) /\ none_safe (fst p) (snd p) = true /\ no_shadow (fst p) (snd p) = true) ps ->
  shape_run (union_dec co) ps = shape_run (ref_union co) ps.
Proof.
  intros co ps H; induction H as [|[ms d] r [Hc [Hn Hs]] _ IH]; simpl; [reflexivity|].
  simpl in *. rewrite (union_decode_partial co ms d Hc Hn Hs), IH. reflexivity.
Qed.

(* ------------------------------------------------------------------ *)
(* TypeVar positions                                                    *)
Theorem typevar_constraints_win : forall co cs fb fb' d, cs <> [] ->
  typevar_dec co cs fb d = union_dec co cs d /\ typevar_dec co cs fb d = typevar_dec co cs fb' d.
Proof. intros co [|c r] fb fb' d H; [congruence | split; reflexivity]. Qed.

Theorem typevar_partial : forall co cs fb d, cs <> [] ->
  coherent cs d -> none_safe cs d = true -> no_shadow cs d = true ->
  typevar_dec co cs fb d = ref_union co cs d.
Proof.
  intros co cs fb d H Hc Hn Hs. rewrite (proj1 (typevar_constraints_win co cs fb fb d H)).
  apply union_decode_partial; assumption.
Qed.
