(* C16 - text-level model: CPython's repr(str) / ascii(str) / repr(bytes) and the
   tokenizer + string-literal evaluation for a non-prefixed single- or double-quoted literal
   (and the b-prefixed bytes literal).  Strings are lists of code points (N).

   MODEL ONLY (executable, total).  Proofs are in PyStrLitProofs.v.
   Modelled-not-verified: that CPython's unicode_repr / bytes_repr / tok_get +
   decode_unicode_with_escapes behave like these definitions.  The harness compares
   them with the real interpreter on every run (props/c16.py, correspondence
   "repr-model" / "lex-model"). *)
From Coq Require Import List NArith Bool String Ascii.
Import ListNotations.
Open Scope N_scope.

Definition str := list N.

Definition SQ : N := 39.   (* single quote *)
Definition DQ : N := 34.   (* double quote *)
Definition BS : N := 92.   (* backslash *)

Definition is_quote (c: N) : bool := (c =? SQ) || (c =? DQ).
Definition is_surrogate (c: N) : bool := (55296 <=? c) && (c <? 57344).   (* D800..DFFF *)
Definition valid_cp (c: N) : bool := c <? 1114112.                         (* < 0x110000 *)

(* ---------------------------------------------------------------- hex *)
Definition hexdigit (d: N) : N := if d <? 10 then 48 + d else 87 + d.     (* lower case *)

(* k digits, most significant first *)
Fixpoint hex_k (k: nat) (n: N) : list N :=
  match k with
  | O => []
  | S k' => hexdigit (n / 16 ^ N.of_nat k') :: hex_k k' (n mod 16 ^ N.of_nat k')
  end.

Definition hexval (c: N) : option N :=
  if (48 <=? c) && (c <=? 57) then Some (c - 48)
  else if (97 <=? c) && (c <=? 102) then Some (c - 87)
  else if (65 <=? c) && (c <=? 70) then Some (c - 55)
  else None.

(* ---------------------------------------------------------------- repr(str) *)
Definition has (c: N) (s: str) : bool := existsb (N.eqb c) s.

(* unicode_repr: double quotes iff the string has a single quote and no double quote *)
Definition choose_quote (s: str) : N := if has SQ s && negb (has DQ s) then DQ else SQ.

(* [printable] is only consulted for non-ASCII code points (Py_UNICODE_ISPRINTABLE) *)
Definition esc_char (printable: N -> bool) (q c: N) : list N :=
  if (c =? q) || (c =? BS) then [BS; c]
  else if c =? 9 then [BS; 116]
  else if c =? 10 then [BS; 110]
  else if c =? 13 then [BS; 114]
  else if (c <? 32) || (c =? 127) then BS :: 120 :: hex_k 2 c
  else if c <? 127 then [c]
  else if printable c then [c]
  else if c <? 256 then BS :: 120 :: hex_k 2 c
  else if c <? 65536 then BS :: 117 :: hex_k 4 c
  else BS :: 85 :: hex_k 8 c.

Definition repr_body (p: N -> bool) (q: N) (s: str) : list N := flat_map (esc_char p q) s.
Definition py_repr (p: N -> bool) (s: str) : list N :=
  let q := choose_quote s in q :: repr_body p q s ++ [q].

(* ascii(s) = repr(s) with every non-ASCII code point escaped *)
Definition py_ascii (s: str) : list N := py_repr (fun _ => false) s.

(* ---------------------------------------------------------------- repr(bytes) *)
Definition esc_byte (q c: N) : list N :=
  if (c =? q) || (c =? BS) then [BS; c]
  else if c =? 9 then [BS; 116]
  else if c =? 10 then [BS; 110]
  else if c =? 13 then [BS; 114]
  else if (c <? 32) || (127 <=? c) then BS :: 120 :: hex_k 2 c
  else [c].

(* without the leading b *)
Definition py_repr_bytes_lit (s: str) : list N :=
  let q := choose_quote s in q :: flat_map (esc_byte q) s ++ [q].
Definition py_repr_bytes (s: str) : list N := 98 :: py_repr_bytes_lit s.

(* ---------------------------------------------------------------- the lexer *)
(* One machine, one character per step; [triple] = triple-quoted mode, [bytes] = bytes literal.
   States: Norm; Q1/Q2 (one/two closing-quote candidates seen, triple mode only);
   Esc (after a backslash); SkipLF (after a CR that acts as newline: a following LF
   belongs to it - the tokenizer translates CRLF and CR to LF);
   Hex k acc (k hex digits still to read); Oct k acc (up to k more octal digits). *)
Inductive st :=
| Norm | Q1 | Q2 | Esc | SkipLF
| Hex (k: nat) (acc: N)
| Oct (k: nat) (acc: N).

Inductive act :=
| AStop (out: list N)
| AFail
| ACont (s: st) (out: list N).

(* a raw source character that may appear inside a literal *)
Definition raw_ok (bytes: bool) (c: N) : bool :=
  negb (c =? 0) && negb (is_surrogate c) && valid_cp c && (negb bytes || (c <? 128)).

Definition on_norm (triple bytes: bool) (q c: N) (out: list N) : act :=
  if c =? q then (if triple then ACont Q1 out else AStop out)
  else if negb (raw_ok bytes c) then AFail
  else if c =? 10 then (if triple then ACont Norm (10 :: out) else AFail)
  else if c =? 13 then (if triple then ACont SkipLF (10 :: out) else AFail)
  else if c =? BS then ACont Esc out
  else ACont Norm (c :: out).

Definition is_oct (c: N) : bool := (48 <=? c) && (c <=? 55).

Definition on_esc (bytes: bool) (c: N) (out: list N) : act :=
  if negb (raw_ok bytes c) then AFail
  else if c =? 10 then ACont Norm out                       (* backslash-newline *)
  else if c =? 13 then ACont SkipLF out
  else if (c =? BS) || (c =? SQ) || (c =? DQ) then ACont Norm (c :: out)
  else if c =? 97 then ACont Norm (7 :: out)                (* \a *)
  else if c =? 98 then ACont Norm (8 :: out)                (* \b *)
  else if c =? 102 then ACont Norm (12 :: out)              (* \f *)
  else if c =? 110 then ACont Norm (10 :: out)              (* \n *)
  else if c =? 114 then ACont Norm (13 :: out)              (* \r *)
  else if c =? 116 then ACont Norm (9 :: out)               (* \t *)
  else if c =? 118 then ACont Norm (11 :: out)              (* \v *)
  else if is_oct c then ACont (Oct 2 (c - 48)) out
  else if c =? 120 then ACont (Hex 2 0) out                 (* \xHH *)
  else if negb bytes && (c =? 117) then ACont (Hex 4 0) out (* \uHHHH *)
  else if negb bytes && (c =? 85) then ACont (Hex 8 0) out  (* \UHHHHHHHH *)
  else if negb bytes && (c =? 78) then AFail                (* \N{name}: not modelled *)
  else ACont Norm (c :: BS :: out).                         (* unknown escape: kept *)

Definition step (triple bytes: bool) (q: N) (s: st) (out: list N) (c: N) : act :=
  match s with
  | Norm => on_norm triple bytes q c out
  | Q1 => if c =? q then ACont Q2 out else on_norm triple bytes q c (q :: out)
  | Q2 => if c =? q then AStop out else on_norm triple bytes q c (q :: q :: out)
  | Esc => on_esc bytes c out
  | SkipLF => if c =? 10 then ACont Norm out else on_norm triple bytes q c out
  | Hex k acc =>
      match hexval c with
      | None => AFail
      | Some d =>
          let v := acc * 16 + d in
          match k with
          | S (S k') => ACont (Hex (S k') v) out
          | _ => if valid_cp v then ACont Norm (v :: out) else AFail
          end
      end
  | Oct k acc =>
      if is_oct c then
        let v := acc * 8 + (c - 48) in
        match k with
        | S (S k') => ACont (Oct (S k') v) out
        | _ => ACont Norm ((if bytes then v mod 256 else v) :: out)
        end
      else on_norm triple bytes q c (acc :: out)
  end.

Fixpoint scan (triple bytes: bool) (q: N) (s: st) (out: list N) (l: list N) : option (str * list N) :=
  match l with
  | [] => None                                              (* unterminated literal *)
  | c :: r =>
      match step triple bytes q s out c with
      | AStop o => Some (rev o, r)
      | AFail => None
      | ACont s' o => scan triple bytes q s' o r
      end
  end.

Definition lex_quoted (bytes: bool) (l: list N) : option (str * list N) :=
  match l with
  | q :: r =>
      if is_quote q then
        match r with
        | q1 :: q2 :: r' =>
            if (q1 =? q) && (q2 =? q) then scan true bytes q Norm [] r'
            else scan false bytes q Norm [] r
        | _ => scan false bytes q Norm [] r
        end
      else None
  | [] => None
  end.

(* value and remaining text of the string literal at the head of [l] *)
Definition lex_string (l: list N) : option (str * list N) := lex_quoted false l.

(* bytes literal: b + quoted *)
Definition lex_bytes (l: list N) : option (str * list N) :=
  match l with
  | 98 :: r => lex_quoted true r
  | _ => None
  end.

(* ---------------------------------------------------------------- context *)
(* The text after the literal must not start with a quote character: an empty literal
   followed by its own quote character would open a triple-quoted literal, and two adjacent
   literals are implicitly concatenated by the parser. *)
Definition ctx_ok (rest: list N) : bool :=
  match rest with
  | c :: _ => negb (is_quote c)
  | [] => true
  end.

(* identifier characters: a literal directly after one of them would be read with a
   string prefix (r, b, f, u, rb ...) or glued to a name *)
Definition is_ident_char (c: N) : bool :=
  ((48 <=? c) && (c <=? 57)) || ((65 <=? c) && (c <=? 90)) || ((97 <=? c) && (c <=? 122))
  || (c =? 95) || (128 <=? c).

(* hypothesis on the printable oracle: lone surrogates are not printable
   (checked for str.isprintable on all 0x110000 code points by the harness) *)
Definition oracle_ok (p: N -> bool) : Prop := forall c, is_surrogate c = true -> p c = false.

Definition wf_str (s: str) : Prop := Forall (fun c => valid_cp c = true) s.
Definition wf_bytes (s: str) : Prop := Forall (fun c => c < 256) s.

(* characters that can stand between static quote characters unescaped (identifiers) *)
Definition plain_char (c: N) : bool :=
  negb (is_quote c) && negb (c =? BS) && negb (c =? 10) && negb (c =? 13) && raw_ok false c.

(* ---------------------------------------------------------------- Coq strings *)
Definition codes (s: string) : list N := map N_of_ascii (list_ascii_of_string s).

(* ---------------------------------------------------------------- helpers for the
   correspondence case files (harness/props/c16.py) *)
Fixpoint leqb (a b: list N) : bool :=
  match a, b with
  | [], [] => true
  | x :: a', y :: b' => (x =? y) && leqb a' b'
  | _, _ => false
  end.

(* finite printable table: the printable non-ASCII code points that occur in the cases *)
Definition tab_oracle (tab: list N) (c: N) : bool := existsb (N.eqb c) tab.

Definition repr_case_ok (tab: list N) (c: list N * (list N * list N)) : bool :=
  leqb (py_repr (tab_oracle tab) (fst c)) (fst (snd c)) && leqb (py_ascii (fst c)) (snd (snd c)).

Definition bytes_case_ok (c: list N * list N) : bool := leqb (py_repr_bytes (fst c)) (snd c).

Definition lex_res_ok (got: option (str * list N)) (exp: option (list N * nat)) : bool :=
  match got, exp with
  | Some (v, r), Some (v', n) => leqb v v' && Nat.eqb (List.length r) n
  | None, None => true
  | _, _ => false
  end.
Definition lex_case_ok (c: list N * option (list N * nat)) : bool := lex_res_ok (lex_string (fst c)) (snd c).
Definition lexb_case_ok (c: list N * option (list N * nat)) : bool := lex_res_ok (lex_bytes (fst c)) (snd c).
