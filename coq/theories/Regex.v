(* Capture-regex subset used by the translated kernels (K1, JSON-Schema pattern).
   Semantics follow Python's [re]: backtracking, greedy optional, [$] matches at
   the end of the string or just before a final newline, [re.match] is anchored
   at the start only. *)
From Coq Require Import List String Ascii Arith Bool.
Import ListNotations.
Open Scope string_scope.

Inductive re :=
| RChr (c: ascii)
| RSet (rs: list (ascii * ascii))
| RSeq (l: list re)
| RGrp (n: nat) (r: re)
| ROpt (r: re)
| RBeg | REnd.

Definition caps := list (nat * string).
Fixpoint cap_get (n: nat) (c: caps) : option string :=
  match c with [] => None | (k, s) :: r => if Nat.eqb k n then Some s else cap_get n r end.

Definition in_range (c: ascii) (r: ascii * ascii) : bool :=
  let n := nat_of_ascii c in (nat_of_ascii (fst r) <=? n)%nat && (n <=? nat_of_ascii (snd r))%nat.

Fixpoint take (n: nat) (s: string) : string :=
  match n, s with O, _ => "" | S n', String c r => String c (take n' r) | _, EmptyString => "" end.
Definition consumed (s s': string) : string := take (String.length s - String.length s') s.

Definition NL : ascii := ascii_of_nat 10.

(* continuation-passing backtracking matcher; [at0] tells whether we are at position 0 *)
Fixpoint rmatch (r: re) (s: string) (at0: bool) (c: caps)
         (k: string -> bool -> caps -> option caps) {struct r} : option caps :=
  match r with
  | RChr a => match s with String x s' => if Ascii.eqb x a then k s' false c else None | EmptyString => None end
  | RSet rs => match s with String x s' => if existsb (in_range x) rs then k s' false c else None | EmptyString => None end
  | RSeq l => (fix seq (l: list re) (s: string) (at0: bool) (c: caps) : option caps :=
                 match l with [] => k s at0 c | r' :: l' => rmatch r' s at0 c (fun s' a' c' => seq l' s' a' c') end) l s at0 c
  | RGrp n r' => rmatch r' s at0 c (fun s' a' c' => k s' a' ((n, consumed s s') :: c'))
  | ROpt r' => match rmatch r' s at0 c k with Some c' => Some c' | None => k s at0 c end
  | RBeg => if at0 then k s at0 c else None
  | REnd => match s with
            | EmptyString => k s at0 c
            | String x EmptyString => if Ascii.eqb x NL then k s at0 c else None
            | _ => None end
  end.

(* Python re.match: anchored at the start, not necessarily at the end *)
Definition re_match (r: re) (s: string) : option caps := rmatch r s true [] (fun _ _ c => Some c).
