(* Tie by translation, anchor "no_copy_collections taken from dialect/config and threaded through nested specs":
   the effective no_copy_collections of the sharing model (Share.first_nc / Share.effN) is the result of
   CodeBuilder.get_dialect_or_config_option (kernel K3, translated on every run) called the way every site that
   fills ValueSpec.no_copy_collections calls it (kernel K118c: option name, default, the list of sites). *)
From Coq Require Import List String Ascii ZArith Bool.
From Verif Require Import Regex PyK K3Proofs Share.
From VerifGen Require Import K3 K118c.
Import ListNotations.
Open Scope string_scope.

(* a tuple of origin classes *)
Definition enc_origins (n: list origin) : kv := PyK.KTuple (map (fun o => KObj (ocode o)) n).

(* x stands for a dialect / Config namespace as far as this option goes: the attribute is there with value n, or the
   lookup getattr(x, 'no_copy_collections', MISSING) yields MISSING (attribute absent, class default MISSING, or x is None) *)
Definition encodes (x: kv) (d: dialect) : Prop :=
  ns_opt x nocopy_option = match d with Some n => enc_origins n | None => KMissing end.

Lemma enc_origins_not_missing n : kv_eqb (enc_origins n) KMissing = false.
Proof. reflexivity. Qed.

Lemma first_nc_is_source a b c d call cfg dflt :
  encodes a call -> encodes b cfg -> ns_opt c nocopy_option = KMissing -> encodes d dflt ->
  get_dialect_or_config_option a b c d (KStr nocopy_option) nocopy_default
  = Ok (enc_origins (first_nc call cfg dflt)).
Proof.
  unfold encodes. intros Ha Hb Hc Hd.
  rewrite K3_order_lemma. unfold first_nonmissing. rewrite Ha, Hb, Hc, Hd.
  destruct call as [n1|]; [rewrite enc_origins_not_missing; reflexivity |].
  destruct cfg as [n2|]; [cbn [kv_eqb]; rewrite enc_origins_not_missing; reflexivity |].
  destruct dflt as [n3|]; cbn [kv_eqb]; [rewrite enc_origins_not_missing |]; reflexivity.
Qed.

(* the builder of class k: self.dialect is the call dialect only when the class accepts one *)
Lemma effN_is_source E call k a b c d :
  encodes a (match call with Some x => if k.(c_sup) then x else None | None => None end) ->
  encodes b k.(c_nc) -> ns_opt c nocopy_option = KMissing -> encodes d E.(e_fmt) ->
  get_dialect_or_config_option a b c d (KStr nocopy_option) nocopy_default = Ok (enc_origins (effN E call k)).
Proof. intros. unfold effN. now apply first_nc_is_source. Qed.

(* non-vacuity of [encodes]: a dialect class that sets the attribute, one that leaves the class default
   (Sentinel.MISSING), and no dialect at all (None) *)
Example encodes_examples :
  encodes (KNs [("no_copy_collections", enc_origins [OList; ODict])]) (Some [OList; ODict]) /\
  encodes (KNs [("no_copy_collections", KMissing); ("omit_none", KBool true)]) None /\
  encodes KNone None /\
  get_dialect_or_config_option KNone (KNs [("no_copy_collections", KMissing)]) (KNs [("debug", KBool false)])
      (KNs [("no_copy_collections", enc_origins [OList; ODict])]) (KStr nocopy_option) nocopy_default
  = Ok (enc_origins [OList; ODict]) /\
  get_dialect_or_config_option (KNs [("no_copy_collections", enc_origins [])]) KNone KNone
      (KNs [("no_copy_collections", enc_origins [OList; ODict])]) (KStr nocopy_option) nocopy_default
  = Ok (enc_origins []).
Proof. repeat split; reflexivity. Qed.

(* who fills and who reads ValueSpec.no_copy_collections *)
Definition pack_collection_site (s: string) : bool :=
  String.eqb s "mashumaro/core/meta/types/pack.py:pack_collection._make_sequence_expression" ||
  String.eqb s "mashumaro/core/meta/types/pack.py:pack_collection._make_mapping_expression".
Definition packer_root_site (s: string) : bool :=
  String.eqb s "mashumaro/core/meta/code/builder.py:CodeBuilder._get_field_packer" ||
  String.eqb s "mashumaro/codecs/_builder.py:CodecCodeBuilder.add_encode_method".

Lemma nocopy_sites_ok :
  forallb pack_collection_site nocopy_read_sites = true /\
  forallb packer_root_site nocopy_write_sites = true /\
  existsb (String.eqb "mashumaro/core/meta/code/builder.py:CodeBuilder._get_field_packer") nocopy_write_sites = true /\
  existsb (String.eqb "mashumaro/codecs/_builder.py:CodecCodeBuilder.add_encode_method") nocopy_write_sites = true /\
  forallb (fun s => packer_root_site s || String.eqb s "mashumaro/dialect.py:Dialect.merge") nocopy_name_sites = true /\
  valuespec_nocopy_default = enc_origins [].
Proof. repeat split; reflexivity. Qed.

(* item specs inherit the value: no ValueSpec is constructed from scratch inside the types package (pack.py / unpack.py
   derive every item spec by spec.copy(...) = dataclasses.replace), and the two sites that fill the option are
   constructions at a packer root *)
Definition in_types_package (s: string) : bool := String.prefix "mashumaro/core/meta/types/" s.

Lemma item_specs_inherit :
  existsb in_types_package valuespec_ctor_sites = false /\
  forallb (fun s => existsb (String.eqb s) valuespec_ctor_sites) nocopy_write_sites = true.
Proof. split; reflexivity. Qed.
