(* C13: where options and strategies come from -- theorems over kernels translated on this run
     K13  (read sites of option attributes, scanned over mashumaro/**/*.py)
     K13F (defaults of the generated omit_none= / by_alias= keywords)
     K5   (CodeBuilder.__iter_serialization_strategies, as a generator)                         *)
From Coq Require Import List String Ascii ZArith Bool Lia.
From Verif Require Import Regex PyK PyK_strat DialectMerge DialectTwin.
From VerifGen Require Import K3 K5 K13 K13F.
Import ListNotations.
Open Scope string_scope.

(* ------------------------------------------------------------------ *)
(* every read of an option goes through the resolution function        *)
(* ------------------------------------------------------------------ *)
Theorem options_only_via_resolution : direct_option_reads = [].
Proof. reflexivity. Qed.

(* every option of class Dialect (other than the strategy map) is read somewhere ... *)
Definition read_options : list string := map fst resolved_option_reads.

Lemma every_option_read_sweep :
  forallb (fun o => String.eqb o "serialization_strategy" || mem_str o read_options) dialect_attrs = true.
Proof. vm_compute. reflexivity. Qed.

Theorem every_option_read o : In o dialect_attrs -> o = "serialization_strategy" \/ In o read_options.
Proof.
  intros H. pose proof (proj1 (forallb_forall _ _) every_option_read_sweep o H) as E.
  apply orb_true_iff in E. destruct E as [E|E]; [left; apply String.eqb_eq; exact E|right; apply mem_str_In; exact E].
Qed.

(* ... and with one and the same default at every site *)
Definition same_default (p q: string * string) : bool :=
  negb (String.eqb (fst p) (fst q)) || String.eqb (snd p) (snd q).

Lemma defaults_consistent_sweep :
  forallb (fun p => forallb (same_default p) resolved_option_reads) resolved_option_reads = true.
Proof. vm_compute. reflexivity. Qed.

Theorem defaults_consistent o d1 d2 :
  In (o, d1) resolved_option_reads -> In (o, d2) resolved_option_reads -> d1 = d2.
Proof.
  intros H1 H2.
  pose proof (proj1 (forallb_forall _ _) defaults_consistent_sweep _ H1) as E.
  pose proof (proj1 (forallb_forall _ _) E _ H2) as E2. unfold same_default in E2. cbn in E2.
  rewrite String.eqb_refl in E2. cbn in E2. apply String.eqb_eq. exact E2.
Qed.

(* ------------------------------------------------------------------ *)
(* K13F: the keyword default IS the resolved option (same chain: call dialect, Config.dialect,
   Config, default_dialect).  This is the clause DialectTwin.call_effective uses for flag-steered
   options (the default method is compiled with self.dialect = None). *)
(* ------------------------------------------------------------------ *)
Definition render_bool (v: kv) : kv := KStr (if k_truthy v then "True" else "False").

Theorem kw_default_omit_none_spec d cd cfg dd :
  kw_default_omit_none d cd cfg dd = Ok (render_bool (first_set [d; cd; cfg; dd] "omit_none" (KBool false))).
Proof.
  unfold kw_default_omit_none. rewrite K3_first_set. cbn [bind]. unfold render_bool.
  destruct (k_truthy _); reflexivity.
Qed.

Theorem kw_default_by_alias_spec d cd cfg dd :
  kw_default_by_alias d cd cfg dd = Ok (render_bool (first_set [d; cd; cfg; dd] "serialize_by_alias" (KBool false))).
Proof.
  unfold kw_default_by_alias. rewrite K3_first_set. cbn [bind]. unfold render_bool.
  destruct (k_truthy _); reflexivity.
Qed.

(* the flag branch of call_effective is what the translated keyword default renders *)
Theorem flag_default_matches_model k D dd :
  k_omit_none_flag k = true ->
  exists v, call_effective k D dd "omit_none" (KBool false) = Ok v /\
            kw_default_omit_none KNone (k_cfgd k) (k_cfg k) dd = Ok (render_bool v).
Proof.
  intros HF. unfold call_effective, flag_of. rewrite HF. cbn [String.eqb Ascii.eqb Bool.eqb andb orb].
  unfold resolve. rewrite K3_first_set. eexists. split; [reflexivity|]. apply kw_default_omit_none_spec.
Qed.

(* a default dialect (Config.dialect, or a codec's / format's default_dialect) that sets omit_none
   is honoured by the keyword default when Config itself is silent *)
Corollary kw_default_honours_default_dialect cd dd cfg :
  is_set (look cfg "omit_none") = false ->
  kw_default_omit_none KNone cd cfg dd =
    Ok (render_bool (if is_set (look cd "omit_none") then look cd "omit_none"
                     else if is_set (look dd "omit_none") then look dd "omit_none" else KBool false)).
Proof.
  intros H. rewrite kw_default_omit_none_spec. cbn [first_set]. rewrite look_None. cbn [is_set kv_eqb negb].
  rewrite H. reflexivity.
Qed.

(* ------------------------------------------------------------------ *)
(* K5: strategy sources.  For a class without Config.dialect, compiling with call dialect D yields
   exactly the sources that the twin (Config.dialect := D, no call dialect) yields, in the same
   order: D, Config.serialization_strategy, default_dialect.  In particular a one-directional
   entry of D falls through to the lower sources for the other direction in both. *)
(* ------------------------------------------------------------------ *)
Theorem twin_strategy_sources d cfg dd ft dmap cmap :
  ns_get d "serialization_strategy" = Some (KDict dmap) ->
  ns_get cfg "dialect" = Some KNone ->
  ns_get cfg "serialization_strategy" = Some (KDict cmap) ->
  iter_serialization_strategies_inner (KNs d) (KNs cfg) dd ft =
  iter_serialization_strategies_inner KNone (KNs (ns_set cfg "dialect" (KNs d))) dd ft.
Proof.
  intros Hd Hc Hs. unfold iter_serialization_strategies_inner.
  cbn [k_truthy k_is kv_eqb negb k_getattr2 gbind].
  rewrite Hd, Hc, Hs. cbn [gbind k_dict_get k_truthy k_is kv_eqb negb].
  rewrite ns_get_set_same. cbn [gbind k_truthy k_is kv_eqb negb k_is_dialect k_getattr2].
  rewrite Hd. cbn [gbind k_dict_get].
  rewrite ns_get_set_other by discriminate. rewrite Hs. cbn [gbind k_dict_get]. reflexivity.
Qed.
