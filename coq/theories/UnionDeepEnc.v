(* C11: union / optional positions at any depth, serialization side.

   [pty]: leaves (any type whose packer contains no non-identity union: by the behaviour of its
   packer expression), unions, Optional, and the container forms around them.  A container with a
   non-identity item packer is always emitted as a comprehension / indexing expression
   (`[p(value) for value in value]`, `[p0(value[0]), ...]`, `{key: p(value) for key, value in value.items()}`).
   [qenc] = the packer the generator emits (pack_union at union positions); [qref] = the same plumbing
   with the property's "the member matching the value" at every union.  Proofs: UnionDeepEncProofs.v. *)
From Coq Require Import List String Ascii ZArith Bool.
From Verif Require Import UnionModel UnionDeep.
Import ListNotations.
Open Scope string_scope.

(* reference at a union position: the first member, in declaration order, whose branch accepts the value *)
Definition ref_pack (pms: list pmember) (v: uv) : option uv :=
  match find (fun m => p_accepts m v) pms with Some m => p_out m v | None => None end.

Inductive pty :=
| QLeaf (cls: string) (isval: bool) (enc: uv -> option uv)
| QU (l: list (nat * pty))
| QOpt (t: pty)
| QList (t: pty)
| QTupV (t: pty)
| QTupF (l: list pty)
| QDict (t: pty).

Definition q_cls (t: pty) : string :=
  match t with
  | QLeaf c _ _ => c | QList _ => "list" | QTupV _ | QTupF _ => "tuple" | QDict _ => "dict" | _ => "" end.

Section DeepEnc.
  Variable U : list pmember -> uv -> option uv.

  Fixpoint qgen (t: pty) : uv -> option uv :=
    match t with
    | QLeaf _ _ enc => enc
    | QU l => U (map (fun p => match p with (e, t') =>
                       match t' with
                       | QLeaf c true enc => PM c None enc
                       | _ => PM (q_cls t') (Some e) (qgen t') end end) l)
    | QOpt t' => opt_dec (qgen t')
    | QList t' => seq_run UList (qgen t')
    | QTupV t' => seq_run UList (qgen t')
    | QTupF l => fun v => option_map UList (tup_items (map qgen l) v 0)
    | QDict t' => dict_run Some (qgen t')
    end.

  Definition qmember (p: nat * pty) : pmember :=
    match p with (e, t') =>
      match t' with
      | QLeaf c true enc => PM c None enc
      | _ => PM (q_cls t') (Some e) (qgen t') end end.
End DeepEnc.

Definition qenc : pty -> uv -> option uv := qgen pack_union.
Definition qref : pty -> uv -> option uv := qgen ref_pack.

(* domain: every union visited (also while a member that does not match is tried) has a member whose
   branch accepts the value, and all branches that fire agree *)
Fixpoint qsafe (t: pty) : uv -> bool :=
  match t with
  | QLeaf _ _ _ => fun _ => true
  | QU l => fun v => wire_disjoint (map (qmember pack_union) l) v
                     && existsb (fun m => p_accepts m v) (map (qmember pack_union) l)
                     && forallb (fun p => qsafe (snd p) v) l
  | QOpt t' => fun v => is_none v || qsafe t' v
  | QList t' | QTupV t' => seq_all (qsafe t')
  | QTupF l => fun v => tup_all (map qsafe l) v 0
  | QDict t' => dict_all (qsafe t')
  end.

Record qcase := QCA {
  qc_t : pty;
  qc_v : uv;
  qc_obs : option uv;      (* the real encoder *)
  qc_ref : option uv       (* the Python reference (first conforming member) *)
}.
Definition qcase_ok_model (c: qcase) : bool := ouv_eqb (qenc (qc_t c) (qc_v c)) (qc_obs c).
(* the two references agree wherever the theorem applies *)
Definition qcase_ok_ref (c: qcase) : bool := implb (qsafe (qc_t c) (qc_v c)) (ouv_eqb (qref (qc_t c) (qc_v c)) (qc_ref c)).
Definition qcase_thm (c: qcase) : bool := implb (qsafe (qc_t c) (qc_v c)) (ouv_eqb (qenc (qc_t c) (qc_v c)) (qref (qc_t c) (qc_v c))).
Definition qcase_ok (c: qcase) : bool := qcase_ok_model c && qcase_ok_ref c && qcase_thm c.
Definition qcase_stale (c: qcase) : bool :=
  negb (qcase_ok_model c) && ouv_eqb (qc_obs c) (qc_ref c) && negb (qsafe (qc_t c) (qc_v c)).
Definition qcase_indomain (c: qcase) : bool := qsafe (qc_t c) (qc_v c).
