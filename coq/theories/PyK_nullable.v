(* Kernel universe for K20 = CodeBuilder.is_field_nullable (tools/kernels/k20_nullable.py).
   A field type as far as that function inspects it: a stack of Annotated[...] / Final[...] wrappers
   around a core type, of which a handful of tests are made, on the type as written (ftype)
   and on the type with the type variables of the specialisation substituted (real_type). *)
From Coq Require Import Bool.

Record fcore := mkCore {
  c_any_none : bool;      (* ftype in (typing.Any, type(None), None) *)
  c_tv_any   : bool;      (* is_type_var_any(real_type): the field's type variable is not bound in this specialisation *)
  c_optional : bool;      (* is_optional(ftype, resolved type params): a Union of exactly two members, one is None *)
  c_union_none : bool;    (* is_union(ftype) and NoneType in get_args(ftype): the type AS WRITTEN is a Union with a None member
                             (the test of /repo before 4da7e9e; kept so that the older source still translates) *)
  c_real_any_none : bool;   (* real_type in (typing.Any, type(None), None), real_type = self.get_real_type(fname, ftype):
                               the written type with the type variables of this specialisation substituted *)
  c_real_union_none : bool; (* is_union(real_type) and NoneType in get_args(real_type)  (since /repo 4da7e9e) *)
}.

Inductive fty :=
| FAnnotated (t: fty)            (* is_annotated(ftype); get_type_origin(ftype) = t *)
| FFinal (arg: option fty)       (* is_final(ftype); get_args(ftype) = (t,) or () for a bare Final *)
| FCore (c: fcore).

(* induction through the optional argument of Final *)
Fixpoint fty_ind' (P: fty -> Prop)
  (HA: forall t, P t -> P (FAnnotated t))
  (HF: forall o, (match o with Some t => P t | None => True end) -> P (FFinal o))
  (HC: forall c, P (FCore c)) (t: fty) : P t :=
  match t with
  | FAnnotated t' => HA t' (fty_ind' P HA HF HC t')
  | FFinal o => HF o (match o with Some t' => fty_ind' P HA HF HC t' | None => I end)
  | FCore c => HC c
  end.
