(* Kernel K15 (copy / by-reference / comprehension decision of pack_collection, translated
   from /repo on this run) against the type-level model: TyModel.seq_expr / map_expr take
   exactly the decision the code takes under the default dialect (no_copy empty), and the
   value produced is the same whichever of Copy / Comp is chosen for identity elements. *)
From Coq Require Import List String Bool.
From Verif Require Import Core TyModel TyProofs CollDecision.
From VerifGen Require Import K15.
Import ListNotations.

Definition ir_of_seq (d: decision) (ie: penc) : penc :=
  match d with DByRef => EId | DCopy => ECopyList | DComp => EListComp ie end.
Definition ir_of_map (d: decision) (ke ve: penc) : penc :=
  match d with DByRef => EId | DCopy => ECopyDict | DComp => EDictComp ke ve end.

(* the model's decision functions are the translated ones (default dialect: in_nocopy = false) *)
Theorem K15_seq_model : forall is_list ie,
  seq_expr is_list ie = ir_of_seq (seq_decision (is_id ie) false is_list) ie.
Proof. intros [] ie; unfold seq_expr, seq_decision; destruct (is_id ie); reflexivity. Qed.

Theorem K15_map_model : forall ke ve,
  map_expr ke ve = ir_of_map (map_decision (is_id ke && is_id ve) false true) ke ve.
Proof. intros ke ve; unfold map_expr, map_decision; destruct (is_id ke && is_id ve); reflexivity. Qed.

(* by reference is chosen only for identity elements of a listed origin; a conversion is
   never skipped: whenever the element packer is not the identity the comprehension is used *)
Theorem K15_never_skips_conversion : forall nocopy base,
  seq_decision false nocopy base = DComp /\ map_decision false nocopy base = DComp.
Proof. intros [] []; split; reflexivity. Qed.

Theorem K15_byref_iff : forall e n b,
  (seq_decision e n b = DByRef <-> e = true /\ n = true) /\
  (map_decision e n b = DByRef <-> e = true /\ n = true).
Proof. intros [] [] []; cbn; repeat split; intros; try discriminate; try tauto; destruct H; discriminate. Qed.
