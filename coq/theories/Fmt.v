(* C04: model of the format layer of mashumaro (round 3: class table, Self recursion,
   discriminated unions, Any positions, user dialects).

   encode_F = ser_F o pack_{dialect F}      decode_F = unpack_{dialect F} o parse_F

   pack / unpack are the basic (un)packers specialised by a format dialect
   (mixins/msgpack.py MessagePackDialect, mixins/orjson.py OrjsonDialect,
   mixins/toml.py TOMLDialect; json and yaml use the plain dialect).  The format
   libraries themselves (ser_F / parse_F) are NOT modelled: they are section
   variables with an assumed law (FormatProofs.v).

   Everything in this file is total, computable Gallina and is run by the harness
   (vm_compute) against the real implementation. *)
From Coq Require Import List String Ascii ZArith Bool Lia.
Import ListNotations.
Open Scope string_scope.
Open Scope Z_scope.

Inductive fmt := FJson | FOrjson | FYaml | FMsgpack | FToml.

(* leaf kinds whose basic form is a rendered text *)
Inductive lkind := KBytes | KBytearray | KDatetime | KDate | KTime | KUuid | KText.

Definition lkind_eqb (a b: lkind) : bool :=
  match a, b with
  | KBytes, KBytes | KBytearray, KBytearray | KDatetime, KDatetime | KDate, KDate
  | KTime, KTime | KUuid, KUuid | KText, KText => true
  | _, _ => false end.

Lemma lkind_eqb_eq a b : lkind_eqb a b = true <-> a = b.
Proof. destruct a, b; simpl; split; intro H; try reflexivity; try discriminate. Qed.

Lemma lkind_eqb_refl a : lkind_eqb a a = true.
Proof. destruct a; reflexivity. Qed.

(* floats are only copied and compared: a finite float is its IEEE bit pattern *)
Inductive fl := FFin (bits: Z) | FInf (neg: bool) | FNan.

Definition fl_eqb (a b: fl) : bool :=
  match a, b with
  | FFin x, FFin y => x =? y
  | FInf x, FInf y => Bool.eqb x y
  | FNan, FNan => true
  | _, _ => false end.

Inductive ckind := CTuple | CSet | CFrozenSet.
Definition ckind_eqb (a b: ckind) : bool :=
  match a, b with CTuple, CTuple | CSet, CSet | CFrozenSet, CFrozenSet => true | _, _ => false end.

(* Python values of the small grammar *)
Inductive pv :=
| VNone
| VBool (b: bool)
| VInt (z: Z)
| VFloat (f: fl)
| VStr (s: string)
| VLeaf (k: lkind) (p: string)          (* bytes / datetime-like / other text-rendered leaf; p = identity of the value *)
| VList (l: list pv)
| VDict (kvs: list (string * pv))       (* str keys *)
| VObj (c: string) (fs: list (string * pv))    (* dataclass instance, fields in class order *)
| VColl (ck: ckind) (l: list pv)              (* tuple / set / frozenset (elements in iteration order) *)
| VEnum (e: string) (m: string)               (* enum class, member name *)
| VNT (c: string) (items: list pv).           (* named tuple instance *)

(* trees handed to / returned by a format library ("basic form" when no BNat occurs) *)
Inductive bv :=
| BNone
| BBool (b: bool)
| BInt (z: Z)
| BFloat (f: fl)
| BStr (s: string)
| BNat (k: lkind) (p: string)           (* native object left unconverted by the dialect *)
| BList (l: list bv)
| BDict (kvs: list (string * bv)).

(* types; dataclasses are referred to by name and described by the class table *)
Inductive ty :=
| TInt | TFloat | TBool | TStr
| TLeaf (k: lkind)
| TLit (s: string)                       (* Literal["s"] *)
| TAny                                   (* passed through untouched in both directions *)
| TList (t: ty)
| TDict (t: ty)
| TOpt (t: ty)
| TData (c: string)                      (* a dataclass, by name (also a forward reference to itself) *)
| TSelf                                  (* typing.Self: the class whose field this is *)
| TDiscr (fld: string) (vs: list (string * string))
| TColl (ck: ckind) (t: ty)               (* Tuple[T, ...] / Set[T] / FrozenSet[T]: a list on the wire *)
| TEnum (e: string)                       (* an Enum class: member value on the wire *)
| TNamed (c: string)                      (* a NamedTuple class: the list of its items on the wire *)
| TTyped (c: string)                      (* a (total) TypedDict: a mapping with exactly the declared keys *)
| TFix (c: string).                       (* Tuple[T1, .., Tn]: item types listed in the class table under a synthetic name *)
    (* Annotated[Union[C1..Cn], Discriminator(field=fld, include_supertypes=True)]: tag literal -> class *)

(* field declaration: name, type, "default is None"; inherited fields are listed (flattened) *)
Definition fdecl := (string * (ty * bool))%type.
Definition env := list (string * list fdecl).   (* dataclasses, named tuples and typed dicts, by name *)

(* enum classes: member name -> member value (str or int) *)
Inductive ev := EvStr (s: string) | EvInt (z: Z).
Definition ev_eqb (a b: ev) : bool :=
  match a, b with EvStr x, EvStr y => String.eqb x y | EvInt x, EvInt y => Z.eqb x y | _, _ => false end.
Definition enums := list (string * list (string * ev)).

Inductive err := EMissingField (n: string) | EBad.
Inductive res (A: Type) := Ok (a: A) | Err (e: err).
Arguments Ok {A} a.
Arguments Err {A} e.

Definition bind {A B} (r: res A) (f: A -> res B) : res B :=
  match r with Ok a => f a | Err e => Err e end.
Notation "x <- r ;; k" := (bind r (fun x => k)) (at level 61, r at next level, right associativity).

Section MapM.
  Context {A B: Type} (f: A -> res B).
  Fixpoint mapM (l: list A) : res (list B) :=
    match l with
    | [] => Ok []
    | x :: r => y <- f x ;; ys <- mapM r ;; Ok (y :: ys)
    end.
End MapM.

Definition on_snd {A B} (f: A -> res B) (kv: string * A) : res (string * B) :=
  match kv with (k, x) => y <- f x ;; Ok (k, y) end.

Fixpoint lookup {A} (n: string) (l: list (string * A)) : option A :=
  match l with
  | [] => None
  | (k, x) :: r => if String.eqb k n then Some x else lookup n r end.

(* ------------------------------------------------------------------ *)
(* leaf semantics of an effective dialect (format dialect merged with a user dialect)  *)

Inductive lmode :=
| MText                 (* no strategy: the documented text rendering / parser *)
| MNative               (* pass_through: the object itself *)
| MCtorBA               (* deserialize = bytearray: rebuild a bytearray from the library's bytes *)
| MUser (u: nat).       (* a user strategy (text rendering u) *)

Definition lmode_eqb (a b: lmode) : bool :=
  match a, b with
  | MText, MText | MNative, MNative | MCtorBA, MCtorBA => true
  | MUser x, MUser y => Nat.eqb x y
  | _, _ => false end.

Record lsem := {
  ser_mode : lkind -> lmode;
  de_mode : lkind -> lmode;
  omit_none : bool;
}.

Definition text_mode (_: lkind) : lmode := MText.
Definition basic_ls : lsem := {| ser_mode := text_mode; de_mode := text_mode; omit_none := false |}.

Definition is_bytes_kind (k: lkind) : bool := match k with KBytes | KBytearray => true | _ => false end.
Definition is_dt_kind (k: lkind) : bool := match k with KDatetime | KDate | KTime => true | _ => false end.
Definition is_orjson_kind (k: lkind) : bool := match k with KDatetime | KDate | KTime | KUuid => true | _ => false end.

(* mixins/orjson.py:  {datetime,date,time,UUID: {"serialize": pass_through}}
   mixins/msgpack.py: {bytes: pass_through, bytearray: {"deserialize": bytearray, "serialize": pass_through}}
   mixins/toml.py:    omit_none = True, {datetime,date,time: pass_through} *)
Definition lsem_of (F: fmt) : lsem :=
  match F with
  | FJson | FYaml => basic_ls
  | FOrjson => {| ser_mode := fun k => if is_orjson_kind k then MNative else MText; de_mode := text_mode;
                  omit_none := false |}
  | FMsgpack => {| ser_mode := fun k => if is_bytes_kind k then MNative else MText;
                   de_mode := fun k => match k with KBytes => MNative | KBytearray => MCtorBA | _ => MText end;
                   omit_none := false |}
  | FToml => {| ser_mode := fun k => if is_dt_kind k then MNative else MText;
                de_mode := fun k => if is_dt_kind k then MNative else MText; omit_none := true |}
  end.

(* what the library returns for a native leaf it was given: msgpack has one binary type *)
Definition wire (k: lkind) : lkind := match k with KBytearray => KBytes | _ => k end.

(* builder.py could_be_none: Optional[...] and Any fields are "nullable" (omit_none applies to them) *)
Definition is_opt (t: ty) : bool := match t with TOpt _ | TAny => true | _ => false end.
Definition is_vnone (v: pv) : bool := match v with VNone => true | _ => false end.
Definition is_bnone (b: bv) : bool := match b with BNone => true | _ => false end.

(* field-wise helpers, section style (so that the nested recursion through them is accepted) *)
Section Fields.
  Context (P: pv -> ty -> res bv) (omit: bool).
  (* to_dict body: value fields in class order, in lockstep with the declarations *)
  Fixpoint pack_fields (vs: list (string * pv)) (ds: list fdecl) {struct vs} : res (list (string * bv)) :=
    match vs, ds with
    | [], [] => Ok []
    | (n', x) :: vs', (n, (ft, _)) :: ds' =>
        if String.eqb n n' then
          b <- P x ft ;;
          r <- pack_fields vs' ds' ;;
          (* builder.py: `if value is not None: kwargs[..] = ...` and, under omit_none,
             no else branch for nullable fields *)
          Ok (if omit && is_opt ft && is_vnone x then r else (n, b) :: r)
        else Err EBad
    | _, _ => Err EBad end.
End Fields.

Section UFields.
  (* the document's entries, each already bound to its unpacker (key, fun type => ...) *)
  Context (clos: list (string * (ty -> res pv))).
  Fixpoint unpack_fields (ds: list fdecl) {struct ds} : res (list (string * pv)) :=
    match ds with
    | [] => Ok []
    | (n, (ft, dflt_none)) :: ds' =>
        match lookup n clos with
        | Some u => v <- u ft ;; r <- unpack_fields ds' ;; Ok ((n, v) :: r)
        | None => if dflt_none then r <- unpack_fields ds' ;; Ok ((n, VNone) :: r)
                  else Err (EMissingField n)
        end
    end.
End UFields.

(* named tuples: items in lockstep with the declarations, a list on the wire *)
Section Items.
  Context (P: pv -> ty -> res bv).
  Fixpoint pack_items (vs: list pv) (ds: list fdecl) {struct vs} : res (list bv) :=
    match vs, ds with
    | [], [] => Ok []
    | x :: vs', (_, (ft, _)) :: ds' => b <- P x ft ;; r <- pack_items vs' ds' ;; Ok (b :: r)
    | _, _ => Err EBad end.
End Items.

Section UItems.
  Context (U: bv -> ty -> res pv).
  Fixpoint unpack_items (bs: list bv) (ds: list fdecl) {struct bs} : res (list pv) :=
    match bs, ds with
    | [], [] => Ok []
    | x :: bs', (_, (ft, _)) :: ds' => v <- U x ft ;; r <- unpack_items bs' ds' ;; Ok (v :: r)
    | _, _ => Err EBad end.
End UItems.

Definition ev_to_bv (v: ev) : bv := match v with EvStr s => BStr s | EvInt z => BInt z end.
Definition bv_to_ev (b: bv) : option ev := match b with BStr s => Some (EvStr s) | BInt z => Some (EvInt z) | _ => None end.

(* Enum(value): the first member with that value *)
Fixpoint enum_find (ms: list (string * ev)) (v: ev) : option string :=
  match ms with
  | [] => None
  | (m, x) :: r => if ev_eqb x v then Some m else enum_find r v
  end.

Section DropGo.
  Context (D: bv -> bv).
  Fixpoint drop_go (l: list (string * bv)) : list (string * bv) :=
    match l with
    | [] => []
    | (k, x) :: r => if is_bnone x then drop_go r else (k, D x) :: drop_go r
    end.
End DropGo.

(* Any-typed positions: the value is handed over / taken back as it is (JSON-like values only) *)
Fixpoint any_pack (v: pv) : res bv :=
  match v with
  | VNone => Ok BNone
  | VBool b => Ok (BBool b)
  | VInt z => Ok (BInt z)
  | VFloat f => Ok (BFloat f)
  | VStr s => Ok (BStr s)
  | VList l => bs <- mapM any_pack l ;; Ok (BList bs)
  | VDict kvs => bs <- mapM (on_snd any_pack) kvs ;; Ok (BDict bs)
  | _ => Err EBad
  end.

Fixpoint any_unpack (b: bv) : res pv :=
  match b with
  | BNone => Ok VNone
  | BBool x => Ok (VBool x)
  | BInt z => Ok (VInt z)
  | BFloat f => Ok (VFloat f)
  | BStr s => Ok (VStr s)
  | BList l => vs <- mapM any_unpack l ;; Ok (VList vs)
  | BDict kvs => vs <- mapM (on_snd any_unpack) kvs ;; Ok (VDict vs)
  | BNat _ _ => Err EBad
  end.

Section Leaves.
  (* stdlib leaf codecs: isoformat / str / encodebytes and their parsers (abstract) *)
  Variable render : lkind -> string -> string.
  Variable parse_leaf : lkind -> string -> option string.
  (* user strategies (serialize / deserialize pairs given in a user dialect), by id *)
  Variable urender : nat -> lkind -> string -> string.
  Variable uparse : nat -> lkind -> string -> option string.
  (* class table, enum table *)
  Variable E : env.
  Variable EN : enums.

  Definition pack_leaf (ls: lsem) (k: lkind) (p: string) : bv :=
    match ls.(ser_mode) k with
    | MText => BStr (render k p)
    | MNative | MCtorBA => BNat k p
    | MUser u => BStr (urender u k p)
    end.

  Definition unpack_leaf (ls: lsem) (k: lkind) (b: bv) : res pv :=
    match ls.(de_mode) k with
    | MText => match b with
               | BStr s => match parse_leaf k s with Some p => Ok (VLeaf k p) | None => Err EBad end
               | _ => Err EBad end
    | MNative => match b with BNat k' p => Ok (VLeaf k' p) | _ => Err EBad end   (* the object the library returned *)
    | MCtorBA => match b with BNat KBytes p => Ok (VLeaf KBytearray p) | _ => Err EBad end
    | MUser u => match b with
                 | BStr s => match uparse u k s with Some p => Ok (VLeaf k p) | None => Err EBad end
                 | _ => Err EBad end
    end.

  (* the dataclass-level packer of class c applied to v *)
  Definition pack_data (P: pv -> string -> ty -> res bv) (omit: bool) (v: pv) (c: string) : res bv :=
    match v with
    | VObj c' fs =>
        if String.eqb c c' then
          match lookup c E with
          | Some ds => bs <- pack_fields (fun x ft => P x c ft) omit fs ds ;; Ok (BDict bs)
          | None => Err EBad end
        else Err EBad
    | _ => Err EBad end.

  Definition is_variant (vs: list (string * string)) (c: string) : bool :=
    existsb (fun tc => match tc with (_, c') => String.eqb c' c end) vs.

  (* -- pack: to_dict specialised by the effective dialect; [self] = class whose field is packed -- *)
  Fixpoint pack (ls: lsem) (v: pv) {struct v} : string -> ty -> res bv :=
    fun self =>
    fix on_ty (t: ty) {struct t} : res bv :=
      match t with
      | TInt => match v with VInt z => Ok (BInt z) | _ => Err EBad end
      | TFloat => match v with VFloat f => Ok (BFloat f) | _ => Err EBad end
      | TBool => match v with VBool b => Ok (BBool b) | _ => Err EBad end
      | TStr => match v with VStr s => Ok (BStr s) | _ => Err EBad end
      | TLeaf k => match v with
                   | VLeaf k' p => if lkind_eqb k k' then Ok (pack_leaf ls k p) else Err EBad
                   | _ => Err EBad end
      | TLit s => match v with VStr s' => if String.eqb s s' then Ok (BStr s) else Err EBad | _ => Err EBad end
      | TAny => any_pack v
      | TList t' => match v with
                    | VList l => bs <- mapM (fun x => pack ls x self t') l ;; Ok (BList bs)
                    | _ => Err EBad end
      | TDict t' => match v with
                    | VDict kvs => bs <- mapM (on_snd (fun x => pack ls x self t')) kvs ;; Ok (BDict bs)
                    | _ => Err EBad end
      | TOpt t' => match v with VNone => Ok BNone | _ => on_ty t' end
      | TData c => pack_data (pack ls) ls.(omit_none) v c
      | TSelf => pack_data (pack ls) ls.(omit_none) v self
      | TDiscr _ vs => match v with
                       | VObj c' _ => if is_variant vs c' then pack_data (pack ls) ls.(omit_none) v c' else Err EBad
                       | _ => Err EBad end
      | TColl ck t' => match v with
                       | VColl ck' l => if ckind_eqb ck ck'
                                        then bs <- mapM (fun x => pack ls x self t') l ;; Ok (BList bs)
                                        else Err EBad
                       | _ => Err EBad end
      | TEnum e => match v with
                   | VEnum e' m => if String.eqb e e' then
                                     match lookup e EN with
                                     | Some ms => match lookup m ms with Some x => Ok (ev_to_bv x) | None => Err EBad end
                                     | None => Err EBad end
                                   else Err EBad
                   | _ => Err EBad end
      | TNamed c => match v with
                    | VNT c' items => if String.eqb c c' then
                                        match lookup c E with
                                        | Some ds => bs <- pack_items (fun x ft => pack ls x c ft) items ds ;; Ok (BList bs)
                                        | None => Err EBad end
                                      else Err EBad
                    | _ => Err EBad end
      | TTyped c => match v with
                    | VDict kvs => match lookup c E with
                                   | Some ds => bs <- pack_fields (fun x ft => pack ls x c ft) false kvs ds ;; Ok (BDict bs)
                                   | None => Err EBad end
                    | _ => Err EBad end
      | TFix c => match v with
                  | VColl CTuple items => match lookup c E with
                                          | Some ds => bs <- pack_items (fun x ft => pack ls x self ft) items ds ;; Ok (BList bs)
                                          | None => Err EBad end
                  | _ => Err EBad end
      end.

  Definition bind_clos (U: bv -> string -> ty -> res pv) (c: string) (kv: string * bv) : string * (ty -> res pv) :=
    match kv with (k, x) => (k, U x c) end.

  Definition unpack_data (U: bv -> string -> ty -> res pv) (b: bv) (c: string) : res pv :=
    match b with
    | BDict kvs =>
        match lookup c E with
        | Some ds => vs <- unpack_fields (map (bind_clos U c) kvs) ds ;; Ok (VObj c vs)
        | None => Err EBad end
    | _ => Err EBad end.

  (* -- unpack: from_dict specialised by the effective dialect, on documents produced by an encoder
        (scalar coercions of foreign input are C03's subject, not modelled here) -------- *)
  Fixpoint unpack (ls: lsem) (b: bv) {struct b} : string -> ty -> res pv :=
    fun self =>
    fix on_ty (t: ty) {struct t} : res pv :=
      match t with
      | TInt => match b with BInt z => Ok (VInt z) | _ => Err EBad end
      | TFloat => match b with BFloat f => Ok (VFloat f) | _ => Err EBad end
      | TBool => match b with BBool x => Ok (VBool x) | _ => Err EBad end
      | TStr => match b with BStr s => Ok (VStr s) | _ => Err EBad end
      | TLeaf k => unpack_leaf ls k b
      | TLit s => match b with BStr s' => if String.eqb s s' then Ok (VStr s) else Err EBad | _ => Err EBad end
      | TAny => any_unpack b
      | TList t' => match b with
                    | BList l => vs <- mapM (fun x => unpack ls x self t') l ;; Ok (VList vs)
                    | _ => Err EBad end
      | TDict t' => match b with
                    | BDict kvs => vs <- mapM (on_snd (fun x => unpack ls x self t')) kvs ;; Ok (VDict vs)
                    | _ => Err EBad end
      | TOpt t' => match b with BNone => Ok VNone | _ => on_ty t' end
      | TData c => unpack_data (unpack ls) b c
      | TSelf => unpack_data (unpack ls) b self
      | TDiscr fld vs =>
          (* the tag decides the class whose (per-format) unpacker is called *)
          match b with
          | BDict kvs => match lookup fld kvs with
                         | Some (BStr tag) => match lookup tag vs with
                                              | Some c => unpack_data (unpack ls) b c
                                              | None => Err EBad end
                         | _ => Err EBad end
          | _ => Err EBad end
      | TColl ck t' => match b with
                       | BList l => vs <- mapM (fun x => unpack ls x self t') l ;; Ok (VColl ck vs)
                       | _ => Err EBad end
      | TEnum e => match lookup e EN, bv_to_ev b with
                   | Some ms, Some x => match enum_find ms x with Some m => Ok (VEnum e m) | None => Err EBad end
                   | _, _ => Err EBad end
      | TNamed c => match b with
                    | BList l => match lookup c E with
                                 | Some ds => vs <- unpack_items (fun x ft => unpack ls x c ft) l ds ;; Ok (VNT c vs)
                                 | None => Err EBad end
                    | _ => Err EBad end
      | TTyped c => match b with
                    | BDict kvs => match lookup c E with
                                   | Some ds => vs <- unpack_fields (map (bind_clos (unpack ls) c) kvs) ds ;; Ok (VDict vs)
                                   | None => Err EBad end
                    | _ => Err EBad end
      | TFix c => match b with
                  | BList l => match lookup c E with
                               | Some ds => vs <- unpack_items (fun x ft => unpack ls x self ft) l ds ;; Ok (VColl CTuple vs)
                               | None => Err EBad end
                  | _ => Err EBad end
      end.

  (* -- what the format library does to native leaves (part of the assumed law) --------- *)
  Fixpoint norm (F: fmt) (b: bv) {struct b} : bv :=
    match b with
    | BNat k p => match F with
                  | FOrjson => BStr (render k p)      (* orjson writes datetime/UUID natives as text *)
                  | FMsgpack => BNat (wire k) p       (* bin type: bytearray comes back as bytes *)
                  | _ => BNat k p end
    | BList l => BList (map (norm F) l)
    | BDict kvs => BDict (map (fun kv => match kv with (k, x) => (k, norm F x) end) kvs)
    | _ => b
    end.

  (* -- the relation ~_F between a parsed document and the basic form ------------------- *)
  Fixpoint render_natives (b: bv) : bv :=
    match b with
    | BNat k p => BStr (render k p)
    | BList l => BList (map render_natives l)
    | BDict kvs => BDict (map (fun kv => match kv with (k, x) => (k, render_natives x) end) kvs)
    | _ => b
    end.

  Fixpoint drop_nulls (b: bv) : bv :=
    match b with
    | BList l => BList (map drop_nulls l)
    | BDict kvs => BDict (drop_go drop_nulls kvs)
    | _ => b
    end.

  (* parsed ~ basic:  the document with its native leaves rendered to text equals the basic
     form, from which (when the effective dialect omits None) the None-valued keys have been dropped *)
  Definition approx (omit: bool) (parsed basic: bv) : Prop :=
    render_natives parsed = (if omit then drop_nulls basic else basic).
End Leaves.

(* ------------------------------------------------------------------ *)
(* computable side conditions *)

Fixpoint nodupb (l: list string) : bool :=
  match l with
  | [] => true
  | x :: r => negb (existsb (String.eqb x) r) && nodupb r
  end.

(* a discriminated union is well formed when its tags are distinct and every variant class
   declares the tag field as the matching literal *)
Definition discr_okb (E: env) (fld: string) (vs: list (string * string)) : bool :=
  nodupb (map fst vs) &&
  forallb (fun tc => match tc with (tag, c) =>
             match lookup c E with
             | Some ds => match lookup fld ds with
                          | Some (TLit tag', _) => String.eqb tag tag'
                          | _ => false end
             | None => false end end) vs.

Fixpoint wf_ty (E: env) (t: ty) : bool :=
  match t with
  | TList t' | TDict t' | TOpt t' | TColl _ t' => wf_ty E t'
  | TDiscr fld vs => discr_okb E fld vs
  | _ => true
  end.

(* field names of every class are distinct, field types are well formed *)
Definition wf_env (E: env) : bool :=
  forallb (fun cd => match cd with (_, ds) =>
             nodupb (map fst ds) && forallb (fun d => match d with (_, (ft, _)) => wf_ty E ft end) ds end) E.

(* member values of every enum are pairwise distinct (no aliases) *)
Fixpoint ev_nodupb (l: list ev) : bool :=
  match l with [] => true | x :: r => negb (existsb (ev_eqb x) r) && ev_nodupb r end.
Definition wf_enums (EN: enums) : bool :=
  forallb (fun e => match e with (_, ms) => ev_nodupb (map snd ms) && nodupb (map fst ms) end) EN.

(* every Optional field of every class defaults to None *)
Definition defaults_okb (E: env) : bool :=
  forallb (fun cd => match cd with (_, ds) =>
             forallb (fun d => match d with (_, (ft, dn)) => negb (is_opt ft) || dn end) ds end) E.

Fixpoint nonullb (b: bv) : bool :=
  match b with
  | BNone => false
  | BList l => forallb nonullb l
  | BDict kvs => forallb (fun kv => match kv with (_, x) => nonullb x end) kvs
  | _ => true
  end.

Section LeavesOk.
  Variable leaf_ok : lkind -> string -> bool.
  Fixpoint leaves_okb (v: pv) : bool :=
    match v with
    | VLeaf k p => leaf_ok k p
    | VList l => forallb leaves_okb l
    | VDict kvs => forallb (fun kv => match kv with (_, x) => leaves_okb x end) kvs
    | VObj _ fs => forallb (fun kv => match kv with (_, x) => leaves_okb x end) fs
    | VColl _ l | VNT _ l => forallb leaves_okb l
    | _ => true
    end.
End LeavesOk.


(* ser/de modes of one leaf kind fit together (and fit what the format library does to a native leaf) *)
Definition pair_ok (F: fmt) (s d: lmode) (k: lkind) : bool :=
  match s, d with
  | MText, MText => true
  | MUser u, MUser u' => Nat.eqb u u'
  | MNative, MText => match F with FOrjson => true | _ => false end
  | MNative, MNative => match F with FMsgpack | FToml => lkind_eqb (wire k) k | _ => false end
  | MNative, MCtorBA => match F, k with FMsgpack, KBytearray => true | _, _ => false end
  | _, _ => false end.

Definition all_kinds : list lkind := [KBytes; KBytearray; KDatetime; KDate; KTime; KUuid; KText].
Definition coherentb (F: fmt) (ls: lsem) : bool :=
  forallb (fun k => pair_ok F (ls.(ser_mode) k) (ls.(de_mode) k) k) all_kinds.

(* the dict-format counterpart of an effective dialect: what to_dict(dialect=X) does *)
Definition demote (m: lmode) : lmode := match m with MNative | MCtorBA => MText | _ => m end.
Definition basic_of (ls: lsem) : lsem :=
  {| ser_mode := fun k => demote (ls.(ser_mode) k); de_mode := fun k => demote (ls.(de_mode) k); omit_none := false |}.


(* ------------------------------------------------------------------ *)
(* effective dialect = format dialect merged with the caller's dialect (Dialect.merge: the caller's
   serialization_strategy wins per type; a dict entry {"serialize"/"deserialize": f} is merged per
   direction into a dict entry and replaces a SerializationStrategy object whole).
   Callable ids: 0 = pass_through, 1 = bytearray, n+2 = user strategy n. *)
Inductive sentry :=
| EObj (id: nat)                              (* a SerializationStrategy instance (pass_through is one) *)
| EDict (ser de: option nat).                 (* {"serialize": .., "deserialize": ..} with either key optional *)

Definition fmt_entry (F: fmt) (k: lkind) : option sentry :=
  match F with
  | FJson | FYaml => None
  | FOrjson => if is_orjson_kind k then Some (EDict (Some 0%nat) None) else None
  | FMsgpack => match k with
                | KBytes => Some (EObj 0)
                | KBytearray => Some (EDict (Some 0%nat) (Some 1%nat))
                | _ => None end
  | FToml => if is_dt_kind k then Some (EObj 0) else None
  end.

Definition fmt_omit (F: fmt) : bool := match F with FToml => true | _ => false end.

Definition entry_dir (e: option sentry) (ser: bool) : option nat :=
  match e with
  | None => None
  | Some (EObj i) => Some i
  | Some (EDict s d) => if ser then s else d
  end.

(* what is in force for one type and one direction after merge(format, user) *)
Definition eff_id (cv ov: option sentry) (ser: bool) : option nat :=
  match ov with
  | None => entry_dir cv ser
  | Some (EObj i) => Some i
  | Some (EDict s d) =>
      match (if ser then s else d) with
      | Some f => Some f
      | None => match cv with Some (EDict _ _) => entry_dir cv ser | _ => None end
      end
  end.

Definition mode_of_id (o: option nat) : lmode :=
  match o with
  | None => MText
  | Some O => MNative
  | Some (S O) => MCtorBA
  | Some (S (S u)) => MUser u
  end.

Definition udialect := lkind -> option sentry.
Definition no_user : udialect := fun _ => None.

Definition eff_lsem (F: fmt) (X: udialect) : lsem :=
  {| ser_mode := fun k => mode_of_id (eff_id (fmt_entry F k) (X k) true);
     de_mode := fun k => mode_of_id (eff_id (fmt_entry F k) (X k) false);
     omit_none := fmt_omit F |}.

(* to_dict(dialect=X): no format dialect *)
Definition user_lsem (X: udialect) : lsem :=
  {| ser_mode := fun k => mode_of_id (eff_id None (X k) true);
     de_mode := fun k => mode_of_id (eff_id None (X k) false);
     omit_none := false |}.

Definition sentry_eqb (a b: option sentry) : bool :=
  let oeq := fun (x y: option nat) => match x, y with
                                      | None, None => true | Some i, Some j => Nat.eqb i j | _, _ => false end in
  match a, b with
  | None, None => true
  | Some (EObj i), Some (EObj j) => Nat.eqb i j
  | Some (EDict s d), Some (EDict s' d') => oeq s s' && oeq d d'
  | _, _ => false end.

Fixpoint udial_of (l: list (lkind * sentry)) : udialect :=
  fun k => match l with
           | [] => None
           | (k', e) :: r => if lkind_eqb k' k then Some e else udial_of r k
           end.

(* which native leaf kinds the format library itself accepts *)
Definition fmt_native (F: fmt) (k: lkind) : bool :=
  match F with
  | FJson | FYaml => false
  | FOrjson => is_orjson_kind k
  | FMsgpack => is_bytes_kind k
  | FToml => is_dt_kind k
  end.

Definition i64 (z: Z) : bool := (- 2 ^ 63 <=? z) && (z <=? 2 ^ 63 - 1).

Section Representable.
  (* which native leaf values the format can carry (naive times only for orjson / toml,
     whole-minute offsets ...): abstract, decided by the harness per value *)
  Variable leaf_repr : fmt -> lkind -> string -> bool.

  Fixpoint repr_in (F: fmt) (b: bv) {struct b} : bool :=
    match b with
    | BNone => match F with FToml => false | _ => true end
    | BBool _ | BStr _ => true
    | BInt z => match F with FOrjson | FMsgpack => i64 z | _ => true end
    | BFloat f => match F, f with FOrjson, FFin _ => true | FOrjson, _ => false | _, _ => true end
    | BNat k p => fmt_native F k && leaf_repr F k p
    | BList l => forallb (repr_in F) l
    | BDict kvs => forallb (fun kv => match kv with (_, x) => repr_in F x end) kvs
    end.

  Definition is_table (b: bv) : bool := match b with BDict _ => true | _ => false end.

  (* F's representable subset, on the tree handed to the library *)
  Definition representable (F: fmt) (b: bv) : bool :=
    repr_in F b && match F with FToml => is_table b | _ => true end.
End Representable.

(* ------------------------------------------------------------------ *)
(* order-insensitive comparison used by the correspondence (Python dict equality ignores
   key order; yaml sorts keys, toml writes tables after scalars) *)

Fixpoint bv_sim (a b: bv) {struct a} : bool :=
  match a, b with
  | BNone, BNone => true
  | BBool x, BBool y => Bool.eqb x y
  | BInt x, BInt y => x =? y
  | BFloat x, BFloat y => fl_eqb x y
  | BStr x, BStr y => String.eqb x y
  | BNat k p, BNat k' p' => lkind_eqb k k' && String.eqb p p'
  | BList x, BList y =>
      (fix go (l1 l2: list bv) : bool :=
         match l1, l2 with
         | [], [] => true
         | u :: r1, w :: r2 => bv_sim u w && go r1 r2
         | _, _ => false end) x y
  | BDict x, BDict y =>
      Nat.eqb (List.length x) (List.length y) &&
      (fix go (l: list (string * bv)) : bool :=
         match l with
         | [] => true
         | (k, u) :: r => match lookup k y with Some w => bv_sim u w | None => false end && go r
         end) x
  | _, _ => false
  end.

Fixpoint pv_sim (a b: pv) {struct a} : bool :=
  match a, b with
  | VNone, VNone => true
  | VBool x, VBool y => Bool.eqb x y
  | VInt x, VInt y => x =? y
  | VFloat x, VFloat y => fl_eqb x y
  | VStr x, VStr y => String.eqb x y
  | VLeaf k p, VLeaf k' p' => lkind_eqb k k' && String.eqb p p'
  | VList x, VList y =>
      (fix go (l1 l2: list pv) : bool :=
         match l1, l2 with
         | [], [] => true
         | u :: r1, w :: r2 => pv_sim u w && go r1 r2
         | _, _ => false end) x y
  | VDict x, VDict y =>
      Nat.eqb (List.length x) (List.length y) &&
      (fix go (l: list (string * pv)) : bool :=
         match l with
         | [] => true
         | (k, u) :: r => match lookup k y with Some w => pv_sim u w | None => false end && go r
         end) x
  | VColl k x, VColl k' y =>
      ckind_eqb k k' &&
      (fix go (l1 l2: list pv) : bool :=
         match l1, l2 with
         | [], [] => true
         | u :: r1, w :: r2 => pv_sim u w && go r1 r2
         | _, _ => false end) x y
  | VNT c x, VNT c' y =>
      String.eqb c c' &&
      (fix go (l1 l2: list pv) : bool :=
         match l1, l2 with
         | [], [] => true
         | u :: r1, w :: r2 => pv_sim u w && go r1 r2
         | _, _ => false end) x y
  | VEnum e m, VEnum e' m' => String.eqb e e' && String.eqb m m'
  | VObj c x, VObj c' y =>
      String.eqb c c' &&
      (fix go (l1 l2: list (string * pv)) : bool :=
         match l1, l2 with
         | [], [] => true
         | (k, u) :: r1, (k', w) :: r2 => String.eqb k k' && pv_sim u w && go r1 r2
         | _, _ => false end) x y
  | _, _ => false
  end.

(* user strategy tables for the case files: (strategy id, kind, payload, text) *)
Definition utab := list (nat * lkind * string * string).

Fixpoint utab_render (tb: utab) (u: nat) (k: lkind) (p: string) : string :=
  match tb with
  | [] => "?"
  | (u', k', p', s) :: r => if Nat.eqb u' u && lkind_eqb k' k && String.eqb p' p then s else utab_render r u k p
  end.

Fixpoint utab_parse (tb: utab) (u: nat) (k: lkind) (s: string) : option string :=
  match tb with
  | [] => None
  | (u', k', p, s') :: r => if Nat.eqb u' u && lkind_eqb k' k && String.eqb s' s then Some p else utab_parse r u k s
  end.

(* finite leaf tables for the case files: (kind, payload, text) *)
Definition ltab := list (lkind * string * string).

Fixpoint tab_render (tb: ltab) (k: lkind) (p: string) : string :=
  match tb with
  | [] => "?"
  | (k', p', s) :: r => if lkind_eqb (wire k') (wire k) && String.eqb p' p then s else tab_render r k p
  end.

Fixpoint tab_parse (tb: ltab) (k: lkind) (s: string) : option string :=
  match tb with
  | [] => None
  | (k', p, s') :: r => if lkind_eqb (wire k') (wire k) && String.eqb s' s then Some p else tab_parse r k s
  end.
