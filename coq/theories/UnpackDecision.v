(* Universe for kernel K118a: what unpack.py:unpack_collection (and unpack_tuple /
   unpack_named_tuple / unpack_typed_dict) emit for a collection type, as far as object
   identity is concerned.  The kernel translates the if/elif chain of the source into a
   function from "facts about the origin type" to a [udecision]; every returned code
   template is classified structurally (constructor applied to a comprehension over
   spec.expression, the bare spec.expression, spec.expression.copy(), ...). *)
From Coq Require Import List Bool.
Import ListNotations.

(* classes the source tests the origin type against (issubclass / `is`) *)
Inductive uclass :=
| UCollection | UEnum | UByteString | UBytes | UByteArray | UStr
| UList | UDeque | UTuple | UFrozenSet | USet
| UChainMap | UOrderedDict | UDefaultDict | UCounter | UMappingProxy | UMapping | USequence.

(* the constructor that wraps the emitted comprehension ("" = the display itself) *)
Inductive uctor :=
| CList | CDeque | CTuple | CFrozenSet | CSet
| CDict | COrderedDict | CDefaultDict | CCounter | CChainMap | CMappingProxy
| CBytes | CByteArray | CStr | CNamedTuple.

(* what is built from spec.expression *)
Inductive ubody :=
| BSeqComp      (* [<inner> for value in <expr>] *)
| BMapComp      (* {<inner key>: <inner value> for key, value in <expr>.items()} *)
| BChainComp    (* *[{<k>: <v> for key, value in m.items()} for m in <expr>] *)
| BItems        (* a display / call listing one unpacker per position: [u0, u1, ...], C(u0, u1, ...),
                   d = {}; d[k] = u ...; return d *)
| BEmpty        (* the constant "()" *)
| BScalar.      (* a new object computed from <expr> that holds no item of it: str(..), decodebytes(..) *)

Inductive udecision :=
| UDNone                               (* not handled here: the registry goes on *)
| UDBuild (c: uctor) (b: ubody)
| UDSame                               (* <expr> itself: the input object is the result *)
| UDCopy                               (* <expr>.copy() / C(<expr>): a new outer object whose items are the input's items *)
| UDNamedTuple                         (* -> unpack_named_tuple *)
| UDTuple                              (* -> unpack_tuple *)
| UDTypedDict.                         (* -> unpack_typed_dict *)

(* facts about the annotated type that the chain consults *)
Record ufacts := {
  uf_sub : uclass -> bool;             (* issubclass(spec.origin_type, C) *)
  uf_is : uclass -> bool;              (* spec.origin_type is C *)
  uf_generic : bool;                   (* ensure_generic_collection(spec): is_generic(spec.type) *)
  uf_named : bool;                     (* is_named_tuple(spec.origin_type) *)
  uf_typed_dict : bool;                (* is_typed_dict(spec.origin_type) *)
}.

(* every item of the result goes through its own unpacker and the container is new *)
Definition rebuilds (d: udecision) : bool :=
  match d with
  | UDBuild _ _ => true
  | UDSame | UDCopy => false
  | UDNone | UDNamedTuple | UDTuple | UDTypedDict => true
  end.
