(* Proofs about the sharing model Share.v (C18). *)
From Coq Require Import List Arith Bool ZArith Lia.
From Verif Require Import Share.
Import ListNotations.

(* ------------------------------------------------------------------ *)
(* induction principle for labelled values (nested lists) *)
Section LvInd.
  Variable P : lv -> Prop.
  Hypothesis Hatom : forall z, P (VAtom z).
  Hypothesis Hnone : P VNone.
  Hypothesis Hleaf : forall z, P (VLeaf z).
  Hypothesis Hopq : forall l, P (VOpq l).
  Hypothesis Hseq : forall k l xs, Forall P xs -> P (VSeq k l xs).
  Hypothesis Hmap : forall k l kvs, Forall (fun kv => P (fst kv) /\ P (snd kv)) kvs -> P (VMap k l kvs).
  Hypothesis Hobj : forall c l fs, Forall P fs -> P (VObj c l fs).

  Fixpoint lv_ind' (v: lv) : P v :=
    match v with
    | VAtom z => Hatom z
    | VNone => Hnone
    | VLeaf z => Hleaf z
    | VOpq l => Hopq l
    | VSeq k l xs =>
        Hseq k l xs ((fix go (xs: list lv) : Forall P xs :=
                        match xs with
                        | [] => Forall_nil _
                        | x :: r => Forall_cons _ (lv_ind' x) (go r) end) xs)
    | VMap k l kvs =>
        Hmap k l kvs ((fix go (kvs: list (lv * lv)) : Forall (fun kv => P (fst kv) /\ P (snd kv)) kvs :=
                         match kvs with
                         | [] => Forall_nil _
                         | kv :: r => Forall_cons kv (conj (lv_ind' (fst kv)) (lv_ind' (snd kv))) (go r) end) kvs)
    | VObj c l fs =>
        Hobj c l fs ((fix go (xs: list lv) : Forall P xs :=
                        match xs with
                        | [] => Forall_nil _
                        | x :: r => Forall_cons _ (lv_ind' x) (go r) end) fs)
    end.
End LvInd.

(* induction principle for types (nested lists in TTup / TUnion) *)
Section TyInd.
  Variable P : ty -> Prop.
  Hypothesis Hatom : P TAtom.
  Hypothesis Hleaf : forall k, P (TLeaf k).
  Hypothesis Hany : P TAny.
  Hypothesis Hpass : P TPass.
  Hypothesis Hopt : forall t, P t -> P (TOpt t).
  Hypothesis Hseq : forall o t, P t -> P (TSeq o t).
  Hypothesis Htupv : forall t, P t -> P (TTupV t).
  Hypothesis Htup : forall ts, Forall P ts -> P (TTup ts).
  Hypothesis Hmap : forall o kt, P kt -> forall vt, P vt -> P (TMap o kt vt).
  Hypothesis Hdc : forall c, P (TDC c).
  Hypothesis Hwrap : forall t, P t -> P (TWrap t).
  Hypothesis Hunion : forall ts, Forall P ts -> P (TUnion ts).
  Hypothesis Hnone : P TNone.
  Hypothesis Hlit : P TLit.
  Hypothesis Habsent : forall d, P (TAbsent d).
  Hypothesis Hcomp : forall k t, P t -> P (TComp k t).
  Hypothesis Hrmap : forall kt, P kt -> forall vt, P vt -> P (TRMap kt vt).
  Hypothesis Hrec : forall ts, Forall P ts -> P (TRec ts).

  Fixpoint ty_ind' (t: ty) : P t :=
    let go := fix go (ts: list ty) : Forall P ts :=
                match ts with
                | [] => Forall_nil _
                | x :: r => Forall_cons _ (ty_ind' x) (go r) end in
    match t with
    | TAtom => Hatom
    | TLeaf k => Hleaf k
    | TAny => Hany
    | TPass => Hpass
    | TOpt t' => Hopt t' (ty_ind' t')
    | TSeq o t' => Hseq o t' (ty_ind' t')
    | TTupV t' => Htupv t' (ty_ind' t')
    | TTup ts => Htup ts (go ts)
    | TMap o kt vt => Hmap o kt (ty_ind' kt) vt (ty_ind' vt)
    | TDC c => Hdc c
    | TWrap t' => Hwrap t' (ty_ind' t')
    | TUnion ts => Hunion ts (go ts)
    | TNone => Hnone
    | TLit => Hlit
    | TAbsent d => Habsent d
    | TComp k t' => Hcomp k t' (ty_ind' t')
    | TRMap kt vt => Hrmap kt (ty_ind' kt) vt (ty_ind' vt)
    | TRec ts => Hrec ts (go ts)
    end.
End TyInd.

(* ------------------------------------------------------------------ *)
(* generic facts about the state-threading combinators *)
Lemma map_st_flat {A B C: Type} (f: A -> nat -> B * nat) (h: B -> list C) (g: A -> list C) (n0: nat) (xs: list A) :
  Forall (fun x => forall m, n0 <= m -> let (y, m') := f x m in h y = g x /\ m <= m') xs ->
  forall m, n0 <= m ->
  let (ys, m') := map_st f xs m in flat_map h ys = flat_map g xs /\ m <= m'.
Proof.
  induction 1 as [| x r Hx Hr IH]; intros m Hm; simpl.
  - split; [reflexivity | lia].
  - specialize (Hx m Hm). destruct (f x m) as [y m1]. destruct Hx as [Hy Hm1].
    specialize (IH m1 ltac:(lia)). destruct (map_st f r m1) as [ys m2]. destruct IH as [Hys Hm2].
    simpl. split; [now rewrite Hy, Hys | lia].
Qed.

Lemma zip_st_flat {A B C D: Type} (f: A -> B -> nat -> C * nat) (h: C -> list D) (g: A -> B -> list D)
      (p: A -> B -> bool) (n0: nat) (xs: list A) :
  Forall (fun x => forall e m, p x e = true -> n0 <= m -> let (y, m') := f x e m in h y = g x e /\ m <= m') xs ->
  forall es m, zip_all p es xs = true -> n0 <= m ->
  let (ys, m') := zip_st f es xs m in flat_map h ys = zip_app g es xs /\ m <= m'.
Proof.
  induction 1 as [| x r Hx Hr IH]; intros es m Hz Hm; destruct es as [| e es]; simpl in *; try discriminate.
  - split; [reflexivity | lia].
  - apply andb_prop in Hz. destruct Hz as [Hp Hz].
    specialize (Hx e m Hp Hm). destruct (f x e m) as [y m1]. destruct Hx as [Hy Hm1].
    specialize (IH es m1 Hz ltac:(lia)). destruct (zip_st f es r m1) as [ys m2]. destruct IH as [Hys Hm2].
    simpl. split; [now rewrite Hy, Hys | lia].
Qed.

Lemma forallb_Forall {A} (p: A -> bool) xs : forallb p xs = true -> Forall (fun x => p x = true) xs.
Proof. intros H. apply Forall_forall. now apply forallb_forall. Qed.

Lemma Forall_and {A} (P Q: A -> Prop) xs : Forall P xs -> Forall Q xs -> Forall (fun x => P x /\ Q x) xs.
Proof. induction 1; intros HQ; inversion HQ; subst; constructor; auto. Qed.

(* ------------------------------------------------------------------ *)
(* observation facts *)
Lemma maxold_old n0 v : all_old n0 v = true -> maxold n0 v = root v.
Proof.
  destruct v; simpl; intros H; try reflexivity.
  - now rewrite H.
  - apply andb_prop in H. destruct H as [H _]. now rewrite H.
  - apply andb_prop in H. destruct H as [H _]. now rewrite H.
  - apply andb_prop in H. destruct H as [H _]. now rewrite H.
Qed.

Lemma fresh_not_old n0 n : n0 <= n -> (n <? n0) = false.
Proof. intros. apply Nat.ltb_ge. lia. Qed.

Lemma maxold_as_items n0 ys :
  flat_map (fun kv : lv * lv => match kv with (k, x) => maxold n0 k ++ maxold n0 x end) (as_items ys)
  = flat_map (maxold n0) ys.
Proof. unfold as_items. induction ys; simpl; [reflexivity | now rewrite IHys]. Qed.

(* ------------------------------------------------------------------ *)
(* the generator's identity test does not depend on the holder's dialect support *)
Lemma is_id_cp_hsup E N h1 h2 t : is_id (cp E N h1 t) = is_id (cp E N h2 t).
Proof.
  revert h1 h2. induction t as [| lk | | | t IHt | o t IHt | t IHt | ts IHts | o t1 IHt1 t2 IHt2 | c0 | tw IHw | us IHus | | | dd | kk tc IHc | rk IHrk rv IHrv | rs IHrs] using ty_ind';
    intros h1 h2; simpl; try reflexivity; try (now apply IHw).
  - unfold seq_expr. rewrite (IHt h1 h2). destruct (is_id (cp E N h2 t)); [| reflexivity].
    destruct (inN N o); [reflexivity |]. destruct (origin_eqb o OList); reflexivity.
  - unfold map_expr. rewrite (IHt1 h1 h2), (IHt2 h1 h2).
    destruct (is_id (cp E N h2 t1) && is_id (cp E N h2 t2)); [| reflexivity].
    destruct (inN N o); [reflexivity |]. destruct (origin_eqb o ODict); reflexivity.
  - assert (H: forallb is_id (map (cp E N h1) us) = forallb is_id (map (cp E N h2) us)).
    { induction IHus as [| x r Hx Hr IHr]; simpl; [reflexivity |]. now rewrite (Hx h1 h2), IHr. }
    rewrite H. destruct (forallb is_id (map (cp E N h2) us)); reflexivity.
Qed.

Lemma is_id_IId e : is_id e = true -> e = IId.
Proof. destruct e; simpl; intros; try discriminate; reflexivity. Qed.

(* ------------------------------------------------------------------ *)
(* unfolding equations of the interpreter *)
Section Eqs.
  Variable E : env.
  Variable call : option dialect.

  Lemma rp_id v n : run_pack E v call IId n = (v, n).
  Proof. destruct v; reflexivity. Qed.

  Lemma rp_opt v e n :
    run_pack E v call (IOpt e) n = match v with VNone => (VNone, n) | _ => run_pack E v call e n end.
  Proof. destruct v; reflexivity. Qed.
End Eqs.

(* ------------------------------------------------------------------ *)
(* main lemma, serialization side *)
Lemma zip_all_and {A B} (p q: A -> B -> bool) ts xs :
  zip_all p ts xs = true -> zip_all q ts xs = true -> zip_all (fun x t => p x t && q x t) ts xs = true.
Proof.
  revert ts. induction xs as [| x r IH]; intros ts Hp Hq; destruct ts as [| t ts]; simpl in *; try discriminate; auto.
  apply andb_prop in Hp. apply andb_prop in Hq. destruct Hp as [Hp1 Hp2]. destruct Hq as [Hq1 Hq2].
  rewrite Hp1, Hq1. simpl. now apply IH.
Qed.

Section PackShare.
  Variable E : env.
  Variable n0 : nat.

  Definition P_pack (v: lv) : Prop :=
    forall call N hsup t n,
      conforms E v t = true -> udet E v call N hsup t = true -> all_old n0 v = true -> n0 <= n ->
      let (r, n') := run_pack E v call (cp E N hsup t) n in
      maxold n0 r = byref E (ident E) v call N hsup t /\ n <= n'.

  (* Any / pass_through / identity positions *)
  Lemma P_id v call N hsup t n :
    all_old n0 v = true ->
    cp E N hsup t = IId ->
    byref E (ident E) v call N hsup t = root v ->
    let (r, n') := run_pack E v call (cp E N hsup t) n in
    maxold n0 r = byref E (ident E) v call N hsup t /\ n <= n'.
  Proof.
    intros Ho Hc Hb. rewrite Hc, rp_id, Hb. split; [now apply maxold_old | lia].
  Qed.

  (* unfolding equations for unions *)
  Lemma rp_union v call idc es n :
    run_pack E v call (IUnion idc es) n =
    if in_idc idc v then (v, n)
    else pick (fun e' => negb (is_id e') && accepts v e') (fun e' => run_pack E v call e' n) (v, n) es.
  Proof. destruct v; reflexivity. Qed.

  Lemma byref_union cf v call N hsup us :
    byref E cf v call N hsup (TUnion us) =
    pick (fun t' => conforms E v t') (fun t' => byref E cf v call N hsup t') [] us.
  Proof. destruct v; reflexivity. Qed.

  Lemma udet_union v call N hsup us :
    udet E v call N hsup (TUnion us) =
    ugo (fun t' => conforms E v t') (fun t' => is_id (cp E N hsup t'))
        (fun t' => accepts v (cp E N hsup t')) (fun t' => udet E v call N hsup t')
        (forallb is_id (map (cp E N hsup) us))
        (in_idc (flat_map (fun t' => if is_id (cp E N hsup t') then tid t' else []) us) v) us.
  Proof. destruct v; reflexivity. Qed.

  Definition HF v call N hsup (t: ty) : Prop :=
    forall n, conforms E v t = true -> udet E v call N hsup t = true -> all_old n0 v = true -> n0 <= n ->
      let (r, n') := run_pack E v call (cp E N hsup t) n in
      maxold n0 r = byref E (ident E) v call N hsup t /\ n <= n'.

  (* the union hands the value back: it belongs to a by-reference member *)
  Lemma union_byref_branch v call N hsup allid inid us :
    all_old n0 v = true ->
    (inid = true \/ Forall (fun t => is_id (cp E N hsup t) = true) us) ->
    Forall (HF v call N hsup) us ->
    ugo (fun t' => conforms E v t') (fun t' => is_id (cp E N hsup t'))
        (fun t' => accepts v (cp E N hsup t')) (fun t' => udet E v call N hsup t') allid inid us = true ->
    maxold n0 v = pick (fun t' => conforms E v t') (fun t' => byref E (ident E) v call N hsup t') [] us.
  Proof.
    intros Ho Hside HFs. revert Hside. induction HFs as [| t r Ht Hr IH]; intros Hside Hg; simpl in Hg; [discriminate Hg |].
    simpl. destruct (conforms E v t) eqn:Hc.
    - apply andb_prop in Hg. destruct Hg as [Hg Hu].
      assert (Hid: is_id (cp E N hsup t) = true).
      { destruct (is_id (cp E N hsup t)) eqn:Hid; [reflexivity |].
        destruct Hside as [Hi | Hall].
        - subst inid. simpl in Hg. discriminate Hg.
        - inversion Hall; subst. congruence. }
      specialize (Ht n0 Hc Hu Ho (le_n _)). apply is_id_IId in Hid. rewrite Hid, rp_id in Ht. tauto.
    - apply andb_prop in Hg. destruct Hg as [_ Hg]. apply IH; auto.
      destruct Hside as [Hi | Hall]; [left; exact Hi | right; inversion Hall; assumption].
  Qed.

  (* no identity member claims the class of the value: the first packer that does not raise is the
     packer of the member the value belongs to *)
  Lemma union_try_branch v call N hsup us n :
    all_old n0 v = true -> n0 <= n ->
    Forall (HF v call N hsup) us ->
    ugo (fun t' => conforms E v t') (fun t' => is_id (cp E N hsup t'))
        (fun t' => accepts v (cp E N hsup t')) (fun t' => udet E v call N hsup t') false false us = true ->
    let (r, n') := pick (fun e' => negb (is_id e') && accepts v e') (fun e' => run_pack E v call e' n) (v, n)
                        (map (cp E N hsup) us) in
    maxold n0 r = pick (fun t' => conforms E v t') (fun t' => byref E (ident E) v call N hsup t') [] us /\ n <= n'.
  Proof.
    intros Ho Hn HFs. induction HFs as [| t r Ht Hr IH]; intros Hg; simpl in Hg; [discriminate Hg |].
    simpl. destruct (conforms E v t) eqn:Hc.
    - apply andb_prop in Hg. destruct Hg as [Hg Hu].
      destruct (is_id (cp E N hsup t)) eqn:Hid; [simpl in Hg; discriminate Hg |].
      simpl in Hg. rewrite Hg. simpl. apply Ht; auto.
    - apply andb_prop in Hg. destruct Hg as [Hs Hg].
      apply negb_true_iff in Hs. rewrite Hs. apply IH; auto.
  Qed.

  Lemma union_pack_case v call N hsup us n :
    Forall (HF v call N hsup) us ->
    conforms E v (TUnion us) = true -> udet E v call N hsup (TUnion us) = true ->
    all_old n0 v = true -> n0 <= n ->
    let (r, n') := run_pack E v call (cp E N hsup (TUnion us)) n in
    maxold n0 r = byref E (ident E) v call N hsup (TUnion us) /\ n <= n'.
  Proof.
    intros HFs Hc Hu Ho Hn. rewrite byref_union. rewrite udet_union in Hu. cbn [cp].
    destruct (forallb is_id (map (cp E N hsup) us)) eqn:Hall.
    - rewrite rp_id. split; [| lia].
      apply (union_byref_branch v call N hsup true
               (in_idc (flat_map (fun t' => if is_id (cp E N hsup t') then tid t' else []) us) v) us Ho);
        [right | exact HFs | exact Hu].
      apply forallb_Forall in Hall. clear -Hall.
      induction us as [| t r IHr]; simpl in *; inversion Hall; subst; constructor; auto.
    - rewrite rp_union.
      destruct (in_idc (flat_map (fun t' => if is_id (cp E N hsup t') then tid t' else []) us) v) eqn:Hin.
      + split; [| lia].
        apply (union_byref_branch v call N hsup false true us Ho); [left; reflexivity | exact HFs | exact Hu].
      + apply union_try_branch; auto.
  Qed.

  Lemma pack_share_all : forall v, P_pack v.
  Proof.
    induction v as [z | | z | l | k l xs IH | k l kvs IH | c l fs IH] using lv_ind';
      intros call N hsup t; induction t as [| lk | | | t' IHt | o t' IHt | t' IHt | ts IHts | o kt IHk vt IHv | c0 | tw IHw | us IHus | | | dd | kk tc IHc | rk IHrk rv IHrv | rs IHrs] using ty_ind';
      intros n Hc Hu Ho Hn; try (simpl in Hc; discriminate Hc);
      try (apply IHw; auto; fail);
      try (apply P_id; auto; fail);
      try (cbn [cp]; rewrite rp_opt; apply IHt; auto; fail);
      try (apply union_pack_case; auto; fail);
      try (simpl; split; [reflexivity | lia]; fail).
    (* VLeaf *)
    - simpl. destruct (e_lp E lk); destruct lk; simpl; (split; [reflexivity | lia]).
    (* VSeq *)
    - (* TSeq *)
      assert (Hl: (l <? n0) = true) by (simpl in Ho; apply andb_prop in Ho; tauto).
      assert (Hk: origin_eqb o OList = true -> k = KList).
      { intros Ho'. simpl in Hc. apply andb_prop in Hc. destruct Hc as [Hk _].
        destruct o; try discriminate Ho'. destruct k; try discriminate Hk. reflexivity. }
      assert (Hxs: Forall (fun x => forall m, n0 <= m ->
                 let (y, m') := run_pack E x call (cp E N hsup t') m in
                 maxold n0 y = byref E (ident E) x call N hsup t' /\ m <= m') xs).
      { simpl in Hc, Ho, Hu. apply andb_prop in Ho. destruct Ho as [_ Ho].
        apply andb_prop in Hc. destruct Hc as [_ Hc].
        apply forallb_Forall in Hc. apply forallb_Forall in Ho. apply forallb_Forall in Hu.
        pose proof (Forall_and _ _ _ (Forall_and _ _ _ (Forall_and _ _ _ IH Hc) Ho) Hu) as H.
        eapply Forall_impl; [| exact H]. intros x [[[Hx Hcx] Hox] Hux] m Hm. apply Hx; auto. }
      cbn [cp]. unfold seq_expr.
      change (byref E (ident E) (VSeq k l xs) call N hsup (TSeq o t'))
        with (if inN N o && ident E N t' then [VSeq k l xs]
              else flat_map (fun x => byref E (ident E) x call N hsup t') xs).
      unfold ident at 1. rewrite (is_id_cp_hsup E N false hsup t').
      destruct (is_id (cp E N hsup t')) eqn:Hid.
      + destruct (inN N o) eqn:HN; simpl andb; cbv iota.
        * rewrite rp_id. simpl. rewrite Hl. split; [reflexivity | lia].
        * apply is_id_IId in Hid.
          assert (Hflat: flat_map (maxold n0) xs = flat_map (fun x => byref E (ident E) x call N hsup t') xs).
          { clear -Hxs Hid Hn. rewrite Hid in Hxs. induction Hxs as [| x r Hx Hr IHr]; simpl; [reflexivity |].
            specialize (Hx n Hn). rewrite rp_id in Hx. destruct Hx as [Hx _]. now rewrite Hx, IHr. }
          destruct (origin_eqb o OList).
          -- rewrite (Hk eq_refl). simpl. rewrite (fresh_not_old n0 n Hn). split; [exact Hflat | lia].
          -- rewrite Hid. simpl.
             pose proof (map_st_flat (fun x => run_pack E x call IId) (maxold n0)
                           (fun x => byref E (ident E) x call N hsup t') n0 xs) as HM.
             rewrite Hid in Hxs. specialize (HM Hxs (S n) ltac:(lia)).
             destruct (map_st (fun x => run_pack E x call IId) xs (S n)) as [ys n'].
             simpl. rewrite (fresh_not_old n0 n Hn). destruct HM as [HM1 HM2]. split; [exact HM1 | lia].
      + rewrite andb_false_r. simpl.
        pose proof (map_st_flat (fun x => run_pack E x call (cp E N hsup t')) (maxold n0)
                      (fun x => byref E (ident E) x call N hsup t') n0 xs Hxs (S n) ltac:(lia)) as HM.
        destruct (map_st (fun x => run_pack E x call (cp E N hsup t')) xs (S n)) as [ys n'].
        simpl. rewrite (fresh_not_old n0 n Hn). destruct HM as [HM1 HM2]. split; [exact HM1 | lia].
    - (* TTupV *)
      assert (Hxs: Forall (fun x => forall m, n0 <= m ->
                 let (y, m') := run_pack E x call (cp E N hsup t') m in
                 maxold n0 y = byref E (ident E) x call N hsup t' /\ m <= m') xs).
      { simpl in Hc, Ho, Hu. apply andb_prop in Ho. destruct Ho as [_ Ho].
        apply andb_prop in Hc. destruct Hc as [_ Hc].
        apply forallb_Forall in Hc. apply forallb_Forall in Ho. apply forallb_Forall in Hu.
        pose proof (Forall_and _ _ _ (Forall_and _ _ _ (Forall_and _ _ _ IH Hc) Ho) Hu) as H.
        eapply Forall_impl; [| exact H]. intros x [[[Hx Hcx] Hox] Hux] m Hm. apply Hx; auto. }
      simpl.
      pose proof (map_st_flat (fun x => run_pack E x call (cp E N hsup t')) (maxold n0)
                    (fun x => byref E (ident E) x call N hsup t') n0 xs Hxs (S n) ltac:(lia)) as HM.
      destruct (map_st (fun x => run_pack E x call (cp E N hsup t')) xs (S n)) as [ys n'].
      simpl. rewrite (fresh_not_old n0 n Hn). destruct HM as [HM1 HM2]. split; [exact HM1 | lia].
    - (* TTup *)
      assert (Hxs: Forall (fun x => forall (t: ty) m,
                 conforms E x t && udet E x call N hsup t = true -> n0 <= m ->
                 let (y, m') := run_pack E x call (cp E N hsup t) m in
                 maxold n0 y = byref E (ident E) x call N hsup t /\ m <= m') xs).
      { simpl in Ho. apply andb_prop in Ho. destruct Ho as [_ Ho]. apply forallb_Forall in Ho.
        pose proof (Forall_and _ _ _ IH Ho) as H.
        eapply Forall_impl; [| exact H]. intros x [Hx Hox] t m Hcx Hm.
        apply andb_prop in Hcx. destruct Hcx as [Hcx Hux]. apply Hx; auto. }
      simpl in Hc, Hu. apply andb_prop in Hc. destruct Hc as [_ Hc]. pose proof (zip_all_and _ _ _ _ Hc Hu) as Hcu.
      pose proof (zip_st_flat (fun x t => run_pack E x call (cp E N hsup t)) (maxold n0)
                    (fun x t => byref E (ident E) x call N hsup t)
                    (fun x t => conforms E x t && udet E x call N hsup t) n0 xs Hxs ts (S n) Hcu ltac:(lia)) as HM.
      simpl.
      assert (Hz: forall m, zip_st (fun x e' => run_pack E x call e') (map (cp E N hsup) ts) xs m
                         = zip_st (fun x t => run_pack E x call (cp E N hsup t)) ts xs m).
      { clear. revert ts. induction xs as [| x r IHr]; intros ts m; destruct ts as [| t ts]; simpl; try reflexivity.
        destruct (run_pack E x call (cp E N hsup t) m) as [y m1]. now rewrite IHr. }
      rewrite Hz.
      destruct (zip_st (fun x t => run_pack E x call (cp E N hsup t)) ts xs (S n)) as [ys n'].
      simpl. rewrite (fresh_not_old n0 n Hn). destruct HM as [HM1 HM2]. split; [exact HM1 | lia].
    - (* TComp *)
      assert (Hxs: Forall (fun x => forall m, n0 <= m ->
                 let (y, m') := run_pack E x call (cp E N hsup tc) m in
                 maxold n0 y = byref E (ident E) x call N hsup tc /\ m <= m') xs).
      { simpl in Hc, Ho, Hu. apply andb_prop in Ho. destruct Ho as [_ Ho].
        apply andb_prop in Hc. destruct Hc as [_ Hc].
        apply forallb_Forall in Hc. apply forallb_Forall in Ho. apply forallb_Forall in Hu.
        pose proof (Forall_and _ _ _ (Forall_and _ _ _ (Forall_and _ _ _ IH Hc) Ho) Hu) as H.
        eapply Forall_impl; [| exact H]. intros x [[[Hx Hcx] Hox] Hux] m Hm. apply Hx; auto. }
      simpl.
      pose proof (map_st_flat (fun x => run_pack E x call (cp E N hsup tc)) (maxold n0)
                    (fun x => byref E (ident E) x call N hsup tc) n0 xs Hxs (S n) ltac:(lia)) as HM.
      destruct (map_st (fun x => run_pack E x call (cp E N hsup tc)) xs (S n)) as [ys n'].
      simpl. rewrite (fresh_not_old n0 n Hn). destruct HM as [HM1 HM2]. split; [exact HM1 | lia].
    (* VMap *)
    - (* TMap *)
      assert (Hl: (l <? n0) = true) by (simpl in Ho; apply andb_prop in Ho; tauto).
      assert (Hkvs: Forall (fun kv : lv * lv => forall m, n0 <= m ->
                 let (y, m') := (let (k0, x) := kv in
                                 let (k', m1) := run_pack E k0 call (cp E N hsup kt) m in
                                 let (x', m2) := run_pack E x call (cp E N hsup vt) m1 in ((k', x'), m2)) in
                 (let (a, b) := y in maxold n0 a ++ maxold n0 b)
                 = (let (k0, x) := kv in byref E (ident E) k0 call N hsup kt ++ byref E (ident E) x call N hsup vt)
                 /\ m <= m') kvs).
      { simpl in Hc, Ho, Hu. apply andb_prop in Ho. destruct Ho as [_ Ho].
        apply andb_prop in Hc. destruct Hc as [_ Hc].
        apply forallb_Forall in Hc. apply forallb_Forall in Ho. apply forallb_Forall in Hu.
        pose proof (Forall_and _ _ _ (Forall_and _ _ _ (Forall_and _ _ _ IH Hc) Ho) Hu) as H.
        eapply Forall_impl; [| exact H]. intros [k0 x] [[[[Hk Hx] Hcx] Hox] Hux] m Hm. simpl in *.
        apply andb_prop in Hcx. destruct Hcx as [Hck Hcx]. apply andb_prop in Hox. destruct Hox as [Hok Hox].
        apply andb_prop in Hux. destruct Hux as [Huk Hux].
        specialize (Hk call N hsup kt m Hck Huk Hok Hm).
        destruct (run_pack E k0 call (cp E N hsup kt) m) as [k' m1]. destruct Hk as [Hk Hm1].
        specialize (Hx call N hsup vt m1 Hcx Hux Hox ltac:(lia)).
        destruct (run_pack E x call (cp E N hsup vt) m1) as [x' m2]. destruct Hx as [Hx Hm2].
        split; [now rewrite Hk, Hx | lia]. }
      pose proof (map_st_flat _ (fun y : lv * lv => let (a, b) := y in maxold n0 a ++ maxold n0 b)
                    (fun kv : lv * lv => let (k0, x) := kv in
                       byref E (ident E) k0 call N hsup kt ++ byref E (ident E) x call N hsup vt) n0 kvs Hkvs) as HM.
      cbn [cp]. unfold map_expr.
      change (byref E (ident E) (VMap k l kvs) call N hsup (TMap o kt vt))
        with (if inN N o && ident E N kt && ident E N vt then [VMap k l kvs]
              else flat_map (fun kv : lv * lv => let (k0, x) := kv in
                       byref E (ident E) k0 call N hsup kt ++ byref E (ident E) x call N hsup vt) kvs).
      unfold ident at 1 2. rewrite (is_id_cp_hsup E N false hsup kt), (is_id_cp_hsup E N false hsup vt).
      destruct (is_id (cp E N hsup kt)) eqn:Hidk; [destruct (is_id (cp E N hsup vt)) eqn:Hidv |].
      + simpl andb at 1. cbv iota.
        destruct (inN N o) eqn:HN; simpl andb; cbv iota.
        * rewrite rp_id. simpl. rewrite Hl. split; [reflexivity | lia].
        * apply is_id_IId in Hidk. apply is_id_IId in Hidv.
          destruct (origin_eqb o ODict).
          -- simpl. rewrite (fresh_not_old n0 n Hn).
             split; [| lia].
             clear -Hkvs Hidk Hidv Hn. rewrite Hidk, Hidv in Hkvs.
             induction Hkvs as [| [k0 x] r Hx Hr IHr]; simpl; [reflexivity |].
             specialize (Hx n Hn). rewrite !rp_id in Hx. destruct Hx as [Hx _]. now rewrite Hx, IHr.
          -- specialize (HM (S n) ltac:(lia)). simpl.
             match goal with |- context [map_st ?f kvs (S n)] => destruct (map_st f kvs (S n)) as [ys n'] end.
             simpl. rewrite (fresh_not_old n0 n Hn). destruct HM as [HM1 HM2]. split; [exact HM1 | lia].
      + replace (inN N o && true && false) with false by (destruct (inN N o); reflexivity).
        specialize (HM (S n) ltac:(lia)). simpl.
        match goal with |- context [map_st ?f kvs (S n)] => destruct (map_st f kvs (S n)) as [ys n'] end.
        simpl. rewrite (fresh_not_old n0 n Hn). destruct HM as [HM1 HM2]. split; [exact HM1 | lia].
      + replace (inN N o && false && is_id (cp E N hsup vt)) with false by (destruct (inN N o); reflexivity).
        simpl andb. cbv iota.
        specialize (HM (S n) ltac:(lia)). simpl.
        match goal with |- context [map_st ?f kvs (S n)] => destruct (map_st f kvs (S n)) as [ys n'] end.
        simpl. rewrite (fresh_not_old n0 n Hn). destruct HM as [HM1 HM2]. split; [exact HM1 | lia].
    - (* TRMap *)
      assert (Hkvs: Forall (fun kv : lv * lv => forall m, n0 <= m ->
                 let (y, m') := (let (k0, x) := kv in
                                 let (k', m1) := run_pack E k0 call (cp E N hsup rk) m in
                                 let (x', m2) := run_pack E x call (cp E N hsup rv) m1 in ((k', x'), m2)) in
                 (let (a, b) := y in maxold n0 a ++ maxold n0 b)
                 = (let (k0, x) := kv in byref E (ident E) k0 call N hsup rk ++ byref E (ident E) x call N hsup rv)
                 /\ m <= m') kvs).
      { simpl in Hc, Ho, Hu. apply andb_prop in Ho. destruct Ho as [_ Ho].
        apply forallb_Forall in Hc. apply forallb_Forall in Ho. apply forallb_Forall in Hu.
        pose proof (Forall_and _ _ _ (Forall_and _ _ _ (Forall_and _ _ _ IH Hc) Ho) Hu) as H.
        eapply Forall_impl; [| exact H]. intros [k0 x] [[[[Hk Hx] Hcx] Hox] Hux] m Hm. simpl in *.
        apply andb_prop in Hcx. destruct Hcx as [Hck Hcx]. apply andb_prop in Hox. destruct Hox as [Hok Hox].
        apply andb_prop in Hux. destruct Hux as [Huk Hux].
        specialize (Hk call N hsup rk m Hck Huk Hok Hm).
        destruct (run_pack E k0 call (cp E N hsup rk) m) as [k' m1]. destruct Hk as [Hk Hm1].
        specialize (Hx call N hsup rv m1 Hcx Hux Hox ltac:(lia)).
        destruct (run_pack E x call (cp E N hsup rv) m1) as [x' m2]. destruct Hx as [Hx Hm2].
        split; [now rewrite Hk, Hx | lia]. }
      pose proof (map_st_flat _ (fun y : lv * lv => let (a, b) := y in maxold n0 a ++ maxold n0 b)
                    (fun kv : lv * lv => let (k0, x) := kv in
                       byref E (ident E) k0 call N hsup rk ++ byref E (ident E) x call N hsup rv) n0 kvs Hkvs
                    (S n) ltac:(lia)) as HM.
      simpl.
      match goal with |- context [map_st ?f kvs (S n)] => destruct (map_st f kvs (S n)) as [ys n'] end.
      simpl. rewrite (fresh_not_old n0 n Hn). destruct HM as [HM1 HM2]. split; [exact HM1 | lia].
    - (* TRec *)
      set (pp := fun (kv: lv * lv) (t: ty) =>
                   (match kv with (k0, x) => match k0 with VAtom _ => conforms E x t | _ => false end end)
                   && (match kv with (_, x) => udet E x call N hsup t end)).
      assert (Hkvs: Forall (fun kv : lv * lv => forall (t: ty) m, pp kv t = true -> n0 <= m ->
                 let (y, m') := (let (k0, x) := kv in
                                 let (y0, m1) := run_pack E x call (cp E N hsup t) m in ((k0, y0), m1)) in
                 (let (a, b) := y in maxold n0 a ++ maxold n0 b)
                 = (let (_, x) := kv in byref E (ident E) x call N hsup t) /\ m <= m') kvs).
      { simpl in Ho. apply andb_prop in Ho. destruct Ho as [_ Ho]. apply forallb_Forall in Ho.
        pose proof (Forall_and _ _ _ IH Ho) as H.
        eapply Forall_impl; [| exact H]. intros [k0 x] [[Hk Hx] Hox] t m Hp Hm. unfold pp in Hp. simpl in *.
        apply andb_prop in Hp. destruct Hp as [Hcx Hux]. apply andb_prop in Hox. destruct Hox as [_ Hox].
        destruct k0; try discriminate Hcx.
        specialize (Hx call N hsup t m Hcx Hux Hox Hm).
        destruct (run_pack E x call (cp E N hsup t) m) as [y0 m1]. simpl. exact Hx. }
      simpl in Hc, Hu. pose proof (zip_all_and _ _ _ _ Hc Hu) as Hcu. fold pp in Hcu.
      pose proof (zip_st_flat (fun (kv: lv * lv) t m => let (k0, x) := kv in
                                 let (y0, m1) := run_pack E x call (cp E N hsup t) m in ((k0, y0), m1))
                    (fun y : lv * lv => let (a, b) := y in maxold n0 a ++ maxold n0 b)
                    (fun (kv: lv * lv) t => let (_, x) := kv in byref E (ident E) x call N hsup t)
                    pp n0 kvs Hkvs rs (S n) Hcu ltac:(lia)) as HM.
      simpl.
      assert (Hz: forall m,
                 zip_st (fun (kv: lv * lv) e' m => let (k0, x) := kv in
                           let (y0, m1) := run_pack E x call e' m in ((k0, y0), m1)) (map (cp E N hsup) rs) kvs m
                 = zip_st (fun (kv: lv * lv) t m => let (k0, x) := kv in
                           let (y0, m1) := run_pack E x call (cp E N hsup t) m in ((k0, y0), m1)) rs kvs m).
      { clear. revert rs. induction kvs as [| [k0 x] r IHr]; intros rs m; destruct rs as [| t ts]; simpl; try reflexivity.
        destruct (run_pack E x call (cp E N hsup t) m) as [y m1]. now rewrite IHr. }
      rewrite Hz.
      match goal with |- context [zip_st ?f rs kvs (S n)] => destruct (zip_st f rs kvs (S n)) as [ys n'] end.
      simpl. rewrite (fresh_not_old n0 n Hn). destruct HM as [HM1 HM2]. split; [exact HM1 | lia].
    (* VObj *)
    - (* TDC *)
      simpl in Hc. apply andb_prop in Hc. destruct Hc as [Hcc Hc]. apply Nat.eqb_eq in Hcc. subst c0.
      simpl in Hu. simpl.
      set (call' := if hsup && c_sup (e_ct E c) then call else None) in *.
      set (kc := e_ct E c) in *.
      set (N' := effN E call' kc) in *.
      assert (Hfs: Forall (fun x => forall (t: ty) m,
                 conforms E x t && udet E x call' N' (c_sup kc) t = true -> n0 <= m ->
                 let (y, m') := run_pack E x call' (cp E N' (c_sup kc) t) m in
                 maxold n0 y = byref E (ident E) x call' N' (c_sup kc) t /\ m <= m') fs).
      { simpl in Ho. apply andb_prop in Ho. destruct Ho as [_ Ho]. apply forallb_Forall in Ho.
        pose proof (Forall_and _ _ _ IH Ho) as H.
        eapply Forall_impl; [| exact H]. intros x [Hx Hox] t m Hcx Hm.
        apply andb_prop in Hcx. destruct Hcx as [Hcx Hux]. apply Hx; auto. }
      pose proof (zip_all_and _ _ _ _ Hc Hu) as Hcu.
      pose proof (zip_st_flat (fun x t => run_pack E x call' (cp E N' (c_sup kc) t)) (maxold n0)
                    (fun x t => byref E (ident E) x call' N' (c_sup kc) t)
                    (fun x t => conforms E x t && udet E x call' N' (c_sup kc) t) n0 fs Hfs
                    (c_fields kc) (S n) Hcu ltac:(lia)) as HM.
      destruct (zip_st (fun x t => run_pack E x call' (cp E N' (c_sup kc) t)) (c_fields kc) fs (S n)) as [ys n'].
      simpl. rewrite (fresh_not_old n0 n Hn). rewrite maxold_as_items.
      destruct HM as [HM1 HM2]. split; [exact HM1 | lia].
  Qed.
End PackShare.

(* ------------------------------------------------------------------ *)
(* deserialization side *)
Section UnpackShare.
  Variable E : env.
  Variable n0 : nat.

  Lemma ru_opt w e n :
    run_unpack E w (UOpt e) n = match w with VNone => (VNone, n) | _ => run_unpack E w e n end.
  Proof. destruct w; reflexivity. Qed.

  Lemma ru_id w n : run_unpack E w UId n = (w, n).
  Proof. destruct w; reflexivity. Qed.

  Lemma ru_union w ms n :
    run_unpack E w (UUnion ms) n =
    pick (fun ce : nat * uir => match ce with (c, _) => cls_fits c w end)
         (fun ce : nat * uir => match ce with (_, e') => run_unpack E w e' n end) (VNone, n) ms.
  Proof. destruct w; reflexivity. Qed.

  Lemma wconf_union w us :
    wconforms E w (TUnion us) = pick (fun t' => cls_fits (tcls t') w) (wconforms E w) false us.
  Proof. destruct w; reflexivity. Qed.

  Lemma anyref_union w us :
    anyref E w (TUnion us) = pick (fun t' => cls_fits (tcls t') w) (anyref E w) [] us.
  Proof. destruct w; reflexivity. Qed.

  (* a union decodes with the member whose wire class fits: whatever holds for the members holds for it *)
  Lemma union_case w us n :
    Forall (fun t => forall n, wconforms E w t = true -> all_old n0 w = true -> n0 <= n ->
                     let (r, n') := run_unpack E w (cu t) n in maxold n0 r = anyref E w t /\ n <= n') us ->
    wconforms E w (TUnion us) = true -> all_old n0 w = true -> n0 <= n ->
    let (r, n') := run_unpack E w (cu (TUnion us)) n in maxold n0 r = anyref E w (TUnion us) /\ n <= n'.
  Proof.
    intros HF Hc Ho Hn. cbn [cu]. rewrite ru_union, anyref_union. rewrite wconf_union in Hc.
    induction HF as [| t r Ht Hr IH]; simpl in *; [discriminate Hc |].
    destruct (cls_fits (tcls t) w); [apply Ht; auto | apply IH; auto].
  Qed.

  Definition P_unpack (w: lv) : Prop :=
    forall t n,
      wconforms E w t = true -> all_old n0 w = true -> n0 <= n ->
      let (r, n') := run_unpack E w (cu t) n in
      maxold n0 r = anyref E w t /\ n <= n'.

  Lemma U_id w t n :
    all_old n0 w = true -> cu t = UId -> anyref E w t = root w ->
    let (r, n') := run_unpack E w (cu t) n in maxold n0 r = anyref E w t /\ n <= n'.
  Proof. intros Ho Hc Hb. rewrite Hc, ru_id, Hb. split; [now apply maxold_old | lia]. Qed.

  Lemma unpack_share_all : forall w, P_unpack w.
  Proof.
    induction w as [z | | z | l | k l xs IH | k l kvs IH | c l fs IH] using lv_ind';
      intros t; induction t as [| lk | | | t' IHt | o t' IHt | t' IHt | ts IHts | o kt IHk vt IHv | c0 | tw IHw | us IHus | | | dd | kk tc IHc | rk IHrk rv IHrv | rs IHrs] using ty_ind';
      intros n Hc Ho Hn; try (simpl in Hc; discriminate Hc);
      try (apply U_id; auto; fail);
      try (cbn [cu]; rewrite ru_opt; apply IHt; auto; fail);
      try (apply union_case; auto; fail);
      try (apply IHw; auto; fail);
      try (simpl; split; [reflexivity | lia]; fail);
      try (destruct dd as [| kk]; [| destruct kk]; simpl; rewrite ?(fresh_not_old n0 n Hn); (split; [reflexivity | lia]); fail).
    - (* TSeq *)
      assert (Hxs: Forall (fun x => forall m, n0 <= m ->
                 let (y, m') := run_unpack E x (cu t') m in maxold n0 y = anyref E x t' /\ m <= m') xs).
      { simpl in Hc, Ho. apply andb_prop in Ho. destruct Ho as [_ Ho].
        apply forallb_Forall in Hc. apply forallb_Forall in Ho.
        pose proof (Forall_and _ _ _ (Forall_and _ _ _ IH Hc) Ho) as H.
        eapply Forall_impl; [| exact H]. intros x [[Hx Hcx] Hox] m Hm. apply Hx; auto. }
      simpl.
      pose proof (map_st_flat (fun x => run_unpack E x (cu t')) (maxold n0)
                    (fun x => anyref E x t') n0 xs Hxs (S n) ltac:(lia)) as HM.
      destruct (map_st (fun x => run_unpack E x (cu t')) xs (S n)) as [ys n'].
      simpl. rewrite (fresh_not_old n0 n Hn). destruct HM as [HM1 HM2]. split; [exact HM1 | lia].
    - (* TTupV *)
      assert (Hxs: Forall (fun x => forall m, n0 <= m ->
                 let (y, m') := run_unpack E x (cu t') m in maxold n0 y = anyref E x t' /\ m <= m') xs).
      { simpl in Hc, Ho. apply andb_prop in Ho. destruct Ho as [_ Ho].
        apply forallb_Forall in Hc. apply forallb_Forall in Ho.
        pose proof (Forall_and _ _ _ (Forall_and _ _ _ IH Hc) Ho) as H.
        eapply Forall_impl; [| exact H]. intros x [[Hx Hcx] Hox] m Hm. apply Hx; auto. }
      simpl.
      pose proof (map_st_flat (fun x => run_unpack E x (cu t')) (maxold n0)
                    (fun x => anyref E x t') n0 xs Hxs (S n) ltac:(lia)) as HM.
      destruct (map_st (fun x => run_unpack E x (cu t')) xs (S n)) as [ys n'].
      simpl. rewrite (fresh_not_old n0 n Hn). destruct HM as [HM1 HM2]. split; [exact HM1 | lia].
    - (* TTup *)
      assert (Hxs: Forall (fun x => forall (t: ty) m, wconforms E x t = true -> n0 <= m ->
                 let (y, m') := run_unpack E x (cu t) m in maxold n0 y = anyref E x t /\ m <= m') xs).
      { simpl in Ho. apply andb_prop in Ho. destruct Ho as [_ Ho]. apply forallb_Forall in Ho.
        pose proof (Forall_and _ _ _ IH Ho) as H.
        eapply Forall_impl; [| exact H]. intros x [Hx Hox] t m Hcx Hm. apply Hx; auto. }
      simpl in Hc.
      pose proof (zip_st_flat (fun x t => run_unpack E x (cu t)) (maxold n0)
                    (anyref E) (wconforms E) n0 xs Hxs ts (S n) Hc ltac:(lia)) as HM.
      simpl.
      assert (Hz: forall m, zip_st (fun x e' => run_unpack E x e') (map cu ts) xs m
                         = zip_st (fun x t => run_unpack E x (cu t)) ts xs m).
      { clear. revert ts. induction xs as [| x r IHr]; intros ts m; destruct ts as [| t ts]; simpl; try reflexivity.
        destruct (run_unpack E x (cu t) m) as [y m1]. now rewrite IHr. }
      rewrite Hz.
      destruct (zip_st (fun x t => run_unpack E x (cu t)) ts xs (S n)) as [ys n'].
      simpl. rewrite (fresh_not_old n0 n Hn). destruct HM as [HM1 HM2]. split; [exact HM1 | lia].
    - (* TComp *)
      assert (Hxs: Forall (fun x => forall m, n0 <= m ->
                 let (y, m') := run_unpack E x (cu tc) m in maxold n0 y = anyref E x tc /\ m <= m') xs).
      { simpl in Hc, Ho. apply andb_prop in Ho. destruct Ho as [_ Ho].
        apply forallb_Forall in Hc. apply forallb_Forall in Ho.
        pose proof (Forall_and _ _ _ (Forall_and _ _ _ IH Hc) Ho) as H.
        eapply Forall_impl; [| exact H]. intros x [[Hx Hcx] Hox] m Hm. apply Hx; auto. }
      simpl.
      pose proof (map_st_flat (fun x => run_unpack E x (cu tc)) (maxold n0)
                    (fun x => anyref E x tc) n0 xs Hxs (S n) ltac:(lia)) as HM.
      destruct (map_st (fun x => run_unpack E x (cu tc)) xs (S n)) as [ys n'].
      simpl. rewrite (fresh_not_old n0 n Hn). destruct HM as [HM1 HM2]. split; [exact HM1 | lia].
    - (* TMap *)
      assert (Hkvs: Forall (fun kv : lv * lv => forall m, n0 <= m ->
                 let (y, m') := (let (k0, x) := kv in
                                 let (k', m1) := run_unpack E k0 (cu kt) m in
                                 let (x', m2) := run_unpack E x (cu vt) m1 in ((k', x'), m2)) in
                 (let (a, b) := y in maxold n0 a ++ maxold n0 b)
                 = (let (k0, x) := kv in anyref E k0 kt ++ anyref E x vt)
                 /\ m <= m') kvs).
      { simpl in Hc, Ho. apply andb_prop in Ho. destruct Ho as [_ Ho].
        apply forallb_Forall in Hc. apply forallb_Forall in Ho.
        pose proof (Forall_and _ _ _ (Forall_and _ _ _ IH Hc) Ho) as H.
        eapply Forall_impl; [| exact H]. intros [k0 x] [[[Hk Hx] Hcx] Hox] m Hm. simpl in *.
        apply andb_prop in Hcx. destruct Hcx as [Hck Hcx]. apply andb_prop in Hox. destruct Hox as [Hok Hox].
        specialize (Hk kt m Hck Hok Hm).
        destruct (run_unpack E k0 (cu kt) m) as [k' m1]. destruct Hk as [Hk Hm1].
        specialize (Hx vt m1 Hcx Hox ltac:(lia)).
        destruct (run_unpack E x (cu vt) m1) as [x' m2]. destruct Hx as [Hx Hm2].
        split; [now rewrite Hk, Hx | lia]. }
      pose proof (map_st_flat _ (fun y : lv * lv => let (a, b) := y in maxold n0 a ++ maxold n0 b)
                    (fun kv : lv * lv => let (k0, x) := kv in anyref E k0 kt ++ anyref E x vt) n0 kvs Hkvs
                    (S n) ltac:(lia)) as HM.
      simpl.
      match goal with |- context [map_st ?f kvs (S n)] => destruct (map_st f kvs (S n)) as [ys n'] end.
      simpl. rewrite (fresh_not_old n0 n Hn). destruct HM as [HM1 HM2]. split; [exact HM1 | lia].
    - (* TDC: the wire form is a mapping *)
      assert (Hkvs: Forall (fun kv : lv * lv => forall (t: ty) m,
                 (let (_, x) := kv in wconforms E x t) = true -> n0 <= m ->
                 let (y, m') := (let (_, x) := kv in run_unpack E x (cu t)) m in
                 maxold n0 y = (let (_, x) := kv in anyref E x t) /\ m <= m') kvs).
      { simpl in Ho. apply andb_prop in Ho. destruct Ho as [_ Ho]. apply forallb_Forall in Ho.
        pose proof (Forall_and _ _ _ IH Ho) as H.
        eapply Forall_impl; [| exact H]. intros [k0 x] [[Hk Hx] Hox] t m Hcx Hm. simpl in *.
        apply andb_prop in Hox. destruct Hox as [_ Hox]. apply Hx; auto. }
      simpl in Hc.
      pose proof (zip_st_flat (fun (kv: lv * lv) t => let (_, x) := kv in run_unpack E x (cu t)) (maxold n0)
                    (fun (kv: lv * lv) t => let (_, x) := kv in anyref E x t)
                    (fun (kv: lv * lv) t => let (_, x) := kv in wconforms E x t) n0 kvs Hkvs
                    (c_fields (e_ct E c0)) (S n) Hc ltac:(lia)) as HM.
      simpl.
      match goal with |- context [zip_st ?f ?a kvs (S n)] => destruct (zip_st f a kvs (S n)) as [ys n'] end.
      simpl. rewrite (fresh_not_old n0 n Hn). destruct HM as [HM1 HM2]. split; [exact HM1 | lia].
    - (* TRMap *)
      assert (Hkvs: Forall (fun kv : lv * lv => forall m, n0 <= m ->
                 let (y, m') := (let (k0, x) := kv in
                                 let (k', m1) := run_unpack E k0 (cu rk) m in
                                 let (x', m2) := run_unpack E x (cu rv) m1 in ((k', x'), m2)) in
                 (let (a, b) := y in maxold n0 a ++ maxold n0 b)
                 = (let (k0, x) := kv in anyref E k0 rk ++ anyref E x rv)
                 /\ m <= m') kvs).
      { simpl in Hc, Ho. apply andb_prop in Ho. destruct Ho as [_ Ho].
        apply forallb_Forall in Hc. apply forallb_Forall in Ho.
        pose proof (Forall_and _ _ _ (Forall_and _ _ _ IH Hc) Ho) as H.
        eapply Forall_impl; [| exact H]. intros [k0 x] [[[Hk Hx] Hcx] Hox] m Hm. simpl in *.
        apply andb_prop in Hcx. destruct Hcx as [Hck Hcx]. apply andb_prop in Hox. destruct Hox as [Hok Hox].
        specialize (Hk rk m Hck Hok Hm).
        destruct (run_unpack E k0 (cu rk) m) as [k' m1]. destruct Hk as [Hk Hm1].
        specialize (Hx rv m1 Hcx Hox ltac:(lia)).
        destruct (run_unpack E x (cu rv) m1) as [x' m2]. destruct Hx as [Hx Hm2].
        split; [now rewrite Hk, Hx | lia]. }
      pose proof (map_st_flat _ (fun y : lv * lv => let (a, b) := y in maxold n0 a ++ maxold n0 b)
                    (fun kv : lv * lv => let (k0, x) := kv in anyref E k0 rk ++ anyref E x rv) n0 kvs Hkvs
                    (S n) ltac:(lia)) as HM.
      simpl.
      match goal with |- context [map_st ?f kvs (S n)] => destruct (map_st f kvs (S n)) as [ys n'] end.
      simpl. rewrite (fresh_not_old n0 n Hn). destruct HM as [HM1 HM2]. split; [exact HM1 | lia].
    - (* TRec *)
      set (pp := fun (kv: lv * lv) (t: ty) =>
                   match kv with (k0, x) => match k0 with VAtom _ => wconforms E x t | _ => false end end).
      assert (Hkvs: Forall (fun kv : lv * lv => forall (t: ty) m, pp kv t = true -> n0 <= m ->
                 let (y, m') := (let (k0, x) := kv in
                                 let (y0, m1) := run_unpack E x (cu t) m in ((k0, y0), m1)) in
                 (let (a, b) := y in maxold n0 a ++ maxold n0 b)
                 = (let (_, x) := kv in anyref E x t) /\ m <= m') kvs).
      { simpl in Ho. apply andb_prop in Ho. destruct Ho as [_ Ho]. apply forallb_Forall in Ho.
        pose proof (Forall_and _ _ _ IH Ho) as H.
        eapply Forall_impl; [| exact H]. intros [k0 x] [[Hk Hx] Hox] t m Hp Hm. unfold pp in Hp. simpl in *.
        apply andb_prop in Hox. destruct Hox as [_ Hox]. destruct k0; try discriminate Hp.
        specialize (Hx t m Hp Hox Hm).
        destruct (run_unpack E x (cu t) m) as [y0 m1]. simpl. exact Hx. }
      simpl in Hc. fold pp in Hc.
      pose proof (zip_st_flat (fun (kv: lv * lv) t m => let (k0, x) := kv in
                                 let (y0, m1) := run_unpack E x (cu t) m in ((k0, y0), m1))
                    (fun y : lv * lv => let (a, b) := y in maxold n0 a ++ maxold n0 b)
                    (fun (kv: lv * lv) t => let (_, x) := kv in anyref E x t)
                    pp n0 kvs Hkvs rs (S n) Hc ltac:(lia)) as HM.
      simpl.
      assert (Hz: forall m,
                 zip_st (fun (kv: lv * lv) e' m => let (k0, x) := kv in
                           let (y0, m1) := run_unpack E x e' m in ((k0, y0), m1)) (map cu rs) kvs m
                 = zip_st (fun (kv: lv * lv) t m => let (k0, x) := kv in
                           let (y0, m1) := run_unpack E x (cu t) m in ((k0, y0), m1)) rs kvs m).
      { clear. revert rs. induction kvs as [| [k0 x] r IHr]; intros rs m; destruct rs as [| t ts]; simpl; try reflexivity.
        destruct (run_unpack E x (cu t) m) as [y m1]. now rewrite IHr. }
      rewrite Hz.
      match goal with |- context [zip_st ?f rs kvs (S n)] => destruct (zip_st f rs kvs (S n)) as [ys n'] end.
      simpl. rewrite (fresh_not_old n0 n Hn). destruct HM as [HM1 HM2]. split; [exact HM1 | lia].
  Qed.
End UnpackShare.

(* ------------------------------------------------------------------ *)
(* entry points *)
Lemma pack_top_share E n0 call Ntop t v :
  conforms E v t = true -> udet E v call Ntop true t = true -> all_old n0 v = true ->
  let (r, n1) := pack_top E call Ntop t v n0 in
  maxold n0 r = byref E (ident E) v call Ntop true t /\ n0 <= n1.
Proof. intros Hc Hu Ho. unfold pack_top. apply pack_share_all; auto. Qed.

Lemma unpack_top_fresh E n0 t w :
  wconforms E w t = true -> all_old n0 w = true ->
  let (r, n1) := unpack_top E t w n0 in
  maxold n0 r = anyref E w t /\ n0 <= n1.
Proof. intros Hc Ho. unfold unpack_top. apply unpack_share_all; auto. Qed.

(* the semantic reading of "elements need no conversion" (Optional[int] needs none) is
   not what the generator implements: a list of Optional[int] listed in no_copy_collections
   is copied *)
Definition share_full : Prop :=
  forall E n0 call Ntop t v,
    conforms E v t = true -> udet E v call Ntop true t = true -> all_old n0 v = true ->
    let (r, n1) := pack_top E call Ntop t v n0 in
    maxold n0 r = byref E (conv_free E) v call Ntop true t /\ n0 <= n1.

Definition env0 : env :=
  {| e_ct := fun _ => {| c_sup := false; c_nc := None; c_fields := [] |}; e_fmt := None; e_lp := fun _ => false |}.

Lemma share_full_refuted : ~ share_full.
Proof.
  intros H.
  specialize (H env0 1 None [OList] (TSeq OList (TOpt TAtom)) (VSeq KList 0 [VAtom 1%Z]) eq_refl eq_refl eq_refl).
  vm_compute in H. destruct H as [H _]. discriminate H.
Qed.

(* without the dispatch condition udet the statement fails on unions: the identity branch of the
   union method is guarded by the class of the value only, so a list that belongs to a member
   whose elements need conversion is handed out by reference when another member with the same
   origin is passed by reference (known finding C18/nocopy-union-class-check) *)
Definition share_union_full : Prop :=
  forall E n0 call Ntop t v,
    conforms E v t = true -> all_old n0 v = true ->
    let (r, n1) := pack_top E call Ntop t v n0 in
    maxold n0 r = byref E (ident E) v call Ntop true t /\ n0 <= n1.

Lemma share_union_full_refuted : ~ share_union_full.
Proof.
  intros H.
  specialize (H env0 1 None [OList] (TUnion [TSeq OList (TLeaf LDecimal); TSeq OList TAtom])
                (VSeq KList 0 [VLeaf 1%Z]) eq_refl eq_refl).
  vm_compute in H. destruct H as [H _]. discriminate H.
Qed.

(* ------------------------------------------------------------------ *)
(* union-free schemas: udet holds for every conforming value *)
Fixpoint unionfree (t: ty) : bool :=
  match t with
  | TUnion _ => false
  | TAtom | TLeaf _ | TAny | TPass | TDC _ | TNone | TLit | TAbsent _ => true
  | TOpt t' | TSeq _ t' | TTupV t' | TWrap t' | TComp _ t' => unionfree t'
  | TTup ts | TRec ts => forallb unionfree ts
  | TMap _ kt vt | TRMap kt vt => unionfree kt && unionfree vt
  end.
Definition unionfree_env (E: env) : Prop := forall c, forallb unionfree (E.(e_ct) c).(c_fields) = true.

Lemma zip_all_impl {A B} (p q: A -> B -> bool) (r: B -> bool) xs :
  Forall (fun x => forall t, r t = true -> p x t = true -> q x t = true) xs ->
  forall ts, forallb r ts = true -> zip_all p ts xs = true -> zip_all q ts xs = true.
Proof.
  induction 1 as [| x xs' Hx Hr IH]; intros ts Hrt Hp; destruct ts as [| t ts]; simpl in *; try discriminate; auto.
  apply andb_prop in Hrt. apply andb_prop in Hp. destruct Hrt as [Hr1 Hr2]. destruct Hp as [Hp1 Hp2].
  rewrite (Hx t Hr1 Hp1). simpl. now apply IH.
Qed.

Section UnionFree.
  Variable E : env.
  Hypothesis Huf : unionfree_env E.

  Lemma udet_unionfree : forall v call N hsup t,
    unionfree t = true -> conforms E v t = true -> udet E v call N hsup t = true.
  Proof.
    induction v as [z | | z | l | k l xs IH | k l kvs IH | c l fs IH] using lv_ind';
      intros call N hsup t; induction t as [| lk | | | t' IHt | o t' IHt | t' IHt | ts IHts | o kt IHk vt IHv | c0 | tw IHw | us IHus | | | dd | kk tc IHc | rk IHrk rv IHrv | rs IHrs] using ty_ind';
      intros Hf Hc; try (apply IHw; auto; fail); try (apply IHt; auto; fail);
      simpl in Hf; try discriminate Hf; simpl in Hc; try discriminate Hc; try reflexivity.
    - simpl. apply andb_prop in Hc. destruct Hc as [_ Hc]. apply forallb_forall. intros x Hx. rewrite Forall_forall in IH.
      apply IH; auto. rewrite forallb_forall in Hc. now apply Hc.
    - simpl. apply andb_prop in Hc. destruct Hc as [_ Hc]. apply forallb_forall. intros x Hx. rewrite Forall_forall in IH.
      apply IH; auto. rewrite forallb_forall in Hc. now apply Hc.
    - simpl. apply andb_prop in Hc. destruct Hc as [_ Hc].
      apply (zip_all_impl (conforms E) _ unionfree xs) with (ts := ts); auto.
      eapply Forall_impl; [| exact IH]. intros x Hx t Ht Hcx. apply Hx; auto.
    - (* TComp *)
      simpl. apply andb_prop in Hc. destruct Hc as [_ Hc]. apply forallb_forall. intros x Hx. rewrite Forall_forall in IH.
      apply IH; auto. rewrite forallb_forall in Hc. now apply Hc.
    - simpl. apply andb_prop in Hf. destruct Hf as [Hfk Hfv]. apply andb_prop in Hc. destruct Hc as [_ Hc].
      apply forallb_forall. intros [a b] Hx. rewrite Forall_forall in IH. destruct (IH (a, b) Hx) as [IHa IHb].
      rewrite forallb_forall in Hc. specialize (Hc (a, b) Hx). simpl in *.
      apply andb_prop in Hc. destruct Hc as [Hca Hcb]. rewrite IHa, IHb; auto.
    - (* TRMap *)
      simpl. apply andb_prop in Hf. destruct Hf as [Hfk Hfv].
      apply forallb_forall. intros [a b] Hx. rewrite Forall_forall in IH. destruct (IH (a, b) Hx) as [IHa IHb].
      rewrite forallb_forall in Hc. specialize (Hc (a, b) Hx). simpl in *.
      apply andb_prop in Hc. destruct Hc as [Hca Hcb]. rewrite IHa, IHb; auto.
    - (* TRec *)
      simpl.
      apply (zip_all_impl (fun (kv: lv * lv) t' => match kv with (k0, x) => match k0 with VAtom _ => conforms E x t' | _ => false end end)
                          _ unionfree kvs) with (ts := rs); auto.
      eapply Forall_impl; [| exact IH]. intros [a b] [Hx1 Hx2] t Ht Hcx. simpl in *.
      destruct a; try discriminate Hcx. apply Hx2; auto.
    - simpl. apply andb_prop in Hc. destruct Hc as [Hcc Hc].
      apply (zip_all_impl (conforms E) _ unionfree fs) with (ts := c_fields (e_ct E c)); auto.
      eapply Forall_impl; [| exact IH]. intros x Hx t Ht Hcx. apply Hx; auto.
  Qed.
End UnionFree.

Lemma pack_top_share_unionfree E n0 call Ntop t v :
  unionfree_env E -> unionfree t = true ->
  conforms E v t = true -> all_old n0 v = true ->
  let (r, n1) := pack_top E call Ntop t v n0 in
  maxold n0 r = byref E (ident E) v call Ntop true t /\ n0 <= n1.
Proof. intros He Ht Hc Ho. apply pack_top_share; auto. apply udet_unionfree; auto. Qed.
