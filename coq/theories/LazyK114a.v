(* C14: the model's decisions "stub or real code" and "what the stub does" are the SOURCE's decisions.
   Kernel K114a (coq/gen/K114a.v) is translated on every run from mashumaro/core/meta/code/builder.py:
   the test of the leading `if` of _add_(un)pack_method_lines, the test of `if ...: raise` in its
   `except UnresolvedTypeReferenceError:` handler, and the arguments of the CodeBuilder(...) call in the text
   that _add_(un)pack_method_lines_lazy emits.  The theorems below restate LazyModel.build / dispatch with the
   translated functions in the deciding positions. *)
From Coq Require Import List Arith Bool ZArith String Lia.
From Verif Require Import Regex PyK LazyModel LazyProofs.
From VerifGen Require Import K114a.
Import ListNotations.
Close Scope Z_scope.
Close Scope string_scope.
Open Scope nat_scope.

(* boolean read off a translated expression; None = the expression raised *)
Definition dec (r: res kv) : option bool := match r with Ok v => Some (k_truthy v) | Raise _ => None end.
(* the builder's `dialect` attribute: None or some dialect class (any value that is not None) *)
Definition kd (d: option did) : kv := match d with None => KNone | Some n => KInt (Z.of_nat n) end.

Definition src_lazy_first (pack lazy ap nailed: bool) (d: option did) : option bool :=
  dec ((if pack then pack_lazy_first else unpack_lazy_first) (KBool lazy) (KBool ap) (KBool nailed) (kd d)).
Definition src_unresolved_raises (pack ap apc: bool) : option bool :=
  dec ((if pack then pack_unresolved_raises else unpack_unresolved_raises) (KBool ap) (KBool apc)).
Definition src_stub_ap (pack: bool) : bool := k_truthy (if pack then pack_stub_ap else unpack_stub_ap).
Definition src_stub_dialect (pack: bool) : option did :=
  if (if pack then pack_stub_dialect_kw else unpack_stub_dialect_kw) then Some 0 else None.
(* the method the stub's builder compiles: the one it stands for iff the type arguments are passed on and
   first_method / the builder method / the re-dispatch name the same method *)
Definition src_stub_target (m: mname) : mname :=
  if (if m_pack m then pack_stub_type_args && pack_stub_same_method else unpack_stub_type_args && unpack_stub_same_method)
  then m else MN (m_pack m) (m_fmt m) (m_top m) 0.

Lemma src_lazy_first_eq pack lazy ap nailed d :
  src_lazy_first pack lazy ap nailed d =
  Some (lazy && ap && nailed && match d with None => true | Some _ => false end).
Proof. destruct pack, lazy, ap, nailed, d; reflexivity. Qed.

Lemma src_unresolved_raises_eq pack ap apc : src_unresolved_raises pack ap apc = Some (negb (ap && apc)).
Proof. destruct pack, ap, apc; reflexivity. Qed.

(* a codec (non-nailed) builder never installs a lazy stub at the leading test *)
Lemma src_not_nailed_never_lazy pack lazy ap d : src_lazy_first pack lazy ap false d = Some false.
Proof. rewrite src_lazy_first_eq. now rewrite andb_false_r. Qed.

(* [build], one level: the three-way decision is taken by the translated tests *)
Theorem build_follows_source F n st ap c m d :
  build F true (S n) st ap c m d =
  match src_lazy_first (m_pack m) (c_lazy (cls F c)) ap true d with
  | Some true => install F st c m d (Stub c m)
  | Some false =>
      if unresolved F st c then
        match src_unresolved_raises (m_pack m) ap (c_apc (cls F c)) with
        | Some false => install F st c m d (Stub c m)
        | Some true => (st, Some EUnresolved)
        | None => (st, Some EUnresolved)
        end
      else
        match deps_with (fun st c' m' => build F true n st true c' m' None)
                        (match d with None => true | Some _ => false end) c m (c_fields (cls F c)) st with
        | (st1, None) => install F st1 c m d (Compiled c m d)
        | (st1, Some e) => (st1, Some e)
        end
  | None => (st, Some EUnresolved)
  end.
Proof.
  cbn [build]. rewrite src_lazy_first_eq, src_unresolved_raises_eq. cbn [negb orb].
  rewrite andb_true_r.
  destruct (c_lazy (cls F c) && ap && match d with None => true | Some _ => false end); [reflexivity|].
  destruct (unresolved F st c); [|reflexivity].
  destruct (ap && c_apc (cls F c)); reflexivity.
Qed.

(* a call that finds a stub: the builder the stub creates gets exactly the arguments of the emitted text
   (allow_postponed_evaluation, type arguments / method name, no dialect) and the same method is called again *)
Theorem stub_step_follows_source F fuel st c m sc sm :
  mro_slot F st c m = Some (Stub sc sm) ->
  dispatch F true (S fuel) st c m None =
  match build F true (bfuel F) st (src_stub_ap (m_pack sm)) c (src_stub_target sm) (src_stub_dialect (m_pack sm)) with
  | (st1, None) => dispatch F true fuel st1 c sm None
  | (st1, Some e) => (st1, DExc e)
  end.
Proof.
  intros G. rewrite dispatch_S, G. cbn [run_cached].
  unfold src_stub_ap, src_stub_target, src_stub_dialect, stub_target. destruct (m_pack sm); reflexivity.
Qed.

Lemma src_stub_target_eq m : src_stub_target m = stub_target m.
Proof. unfold src_stub_target, stub_target. destruct (m_pack m); reflexivity. Qed.

(* with Config.allow_postponed_evaluation = False a class whose references are unresolved at its class statement
   fails at creation - unless it is lazy (the leading test comes first) *)
Example F_apc (lazy: bool) : fam := [CDX lazy false [(0, 0)] [FD 1 0 true] None false; CD false false [(0, 0)] [] None].
Example apc_false_fails_at_creation :
  run (F_apc false) true 40 st0 [Define 0] = [Exc EUnresolved] /\
  run (F_apc false) true 40 st0 [Define 1; Define 0; Call 0 (MN true 0 false 0) None (V [])] =
    [Out (Node 1 (MN false 0 false 0) None []); Out (Node 0 (MN false 0 false 0) None []);
     Out (Node 0 (MN true 0 false 0) None [])].
Proof. split; vm_compute; reflexivity. Qed.
Example apc_false_lazy_still_postpones :
  run (F_apc true) true 40 st0 [Define 0; Define 1; Call 0 (MN true 0 false 0) None (V [])] =
    [Out (Node 0 (MN false 0 false 0) None []); Out (Node 1 (MN false 0 false 0) None []);
     Out (Node 0 (MN true 0 false 0) None [])].
Proof. vm_compute. reflexivity. Qed.
