(* C10 model, part 2: positions below a field.
   A customization can apply at the field's declared type or at any position the registry re-enters for a part of
   it: the supertype of a NewType, the argument of Optional, the element of a collection, and - through a nested
   dataclass or a Self-typed child - the declared type of another field.  This file describes, per position, the
   resolution context (sources and key list) and the reference outcome "the outermost position that has an
   enabled slot wins, with that position's minimum". *)
From Coq Require Import List String Ascii ZArith Bool Arith Lia.
From Verif Require Import Regex PyK PyK_strat PyK_c08 OptProj Strategies.
Import ListNotations.
Open Scope string_scope.
Open Scope nat_scope.
Open Scope list_scope.

(* the three field-level options *)
Record fieldopts := { fo_ser : option fnv; fo_de : option fnv; fo_strat : option sval }.
Definition no_fieldopts : fieldopts := {| fo_ser := None; fo_de := None; fo_strat := None |}.

Definition with_fieldopts (Sr: sources) (f: fieldopts) : sources :=
  {| f_ser := fo_ser f; f_de := fo_de f; f_strat := fo_strat f; t_call := t_call Sr; t_cfgd := t_cfgd Sr;
     t_cfg := t_cfg Sr; t_dflt := t_dflt Sr |}.
Definition drop_fieldopts (Sr: sources) : sources := with_fieldopts Sr no_fieldopts.

(* what the surrounding program supplies *)
Record prims := {
  p_rt : kv -> kv;                       (* get_real_type: substitution of resolved type parameters *)
  p_org : kv -> kv;                      (* get_type_origin *)
  p_isann : kv -> bool;                  (* is_annotated *)
  p_flags : kv -> flags;                 (* code generation options of a class object (all false for a non-class) *)
  p_cfg : kv -> option table * table     (* Config.dialect / Config.serialization_strategy tables of a class *)
}.

Inductive tstep := TNewType | TOptional | TElement | TMember | TTupleItem | TNamedField | TTypedKey.

Inductive node :=
| NType (k: tstep) (decl: kv)                       (* re-entry for a part of the current type, declared type decl *)
| NField (self: bool) (f: fieldopts) (decl: kv).    (* the current type is a dataclass (self = false) or Self: on to one
                                                       of its fields with options f and declared type decl *)

(* the resolution context of one position *)
Record pctx := { x_S : sources; x_ann : kv; x_decl : kv; x_holder : kv }.

Definition ctx_keys (P: prims) (c: pctx) : kv * kv * kv := keys_after (p_rt P) (p_org P) (p_isann P) (x_decl c) (x_ann c).
Definition ctx_keylist (P: prims) (c: pctx) : list kv :=
  match ctx_keys P c with (a, t, o) => keys_of a t o end.

(* does the dialect given to the call travel from the holder's method into the child's method? *)
Definition reaches (P: prims) (holder child: kv) : bool := g_dl (p_flags P holder) && g_dl (p_flags P child).

Definition next_ctx (P: prims) (c: pctx) (n: node) : pctx :=
  match ctx_keys P c with
  | (a, t, o) =>
    match n with
    | NType k decl =>
        {| x_S := match k with TElement => drop_fieldopts (x_S c) | _ => x_S c end;
           x_ann := a; x_decl := decl; x_holder := x_holder c |}
    | NField self f decl =>
        let child := if self then x_holder c else t in
        {| x_S := {| f_ser := fo_ser f; f_de := fo_de f; f_strat := fo_strat f;
                     t_call := if reaches P (x_holder c) child then t_call (x_S c) else None;
                     t_cfgd := fst (p_cfg P child); t_cfg := snd (p_cfg P child);
                     t_dflt := t_dflt (x_S c) |};
           x_ann := KNone; x_decl := decl; x_holder := child |}
    end
  end.

(* the contexts of the positions along a path, outermost first *)
Fixpoint ctxs (P: prims) (c: pctx) (path: list node) : list pctx :=
  c :: match path with [] => [] | n :: rest => ctxs P (next_ctx P c n) rest end.

Definition resolve_ctx (P: prims) (d: dir) (c: pctx) : option (slot * winner) := resolve (x_S c) (ctx_keylist P c) d.

(* reference outcome: the first position, outermost first, whose resolution is not empty; None = built-in *)
Definition ref_outcome (P: prims) (d: dir) (c: pctx) (path: list node) : option (pctx * (slot * winner)) :=
  first_hit (resolve_ctx P d) (ctxs P c path).

(* engine names select a built-in behaviour: they do not end the descent *)
Definition eff_resolve (P: prims) (d: dir) (c: pctx) : option (slot * winner) :=
  match resolve_ctx P d c with
  | Some (_, WEngine _) => None
  | r => r
  end.

Fixpoint ref_compile (P: prims) (d: dir) (cs: list pctx) (depth: nat) : option (nat * (slot * winner)) :=
  match cs with
  | [] => None
  | c :: r => match eff_resolve P d c with Some sw => Some (depth, sw) | None => ref_compile P d r (S depth) end
  end.


(* ---- encodings ---- *)
Definition mk_spec4 (t o a md: kv) : kv :=
  KNs [("type", t); ("origin_type", o); ("annotated_type", a); ("metadata", md)].

(* the ValueSpec of a position *)
Definition spec_of (P: prims) (c: pctx) : kv :=
  mk_spec4 (x_decl c) (p_org P (x_decl c)) (x_ann c) (enc_meta (x_S c)).

Definition enc_flags5 (f: flags) : kv :=
  KNs [("TO_DICT_ADD_OMIT_NONE_FLAG", KBool (g_on f)); ("TO_DICT_ADD_BY_ALIAS_FLAG", KBool (g_ba f));
       ("ADD_DIALECT_SUPPORT", KBool (g_dl f)); ("ADD_SERIALIZATION_CONTEXT", KBool (g_cx f))].

(* is `item` one of the flags in the argument list text? *)
Fixpoint is_prefix (p s: string) : bool :=
  match p, s with
  | EmptyString, _ => true
  | String a p', String b s' => Ascii.eqb a b && is_prefix p' s'
  | _, _ => false
  end.
Fixpoint is_infix (p s: string) : bool :=
  is_prefix p s || match s with String _ r => is_infix p r | EmptyString => false end.
Definition forwards_dialect (flags_text: kv) : bool :=
  match flags_text with KStr s => is_infix "dialect=dialect" s | _ => false end.
