(* C11 / K19: comparing the translated emission loop with the source text the real generator produced. *)
From Coq Require Import List Bool Arith.
From Verif Require Import UnionModel UnionEmit.
From VerifGen Require Import K19.
Import ListNotations.

(* shape of one emitted line (expression texts of non-scalar members are not compared) *)
Inductive lcode := CVT | CTM (many: bool) (k: skind) | CRET | CTRY | CFB (k: skind) | CRAISE | CBAD.

Definition code_of (l: line) : lcode :=
  match l with
  | LValueType => CVT
  | LPlain (BIfRet (CVt (SM k))) => CTM true k
  | LPlain (BIfRet (CTy (SM k))) => CTM false k
  | LPlain (BRet (NM _ _ _)) => CRET
  | LTry [BRet (NM _ _ _)] => CTRY
  | LTryRet (SM k) => CFB k
  | LRaise => CRAISE
  | _ => CBAD end.

Definition lcode_eqb (a b: lcode) : bool :=
  match a, b with
  | CVT, CVT | CRET, CRET | CTRY, CTRY | CRAISE, CRAISE => true
  | CTM m k, CTM m' k' => Bool.eqb m m' && skind_eqb k k'
  | CFB k, CFB k' => skind_eqb k k'
  | _, _ => false end.

Fixpoint codes_eqb (a b: list lcode) : bool :=
  match a, b with
  | [], [] => true
  | x :: r, y :: r' => lcode_eqb x y && codes_eqb r r'
  | _, _ => false end.

(* members as (scalar kind | expression id, is it "value") *)
Inductive mlite := LS (k: skind) | LN (e: nat) (isval: bool).
Definition of_lite (m: mlite) : mspec := match m with LS k => SM k | LN e v => NM e v (fun _ => None) end.

Definition k19case_ok (c: list mlite * list lcode) : bool :=
  codes_eqb (map code_of (emit (map of_lite (fst c)))) (snd c).
