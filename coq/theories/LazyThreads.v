(* C14, threads: n threads call the same lazily compiled method at once.  Each thread runs the program of
   the generated stub  (builder.py 347-365 / 808-823):
       read the class attribute; if it is a compiled function, call it;
       otherwise: compile (CodeBuilder(...).add_*_method() builds a NEW function object),
                  setattr(cls, name, f), then re-dispatch  cls.name(...)  (read the attribute again, call).
   Every step is atomic (GIL-atomic attribute read / setattr; compilation touches no shared state but the
   final setattr), the interleaving is an arbitrary schedule = list of thread ids.  Not modelled:
   pre-emption inside exec()/CodeBuilder (shared caches of the code generator). *)
From Coq Require Import List Arith Bool Lia.
Import ListNotations.

Section Threads.
  Variable fn : Type.            (* function objects *)
  Variable res : Type.           (* results of calling one on the (fixed) input *)
  Variable compile : fn.         (* what compilation of (class, format, direction) yields: a function of the class definition only *)
  Variable apply : fn -> res.

  Inductive slot := SStub | SCompiled (f: fn).
  Inductive pc := PRead | PCompile | PSet (f: fn) | PRedispatch | PDone (r: res).

  Definition sys := (slot * list pc)%type.

  Definition step_thread (s: slot) (p: pc) : slot * pc :=
    match p with
    | PRead => match s with SCompiled f => (s, PDone (apply f)) | SStub => (s, PCompile) end
    | PCompile => (s, PSet compile)
    | PSet f => (SCompiled f, PRedispatch)
    | PRedispatch => match s with SCompiled f => (s, PDone (apply f)) | SStub => (s, PCompile) end
    | PDone r => (s, PDone r)
    end.

  Fixpoint upd (l: list pc) (i: nat) (p: pc) : list pc :=
    match l, i with
    | [], _ => []
    | _ :: r, 0 => p :: r
    | x :: r, S j => x :: upd r j p
    end.

  Definition step (y: sys) (tid: nat) : sys :=
    match nth_error (snd y) tid with
    | None => y
    | Some p => let (s', p') := step_thread (fst y) p in (s', upd (snd y) tid p')
    end.

  Definition run (y: sys) (schedule: list nat) : sys := fold_left step schedule y.

  Definition init (n: nat) : sys := (SStub, repeat PRead n).

  Definition slot_ok (s: slot) : Prop := s = SStub \/ s = SCompiled compile.
  Definition pc_ok (s: slot) (p: pc) : Prop :=
    match p with
    | PSet f => f = compile
    | PRedispatch => s = SCompiled compile
    | PDone r => r = apply compile
    | _ => True
    end.
  Definition inv (y: sys) : Prop := slot_ok (fst y) /\ Forall (pc_ok (fst y)) (snd y).

  Lemma Forall_upd (P: pc -> Prop) l i p : Forall P l -> P p -> Forall P (upd l i p).
  Proof.
    revert i. induction l as [|x r IH]; intros i FA Pp; cbn; [constructor|].
    inversion FA; subst. destruct i; constructor; auto.
  Qed.

  Lemma pc_ok_mono s p : pc_ok s p -> forall s', (s = SCompiled compile -> s' = SCompiled compile) -> pc_ok s' p.
  Proof. destruct p; cbn; auto. Qed.

  Lemma step_inv y tid : inv y -> inv (step y tid).
  Proof.
    intros [SO FA]. unfold step. destruct (nth_error (snd y) tid) as [p|] eqn:N; [|now split].
    assert (Pp: pc_ok (fst y) p).
    { rewrite Forall_forall in FA. apply FA. eapply nth_error_In; eauto. }
    destruct y as [s l]; cbn in *.
    destruct p; cbn in *.
    - destruct SO as [->| ->]; cbn; (split; [cbn; auto; try (now left); try (now right)|cbn; apply Forall_upd; cbn; auto]).
    - split; [exact SO|]. cbn. apply Forall_upd; cbn; auto.
    - subst f. split; [now right|]. cbn. apply Forall_upd; cbn; auto.
      rewrite Forall_forall in *. intros q Hq. eapply pc_ok_mono; [apply FA; exact Hq|]. auto.
    - subst s. cbn. split; [now right|]. cbn. apply Forall_upd; cbn; auto.
    - split; [exact SO|]. cbn. apply Forall_upd; cbn; auto.
  Qed.

  Lemma run_inv schedule : forall y, inv y -> inv (run y schedule).
  Proof. induction schedule as [|t r IH]; intros y I; cbn; [exact I|]. apply IH, step_inv, I. Qed.

  Lemma init_inv n : inv (init n).
  Proof. split; [now left|]. cbn. induction n; cbn; constructor; cbn; auto. Qed.

  (* safety: whatever the number of threads and the interleaving, a thread that has returned has returned
     what the eagerly compiled function returns; the attribute is a stub or THE compiled function *)
  Theorem schedules_safe n schedule tid r :
    nth_error (snd (run (init n) schedule)) tid = Some (PDone r) -> r = apply compile.
  Proof.
    intros H. destruct (run_inv schedule _ (init_inv n)) as [_ FA].
    rewrite Forall_forall in FA. apply (FA (PDone r)). eapply nth_error_In; eauto.
  Qed.

  (* liveness with an explicit measure: a thread needs at most 4 of its own steps *)
  Definition todo (p: pc) : nat :=
    match p with PRead => 4 | PCompile => 3 | PSet _ => 2 | PRedispatch => 1 | PDone _ => 0 end.

  Lemma nth_upd_same l i p : i < length l -> nth_error (upd l i p) i = Some p.
  Proof. revert i. induction l as [|x r IH]; intros i L; cbn in *; [lia|]. destruct i; cbn; auto. apply IH. lia. Qed.
  Lemma nth_upd_other l i j p : i <> j -> nth_error (upd l i p) j = nth_error l j.
  Proof.
    revert i j. induction l as [|x r IH]; intros i j N; cbn; [reflexivity|].
    destruct i, j; cbn; auto; try congruence.
  Qed.
  Lemma length_upd l i p : length (upd l i p) = length l.
  Proof. revert i. induction l as [|x r IH]; intros i; cbn; auto. destruct i; cbn; auto. Qed.

  Definition todo_of (y: sys) (tid: nat) : nat := match nth_error (snd y) tid with Some p => todo p | None => 0 end.

  Lemma step_todo_le y tid t : inv y -> todo_of (step y tid) t <= todo_of y t - (if Nat.eqb t tid then 1 else 0).
  Proof.
    intros [SO FA]. unfold todo_of, step. destruct (nth_error (snd y) tid) as [p|] eqn:N.
    2:{ destruct (Nat.eqb t tid) eqn:E; [apply Nat.eqb_eq in E; subst; rewrite N; lia|lia]. }
    assert (L: tid < length (snd y)) by (apply nth_error_Some; congruence).
    assert (Pp: pc_ok (fst y) p).
    { rewrite Forall_forall in FA. apply FA. eapply nth_error_In; eauto. }
    destruct y as [s l]; cbn in *.
    destruct (step_thread s p) as [s' p'] eqn:ST. cbn.
    destruct (Nat.eqb t tid) eqn:E.
    - apply Nat.eqb_eq in E. subst t. rewrite nth_upd_same by exact L. rewrite N.
      assert (todo p' <= todo p - 1); [|lia].
      destruct p; cbn in ST.
      + destruct s; inversion ST; subst; cbn; lia.
      + inversion ST; subst; cbn; lia.
      + inversion ST; subst; cbn; lia.
      + cbn in Pp. subst s. inversion ST; subst; cbn; lia.
      + inversion ST; subst; cbn; lia.
    - apply Nat.eqb_neq in E. rewrite nth_upd_other by congruence. lia.
  Qed.

  Definition count (tid: nat) (schedule: list nat) : nat := length (filter (Nat.eqb tid) schedule).

  Lemma run_todo schedule : forall y t, inv y -> todo_of (run y schedule) t <= todo_of y t - count t schedule.
  Proof.
    induction schedule as [|a r IH]; intros y t I.
    - cbn. lia.
    - specialize (IH (step y a) t (step_inv _ _ I)). pose proof (step_todo_le y a t I) as H.
      unfold run in *. cbn [fold_left]. unfold count in *. cbn [filter].
      destruct (Nat.eqb t a); cbn [length] in *; lia.
  Qed.

  Lemma length_run schedule : forall y, length (snd (run y schedule)) = length (snd y).
  Proof.
    induction schedule as [|a r IH]; intros y; [reflexivity|].
    change (run y (a :: r)) with (run (step y a) r). rewrite IH. unfold step.
    destruct (nth_error (snd y) a); [|reflexivity]. destruct (step_thread (fst y) p). cbn. apply length_upd.
  Qed.

  (* every thread that was scheduled at least 4 times has returned, with the eager result *)
  Theorem schedules_live n schedule tid :
    tid < n -> 4 <= count tid schedule ->
    nth_error (snd (run (init n) schedule)) tid = Some (PDone (apply compile)).
  Proof.
    intros L C. pose proof (run_todo schedule (init n) tid (init_inv n)) as T.
    assert (T0: todo_of (init n) tid <= 4).
    { unfold todo_of, init; cbn. destruct (nth_error (repeat PRead n) tid) eqn:E; [|lia].
      apply nth_error_In, repeat_spec in E. subst. cbn. lia. }
    assert (Z: todo_of (run (init n) schedule) tid = 0) by lia.
    unfold todo_of in Z.
    destruct (nth_error (snd (run (init n) schedule)) tid) as [p|] eqn:N.
    - destruct p; cbn in Z; try lia. f_equal. f_equal. eapply schedules_safe; eauto.
    - apply nth_error_None in N. rewrite length_run in N. cbn in N. rewrite repeat_length in N. lia.
  Qed.
End Threads.

Definition run_threads (fn res: Type) (compile: fn) (apply: fn -> res) (n: nat) (schedule: list nat) :=
  run fn res compile apply (init fn res n) schedule.
