(* C14, threads: n threads call the same lazily compiled method at once.  Each thread runs the program of
   the generated stub  (builder.py 347-365 / 808-823):
       read the class attribute; if it is a compiled function, call it;
       otherwise: compile (CodeBuilder(...).add_*_method() builds a NEW function object),
                  setattr(cls, name, f), then re-dispatch  cls.name(...)  (read the attribute again, call).
   Every step is atomic (GIL-atomic attribute read / setattr; compilation touches no shared state but the
   final setattr), the interleaving is an arbitrary schedule = list of thread ids.  Not modelled:
   pre-emption inside exec()/CodeBuilder (shared caches of the code generator). *)
From Coq Require Import List Arith Bool Lia.
Import ListNotations.

Section Threads.
  Variable fn : Type.            (* function objects *)
  Variable res : Type.           (* results of calling one on the (fixed) input *)
  Variable compile : fn.         (* what compilation of (class, format, direction) yields: a function of the class definition only *)
  Variable apply : fn -> res.

  Inductive slot := SStub | SCompiled (f: fn).
  Inductive pc := PRead | PCompile | PSet (f: fn) | PRedispatch | PDone (r: res).

  Definition sys := (slot * list pc)%type.

  Definition step_thread (s: slot) (p: pc) : slot * pc :=
    match p with
    | PRead => match s with SCompiled f => (s, PDone (apply f)) | SStub => (s, PCompile) end
    | PCompile => (s, PSet compile)
    | PSet f => (SCompiled f, PRedispatch)
    | PRedispatch => match s with SCompiled f => (s, PDone (apply f)) | SStub => (s, PCompile) end
    | PDone r => (s, PDone r)
    end.

  Fixpoint upd (l: list pc) (i: nat) (p: pc) : list pc :=
    match l, i with
    | [], _ => []
    | _ :: r, 0 => p :: r
    | x :: r, S j => x :: upd r j p
    end.

  Definition step (y: sys) (tid: nat) : sys :=
    match nth_error (snd y) tid with
    | None => y
    | Some p => let (s', p') := step_thread (fst y) p in (s', upd (snd y) tid p')
    end.

  Definition run (y: sys) (schedule: list nat) : sys := fold_left step schedule y.

  Definition init (n: nat) : sys := (SStub, repeat PRead n).

  Definition slot_ok (s: slot) : Prop := s = SStub \/ s = SCompiled compile.
  Definition pc_ok (s: slot) (p: pc) : Prop :=
    match p with
    | PSet f => f = compile
    | PRedispatch => s = SCompiled compile
    | PDone r => r = apply compile
    | _ => True
    end.
  Definition inv (y: sys) : Prop := slot_ok (fst y) /\ Forall (pc_ok (fst y)) (snd y).

  Lemma Forall_upd (P: pc -> Prop) l i p : Forall P l -> P p -> Forall P (upd l i p).
  Proof.
    revert i. induction l as [|x r IH]; intros i FA Pp; cbn; [constructor|].
    inversion FA; subst. destruct i; constructor; auto.
  Qed.

  Lemma pc_ok_mono s p : pc_ok s p -> forall s', (s = SCompiled compile -> s' = SCompiled compile) -> pc_ok s' p.
  Proof. destruct p; cbn; auto. Qed.

  Lemma step_inv y tid : inv y -> inv (step y tid).
  Proof.
    intros [SO FA]. unfold step. destruct (nth_error (snd y) tid) as [p|] eqn:N; [|now split].
    assert (Pp: pc_ok (fst y) p).
    { rewrite Forall_forall in FA. apply FA. eapply nth_error_In; eauto. }
    destruct y as [s l]; cbn in *.
    destruct p; cbn in *.
    - destruct SO as [->| ->]; cbn; (split; [cbn; auto; try (now left); try (now right)|cbn; apply Forall_upd; cbn; auto]).
    - split; [exact SO|]. cbn. apply Forall_upd; cbn; auto.
    - subst f. split; [now right|]. cbn. apply Forall_upd; cbn; auto.
      rewrite Forall_forall in *. intros q Hq. eapply pc_ok_mono; [apply FA; exact Hq|]. auto.
    - subst s. cbn. split; [now right|]. cbn. apply Forall_upd; cbn; auto.
    - split; [exact SO|]. cbn. apply Forall_upd; cbn; auto.
  Qed.

  Lemma run_inv schedule : forall y, inv y -> inv (run y schedule).
  Proof. induction schedule as [|t r IH]; intros y I; cbn; [exact I|]. apply IH, step_inv, I. Qed.

  Lemma init_inv n : inv (init n).
  Proof. split; [now left|]. cbn. induction n; cbn; constructor; cbn; auto. Qed.

  (* safety: whatever the number of threads and the interleaving, a thread that has returned has returned
     what the eagerly compiled function returns; the attribute is a stub or THE compiled function *)
  Theorem schedules_safe n schedule tid r :
    nth_error (snd (run (init n) schedule)) tid = Some (PDone r) -> r = apply compile.
  Proof.
    intros H. destruct (run_inv schedule _ (init_inv n)) as [_ FA].
    rewrite Forall_forall in FA. apply (FA (PDone r)). eapply nth_error_In; eauto.
  Qed.

  (* liveness with an explicit measure: a thread needs at most 4 of its own steps *)
  Definition todo (p: pc) : nat :=
    match p with PRead => 4 | PCompile => 3 | PSet _ => 2 | PRedispatch => 1 | PDone _ => 0 end.

  Lemma nth_upd_same l i p : i < length l -> nth_error (upd l i p) i = Some p.
  Proof. revert i. induction l as [|x r IH]; intros i L; cbn in *; [lia|]. destruct i; cbn; auto. apply IH. lia. Qed.
  Lemma nth_upd_other l i j p : i <> j -> nth_error (upd l i p) j = nth_error l j.
  Proof.
    revert i j. induction l as [|x r IH]; intros i j N; cbn; [reflexivity|].
    destruct i, j; cbn; auto; try congruence.
  Qed.
  Lemma length_upd l i p : length (upd l i p) = length l.
  Proof. revert i. induction l as [|x r IH]; intros i; cbn; auto. destruct i; cbn; auto. Qed.

  Definition todo_of (y: sys) (tid: nat) : nat := match nth_error (snd y) tid with Some p => todo p | None => 0 end.

  Lemma step_todo_le y tid t : inv y -> todo_of (step y tid) t <= todo_of y t - (if Nat.eqb t tid then 1 else 0).
  Proof.
    intros [SO FA]. unfold todo_of, step. destruct (nth_error (snd y) tid) as [p|] eqn:N.
    2:{ destruct (Nat.eqb t tid) eqn:E; [apply Nat.eqb_eq in E; subst; rewrite N; lia|lia]. }
    assert (L: tid < length (snd y)) by (apply nth_error_Some; congruence).
    assert (Pp: pc_ok (fst y) p).
    { rewrite Forall_forall in FA. apply FA. eapply nth_error_In; eauto. }
    destruct y as [s l]; cbn in *.
    destruct (step_thread s p) as [s' p'] eqn:ST. cbn.
    destruct (Nat.eqb t tid) eqn:E.
    - apply Nat.eqb_eq in E. subst t. rewrite nth_upd_same by exact L. rewrite N.
      assert (todo p' <= todo p - 1); [|lia].
      destruct p; cbn in ST.
      + destruct s; inversion ST; subst; cbn; lia.
      + inversion ST; subst; cbn; lia.
      + inversion ST; subst; cbn; lia.
      + cbn in Pp. subst s. inversion ST; subst; cbn; lia.
      + inversion ST; subst; cbn; lia.
    - apply Nat.eqb_neq in E. rewrite nth_upd_other by congruence. lia.
  Qed.

  Definition count (tid: nat) (schedule: list nat) : nat := length (filter (Nat.eqb tid) schedule).

  Lemma run_todo schedule : forall y t, inv y -> todo_of (run y schedule) t <= todo_of y t - count t schedule.
  Proof.
    induction schedule as [|a r IH]; intros y t I.
    - cbn. lia.
    - specialize (IH (step y a) t (step_inv _ _ I)). pose proof (step_todo_le y a t I) as H.
      unfold run in *. cbn [fold_left]. unfold count in *. cbn [filter].
      destruct (Nat.eqb t a); cbn [length] in *; lia.
  Qed.

  Lemma length_run schedule : forall y, length (snd (run y schedule)) = length (snd y).
  Proof.
    induction schedule as [|a r IH]; intros y; [reflexivity|].
    change (run y (a :: r)) with (run (step y a) r). rewrite IH. unfold step.
    destruct (nth_error (snd y) a); [|reflexivity]. destruct (step_thread (fst y) p). cbn. apply length_upd.
  Qed.

  (* every thread that was scheduled at least 4 times has returned, with the eager result *)
  Theorem schedules_live n schedule tid :
    tid < n -> 4 <= count tid schedule ->
    nth_error (snd (run (init n) schedule)) tid = Some (PDone (apply compile)).
  Proof.
    intros L C. pose proof (run_todo schedule (init n) tid (init_inv n)) as T.
    assert (T0: todo_of (init n) tid <= 4).
    { unfold todo_of, init; cbn. destruct (nth_error (repeat PRead n) tid) eqn:E; [|lia].
      apply nth_error_In, repeat_spec in E. subst. cbn. lia. }
    assert (Z: todo_of (run (init n) schedule) tid = 0) by lia.
    unfold todo_of in Z.
    destruct (nth_error (snd (run (init n) schedule)) tid) as [p|] eqn:N.
    - destruct p; cbn in Z; try lia. f_equal. f_equal. eapply schedules_safe; eauto.
    - apply nth_error_None in N. rewrite length_run in N. cbn in N. rewrite repeat_length in N. lia.
  Qed.
End Threads.

Definition run_threads (fn res: Type) (compile: fn) (apply: fn -> res) (n: nat) (schedule: list nat) :=
  run fn res compile apply (init fn res n) schedule.

(* ------------------------------------------------------------------------------------------------------------- *)
(* several method slots: every thread runs a PROGRAM = a sequence of calls (e.g. the nested calls of one public  *)
(* call, or several public calls) over a table of lazily compiled methods; steps of different threads and of     *)
(* different slots interleave arbitrarily                                                                          *)
(* ------------------------------------------------------------------------------------------------------------- *)
Section MultiSlot.
  Variable fn : Type.
  Variable res : Type.
  Variable compile : nat -> fn.       (* what compiling slot i yields *)
  Variable apply : fn -> res.

  Record thread := TH { prog : list nat; tpc : pc fn res; out : list (nat * res) }.

  Fixpoint set_nth (l: list (slot fn)) (i: nat) (x: slot fn) : list (slot fn) :=
    match l, i with
    | [], _ => []
    | _ :: r, 0 => x :: r
    | y :: r, S j => y :: set_nth r j x
    end.

  Definition step_one (sl: list (slot fn)) (t: thread) : list (slot fn) * thread :=
    match prog t with
    | [] => (sl, t)
    | s :: rest =>
        let (cur', p') := step_thread fn res (compile s) apply (nth s sl (SStub fn)) (tpc t) in
        let sl' := set_nth sl s cur' in
        match p' with
        | PDone _ _ r => (sl', TH rest (PRead fn res) (out t ++ [(s, r)]))
        | _ => (sl', TH (prog t) p' (out t))
        end
    end.

  Fixpoint upd_th (l: list thread) (i: nat) (t: thread) : list thread :=
    match l, i with
    | [], _ => []
    | _ :: r, 0 => t :: r
    | y :: r, S j => y :: upd_th r j t
    end.

  Definition msys := (list (slot fn) * list thread)%type.
  Definition mstep (y: msys) (tid: nat) : msys :=
    match nth_error (snd y) tid with
    | None => y
    | Some t => let (sl', t') := step_one (fst y) t in (sl', upd_th (snd y) tid t')
    end.
  Definition mrun (y: msys) (schedule: list nat) : msys := fold_left mstep schedule y.

  Definition slots_ok (sl: list (slot fn)) : Prop :=
    forall i, nth i sl (SStub fn) = SStub fn \/ nth i sl (SStub fn) = SCompiled fn (compile i).
  Definition out_ok (t: thread) : Prop := Forall (fun sr => snd sr = apply (compile (fst sr))) (out t).
  Definition th_ok (sl: list (slot fn)) (t: thread) : Prop :=
    out_ok t /\ Forall (fun s => s < length sl) (prog t) /\
    match prog t with
    | [] => True
    | s :: _ =>
        match tpc t with
        | PSet _ _ f => f = compile s
        | PRedispatch _ _ => nth s sl (SStub fn) = SCompiled fn (compile s)
        | PDone _ _ _ => False
        | _ => True
        end
    end.
  Definition minv (y: msys) : Prop := slots_ok (fst y) /\ Forall (th_ok (fst y)) (snd y).

  Lemma nth_set_nth_same l i x : i < length l -> nth i (set_nth l i x) (SStub fn) = x.
  Proof. revert i. induction l as [|y r IH]; intros i L; cbn in *; [lia|]. destruct i; cbn; auto. apply IH. lia. Qed.
  Lemma nth_set_nth_other l i j x : i <> j -> nth j (set_nth l i x) (SStub fn) = nth j l (SStub fn).
  Proof.
    revert i j. induction l as [|y r IH]; intros i j N; cbn; [destruct i, j; reflexivity|].
    destruct i, j; cbn; auto; try congruence.
  Qed.
  Lemma length_set_nth l i x : length (set_nth l i x) = length l.
  Proof. revert i. induction l as [|y r IH]; intros i; cbn; auto. destruct i; cbn; auto. Qed.
  Lemma set_nth_overflow l i x : length l <= i -> set_nth l i x = l.
  Proof. revert i. induction l as [|y r IH]; intros i L; cbn in *; [reflexivity|]. destruct i; [lia|]. f_equal. apply IH. lia. Qed.

  Lemma Forall_upd_th (P: thread -> Prop) l i t : Forall P l -> P t -> Forall P (upd_th l i t).
  Proof.
    revert i. induction l as [|x r IH]; intros i FA Pt; cbn; [constructor|].
    inversion FA; subst. destruct i; constructor; auto.
  Qed.

  (* one step of one thread keeps: every slot is a stub or THE compiled function of that slot; the step only turns
     a stub into that function (never back) *)
  Lemma step_one_slots sl t sl' t' :
    slots_ok sl -> th_ok sl t -> step_one sl t = (sl', t') ->
    slots_ok sl' /\ length sl' = length sl /\
    (forall i, nth i sl (SStub fn) = SCompiled fn (compile i) -> nth i sl' (SStub fn) = SCompiled fn (compile i)) /\
    th_ok sl' t'.
  Proof.
    intros SO (OK & RG & PC) S. unfold step_one in S. destruct (prog t) as [|s rest] eqn:PR.
    - inversion S; subst. split; [exact SO|]. split; [reflexivity|]. split; [auto|]. unfold th_ok. rewrite PR. auto.
    - inversion RG as [|? ? Ls RG']; subst.
      destruct (step_thread fn res (compile s) apply (nth s sl (SStub fn)) (tpc t)) as [cur' p'] eqn:ST.
      assert (CUR: cur' = nth s sl (SStub fn) \/ cur' = SCompiled fn (compile s)).
      { destruct (tpc t); cbn in ST.
        - destruct (nth s sl (SStub fn)); inversion ST; auto.
        - inversion ST; auto.
        - right. inversion ST. now rewrite PC.
        - destruct (nth s sl (SStub fn)); inversion ST; auto.
        - inversion ST; auto. }
      assert (SO': slots_ok (set_nth sl s cur')).
      { intros i. destruct (Nat.eq_dec s i) as [<-|N].
        - rewrite nth_set_nth_same by exact Ls. destruct CUR as [->| ->]; [apply SO|now right].
        - rewrite nth_set_nth_other by exact N. apply SO. }
      assert (KEEP: forall i, nth i sl (SStub fn) = SCompiled fn (compile i) ->
                              nth i (set_nth sl s cur') (SStub fn) = SCompiled fn (compile i)).
      { intros i H. destruct (Nat.eq_dec s i) as [<-|N].
        - rewrite nth_set_nth_same by exact Ls. destruct CUR as [->| ->]; auto.
        - now rewrite nth_set_nth_other by exact N. }
      assert (RES: forall r, p' = PDone fn res r -> r = apply (compile s)).
      { intros r ->. destruct (tpc t); cbn in ST.
        - destruct (nth s sl (SStub fn)) eqn:E; inversion ST; subst.
          destruct (SO s) as [H|H]; rewrite E in H; [discriminate|]. inversion H. reflexivity.
        - inversion ST.
        - inversion ST.
        - rewrite PC in ST. inversion ST. reflexivity.
        - exfalso. exact PC. }
      assert (RG2: Forall (fun s0 => s0 < length (set_nth sl s cur')) rest) by (rewrite length_set_nth; exact RG').
      destruct p' as [| |f| |r]; inversion S; subst; (split; [exact SO'|]; split; [apply length_set_nth|]; split; [exact KEEP|]).
      + unfold th_ok; cbn. split; [exact OK|]. split; [rewrite length_set_nth; exact RG|exact I].
      + unfold th_ok; cbn. split; [exact OK|]. split; [rewrite length_set_nth; exact RG|exact I].
      + unfold th_ok; cbn. split; [exact OK|]. split; [rewrite length_set_nth; exact RG|].
        destruct (tpc t); cbn in ST; try (destruct (nth s sl (SStub fn)); inversion ST); inversion ST; reflexivity.
      + unfold th_ok; cbn. split; [exact OK|]. split; [rewrite length_set_nth; exact RG|].
        destruct (tpc t); cbn in ST; try (destruct (nth s sl (SStub fn)); inversion ST; fail); inversion ST.
        rewrite nth_set_nth_same by exact Ls. now rewrite PC.
      + unfold th_ok; cbn. split.
        * unfold out_ok; cbn. apply Forall_app. split; [exact OK|]. constructor; [cbn; now apply RES|constructor].
        * split; [exact RG2|]. destruct rest; exact I.
  Qed.

  Lemma th_ok_keep sl sl' t :
    length sl' = length sl ->
    (forall i, nth i sl (SStub fn) = SCompiled fn (compile i) -> nth i sl' (SStub fn) = SCompiled fn (compile i)) ->
    th_ok sl t -> th_ok sl' t.
  Proof.
    intros L K (OK & RG & PC). split; [exact OK|]. split; [rewrite L; exact RG|].
    destruct (prog t) as [|s r]; [exact I|]. destruct (tpc t); auto.
  Qed.

  Lemma mstep_inv y tid : minv y -> minv (mstep y tid).
  Proof.
    intros [SO FA]. unfold mstep. destruct (nth_error (snd y) tid) as [t|] eqn:N; [|now split].
    assert (Pt: th_ok (fst y) t) by (rewrite Forall_forall in FA; apply FA; eapply nth_error_In; eauto).
    destruct (step_one (fst y) t) as [sl' t'] eqn:S.
    destruct (step_one_slots _ _ _ _ SO Pt S) as (SO' & L & K & Pt'). split; [exact SO'|]. cbn.
    apply Forall_upd_th; [|exact Pt']. rewrite Forall_forall in *. intros u Hu. eapply th_ok_keep; eauto.
  Qed.

  Lemma mrun_inv schedule : forall y, minv y -> minv (mrun y schedule).
  Proof. induction schedule as [|a r IH]; intros y I; cbn; [exact I|]. apply IH, mstep_inv, I. Qed.

  Definition minit (nslots: nat) (progs: list (list nat)) : msys :=
    (repeat (SStub fn) nslots, map (fun p => TH p (PRead fn res) []) progs).

  Lemma minit_inv nslots progs :
    Forall (Forall (fun s => s < nslots)) progs -> minv (minit nslots progs).
  Proof.
    intros RG. split.
    - intros i. left. cbn. destruct (Nat.lt_ge_cases i nslots) as [L|L].
      + apply nth_repeat.
      + apply nth_overflow. now rewrite repeat_length.
    - cbn. rewrite Forall_forall. intros t Ht. apply in_map_iff in Ht as (p & <- & Hp).
      rewrite Forall_forall in RG. split; [constructor|]. split; [cbn; rewrite repeat_length; now apply RG|].
      cbn. destruct p; exact I.
  Qed.

  (* SAFETY for any number of slots, threads, programs and any interleaving: every result a thread has obtained
     from slot s is what the eagerly compiled method of s returns *)
  Theorem multi_slot_safe nslots progs schedule t s r :
    Forall (Forall (fun s => s < nslots)) progs ->
    In t (snd (mrun (minit nslots progs) schedule)) -> In (s, r) (out t) -> r = apply (compile s).
  Proof.
    intros RG Ht Hr. destruct (mrun_inv schedule _ (minit_inv _ _ RG)) as [_ FA].
    rewrite Forall_forall in FA. destruct (FA t Ht) as (OK & _). unfold out_ok in OK.
    rewrite Forall_forall in OK. exact (OK (s, r) Hr).
  Qed.
End MultiSlot.
