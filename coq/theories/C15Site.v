(* C15: vocabulary of the dataclass call site (pack.py:pack_dataclass, unpack.py:unpack_dataclass) and of
   ValueSpec.attrs (core/meta/types/common.py) - the three decisions kernel K115a reads off /repo on every run:
   where the generated method of a dataclass is stored, through which receiver the emitted code reaches it, and
   which holder object a codec builder uses.  Stdlib only. *)

(* where `builder.add_pack_method()` / `add_unpack_method()` of the nested builder stores the method (attrs=method_loc) *)
Inductive mloc :=
| LClass        (* spec.origin_type: the dataclass itself (visible to everybody, inherited by subclasses) *)
| LHolder.      (* spec.attrs: an AttrsHolder object of the codec's registry *)

(* the receiver of the call the generator emits *)
Inductive recv :=
| RValueAttr    (* `<value>.<method>(flags)`        : attribute lookup on the RUNTIME object (MRO of its class) *)
| RClassAttr    (* `<ClsAlias>.<method>(args)`      : attribute lookup on the ANNOTATED class *)
| RBound.       (* `<ClsAlias>_<method>(args)`      : the function object `getattr(method_loc, method)` taken at
                                                        compile time and bound to a global of the generated module *)

(* ValueSpec.attrs *)
Inductive akey := AKBuilderCls | AKOrigin.
Inductive aplan :=
| APBuilderAttrs                                  (* return self.builder.attrs *)
| APRegistry (self_key other_key: akey) (create_missing: bool).
      (* key = builder.cls for typing.Self, the origin type otherwise; attrs_registry.get(key); a missing entry is
         created as a FRESH AttrsHolder() and stored *)
