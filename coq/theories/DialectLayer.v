(* C13, part "a call dialect is LAYERED over the class's own default dialect":
   for a class whose Config.dialect is B, `to_dict(dialect=D)` is the same as the twin class
   whose default dialect is B.merge(D) -- Dialect.merge (kernel K2 + the hand model
   merge_strategies) is exactly the layering that option resolution (kernel K3) and the
   strategy lookup (kernel K5) implement.  This removes the `covers` hypothesis of
   DialectTwin.twin_partial: the twin is stated for EVERY pair (B, D).

     options     full over every key of the merge loop (K2, K3), off the keyword-flag corner (D14)
     strategies  per type and direction: first hit over the sources the translated generator
                 yields (K5), equal to the merged map's entry under layer_ok; refuted exactly
                 where D holds a one-directional dict over a strategy OBJECT of B. *)
From Coq Require Import List String Ascii ZArith Bool Lia.
From Verif Require Import Regex PyK PyK_strat DialectMerge DialectTwin.
From VerifGen Require Import K2 K3 K5 K13.
Import ListNotations.
Open Scope nat_scope.
Open Scope string_scope.

(* ------------------------------------------------------------------ *)
(* options: K3 over (D, B, Config, dd)  =  K3 over (None, K2(B, D), Config, dd) *)
(* ------------------------------------------------------------------ *)

(* the full statement, kept visible: for every class, whatever its keyword flags *)
Definition layered_twin_full : Prop :=
  forall k a b n dd o dflt,
    k_cfgd k = KNs a -> has_keys merge_loop_keys a -> has_keys merge_loop_keys b ->
    In o merge_loop_keys ->
    exists r, merge_options (KNs a) (KNs b) (KNs n) = Ok (KNs r) /\
      call_effective k (KNs b) dd o dflt = twin_effective k (KNs r) dd o dflt.

Theorem layered_twin_partial k a b n dd o dflt :
  k_cfgd k = KNs a -> has_keys merge_loop_keys a -> has_keys merge_loop_keys b ->
  In o merge_loop_keys -> flag_of k o = false ->
  exists r, merge_options (KNs a) (KNs b) (KNs n) = Ok (KNs r) /\
    call_effective k (KNs b) dd o dflt = twin_effective k (KNs r) dd o dflt.
Proof.
  intros Hcd Ha Hb Ho HF.
  destruct (merge_options_total a b n Ha Hb) as [r [E [Hin _]]].
  exists r. split; [exact E|].
  unfold call_effective, twin_effective, resolve. rewrite HF, Hcd.
  rewrite !K3_first_set. cbn [first_set]. rewrite !look_KNs, look_None.
  cbn [is_set kv_eqb negb]. rewrite (Hin o Ho).
  destruct (is_set (option_of b o)) eqn:EB.
  - rewrite EB. reflexivity.
  - reflexivity.
Qed.

(* the same chain seen from the codec side: the class's own default dialect is layered over a
   codec's / format's default_dialect dd, which is itself K2(format dialect, user dialect) *)
Corollary layered_over_codec_default k a b n fmt usr m dd o dflt :
  k_cfgd k = KNs a -> has_keys merge_loop_keys a -> has_keys merge_loop_keys b ->
  has_keys merge_loop_keys fmt -> has_keys merge_loop_keys usr ->
  In o merge_loop_keys -> flag_of k o = false ->
  merge_options (KNs fmt) (KNs usr) (KNs m) = Ok dd ->
  exists r, merge_options (KNs a) (KNs b) (KNs n) = Ok (KNs r) /\
    call_effective k (KNs b) dd o dflt = twin_effective k (KNs r) dd o dflt.
Proof. intros Hcd Ha Hb _ _ Ho HF _. exact (layered_twin_partial k a b n dd o dflt Hcd Ha Hb Ho HF). Qed.

(* D14 again, now with a default dialect of the class's own: the keyword default of the default
   method is resolved WITHOUT the call dialect and forwarded explicitly *)
Definition lw_klass : klass := mk_klass (KNs []) (KNs blank_dialect) true false.
Definition lw_dialect : list (string * kv) := ns_set blank_dialect "omit_none" (KBool true).

Lemma blank_has_keys : has_keys merge_loop_keys blank_dialect.
Proof. apply has_keys_dec. vm_compute. reflexivity. Qed.
Lemma lw_has_keys : has_keys merge_loop_keys lw_dialect.
Proof. apply has_keys_dec. vm_compute. reflexivity. Qed.
Lemma omit_none_merged : In "omit_none" merge_loop_keys.
Proof. apply mem_str_In. vm_compute. reflexivity. Qed.

Theorem layered_twin_full_refuted : ~ layered_twin_full.
Proof.
  intros H.
  destruct (H lw_klass blank_dialect lw_dialect [] KNone "omit_none" (KBool false)
              eq_refl blank_has_keys lw_has_keys omit_none_merged) as [r [E Q]].
  vm_compute in E. injection E as <-. vm_compute in Q. discriminate.
Qed.

(* ------------------------------------------------------------------ *)
(* strategies: which callable is in force for one type and one direction *)
(* ------------------------------------------------------------------ *)
(* The consumer loops of pack.py / unpack.py (get_overridden_(de)serialization_method) take the
   FIRST source that says something for the direction asked for: a strategy object always does,
   a dict only if it has the key, an absent entry never. *)
Fixpoint first_hit (srcs: list (option sval)) (dir: string) : eff :=
  match srcs with
  | [] => ENone
  | s :: r => match effective s dir with ENone => first_hit r dir | e => e end
  end.

(* sources of `dialect=D` on a class whose Config.dialect is B (strategy maps o, c), then the
   lower ones (Config.serialization_strategy, default_dialect) *)
Definition layered_sources (c o: smap) (k: nat) (rest: list (option sval)) : list (option sval) :=
  sm_get o k :: sm_get c k :: rest.
(* sources of the twin: Config.dialect := B.merge(D), no call dialect *)
Definition merged_sources (c o: smap) (k: nat) (rest: list (option sval)) : list (option sval) :=
  sm_get (merge_strategies c o) k :: rest.

Definition well_formed (c o: smap) (k: nat) : Prop :=
  NoDup (map fst c) /\ NoDup (map fst o) /\ (forall e, sm_get o k = Some (SDict e) -> NoDup (map fst e)).

Definition layered_strategy_full : Prop :=
  forall c o k dir rest, well_formed c o k ->
    first_hit (layered_sources c o k rest) dir = first_hit (merged_sources c o k rest) dir.

(* Dialect.merge replaces a strategy OBJECT of B whole when D brings a dict for the same type;
   the layered lookup still falls through to that object for a direction D's dict lacks *)
Definition layer_ok (cv ov: option sval) (dir: string) : bool :=
  match ov, cv with
  | Some (SDict e), Some (SStrat _) => match e_get e dir with Some _ => true | None => false end
  | _, _ => true
  end.

Theorem layered_strategy_partial c o k dir rest :
  well_formed c o k -> layer_ok (sm_get c k) (sm_get o k) dir = true ->
  first_hit (layered_sources c o k rest) dir = first_hit (merged_sources c o k rest) dir.
Proof.
  intros [NC [NO NE]] OK. unfold layered_sources, merged_sources. cbn [first_hit].
  rewrite (merge_strategies_effective c o k dir NC NO NE). unfold strategy_spec.
  destruct (sm_get o k) as [[s|e]|] eqn:Eo; cbn [effective].
  - reflexivity.
  - destruct (e_get e dir) as [f|] eqn:Ee; [reflexivity|].
    destruct (sm_get c k) as [[s|b]|] eqn:Ec; cbn [effective].
    + cbn in OK. rewrite Ee in OK. discriminate.
    + reflexivity.
    + reflexivity.
  - reflexivity.
Qed.

Lemma layered_strategy_witness :
  let c := [(1, SStrat 7)] in let o := [(1, SDict [("serialize", 3)])] in
  well_formed c o 1 /\
  first_hit (layered_sources c o 1 []) "deserialize" = EStrat 7 /\
  first_hit (merged_sources c o 1 []) "deserialize" = ENone.
Proof.
  cbn zeta. split; [|split; vm_compute; reflexivity].
  split; [|split].
  - repeat constructor; cbn; tauto.
  - repeat constructor; cbn; tauto.
  - intros e H. vm_compute in H. injection H as <-. repeat constructor; cbn; tauto.
Qed.

Theorem layered_strategy_full_refuted : ~ layered_strategy_full.
Proof.
  intros H. destruct layered_strategy_witness as [W [A B]].
  specialize (H _ _ 1 "deserialize" [] W). rewrite A, B in H. discriminate.
Qed.

(* the user's call dialect always wins where it says something, in both readings *)
Corollary layered_call_dialect_wins c o k dir rest :
  well_formed c o k -> effective (sm_get o k) dir <> ENone ->
  first_hit (layered_sources c o k rest) dir = effective (sm_get o k) dir /\
  first_hit (merged_sources c o k rest) dir = effective (sm_get o k) dir.
Proof.
  intros [NC [NO NE]] H. unfold layered_sources, merged_sources. cbn [first_hit]. split.
  - destruct (effective (sm_get o k) dir); [reflexivity|reflexivity|contradiction].
  - rewrite (merge_strategies_user_wins c o k dir NC NO NE H).
    destruct (effective (sm_get o k) dir); [reflexivity|reflexivity|contradiction].
Qed.

(* ------------------------------------------------------------------ *)
(* K5: the source ORDER used above is the one the translated generator yields *)
(* ------------------------------------------------------------------ *)
Definition dget (m: list (kv * kv)) (ft: kv) : kv := match d_get m ft with Some v => v | None => KNone end.

Theorem layered_sources_are_code d b cfg dd ft dmap bmap cmap ddmap :
  ns_get d "serialization_strategy" = Some (KDict dmap) ->
  ns_get cfg "dialect" = Some (KNs b) ->
  ns_get b "serialization_strategy" = Some (KDict bmap) ->
  ns_get cfg "serialization_strategy" = Some (KDict cmap) ->
  ns_get dd "serialization_strategy" = Some (KDict ddmap) ->
  let g := iter_serialization_strategies_inner (KNs d) (KNs cfg) (KNs dd) ft in
  gen_items g = [dget dmap ft; dget bmap ft; dget cmap ft; dget ddmap ft] /\ gen_tail g = None.
Proof.
  intros Hd Hc Hb Hs Hdd. cbn zeta. unfold iter_serialization_strategies_inner, dget.
  cbn [k_truthy k_is kv_eqb negb k_getattr2 gbind].
  rewrite Hd, Hc, Hs. cbn [gbind k_dict_get k_truthy k_is kv_eqb negb k_is_dialect k_getattr2].
  rewrite Hb, Hdd. cbn [gbind k_dict_get gen_items gen_tail]. split; reflexivity.
Qed.

Theorem merged_sources_are_code m cfg dd ft mmap cmap ddmap :
  ns_get m "serialization_strategy" = Some (KDict mmap) ->
  ns_get cfg "serialization_strategy" = Some (KDict cmap) ->
  ns_get dd "serialization_strategy" = Some (KDict ddmap) ->
  let g := iter_serialization_strategies_inner KNone (KNs (ns_set cfg "dialect" (KNs m))) (KNs dd) ft in
  gen_items g = [dget mmap ft; dget cmap ft; dget ddmap ft] /\ gen_tail g = None.
Proof.
  intros Hm Hs Hdd. cbn zeta. unfold iter_serialization_strategies_inner, dget.
  cbn [k_truthy k_is kv_eqb negb k_getattr2 gbind].
  rewrite ns_get_set_same. cbn [gbind k_truthy k_is kv_eqb negb k_is_dialect k_getattr2].
  rewrite Hm. cbn [gbind k_dict_get].
  rewrite ns_get_set_other by discriminate. rewrite Hs, Hdd.
  cbn [gbind k_dict_get k_truthy k_is kv_eqb negb k_getattr2 gen_items gen_tail]. split; reflexivity.
Qed.

(* ------------------------------------------------------------------ *)
(* correspondence case: (B's entry, D's entry, lower sources, direction, observed callable) *)
(* ------------------------------------------------------------------ *)
Definition leff_eqb (a b: eff) : bool :=
  match a, b with
  | EStrat x, EStrat y => Nat.eqb x y
  | EFun x, EFun y => Nat.eqb x y
  | ENone, ENone => true
  | _, _ => false end.

Definition layer_case := (smap * smap * nat * list (option sval) * string * eff)%type.
(* the real class called with dialect=D applies `obs`; so does (under layer_ok) the class whose
   default dialect is the REAL B.merge(D) -- the harness checks the second against the first *)
Definition layer_case_ok (c: layer_case) : bool :=
  let '(b, d, k, rest, dir, obs) := c in
  leff_eqb (first_hit (layered_sources b d k rest) dir) obs &&
  (negb (layer_ok (sm_get b k) (sm_get d k) dir) ||
   leff_eqb (first_hit (merged_sources b d k rest) dir) obs).
