(* C07 — proofs about the binding model of Bind.v *)
From Coq Require Import List String ZArith Bool Arith Lia.
From Verif Require Import Bind.
Import ListNotations.
Open Scope string_scope.
Open Scope list_scope.

(* ---------- small reflection lemmas ---------- *)
Lemma mem_In : forall s l, mem s l = true <-> In s l.
Proof.
  induction l as [|x r IH]; cbn; [split; [discriminate|tauto]|].
  rewrite orb_true_iff, IH, String.eqb_eq. split; intros [H|H]; auto.
Qed.

Lemma nodupb_NoDup : forall l, nodupb l = true <-> NoDup l.
Proof.
  induction l as [|x r IH]; cbn; [split; [constructor|reflexivity]|].
  rewrite andb_true_iff, negb_true_iff, IH. split.
  - intros [Hm Hn]. constructor; [|assumption]. intro Hi. apply mem_In in Hi. congruence.
  - intros Hn. inversion Hn as [|? ? Hni Hnr]; subst. split; [|assumption].
    destruct (mem x r) eqn:E; [|reflexivity]. apply mem_In in E. contradiction.
Qed.

Lemma lookup_app : forall V k (a b: list (string * V)),
  lookup k (a ++ b) = match lookup k a with Some v => Some v | None => lookup k b end.
Proof.
  induction a as [|[k' v] r IH]; intros b; cbn; [reflexivity|].
  destruct (String.eqb k k'); [reflexivity|apply IH].
Qed.

Lemma lookup_notin : forall V k (a: list (string * V)), ~ In k (map fst a) -> lookup k a = None.
Proof.
  induction a as [|[k' v] r IH]; cbn; intros H; [reflexivity|].
  destruct (String.eqb k k') eqn:E.
  - apply String.eqb_eq in E. subst. exfalso. apply H. now left.
  - apply IH. intro Hi. apply H. now right.
Qed.

(* ---------- selmap ---------- *)
Section Selmap.
Context {A: Type} (key: A -> string).

Lemma selmap_keys_in : forall (sel: A -> option pv) l k,
  In k (map fst (selmap key sel l)) -> exists t, In t l /\ key t = k /\ sel t <> None.
Proof.
  induction l as [|t r IH]; cbn; intros k H; [contradiction|].
  unfold selmap in *. cbn in H. rewrite map_app in H. apply in_app_or in H. destruct H as [H|H].
  - destruct (sel t) eqn:E; cbn in H; [|contradiction]. destruct H as [H|[]].
    exists t. repeat split; auto. congruence.
  - destruct (IH k H) as [t' [Hi [Hk Hs]]]. exists t'. auto.
Qed.

Lemma selmap_keys_incl : forall (sel: A -> option pv) l k,
  In k (map fst (selmap key sel l)) -> In k (map key l).
Proof.
  intros sel l k H. destruct (selmap_keys_in sel l k H) as [t [Hi [Hk _]]].
  subst. now apply in_map.
Qed.

Lemma lookup_selmap : forall (sel: A -> option pv) l t,
  NoDup (map key l) -> In t l -> lookup (key t) (selmap key sel l) = sel t.
Proof.
  induction l as [|t0 r IH]; intros t Hn Hi; [contradiction|].
  cbn in Hn. inversion Hn as [|? ? Hni Hnr]; subst.
  unfold selmap. cbn [flat_map]. fold (selmap key sel r). rewrite lookup_app.
  destruct Hi as [->|Hi].
  - destruct (sel t) eqn:E; cbn.
    + now rewrite String.eqb_refl.
    + apply lookup_notin. intro H. apply Hni. eapply selmap_keys_incl; eauto.
  - assert (Hne: key t <> key t0).
    { intro He. apply Hni. rewrite <- He. now apply in_map. }
    destruct (sel t0); cbn.
    + apply String.eqb_neq in Hne. rewrite Hne. now apply IH.
    + now apply IH.
Qed.

Lemma selmap_nodup : forall (sel: A -> option pv) l,
  NoDup (map key l) -> NoDup (map fst (selmap key sel l)).
Proof.
  induction l as [|t r IH]; cbn; intros Hn; [constructor|].
  inversion Hn as [|? ? Hni Hnr]; subst.
  unfold selmap. cbn [flat_map]. fold (selmap key sel r). rewrite map_app.
  destruct (sel t); cbn; [|now apply IH].
  constructor; [|now apply IH]. intro H. apply Hni. eapply selmap_keys_incl; eauto.
Qed.

Lemma key_inj : forall l a b, NoDup (map key l) -> In a l -> In b l -> key a = key b -> a = b.
Proof.
  induction l as [|t r IH]; cbn; intros a b Hn Ha Hb He; [contradiction|].
  inversion Hn as [|? ? Hni Hnr]; subst.
  destruct Ha as [Ha|Ha], Hb as [Hb|Hb]; subst; auto.
  all: exfalso; apply Hni; first [rewrite He; now apply in_map | rewrite <- He; now apply in_map].
Qed.

Lemma selmap_app_nodup : forall (s1 s2: A -> option pv) l,
  NoDup (map key l) ->
  (forall t, s1 t <> None -> s2 t <> None -> False) ->
  NoDup (map fst (selmap key s1 l) ++ map fst (selmap key s2 l)).
Proof.
  intros s1 s2 l Hn Hd.
  assert (H1 := selmap_nodup s1 l Hn). assert (H2 := selmap_nodup s2 l Hn).
  revert H1. generalize (selmap_keys_in s1 l).
  induction (map fst (selmap key s1 l)) as [|k r IH]; cbn; intros Hin H1; [assumption|].
  inversion H1 as [|? ? Hni Hnr]; subst. constructor.
  - intro H. apply in_app_or in H. destruct H as [H|H]; [contradiction|].
    destruct (Hin k (or_introl eq_refl)) as [t1 [Hi1 [Hk1 Hs1]]].
    destruct (selmap_keys_in s2 l k H) as [t2 [Hi2 [Hk2 Hs2]]].
    assert (t1 = t2) by (eapply key_inj; eauto; congruence). subst. eauto.
  - apply IH; auto; try (intros k' Hk'; apply Hin; now right).
Qed.
End Selmap.

(* ---------- the input is read only at the keys of the filtered members ---------- *)
Section WithConv.
Variable conv : string -> pv -> pv.

Lemma field_block_ext : forall m d d',
  lookup (m_name m) d = lookup (m_name m) d' -> field_block conv m d = field_block conv m d'.
Proof. intros m d d' H. unfold field_block. now rewrite H. Qed.

Lemma plan_ext : forall L mk ik d d',
  (forall m, In m L -> filtered m = true -> lookup (m_name m) d = lookup (m_name m) d') ->
  plan conv L mk ik d = plan conv L mk ik d'.
Proof.
  induction L as [|m r IH]; intros mk ik d d' H; [reflexivity|].
  cbn [plan]. destruct (filtered m) eqn:Ef.
  - rewrite (field_block_ext m d d') by (apply H; [now left|assumption]).
    destruct (field_block conv m d'); try reflexivity;
      erewrite IH; try reflexivity; intros; apply H; auto; now right.
  - erewrite IH; [reflexivity|]. intros; apply H; auto; now right.
Qed.

Theorem decode_ext : forall L d d' c,
  (forall m, In m L -> filtered m = true -> lookup (m_name m) d = lookup (m_name m) d') ->
  decode conv L d c = decode conv L d' c.
Proof. intros L d d' c H. unfold decode. now rewrite (plan_ext L false false d d' H). Qed.

(* adding (or changing) a key named like a member that is not a hinted init field
   does not change the result *)
Corollary noninit_unread : forall L d c m0 v,
  NoDup (map m_name L) -> In m0 L -> filtered m0 = false ->
  decode conv L ((m_name m0, v) :: d) c = decode conv L d c.
Proof.
  intros L d c m0 v Hn Hi Hf. apply decode_ext. intros m Hm Hfm. cbn.
  destruct (String.eqb (m_name m) (m_name m0)) eqn:E; [|reflexivity].
  apply String.eqb_eq in E.
  assert (m = m0) by (eapply key_inj; eauto). subst. congruence.
Qed.

End WithConv.
