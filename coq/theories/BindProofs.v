(* C07 — proofs about the binding model of Bind.v *)
From Coq Require Import List String ZArith Bool Arith Lia.
From Verif Require Import Bind.
Import ListNotations.
Open Scope string_scope.
Open Scope list_scope.
Notation trip := (member * passing * fb)%type (only parsing).

(* ---------- small reflection lemmas ---------- *)
Lemma mem_In : forall s l, mem s l = true <-> In s l.
Proof.
  induction l as [|x r IH]; cbn; [split; [discriminate|tauto]|].
  rewrite orb_true_iff, IH, String.eqb_eq. split; intros [H|H]; auto.
Qed.

Lemma nodupb_NoDup : forall l, nodupb l = true <-> NoDup l.
Proof.
  induction l as [|x r IH]; cbn; [split; [constructor|reflexivity]|].
  rewrite andb_true_iff, negb_true_iff, IH. split.
  - intros [Hm Hn]. constructor; [|assumption]. intro Hi. apply mem_In in Hi. congruence.
  - intros Hn. inversion Hn as [|? ? Hni Hnr]; subst. split; [|assumption].
    destruct (mem x r) eqn:E; [|reflexivity]. apply mem_In in E. contradiction.
Qed.

Lemma lookup_app : forall V k (a b: list (string * V)),
  lookup k (a ++ b) = match lookup k a with Some v => Some v | None => lookup k b end.
Proof.
  induction a as [|[k' v] r IH]; intros b; cbn; [reflexivity|].
  destruct (String.eqb k k'); [reflexivity|apply IH].
Qed.

Lemma lookup_notin : forall V k (a: list (string * V)), ~ In k (map fst a) -> lookup k a = None.
Proof.
  induction a as [|[k' v] r IH]; cbn; intros H; [reflexivity|].
  destruct (String.eqb k k') eqn:E.
  - apply String.eqb_eq in E. subst. exfalso. apply H. now left.
  - apply IH. intro Hi. apply H. now right.
Qed.

(* ---------- selmap ---------- *)
Section Selmap.
Context {A: Type} (key: A -> string).

Lemma selmap_keys_in : forall (sel: A -> option pv) l k,
  In k (map fst (selmap key sel l)) -> exists t, In t l /\ key t = k /\ sel t <> None.
Proof.
  induction l as [|t r IH]; cbn; intros k H; [contradiction|].
  unfold selmap in *. cbn in H. rewrite map_app in H. apply in_app_or in H. destruct H as [H|H].
  - destruct (sel t) eqn:E; cbn in H; [|contradiction]. destruct H as [H|[]].
    exists t. repeat split; auto. congruence.
  - destruct (IH k H) as [t' [Hi [Hk Hs]]]. exists t'. auto.
Qed.

Lemma selmap_keys_incl : forall (sel: A -> option pv) l k,
  In k (map fst (selmap key sel l)) -> In k (map key l).
Proof.
  intros sel l k H. destruct (selmap_keys_in sel l k H) as [t [Hi [Hk _]]].
  subst. now apply in_map.
Qed.

Lemma lookup_selmap : forall (sel: A -> option pv) l t,
  NoDup (map key l) -> In t l -> lookup (key t) (selmap key sel l) = sel t.
Proof.
  induction l as [|t0 r IH]; intros t Hn Hi; [contradiction|].
  cbn in Hn. inversion Hn as [|? ? Hni Hnr]; subst.
  unfold selmap. cbn [flat_map]. fold (selmap key sel r). rewrite lookup_app.
  destruct Hi as [->|Hi].
  - destruct (sel t) eqn:E; cbn.
    + now rewrite String.eqb_refl.
    + apply lookup_notin. intro H. apply Hni. eapply selmap_keys_incl; eauto.
  - assert (Hne: key t <> key t0).
    { intro He. apply Hni. rewrite <- He. now apply in_map. }
    destruct (sel t0); cbn.
    + apply String.eqb_neq in Hne. rewrite Hne. now apply IH.
    + now apply IH.
Qed.

Lemma selmap_nodup : forall (sel: A -> option pv) l,
  NoDup (map key l) -> NoDup (map fst (selmap key sel l)).
Proof.
  induction l as [|t r IH]; cbn; intros Hn; [constructor|].
  inversion Hn as [|? ? Hni Hnr]; subst.
  unfold selmap. cbn [flat_map]. fold (selmap key sel r). rewrite map_app.
  destruct (sel t); cbn; [|now apply IH].
  constructor; [|now apply IH]. intro H. apply Hni. eapply selmap_keys_incl; eauto.
Qed.

Lemma key_inj : forall l a b, NoDup (map key l) -> In a l -> In b l -> key a = key b -> a = b.
Proof.
  induction l as [|t r IH]; cbn; intros a b Hn Ha Hb He; [contradiction|].
  inversion Hn as [|? ? Hni Hnr]; subst.
  destruct Ha as [Ha|Ha], Hb as [Hb|Hb]; subst; auto.
  all: exfalso; apply Hni; first [rewrite He; now apply in_map | rewrite <- He; now apply in_map].
Qed.

Lemma selmap_app_nodup : forall (s1 s2: A -> option pv) l,
  NoDup (map key l) ->
  (forall t, s1 t <> None -> s2 t <> None -> False) ->
  NoDup (map fst (selmap key s1 l) ++ map fst (selmap key s2 l)).
Proof.
  intros s1 s2 l Hn Hd.
  assert (H1 := selmap_nodup s1 l Hn). assert (H2 := selmap_nodup s2 l Hn).
  revert H1. generalize (selmap_keys_in s1 l).
  induction (map fst (selmap key s1 l)) as [|k r IH]; cbn; intros Hin H1; [assumption|].
  inversion H1 as [|? ? Hni Hnr]; subst. constructor.
  - intro H. apply in_app_or in H. destruct H as [H|H]; [contradiction|].
    destruct (Hin k (or_introl eq_refl)) as [t1 [Hi1 [Hk1 Hs1]]].
    destruct (selmap_keys_in s2 l k H) as [t2 [Hi2 [Hk2 Hs2]]].
    assert (t1 = t2) by (eapply key_inj; eauto; congruence). subst. eauto.
  - apply IH; auto; try (intros k' Hk'; apply Hin; now right).
Qed.
End Selmap.

(* ---------- the input is read only at the keys of the filtered members ---------- *)
Section WithConv.
Variable conv : string -> pv -> option pv.
Variable nba st : bool.

Lemma field_block_ext : forall m d d',
  rd nba m d = rd nba m d' -> field_block conv nba m d = field_block conv nba m d'.
Proof. intros m d d' H. unfold field_block. now rewrite H. Qed.

Lemma plan_ext : forall L mk ik d d',
  (forall m, In m L -> filtered m = true -> rd nba m d = rd nba m d') ->
  plan conv nba st L mk ik d = plan conv nba st L mk ik d'.
Proof.
  induction L as [|m r IH]; intros mk ik d d' H; [reflexivity|].
  cbn [plan]. destruct (filtered m) eqn:Ef.
  - rewrite (field_block_ext m d d') by (apply H; [now left|assumption]).
    destruct (field_block conv nba m d'); try reflexivity;
      erewrite IH; try reflexivity; intros; apply H; auto; now right.
  - erewrite IH; [reflexivity|]. intros; apply H; auto; now right.
Qed.

Theorem decode_ext : forall L d d' c,
  (forall m, In m L -> filtered m = true -> rd nba m d = rd nba m d') ->
  decode conv nba st L d c = decode conv nba st L d' c.
Proof. intros L d d' c H. unfold decode. now rewrite (plan_ext L false false d d' H). Qed.

Lemma rd_cons_other : forall m k v d, ~ In k (keys_of nba m) -> rd nba m ((k, v) :: d) = rd nba m d.
Proof.
  intros m k v d H. unfold rd, keys_of in *. cbn [lookup].
  destruct (m_alias m) as [a|].
  - destruct nba.
    + assert (Ha: String.eqb a k = false) by (apply String.eqb_neq; intro; subst; apply H; now left).
      assert (Hn: String.eqb (m_name m) k = false)
        by (apply String.eqb_neq; intro He; apply H; right; left; now symmetry).
      now rewrite Ha, Hn.
    + assert (Ha: String.eqb a k = false) by (apply String.eqb_neq; intro; subst; apply H; now left).
      now rewrite Ha.
  - assert (Hn: String.eqb (m_name m) k = false)
      by (apply String.eqb_neq; intro He; apply H; left; now symmetry).
    now rewrite Hn.
Qed.

(* a key that no hinted init field reads (in particular the name of a ClassVar, InitVar, KW_ONLY marker or
   init=False member, unless it is some field's alias) does not change the result *)
Corollary noninit_unread : forall L d c k v,
  (forall m, In m L -> filtered m = true -> ~ In k (keys_of nba m)) ->
  decode conv nba st L ((k, v) :: d) c = decode conv nba st L d c.
Proof.
  intros L d c k v H. apply decode_ext. intros m Hm Hfm. apply rd_cons_other. now apply H.
Qed.

End WithConv.

(* ---------- generic list facts ---------- *)
Lemma nodup_app_intro : forall (a b: list string),
  NoDup a -> NoDup b -> (forall x, In x a -> In x b -> False) -> NoDup (a ++ b).
Proof.
  induction a as [|x r IH]; cbn; intros b Ha Hb Hd; [assumption|].
  inversion Ha as [|? ? Hni Hnr]; subst. constructor.
  - intro H. apply in_app_or in H. destruct H as [H|H]; [contradiction|]. eapply Hd; eauto.
  - apply IH; auto. intros y Hy Hyb. eapply Hd; eauto.
Qed.

Lemma selmap_disjoint : forall A (key: A -> string) (s1 s2: A -> option pv) l k,
  NoDup (map key l) -> (forall t, s1 t <> None -> s2 t <> None -> False) ->
  In k (map fst (selmap key s1 l)) -> In k (map fst (selmap key s2 l)) -> False.
Proof.
  intros A key s1 s2 l k Hn Hd H1 H2.
  destruct (selmap_keys_in key s1 l k H1) as [t1 [Hi1 [Hk1 Hs1]]].
  destruct (selmap_keys_in key s2 l k H2) as [t2 [Hi2 [Hk2 Hs2]]].
  assert (t1 = t2) by (eapply key_inj; eauto; congruence). subst. eauto.
Qed.

Lemma firstn_length_firstn : forall A k (l: list A), firstn (List.length (firstn k l)) l = firstn k l.
Proof.
  induction k as [|k IH]; intros [|x r]; cbn; try reflexivity. now rewrite IH.
Qed.

Lemma combine_prefix : forall (X: list (string * pv)) pn k,
  map fst X = firstn k pn -> combine pn (map snd X) = X.
Proof.
  induction X as [|[n v] r IH]; intros pn k H.
  - destruct pn; reflexivity.
  - destruct k as [|k]; destruct pn as [|p pn']; cbn in H; try discriminate.
    inversion H; subst. cbn. f_equal. eapply IH; eauto.
Qed.

(* ---------- unpacking the domain predicates ---------- *)
Lemma view_filtered : forall m, view_okm m = true -> filtered m = true ->
  m_kind m = KNormal /\ m_field m = true /\ m_param m = true /\
  has_dflt (seen_default m) = has_dflt (m_def m) /\
  dflt_is_none (seen_default m) = dflt_is_none (m_def m) /\
  (forall b, seen_kw m = Some b -> b = m_kw m).
Proof.
  intros m Hv Hf. unfold filtered, hinted in Hf. unfold view_okm in Hv.
  destruct (m_kind m); try discriminate. cbn in Hf.
  repeat (apply andb_true_iff in Hv; destruct Hv as [Hv ?]).
  rewrite Hf in *. apply eqb_prop in H0. rewrite <- H0 in H.
  repeat (apply andb_true_iff in H; destruct H as [H ?]).
  apply eqb_prop in H. apply eqb_prop in H2.
  repeat split; auto. intros b Hb. rewrite Hb in H1. now apply eqb_prop in H1.
Qed.

Lemma view_unfiltered_normal : forall m, view_okm m = true -> filtered m = false ->
  m_kind m = KNormal -> m_param m = false.
Proof.
  intros m Hv Hf Hk. unfold filtered, hinted in Hf. unfold view_okm in Hv. rewrite Hk in *. cbn in Hf.
  repeat (apply andb_true_iff in Hv; destruct Hv as [Hv ?]).
  apply eqb_prop in H0. congruence.
Qed.

Lemma unfiltered_posparam : forall m, view_okm m = true -> kind_ok m = true -> filtered m = false ->
  is_posparam m = true -> has_dflt (m_def m) = true.
Proof.
  intros m Hv Hk Hf Hp. unfold is_posparam in Hp. apply andb_true_iff in Hp. destruct Hp as [Hp _].
  unfold kind_ok in Hk. destruct (m_kind m) eqn:Ek.
  - rewrite (view_unfiltered_normal m Hv Hf Ek) in Hp. discriminate.
  - apply andb_true_iff in Hk. destruct Hk as [_ Hk]. destruct (m_def m); try discriminate; reflexivity.
  - rewrite Hp in Hk. discriminate.
  - rewrite Hp in Hk. discriminate.
Qed.

Ltac band := repeat match goal with
  | H: _ && _ = true |- _ => apply andb_true_iff in H; destruct H
  | H: negb _ = true |- _ => apply negb_true_iff in H
  end.
Ltac flags := rewrite ?orb_true_r, ?orb_false_r; try reflexivity; try assumption.

Section Main.
Variable conv : string -> pv -> option pv.
Variable nba st : bool.

Lemma fb_nodefault : forall m d, has_dflt (seen_default m) = false ->
  field_block conv nba m d = FbMissing \/ field_block conv nba m d = FbInvalid \/
  exists v, field_block conv nba m d = FbSet v.
Proof.
  intros m d H. unfold field_block. rewrite H. cbn.
  destruct (rd nba m d) as [p|]; [right|left; reflexivity].
  destruct (m_ident m); [eauto|]. destruct (nullable m && is_none p); eauto.
  destruct (uconv conv m p); eauto.
Qed.

(* ---------- structure of the plan ---------- *)
Lemma plan_members : forall L mk ik d pl, plan conv nba st L mk ik d = inr pl ->
  map (fun t: trip => fst (fst t)) pl = L.
Proof.
  induction L as [|m r IH]; intros mk ik d pl H; cbn in H.
  - inversion H. reflexivity.
  - destruct (filtered m).
    + destruct (field_block conv nba m d); try discriminate;
      match type of H with context [plan conv nba st r ?a ?b d] => destruct (plan conv nba st r a b d) eqn:E end;
      try discriminate; inversion H; subst; cbn; f_equal; eapply IH; eauto.
    + destruct (plan conv nba st r mk ik d) eqn:E; try discriminate. inversion H; subst. cbn. f_equal. eapply IH; eauto.
Qed.

Lemma plan_tnames : forall L mk ik d pl, plan conv nba st L mk ik d = inr pl -> map tname pl = map m_name L.
Proof.
  intros L mk ik d pl H. rewrite <- (plan_members L mk ik d pl H) at 1.
  rewrite map_map. apply map_ext. intros [[m p] f]. reflexivity.
Qed.

(* every entry: skipped members, or the field block of a filtered member *)
Definition entry_ok (d: inp) (t: trip) : Prop :=
  match t with (m, p, f) =>
    (filtered m = false /\ p = PSkip /\ f = FbSkip) \/
    (filtered m = true /\ f = field_block conv nba m d /\ (f <> FbMissing /\ f <> FbInvalid) /\
     (if has_dflt (seen_default m) then p = PKwargs else (p = PPos \/ p = PKw)))
  end.

Lemma plan_entries : forall L mk ik d pl, plan conv nba st L mk ik d = inr pl -> Forall (entry_ok d) pl.
Proof.
  induction L as [|m r IH]; intros mk ik d pl H; cbn in H.
  - inversion H. constructor.
  - destruct (filtered m) eqn:Ef.
    + destruct (field_block conv nba m d) eqn:Eb; try discriminate;
      match type of H with context [plan conv nba st r ?a ?b d] => destruct (plan conv nba st r a b d) eqn:E end;
      try discriminate; inversion H; subst; (constructor; [|eapply IH; eauto]);
      cbn; right; rewrite Eb; (repeat split; auto; try discriminate);
      destruct (has_dflt (seen_default m)); auto;
      match goal with |- context [if ?c then PKw else PPos] => destruct c; auto end.
    + destruct (plan conv nba st r mk ik d) eqn:E; try discriminate. inversion H; subst.
      constructor; [|eapply IH; eauto]. cbn. left. auto.
Qed.

(* ---------- the positional arguments are a prefix of __init__'s positional parameters ---------- *)
Lemma plan_cons_inv : forall m r mk ik d pl, plan conv nba st (m :: r) mk ik d = inr pl ->
  (filtered m = false /\ exists l, plan conv nba st r mk ik d = inr l /\ pl = (m, PSkip, FbSkip) :: l) \/
  (filtered m = true /\ exists x l,
      field_block conv nba m d = x /\ (x <> FbMissing /\ x <> FbInvalid) /\
      plan conv nba st r (mk || match seen_kw m with None => true | Some _ => false end)
                  (st && (has_dflt (seen_default m) || ik)) d = inr l /\
      pl = (m, (if has_dflt (seen_default m) then PKwargs
                else if (mk || match seen_kw m with Some b => b | None => true end) || ik
                     then PKw else PPos), x) :: l).
Proof.
  intros m r mk ik d pl H. cbn in H. destruct (filtered m).
  - right. split; [reflexivity|].
    destruct (field_block conv nba m d) eqn:Eb; try discriminate;
    match type of H with context [plan conv nba st r ?a ?b d] => destruct (plan conv nba st r a b d) eqn:E end;
    try discriminate; inversion H; subst; eexists; eexists; repeat split; try discriminate; eauto.
  - left. split; [reflexivity|]. destruct (plan conv nba st r mk ik d); try discriminate.
    inversion H. eauto.
Qed.

Lemma selmap_cons : forall A (key: A -> string) sel t l,
  selmap key sel (t :: l) =
  (match sel t with Some v => [(key t, v)] | None => [] end) ++ selmap key sel l.
Proof. reflexivity. Qed.



Lemma plan_ik_cong : forall L mk a b d, a = b ->
  plan conv nba st L mk a d = plan conv nba st L mk b d.
Proof. intros L mk a b d ->. reflexivity. Qed.

Lemma no_pos : forall L mk ik sd d (pl: list trip),
  forallb view_okm L = true -> forallb kind_ok L = true -> pos_ok sd L = true ->
  (st = false -> ik = false) ->
  mk || ik || sd = true -> plan conv nba st L mk ik d = inr pl ->
  selmap tname sel_pos pl = [].
Proof.
  induction L as [|m r IH]; intros mk ik sd d pl Hv Hk Hp Hinv Hfl H.
  - cbn in H. inversion H. reflexivity.
  - cbn in Hv, Hk, Hp. band.
    assert (Hsi: st && ik = ik) by (destruct st; [reflexivity | now rewrite Hinv]).
    destruct (plan_cons_inv m r mk ik d pl H) as [[Ef [l [E ->]]] | [Ef [x [l [Eb [Hx [E ->]]]]]]];
      rewrite selmap_cons.
    + cbn [sel_pos app]. destruct (is_posparam m) eqn:Epp.
      * rewrite (unfiltered_posparam m) in Hp by assumption.
        eapply (IH mk ik true); try eassumption. flags.
      * eapply (IH mk ik sd); eassumption.
    + destruct (view_filtered m) as [Hkind [Hfld [Hpar [Hd [Hn Hkw]]]]]; try assumption.
      unfold is_posparam in Hp. rewrite Hpar, <- Hd in Hp. cbn [andb] in Hp.
      destruct (has_dflt (seen_default m)) eqn:Edf.
      * cbn [sel_pos app]. cbn [orb] in E. rewrite andb_true_r in E.
        assert (Hst: st = false -> st = false) by auto.
        destruct (m_kw m); cbn [negb] in Hp.
        -- eapply (IH _ st sd); try eassumption.
           destruct st; [flags|]. rewrite (Hinv eq_refl) in Hfl. rewrite orb_false_r in *.
           apply orb_true_iff in Hfl. destruct Hfl as [->| ->]; flags.
        -- eapply (IH _ st true); try eassumption. flags.
      * destruct Hx as [Hx1 Hx2]. destruct (fb_nodefault m d Edf) as [Hm|[Hm|[v Hs]]]; [congruence|congruence|]. rewrite Hs in Eb. subst x.
        cbn [orb] in E. rewrite Hsi in E.
        destruct (seen_kw m) as [b|] eqn:Ekw.
        -- specialize (Hkw b eq_refl). subst b.
           destruct (m_kw m) eqn:Emk; cbn [negb] in Hp.
           ++ rewrite !orb_true_r. cbn [orb sel_pos app]. rewrite orb_false_r in E.
              eapply (IH mk ik sd); eassumption.
           ++ band. subst sd. rewrite !orb_false_r in *. rewrite Hfl. cbn [sel_pos app].
              eapply (IH mk ik false); try eassumption. flags.
        -- rewrite !orb_true_r. cbn [orb sel_pos app]. rewrite orb_true_r in E.
           destruct (m_kw m); cbn [negb] in Hp; band.
           ++ eapply (IH true ik sd); try eassumption. flags.
           ++ eapply (IH true ik false); try eassumption. flags.
Qed.

Lemma pos_prefix : forall L d (pl: list trip),
  forallb view_okm L = true -> forallb kind_ok L = true -> pos_ok false L = true ->
  plan conv nba st L false false d = inr pl ->
  exists k, map fst (selmap tname sel_pos pl) = firstn k (map m_name (pos_params L)).
Proof.
  induction L as [|m r IH]; intros d pl Hv Hk Hp H.
  - cbn in H. inversion H. exists 0. reflexivity.
  - cbn in Hv, Hk, Hp. band.
    unfold pos_params. cbn [filter]. fold (pos_params r).
    destruct (plan_cons_inv m r false false d pl H) as [[Ef [l [E ->]]] | [Ef [x [l [Eb [Hx [E ->]]]]]]];
      rewrite selmap_cons.
    + cbn [sel_pos app]. destruct (is_posparam m) eqn:Epp.
      * rewrite (unfiltered_posparam m) in Hp by assumption.
        assert (Hz: selmap tname sel_pos l = []) by (eapply (no_pos r false false true d l); try eassumption; flags; auto); rewrite Hz.
        exists 0. reflexivity.
      * eapply IH; eassumption.
    + destruct (view_filtered m) as [Hkind [Hfld [Hpar [Hd [Hn Hkw]]]]]; try assumption.
      unfold is_posparam in *. rewrite Hpar, <- Hd in *. cbn [andb] in *.
      destruct (has_dflt (seen_default m)) eqn:Edf.
      * cbn [sel_pos app]. cbn [orb] in E. rewrite andb_true_r in E.
        destruct (m_kw m) eqn:Emk; cbn [negb] in *.
        -- (* keyword-only with default *)
           assert (Hst: st = true \/ st = false) by (destruct st; auto). destruct Hst as [Est|Est].
           ++ assert (Hz: selmap tname sel_pos l = [])
                by (eapply (no_pos r _ st false d l); try eassumption; auto; rewrite Est; flags).
              rewrite Hz. exists 0. reflexivity.
           ++ rewrite (plan_ik_cong r _ st false d Est) in E.
              destruct (seen_kw m) as [b|] eqn:Ekw; cbn [orb] in E.
              ** eapply IH; eassumption.
              ** assert (Hz: selmap tname sel_pos l = [])
                   by (eapply (no_pos r true false false d l); try eassumption; flags; auto).
                 rewrite Hz. exists 0. reflexivity.
        -- assert (Hz: selmap tname sel_pos l = []) by (eapply (no_pos r _ st true d l); try eassumption; flags; auto); rewrite Hz.
           exists 0. reflexivity.
      * destruct Hx as [Hx1 Hx2]. destruct (fb_nodefault m d Edf) as [Hm|[Hm|[v Hs]]]; [congruence|congruence|]. rewrite Hs in Eb. subst x.
        cbn [orb] in E. rewrite andb_false_r in E.
        destruct (seen_kw m) as [b|] eqn:Ekw.
        -- specialize (Hkw b eq_refl). subst b.
           destruct (m_kw m) eqn:Emk; cbn [negb orb] in *.
           ++ cbn [sel_pos app]. eapply IH; eassumption.
           ++ band. cbn [sel_pos app tname]. destruct (IH d l) as [k Hk']; try assumption.
              exists (S k). cbn. now rewrite Hk'.
        -- cbn [orb sel_pos app].
           destruct (m_kw m); cbn [negb] in Hp; band;
             (assert (Hz: selmap tname sel_pos l = []) by (eapply (no_pos r true false false d l); try eassumption; flags; auto); rewrite Hz);
             exists 0; reflexivity.
Qed.

End Main.

(* ---------- MissingField: the first required key that is absent ---------- *)
Section Main2.
Variable conv : string -> pv -> option pv.
Variable nba st : bool.

(* the field block of a member the builder reads, in terms of the reference notions *)
Lemma field_block_spec : forall m d, view_okm m = true -> filtered m = true ->
  field_block conv nba m d =
  match rd nba m d with
  | None => if has_dflt (m_def m) then FbSkip else FbMissing
  | Some v =>
      match eff_conv conv m v with
      | None => FbInvalid
      | Some w => if negb (m_ident m) && (m_nullty m || dflt_is_none (m_def m)) && is_none v
                     && dflt_is_none (m_def m)
                  then FbSkip else FbSet w
      end
  end.
Proof.
  intros m d Hv Ef. destruct (view_filtered m Hv Ef) as [Hkind [Hfld [Hpar [Hd [Hn Hkw]]]]].
  unfold field_block, eff_conv, tnullable, nullable, uconv. rewrite Hn, Hd.
  destruct (rd nba m d) as [v|]; [|reflexivity].
  destruct (m_ident m); [reflexivity|]. cbn [negb andb].
  assert (Hdn: dflt_is_none (m_def m) = true -> has_dflt (m_def m) = true).
  { destruct (m_def m) as [|dv|]; cbn; try discriminate; auto. }
  destruct (m_nullty m), (m_unull m), (dflt_is_none (m_def m)) eqn:Edn, (is_none v) eqn:En; cbn;
    rewrite ?andb_false_r, ?andb_true_r; try rewrite (Hdn eq_refl); cbn; try reflexivity;
    destruct (conv (m_name m) v); reflexivity.
Qed.

Lemma plan_error : forall L mk ik d, forallb view_okm L = true ->
  match plan conv nba st L mk ik d with
  | inl e => first_error conv nba L d = Some e
  | inr _ => first_error conv nba L d = None
  end.
Proof.
  induction L as [|m r IH]; intros mk ik d Hv; [reflexivity|].
  cbn in Hv. band. cbn [plan first_error].
  destruct (filtered m) eqn:Ef.
  - destruct (view_filtered m) as [Hkind [Hfld [Hpar [Hd [Hn Hkw]]]]]; try assumption.
    rewrite (field_block_spec m d) by assumption.
    unfold required, hinted. rewrite Hkind, Hfld, Hpar. cbn [andb].
    destruct (rd nba m d) as [v|] eqn:El.
    + destruct (eff_conv conv m v) as [w|]; [|reflexivity].
      match goal with |- context [plan conv nba st r ?a ?b d] => specialize (IH a b d H0); destruct (plan conv nba st r a b d) end;
      match goal with |- context [if ?c then FbSkip else FbSet w] => destruct c end; exact IH.
    + rewrite Hd. destruct (has_dflt (m_def m)); cbn [negb]; [|reflexivity].
      match goal with |- context [plan conv nba st r ?a ?b d] => specialize (IH a b d H0); destruct (plan conv nba st r a b d) end;
      exact IH.
  - assert (Hr: hinted m && m_param m = false).
    { unfold filtered in Ef. destruct (hinted m) eqn:Eh; [|reflexivity].
      cbn in Ef. unfold hinted in Eh. destruct (m_kind m) eqn:Ek; try discriminate.
      rewrite (view_unfiltered_normal m) by (auto; unfold filtered, hinted; rewrite Ek; exact Ef).
      reflexivity. }
    rewrite Hr. specialize (IH mk ik d H0). destruct (plan conv nba st r mk ik d); exact IH.
Qed.

(* ---------- the call binds ---------- *)
Definition passed (pl: list trip) : list (string * pv) :=
  selmap tname sel_pos pl ++ selmap tname sel_kw pl ++ selmap tname sel_kwargs pl.

Lemma sel_disj_pos_kw : forall t: trip, sel_pos t <> None -> sel_kw t <> None -> False.
Proof. intros [[m p] f]; destruct p, f; cbn; congruence. Qed.
Lemma sel_disj_pos_kwargs : forall t: trip, sel_pos t <> None -> sel_kwargs t <> None -> False.
Proof. intros [[m p] f]; destruct p, f; cbn; congruence. Qed.
Lemma sel_disj_kw_kwargs : forall t: trip, sel_kw t <> None -> sel_kwargs t <> None -> False.
Proof. intros [[m p] f]; destruct p, f; cbn; congruence. Qed.

Lemma passed_nodup : forall (pl: list trip), NoDup (map tname pl) -> NoDup (map fst (passed pl)).
Proof.
  intros pl Hn. unfold passed. rewrite !map_app.
  apply nodup_app_intro; [now apply selmap_nodup | apply nodup_app_intro; try now apply selmap_nodup |].
  - intros x H1 H2. eapply (selmap_disjoint _ tname sel_kw sel_kwargs); eauto using sel_disj_kw_kwargs.
  - intros x H1 H2. apply in_app_or in H2. destruct H2 as [H2|H2].
    + eapply (selmap_disjoint _ tname sel_pos sel_kw); eauto using sel_disj_pos_kw.
    + eapply (selmap_disjoint _ tname sel_pos sel_kwargs); eauto using sel_disj_pos_kwargs.
Qed.

Lemma entry_in : forall (pl: list trip) d t, Forall (entry_ok conv nba d) pl -> In t pl -> entry_ok conv nba d t.
Proof. intros pl d t H Hi. rewrite Forall_forall in H. auto. Qed.

Lemma bind_ok : forall L d (pl: list trip),
  layout_ok L = true -> view_ok L = true -> plan conv nba st L false false d = inr pl ->
  bind L (pos_of pl) (kws_of pl ++ kwargs_of pl) = Some (passed pl).
Proof.
  intros L d pl Hl Hv H. unfold layout_ok in Hl.
  apply andb_true_iff in Hl. destruct Hl as [Hl Hpos].
  apply andb_true_iff in Hl. destruct Hl as [Hnd Hkind].
  apply nodupb_NoDup in Hnd.
  assert (Htn := plan_tnames conv nba st L false false d pl H).
  assert (Hent := plan_entries conv nba st L false false d pl H).
  assert (Hmem := plan_members conv nba st L false false d pl H).
  destruct (pos_prefix conv nba st L d pl Hv Hkind Hpos H) as [k Hk].
  unfold bind, pos_of, kws_of, kwargs_of.
  set (X := selmap tname sel_pos pl) in *.
  assert (Hlen: List.length (map snd X) = List.length (firstn k (map m_name (pos_params L)))).
  { rewrite <- Hk. now rewrite !map_length. }
  assert (Hfn: firstn (List.length (map snd X)) (map m_name (pos_params L)) = map fst X).
  { rewrite Hlen, firstn_length_firstn. now symmetry. }
  rewrite Hfn.
  assert (C1: (List.length (map snd X) <=? List.length (map m_name (pos_params L)))%nat = true).
  { apply Nat.leb_le. rewrite Hlen, firstn_length. apply Nat.le_min_r. }
  assert (C2: forallb (fun n => mem n (all_param_names L))
                (map fst (selmap tname sel_kw pl ++ selmap tname sel_kwargs pl)) = true).
  { apply forallb_forall. intros n Hn. apply mem_In. rewrite map_app in Hn.
    assert (Hex: exists t, In t pl /\ tname t = n /\ (sel_kw t <> None \/ sel_kwargs t <> None)).
    { apply in_app_or in Hn. destruct Hn as [Hn|Hn];
      destruct (selmap_keys_in tname _ pl n Hn) as [t [Hi [Hkn Hs]]]; exists t; auto. }
    destruct Hex as [[[m p] f] [Hi [Hkn Hs]]]. cbn in Hkn. subst n.
    assert (He := entry_in pl d _ Hent Hi). cbn in He.
    destruct He as [[_ [-> ->]] | [Ef _]]; [cbn in Hs; destruct Hs; congruence|].
    assert (Hin: In m L).
    { rewrite <- Hmem. apply in_map_iff. exists (m, p, f). auto. }
    unfold view_ok in Hv. rewrite forallb_forall in Hv.
    destruct (view_filtered m (Hv m Hin) Ef) as [_ [_ [Hpar _]]].
    unfold all_param_names. apply in_map. apply filter_In. auto. }
  assert (C3: nodupb (map fst X ++ map fst (selmap tname sel_kw pl ++ selmap tname sel_kwargs pl)) = true).
  { apply nodupb_NoDup. rewrite <- map_app.
    assert (Hp := passed_nodup pl). unfold passed in Hp. fold X in Hp. apply Hp. now rewrite Htn. }
  rewrite C1, C2, C3. cbn [andb]. unfold passed. fold X.
  now rewrite (combine_prefix X _ k Hk).
Qed.

(* what __init__ receives for a member *)
Lemma lookup_passed : forall (pl: list trip) t, NoDup (map tname pl) -> In t pl ->
  lookup (tname t) (passed pl) =
  match t with (_, PSkip, _) => None | (_, _, FbSet v) => Some v | _ => None end.
Proof.
  intros pl t Hn Hi. unfold passed. rewrite !lookup_app, !lookup_selmap by assumption.
  destruct t as [[m p] f]. destruct p, f; reflexivity.
Qed.

Lemma walk_ext : forall b b' L c,
  (forall m c, In m L -> step b m c = step b' m c) -> walk b L c = walk b' L c.
Proof.
  induction L as [|m r IH]; intros c H; [reflexivity|].
  cbn [walk]. rewrite (H m c) by now left.
  destruct (step b' m c) as [[a c1]|]; [|reflexivity].
  rewrite IH; [reflexivity|]. intros; apply H; now right.
Qed.

Lemma ref_bound_lookup : forall L d m, NoDup (map m_name L) -> In m L ->
  lookup (m_name m) (ref_bound conv nba L d) = ref_sel conv nba d m.
Proof. intros. unfold ref_bound. now apply lookup_selmap. Qed.

(* ---------- the binding theorem ---------- *)
Theorem decode_ref : forall L d c,
  layout_ok L = true -> view_ok L = true -> decode conv nba st L d c = ref_decode conv nba L d c.
Proof.
  intros L d c Hl Hv. unfold decode, ref_decode.
  assert (Hm := plan_error L false false d Hv).
  destruct (plan conv nba st L false false d) as [f|pl] eqn:Ep; rewrite Hm; [reflexivity|].
  rewrite (bind_ok L d pl Hl Hv Ep).
  assert (Hnd: NoDup (map m_name L)).
  { unfold layout_ok in Hl. apply andb_true_iff in Hl. destruct Hl as [Hl _].
    apply andb_true_iff in Hl. destruct Hl as [Hl _]. now apply nodupb_NoDup. }
  assert (Htn := plan_tnames conv nba st L false false d pl Ep).
  assert (Hent := plan_entries conv nba st L false false d pl Ep).
  assert (Hmem := plan_members conv nba st L false false d pl Ep).
  rewrite (walk_ext (passed pl) (ref_bound conv nba L d) L c); [reflexivity|].
  intros m c0 Hin.
  (* the entry of m in the plan *)
  assert (Hex: exists p f, In (m, p, f) pl).
  { rewrite <- Hmem in Hin. apply in_map_iff in Hin. destruct Hin as [[[m' p] f] [He Hi]].
    cbn in He. subst m'. eauto. }
  destruct Hex as [p [f Hi]].
  assert (Hlk := lookup_passed pl (m, p, f)). cbn [tname] in Hlk.
  rewrite Htn in Hlk. specialize (Hlk Hnd Hi).
  assert (Hrb := ref_bound_lookup L d m Hnd Hin).
  assert (He := entry_in pl d _ Hent Hi). cbn in He.
  unfold view_ok in Hv. rewrite forallb_forall in Hv. specialize (Hv m Hin).
  destruct He as [[Ef [-> ->]] | [Ef [Hf [Hnm Hp]]]].
  - (* not read by the builder *)
    unfold step. rewrite Hlk, Hrb. unfold ref_sel.
    destruct (m_kind m) eqn:Ek; try reflexivity.
    + rewrite (view_unfiltered_normal m Hv Ef Ek). unfold hinted; rewrite ?Ek; cbn.
      destruct (m_field m); reflexivity.
    + unfold hinted; rewrite ?Ek; reflexivity.
  - destruct (view_filtered m Hv Ef) as [Hkind [Hfld [Hpar [Hd [Hn Hkw]]]]].
    assert (Hpne: p <> PSkip).
    { destruct (has_dflt (seen_default m)); [subst p; discriminate | destruct Hp; subst p; discriminate]. }
    assert (Hlk': lookup (m_name m) (passed pl) = match f with FbSet v => Some v | _ => None end).
    { rewrite Hlk. destruct p; try congruence; reflexivity. }
    unfold step. rewrite Hlk', Hrb. unfold ref_sel, hinted. rewrite Hkind, Hfld, Hpar. cbn [andb].
    destruct Hnm as [Hnm Hni]. rewrite Hf in Hnm, Hni. rewrite Hf. clear Hlk Hlk' Hf Hi.
    rewrite (field_block_spec m d Hv Ef) in *.
    destruct (rd nba m d) as [v|] eqn:El.
    + destruct (eff_conv conv m v) as [w|] eqn:Ec; [|congruence].
      destruct (negb (m_ident m) && (m_nullty m || dflt_is_none (m_def m)) && is_none v
                && dflt_is_none (m_def m)) eqn:Es; [|reflexivity].
      (* the null is not forwarded because the default is None anyway *)
      band. unfold eff_conv, tnullable in Ec. destruct (m_ident m); [discriminate|].
      assert (Hx: (m_nullty m || m_unull m || dflt_is_none (m_def m)) && is_none v = true).
      { rewrite H1, H0. now rewrite orb_true_r. }
      rewrite Hx in Ec. inversion Ec; subst.
      destruct (m_def m) as [|dv|]; try discriminate. destruct dv; try discriminate. reflexivity.
    + destruct (has_dflt (m_def m)); [reflexivity|congruence].
Qed.

End Main2.

(* ---------- consequences spelled out per field ---------- *)
Section Spelled.
Variable conv : string -> pv -> option pv.
Variable nba st : bool.

Lemma step_mono : forall b m c v c2, step b m c = Some (v, c2) -> c <= c2.
Proof.
  intros b m c v c2 H. unfold step in H.
  destruct (m_kind m), (m_field m), (m_param m), (lookup (m_name m) b), (m_def m);
    inversion H; subst; lia.
Qed.

Lemma walk_mono : forall b L c a c', walk b L c = Some (a, c') -> c <= c'.
Proof.
  induction L as [|m r IH]; intros c a c' H; cbn in H.
  - inversion H. lia.
  - destruct (step b m c) as [[v c1]|] eqn:Es; try discriminate.
    destruct (walk b r c1) as [[l c2]|] eqn:Ew; try discriminate. inversion H; subst.
    apply step_mono in Es. apply IH in Ew. lia.
Qed.

Lemma walk_attr : forall b L c a c' m,
  walk b L c = Some (a, c') -> NoDup (map m_name L) -> In m L ->
  exists c1 c2 v, c <= c1 /\ c2 <= c' /\ step b m c1 = Some (v, c2) /\ attr_of (m_name m) a = Some v.
Proof.
  induction L as [|m0 r IH]; intros c a c' m H Hn Hi; [contradiction|].
  cbn in H. destruct (step b m0 c) as [[v0 c1]|] eqn:Es; try discriminate.
  destruct (walk b r c1) as [[l c2]|] eqn:Ew; try discriminate. inversion H; subst. clear H.
  cbn in Hn. inversion Hn as [|? ? Hni Hnr]; subst.
  destruct Hi as [->|Hi].
  - exists c, c1, v0. repeat split; auto. { eapply walk_mono; eauto. }
    unfold attr_of. cbn. now rewrite String.eqb_refl.
  - destruct (IH c1 l c' m Ew Hnr Hi) as [k1 [k2 [v [H1 [H2 [H3 H4]]]]]].
    exists k1, k2, v. repeat split; auto. { apply step_mono in Es. lia. }
    unfold attr_of. cbn. destruct (String.eqb (m_name m) (m_name m0)) eqn:E; [|exact H4].
    apply String.eqb_eq in E. exfalso. apply Hni. rewrite <- E. now apply in_map.
Qed.

Lemma first_error_none : forall L d m, first_error conv nba L d = None -> In m L ->
  hinted m && m_param m = true ->
  match rd nba m d with
  | None => required m = false
  | Some v => exists w, eff_conv conv m v = Some w
  end.
Proof.
  induction L as [|m0 r IH]; intros d m H Hi Hr; [contradiction|].
  cbn in H. destruct Hi as [->|Hi].
  - rewrite Hr in H. destruct (rd nba m d) as [v|].
    + destruct (eff_conv conv m v); [eauto|discriminate].
    + destruct (required m); [discriminate|reflexivity].
  - apply IH; auto. destruct (hinted m0 && m_param m0); [|assumption].
    destruct (rd nba m0 d) as [v|].
    + destruct (eff_conv conv m0 v); [assumption|discriminate].
    + destruct (required m0); [discriminate|assumption].
Qed.

Lemma walk_total : forall b L c,
  (forall m c, In m L -> step b m c <> None) -> exists a c', walk b L c = Some (a, c').
Proof.
  induction L as [|m r IH]; intros c H; [cbn; eauto|].
  cbn. destruct (step b m c) as [[v c1]|] eqn:Es; [|exfalso; eapply H; eauto; now left].
  destruct (IH c1) as [a [c' Hw]]; [intros; apply H; now right|]. rewrite Hw. eauto.
Qed.

Lemma ref_step_total : forall L d m c,
  NoDup (map m_name L) -> forallb kind_ok L = true -> first_error conv nba L d = None -> In m L ->
  step (ref_bound conv nba L d) m c <> None.
Proof.
  intros L d m c Hn Hk Hfm Hi. unfold step.
  rewrite (ref_bound_lookup conv nba L d m Hn Hi). unfold ref_sel.
  rewrite forallb_forall in Hk. specialize (Hk m Hi). unfold kind_ok in Hk.
  destruct (m_kind m) eqn:Ek.
  - destruct (m_field m) eqn:Ef; [|discriminate].
    destruct (m_param m) eqn:Ep.
    + assert (Hh: hinted m && m_param m = true) by (unfold hinted; rewrite Ek, Ep; reflexivity).
      assert (Hfe := first_error_none L d m Hfm Hi Hh).
      unfold hinted. rewrite Ek. cbn [andb].
      destruct (rd nba m d) as [v|].
      * destruct Hfe as [w ->]. discriminate.
      * unfold required, hinted in Hfe. rewrite Ek, Ef, Ep in Hfe. cbn in Hfe.
        destruct (m_def m); try discriminate.
    + destruct (m_def m); discriminate.
  - unfold hinted. rewrite Ek. cbn [andb]. apply andb_true_iff in Hk. destruct Hk as [_ Hk].
    destruct (m_def m); discriminate.
  - discriminate.
  - discriminate.
Qed.

Theorem binding : forall L d c,
  layout_ok L = true -> view_ok L = true -> first_error conv nba L d = None ->
  exists a c', decode conv nba st L d c = OOk a c' /\ c <= c' /\
    forall m, In m L -> m_kind m = KNormal -> m_field m = true -> m_param m = true ->
      match rd nba m d with
      | Some v => exists w, eff_conv conv m v = Some w /\ attr_of (m_name m) a = Some (Some w)
      | None =>
          match m_def m with
          | DVal v => attr_of (m_name m) a = Some (Some v)
          | DFac => exists n, c <= n < c' /\ attr_of (m_name m) a = Some (Some (PFresh n))
          | DNone => False
          end
      end.
Proof.
  intros L d c Hl Hv Hfm. rewrite (decode_ref conv nba st L d c Hl Hv). unfold ref_decode. rewrite Hfm.
  assert (Hl' := Hl). unfold layout_ok in Hl'.
  apply andb_true_iff in Hl'. destruct Hl' as [Hl' _].
  apply andb_true_iff in Hl'. destruct Hl' as [Hnd Hkind]. apply nodupb_NoDup in Hnd.
  destruct (walk_total (ref_bound conv nba L d) L c) as [a [c' Hw]].
  { intros m c0 Hi. now apply ref_step_total. }
  rewrite Hw. exists a, c'. split; [reflexivity|]. split; [eapply walk_mono; eauto|].
  intros m Hi Hk Hf Hp.
  destruct (walk_attr _ L c a c' m Hw Hnd Hi) as [c1 [c2 [v [H1 [H2 [Hs Ha]]]]]].
  unfold step in Hs. rewrite Hk, Hf, Hp in Hs.
  rewrite (ref_bound_lookup conv nba L d m Hnd Hi) in Hs. unfold ref_sel, hinted in Hs.
  rewrite Hk, Hp in Hs. cbn [andb] in Hs.
  assert (Hh: hinted m && m_param m = true) by (unfold hinted; rewrite Hk, Hp; reflexivity).
  assert (Hfe := first_error_none L d m Hfm Hi Hh).
  destruct (rd nba m d) as [v0|].
  - destruct Hfe as [w Hw']. rewrite Hw' in Hs. inversion Hs; subst. eauto.
  - destruct (m_def m); inversion Hs; subst; try exact Ha.
    exists c1. split; [lia|exact Ha].
Qed.

(* the first block that fails decides: MissingField / InvalidFieldValue of that field *)
Theorem error : forall L d c e,
  layout_ok L = true -> view_ok L = true -> first_error conv nba L d = Some e ->
  decode conv nba st L d c = outcome_of_err e.
Proof.
  intros L d c e Hl Hv Hfm. rewrite (decode_ref conv nba st L d c Hl Hv). unfold ref_decode. now rewrite Hfm.
Qed.

Lemma eff_conv_null : forall m, (m_ident m = true \/ tnullable m = true) -> eff_conv conv m PNone = Some PNone.
Proof.
  intros m H. unfold eff_conv. destruct (m_ident m); [reflexivity|].
  destruct H as [H|H]; [discriminate|]. rewrite H. reflexivity.
Qed.

Theorem null_wins : forall L d c m,
  layout_ok L = true -> view_ok L = true -> first_error conv nba L d = None ->
  In m L -> m_kind m = KNormal -> m_field m = true -> m_param m = true ->
  tnullable m = true -> rd nba m d = Some PNone ->
  exists a c', decode conv nba st L d c = OOk a c' /\ attr_of (m_name m) a = Some (Some PNone).
Proof.
  intros L d c m Hl Hv Hfm Hi Hk Hf Hp Hn Hd.
  destruct (binding L d c Hl Hv Hfm) as [a [c' [Hdec [_ H]]]].
  exists a, c'. split; [assumption|]. specialize (H m Hi Hk Hf Hp). rewrite Hd in H.
  destruct H as [w [Hw Ha]]. rewrite eff_conv_null in Hw by auto. inversion Hw; subst. exact Ha.
Qed.

(* ---------- freshness of factory-made objects ---------- *)
Lemma lookup_basic : forall k (b: list (string * pv)) v,
  forallb (fun p => basic (snd p)) b = true -> lookup k b = Some v -> basic v = true.
Proof.
  induction b as [|[k' v'] r IH]; cbn; intros v Hb H; [discriminate|].
  apply andb_true_iff in Hb. destruct Hb as [Hb1 Hb2].
  destruct (String.eqb k k'); [inversion H; subst; exact Hb1 | eauto].
Qed.

Lemma walk_labels : forall b L c a c',
  forallb (fun p => basic (snd p)) b = true -> defaults_basic L = true -> forallb kind_ok L = true ->
  walk b L c = Some (a, c') -> labels a = seq c (c' - c).
Proof.
  induction L as [|m r IH]; intros c a c' Hb Hd Hk H; cbn in H.
  - inversion H; subst. rewrite Nat.sub_diag. reflexivity.
  - destruct (step b m c) as [[v c1]|] eqn:Es; try discriminate.
    destruct (walk b r c1) as [[l c2]|] eqn:Ew; try discriminate. inversion H; subst. clear H.
    unfold defaults_basic in Hd. cbn in Hd, Hk. apply andb_true_iff in Hd. destruct Hd as [Hdm Hd].
    apply andb_true_iff in Hk. destruct Hk as [Hkm Hk].
    assert (Hle := walk_mono _ _ _ _ _ Ew).
    unfold labels. cbn [flat_map snd]. fold (labels l). rewrite (IH c1 l c' Hb Hd Hk Ew).
    assert (Hcase: (c1 = c /\ match v with Some (PFresh _) => False | _ => True end) \/
                   (c1 = S c /\ v = Some (PFresh c))).
    { unfold step in Es. unfold kind_ok in Hkm.
      destruct (m_kind m), (m_field m), (m_param m); try (destruct (lookup (m_name m) b) as [bv|] eqn:El);
        try (assert (Hbv := lookup_basic _ _ _ Hb El));
        destruct (m_def m) as [|dv|]; try discriminate; inversion Es; subst; auto;
        left; split; auto; try (destruct dv; try exact I; discriminate);
        try (destruct bv; try exact I; discriminate). }
    destruct Hcase as [[-> Hv] | [-> ->]].
    + destruct v as [[]|]; cbn; try reflexivity. contradiction.
    + cbn [app]. replace (c' - c) with (S (c' - S c)) by lia. reflexivity.
Qed.

Lemma rd_basic : forall m d v, input_basic d = true -> rd nba m d = Some v -> basic v = true.
Proof.
  intros m d v Hd H. unfold rd in H. unfold input_basic in Hd.
  destruct (m_alias m) as [a|]; [destruct nba; [destruct (lookup a d) eqn:E; [inversion H; subst|]|]|];
    eapply lookup_basic; eauto.
Qed.

Lemma ref_bound_basic : forall L d,
  (forall f v w, conv f v = Some w -> basic w = true) -> input_basic d = true ->
  forallb (fun p => basic (snd p)) (ref_bound conv nba L d) = true.
Proof.
  intros L d Hc Hd. unfold ref_bound, selmap. induction L as [|m r IH]; [reflexivity|].
  cbn [flat_map]. rewrite forallb_app, IH, andb_true_r.
  unfold ref_sel. destruct (hinted m && m_param m); [|reflexivity].
  destruct (rd nba m d) as [v|] eqn:El; [|reflexivity].
  destruct (eff_conv conv m v) as [w|] eqn:Ec; [|reflexivity].
  cbn. rewrite andb_true_r. unfold eff_conv in Ec.
  destruct (m_ident m); [inversion Ec; subst; exact (rd_basic m d w Hd El)|].
  destruct (tnullable m && is_none v); [inversion Ec; reflexivity|eapply Hc; eauto].
Qed.

(* the factory-made objects of one result carry exactly the labels c .. c'-1, in field order *)
Theorem fresh_labels : forall L d c a c',
  layout_ok L = true -> view_ok L = true ->
  (forall f v w, conv f v = Some w -> basic w = true) -> input_basic d = true -> defaults_basic L = true ->
  decode conv nba st L d c = OOk a c' -> c <= c' /\ labels a = seq c (c' - c).
Proof.
  intros L d c a c' Hl Hv Hc Hd Hdb H. rewrite (decode_ref conv nba st L d c Hl Hv) in H.
  unfold ref_decode in H. destruct (first_error conv nba L d) as [e|]; [destruct e; discriminate|].
  destruct (walk (ref_bound conv nba L d) L c) as [[a0 c0]|] eqn:Ew; inversion H; subst.
  split; [eapply walk_mono; eauto|].
  unfold layout_ok in Hl. apply andb_true_iff in Hl. destruct Hl as [Hl _].
  apply andb_true_iff in Hl. destruct Hl as [_ Hk].
  eapply (walk_labels (ref_bound conv nba L d)); eauto. now apply ref_bound_basic.
Qed.

(* two results never share a factory-made object *)
Theorem fresh_two : forall L d1 d2 c a1 c1 a2 c2,
  layout_ok L = true -> view_ok L = true ->
  (forall f v w, conv f v = Some w -> basic w = true) -> input_basic d1 = true -> input_basic d2 = true ->
  defaults_basic L = true ->
  decode conv nba st L d1 c = OOk a1 c1 -> decode conv nba st L d2 c1 = OOk a2 c2 ->
  NoDup (labels a1 ++ labels a2).
Proof.
  intros L d1 d2 c a1 c1 a2 c2 Hl Hv Hc Hd1 Hd2 Hdb H1 H2.
  destruct (fresh_labels L d1 c a1 c1 Hl Hv Hc Hd1 Hdb H1) as [Hle1 ->].
  destruct (fresh_labels L d2 c1 a2 c2 Hl Hv Hc Hd2 Hdb H2) as [Hle2 ->].
  replace c1 with (c + (c1 - c)) at 2 by lia. rewrite <- seq_app. apply seq_NoDup.
Qed.
End Spelled.

(* ---------- when is the builder's view right? ---------- *)
(* the Field object the builder finds for a hinted member is the processed Field of that very
   member: what CPython guarantees whenever the builder runs after @dataclass (codecs,
   lazy_compilation, slots=True) and every hinted member is a dataclass field *)
Definition truth_bf (m: member) : bfield :=
  {| bf_def := m_def m; bf_init := m_param m; bf_kw := Some (m_kw m) |}.
Definition post_coherent (m: member) : Prop :=
  m_kind m = KNormal -> m_field m = true /\ dc_field m = Some (truth_bf m).

Lemma post_view_ok : forall L, (forall m, In m L -> post_coherent m) -> view_ok L = true.
Proof.
  intros L H. unfold view_ok. apply forallb_forall. intros m Hi. specialize (H m Hi).
  unfold view_okm, post_coherent in *. destruct (m_kind m); try reflexivity.
  destruct (H eq_refl) as [Hf Hd]. unfold seen_init, seen_default, seen_kw. rewrite Hf, Hd. cbn.
  rewrite !eqb_reflx. destruct (m_param m); reflexivity.
Qed.

Theorem decode_ref_post : forall conv nba st L d c,
  layout_ok L = true -> (forall m, In m L -> post_coherent m) ->
  decode conv nba st L d c = ref_decode conv nba L d c.
Proof. intros. apply decode_ref; auto using post_view_ok. Qed.

(* the in_kwargs flag of the assembly loop need not be sticky: resetting it per block gives the same result
   on every layout Python accepts (a positional parameter without default never follows one with default) *)
Theorem sticky_irrelevant : forall conv nba L d c,
  layout_ok L = true -> view_ok L = true ->
  decode conv nba false L d c = decode conv nba true L d c.
Proof. intros. now rewrite !decode_ref. Qed.
