(* C08 - kernel K18 (VerifGen.K18 = body of the per-field bookkeeping loop of _add_pack_method_lines,
   translated from /repo on this run): folding it over the fields yields collections whose emptiness
   and membership are what the model assumes (nullable_fields = non-omitted fields with
   is_field_nullable, nontrivial_nullable_fields = those with a non-identity packer, aliases). *)
From Coq Require Import List String Ascii ZArith Bool Lia.
From Verif Require Import Regex PyK PyK_c08 OptProj.
From VerifGen Require Import K18.
Import ListNotations.
Open Scope string_scope.

(* what the loop sees of one field *)
Definition f_serialize (p: fplan) : kv := if p.(p_omit) then KStr "omit" else KNone.
Definition f_name (p: fplan) : kv := KStr p.(p_name).
Definition f_packer (p: fplan) : kv := KStr (if p.(p_trivial) then "value" else "<packer expression>").
Definition f_alias (p: fplan) : kv := match p.(p_alias) with Some a => KStr a | None => KNone end.
Definition f_nullable (p: fplan) : kv := KBool (nullable p).      (* is_field_nullable: kernel K17 *)

Definition step (p: fplan) (st: kv) : res kv :=
  match st with
  | KTuple [pk; al; nu; nt] => pack_field_step (f_serialize p) (f_name p) (f_packer p) (f_alias p) (f_nullable p) pk al nu nt
  | _ => Raise TypeError end.

Fixpoint run_fields (fs: list fplan) (st: kv) : res kv :=
  match fs with
  | [] => Ok st
  | p :: r => match step p st with Ok st' => run_fields r st' | Raise e => Raise e end end.

Definition init_state : kv := KTuple [KDict []; KDict []; KList []; KList []].

Definition set_add (l: list kv) (x: kv) : list kv := if existsb (kv_eqb x) l then l else l ++ [x].

Definition step_model (p: fplan) (d a: list (kv * kv)) (n t: list kv) : kv :=
  if p.(p_omit) then KTuple [KDict d; KDict a; KList n; KList t]
  else KTuple [KDict (d_set d (f_name p) (f_packer p));
               KDict (match p.(p_alias) with Some x => d_set a (f_name p) (KStr x) | None => a end);
               KList (if nullable p then set_add n (f_name p) else n);
               KList (if nullable p && negb p.(p_trivial) then set_add t (f_name p) else t)].

Lemma step_eq p d a n t :
  step p (KTuple [KDict d; KDict a; KList n; KList t]) = Ok (step_model p d a n t).
Proof.
  unfold step, step_model, pack_field_step, f_serialize, f_alias, f_nullable, f_packer.
  destruct (p_omit p); [reflexivity|].
  destruct (p_alias p) as [x|]; destruct (nullable p); destruct (p_trivial p); reflexivity.
Qed.

Definition keepf (p: fplan) : bool := negb p.(p_omit).

Lemma d_set_nonempty d k v : d_set d k v <> [].
Proof. destruct d as [|[k' x] r]; cbn; [discriminate|]. destruct (kv_eqb k' k); discriminate. Qed.

Lemma truthy_d_set d k v : k_truthy (KDict (d_set d k v)) = true.
Proof. pose proof (d_set_nonempty d k v). cbn. destruct (d_set d k v); [contradiction | reflexivity]. Qed.

Lemma truthy_set_add l x : k_truthy (KList (set_add l x)) = true.
Proof.
  unfold set_add. destruct (existsb (kv_eqb x) l) eqn:E.
  - destruct l; [discriminate | reflexivity].
  - destruct l; reflexivity.
Qed.

(* the two sets hold field names *)
Definition sadd (ns: list string) (x: string) : list string := if existsb (String.eqb x) ns then ns else ns ++ [x].

Lemma mem_map_str x ns : existsb (kv_eqb (KStr x)) (map KStr ns) = existsb (String.eqb x) ns.
Proof. induction ns as [|y r IH]; [reflexivity|]. cbn [map existsb]. rewrite IH. reflexivity. Qed.

Lemma set_add_str ns x : set_add (map KStr ns) (KStr x) = map KStr (sadd ns x).
Proof.
  unfold set_add, sadd. rewrite mem_map_str. destruct (existsb (String.eqb x) ns); [reflexivity|].
  now rewrite map_app.
Qed.

Lemma mem_sadd ns x y : existsb (String.eqb y) (sadd ns x) = existsb (String.eqb y) ns || String.eqb y x.
Proof.
  unfold sadd. destruct (existsb (String.eqb x) ns) eqn:E.
  - destruct (String.eqb y x) eqn:Ey; [|now rewrite orb_false_r].
    apply String.eqb_eq in Ey. subst. now rewrite E.
  - rewrite existsb_app. cbn. now rewrite orb_false_r.
Qed.

Lemma sadd_nonempty ns x : sadd ns x <> [].
Proof. unfold sadd. destruct (existsb (String.eqb x) ns) eqn:E; destruct ns; cbn in *; discriminate. Qed.

(* the fold, on the model side *)
Record bstate := { b_packers : list (kv * kv); b_aliases : list (kv * kv); b_nullable : list string; b_nontrivial : list string }.
Definition enc_state (b: bstate) : kv :=
  KTuple [KDict b.(b_packers); KDict b.(b_aliases); KList (map KStr b.(b_nullable)); KList (map KStr b.(b_nontrivial))].

Definition step_b (p: fplan) (b: bstate) : bstate :=
  if p.(p_omit) then b else
  {| b_packers := d_set b.(b_packers) (f_name p) (f_packer p);
     b_aliases := match p.(p_alias) with Some x => d_set b.(b_aliases) (f_name p) (KStr x) | None => b.(b_aliases) end;
     b_nullable := if nullable p then sadd b.(b_nullable) p.(p_name) else b.(b_nullable);
     b_nontrivial := if nullable p && negb p.(p_trivial) then sadd b.(b_nontrivial) p.(p_name) else b.(b_nontrivial) |}.

Lemma step_b_eq p b : step p (enc_state b) = Ok (enc_state (step_b p b)).
Proof.
  unfold enc_state. rewrite step_eq. unfold step_model, step_b.
  destruct (p_omit p); [reflexivity|]. cbn [b_packers b_aliases b_nullable b_nontrivial].
  unfold f_name at 3 4. rewrite !set_add_str.
  destruct (nullable p); destruct (p_trivial p); reflexivity.
Qed.

Definition fold_b (fs: list fplan) (b: bstate) : bstate := fold_left (fun b p => step_b p b) fs b.

Lemma run_fields_eq fs b : run_fields fs (enc_state b) = Ok (enc_state (fold_b fs b)).
Proof.
  revert b. induction fs as [|p r IH]; intros b; [reflexivity|].
  cbn [run_fields]. rewrite step_b_eq. apply IH.
Qed.

Definition empty_b : bstate := {| b_packers := []; b_aliases := []; b_nullable := []; b_nontrivial := [] |}.
Definition nonempty {A} (l: list A) : bool := match l with [] => false | _ => true end.

Lemma nonempty_d_set d k v : nonempty (d_set d k v) = true.
Proof. pose proof (d_set_nonempty d k v). destruct (d_set d k v); [contradiction | reflexivity]. Qed.
Lemma nonempty_sadd ns x : nonempty (sadd ns x) = true.
Proof. pose proof (sadd_nonempty ns x). destruct (sadd ns x); [contradiction | reflexivity]. Qed.

Lemma fold_b_cons p r b : fold_b (p :: r) b = fold_b r (step_b p b).
Proof. reflexivity. Qed.

Lemma fold_aliases fs : forall b,
  nonempty (b_aliases (fold_b fs b)) = nonempty (b_aliases b) || existsb has_alias (filter keepf fs).
Proof.
  induction fs as [|p r IH]; intros b; [cbn; now rewrite orb_false_r|].
  rewrite fold_b_cons, IH. cbn [filter]. unfold step_b, keepf at 2.
  destruct (p_omit p); cbn [negb existsb]; [reflexivity|]. cbn [b_aliases].
  unfold has_alias at 2. destruct (p_alias p); [|reflexivity].
  rewrite nonempty_d_set. cbn. now rewrite orb_true_r.
Qed.

Lemma fold_nullable fs : forall b,
  nonempty (b_nullable (fold_b fs b)) = nonempty (b_nullable b) || existsb nullable (filter keepf fs).
Proof.
  induction fs as [|p r IH]; intros b; [cbn; now rewrite orb_false_r|].
  rewrite fold_b_cons, IH. cbn [filter]. unfold step_b, keepf at 2.
  destruct (p_omit p); cbn [negb existsb]; [reflexivity|]. cbn [b_nullable].
  destruct (nullable p); [|reflexivity].
  rewrite nonempty_sadd. cbn. now rewrite orb_true_r.
Qed.

Lemma fold_nontrivial fs : forall b,
  nonempty (b_nontrivial (fold_b fs b))
  = nonempty (b_nontrivial b) || existsb (fun p => nullable p && negb p.(p_trivial)) (filter keepf fs).
Proof.
  induction fs as [|p r IH]; intros b; [cbn; now rewrite orb_false_r|].
  rewrite fold_b_cons, IH. cbn [filter]. unfold step_b, keepf at 2.
  destruct (p_omit p); cbn [negb existsb]; [reflexivity|]. cbn [b_nontrivial].
  destruct (nullable p && negb (p_trivial p)); [|reflexivity].
  rewrite nonempty_sadd. cbn. now rewrite orb_true_r.
Qed.

Lemma fold_member fs x : forall b,
  existsb (String.eqb x) (b_nullable (fold_b fs b))
  = existsb (String.eqb x) (b_nullable b) || existsb (fun p => String.eqb x p.(p_name) && nullable p) (filter keepf fs).
Proof.
  induction fs as [|p r IH]; intros b; [cbn; now rewrite orb_false_r|].
  rewrite fold_b_cons, IH. cbn [filter]. unfold step_b, keepf at 2.
  destruct (p_omit p); cbn [negb existsb]; [reflexivity|]. cbn [b_nullable].
  destruct (nullable p).
  - rewrite mem_sadd, andb_true_r. now rewrite orb_assoc.
  - now rewrite andb_false_r.
Qed.

Lemma truthy_dict l : k_truthy (KDict l) = nonempty l.
Proof. destruct l; reflexivity. Qed.
Lemma truthy_names_list (l: list string) : k_truthy (KList (map KStr l)) = nonempty l.
Proof. destruct l; reflexivity. Qed.

(* the loop, run from the empty collections over all fields (in any order), produces collections with *)
Theorem K18_bookkeeping_lemma : forall (fs: list fplan),
  let b := fold_b fs empty_b in
  run_fields fs init_state = Ok (enc_state b) /\
  k_truthy (KDict b.(b_aliases)) = existsb has_alias (filter keepf fs) /\
  k_truthy (KList (map KStr b.(b_nullable))) = existsb nullable (filter keepf fs) /\
  k_truthy (KList (map KStr b.(b_nontrivial))) = existsb (fun p => nullable p && negb p.(p_trivial)) (filter keepf fs) /\
  (forall x, existsb (String.eqb x) b.(b_nullable) = existsb (fun p => String.eqb x p.(p_name) && nullable p) (filter keepf fs)).
Proof.
  intros fs b. split; [exact (run_fields_eq fs empty_b)|].
  rewrite truthy_dict, !truthy_names_list. unfold b.
  rewrite fold_aliases, fold_nullable, fold_nontrivial. cbn [empty_b b_aliases b_nullable b_nontrivial nonempty orb].
  repeat split. intros x. rewrite fold_member. reflexivity.
Qed.

