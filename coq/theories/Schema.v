(* Hand-written model for C06:
     ty / value / env     the part of the type grammar and value universe covered
     enc_ok               "j is an admissible default serialization (by alias) of v at type t"
                          (reference semantics of to_dict followed by a JSON round trip, as a
                          decidable relation: unions may pick any conforming member)
     schema_f / defs_f    model of mashumaro.jsonschema.schema (creators of Appendix A.7) for
                          a dialect (ref prefix) and all_refs; tuples go through the kernel K6
                          translated from /repo (VerifGen.K6.on_tuple_k)
     schema_ok            the domain of the soundness theorem: excludes exactly the known findings
   All recursive functions consume one unit of fuel per descent; theorems quantify over all fuels. *)
From Coq Require Import List String Ascii ZArith Bool Lia DecimalString.
From Verif Require Import JValid PyK_tuple TzName.
From VerifGen Require Import K6.
Import ListNotations.
Open Scope string_scope.
Close Scope Z_scope.

Notation Sn := Datatypes.S.

Inductive ty :=
| TAny | TNone | TBool | TInt | TFloat | TStr
| TLeaf (fmt: string)          (* bytes, datetime, date, time, uuid, decimal, fraction, ip*, paths, zoneinfo *)
| TTimedelta | TTimezone
| TEnum (e: string)
| TLit (vs: list json)
| TList (keep: bool) (t: ty)   (* false: List, Sequence, Deque; true: Tuple[T, ...] (keeps a field's serialize override) *)
| TSet (t: ty)                 (* Set, FrozenSet *)
| TTuple (args: list (bool * ty))   (* (true, t) = Unpack[t] *)
| TDict (k v: ty)              (* Dict, Mapping, OrderedDict, DefaultDict; Counter[K] = TDict K TInt *)
| TUnion (ts: list ty)         (* Optional[t] = TUnion [t; TNone] *)
| TData (c: string)
| TTyped (c: string)
| TNamed (c: string).          (* NamedTuple class: array, or object where named tuples are serialized as dicts *)

Inductive value :=
| VNone | VBool (b: bool) | VInt (z: Z) | VFlt (repr: string) | VStr (s: string)
| VLeaf (wire: string)         (* stdlib leaf, by the text its rendering primitive returns *)
| VTd (seconds: json)          (* timedelta, by total_seconds() *)
| VTz (minutes: Z)             (* timezone(timedelta(minutes=m)) *)
| VEnum (i: nat)               (* i-th member (definition order) *)
| VFlag (z: Z)                 (* Flag/IntFlag pseudo-member with value z *)
| VRaw (j: json)               (* Literal member / value at an Any position, by its basic form *)
| VList (l: list value)
| VDict (kvs: list (value * value))
| VObj (fs: list (string * value)).

Record field := mkF {
  f_name : string;
  f_key : string;            (* alias if any, else the name *)
  f_ty : ty;
  f_has_default : bool;      (* dataclass: default or default_factory; TypedDict: key not required *)
  f_init : bool;
  f_ntover : option bool;    (* field option serialize="as_dict" (Some true) / "as_list" (Some false) *)
  f_dnone : bool;            (* the field's default value is None *)
  f_ser : option ty;         (* overridden serialization (field option serialize=<function> or a Config /
                                dialect serialization_strategy entry that applies to the field): the function's
                                return annotation.  The member then is what the function returns *)
}.
Record cls := mkC { c_id : string; c_name : string (* bare __name__ *); c_fields : list field;
                    c_ntd : bool     (* Config / Config.dialect namedtuple_as_dict *);
                    c_omit : bool    (* Config / Config.dialect omit_none *) }.
Record enumd := mkE { e_id : string; e_values : list json; e_flag : bool }.
Record env := mkEnv { classes : list cls; typeds : list cls; nts : list cls; enums : list enumd }.

Fixpoint find_cls (l: list cls) (id: string) : option cls :=
  match l with [] => None | c :: r => if String.eqb (c_id c) id then Some c else find_cls r id end.
Fixpoint find_enum (l: list enumd) (id: string) : option enumd :=
  match l with [] => None | c :: r => if String.eqb (e_id c) id then Some c else find_enum r id end.

Definition UTC_PATTERN : string := "^UTC([+-][0-2][0-9]:[0-5][0-9])?$".

Definition z_str (z: Z) : string := NilZero.string_of_int (Z.to_int z).

Definition is_jstr (j: json) : bool := match j with JStr _ => true | _ => false end.
Definition is_jnum (j: json) : bool := match j with JInt _ | JFlt _ => true | _ => false end.

Fixpoint no_dup_str (l: list string) : bool :=
  match l with [] => true | x :: r => negb (existsb (String.eqb x) r) && no_dup_str r end.

(* json.dumps coerces non-str scalar keys to member names *)
Definition key_str (j: json) : string :=
  match j with
  | JStr s => s | JInt z => z_str z | JBool b => if b then "true" else "false" | JNull => "null" | JFlt s => s
  | _ => "" end.
(* candidate basic forms of a non-str key value *)
Definition key_cands (E: env) (v: value) : list json :=
  match v with
  | VInt z => [JInt z] | VBool b => [JBool b] | VNone => [JNull] | VFlt s => [JFlt s] | VRaw j => [j]
  | VStr s => [JStr s] | VLeaf w => [JStr w]
  | VEnum i => flat_map (fun d => match nth_error (e_values d) i with Some x => [x] | None => [] end) (enums E)
  | _ => [] end.

(* strict pointwise test: equal lengths *)
Fixpoint all2 {A B} (f: A -> B -> bool) (l1: list A) (l2: list B) : bool :=
  match l1, l2 with
  | [], [] => true
  | x :: r1, y :: r2 => f x y && all2 f r1 r2
  | _, _ => false end.

Fixpoint find_unpack (args: list (bool * ty)) : option nat :=
  match args with
  | [] => None
  | (true, _) :: _ => Some O
  | (false, _) :: r => match find_unpack r with Some i => Some (Sn i) | None => None end
  end.
Definition no_unpack (args: list (bool * ty)) : bool := forallb (fun a => negb (fst a)) args.

(* named tuples as dicts?  The class-wide option, overridden per field (model of the decision in
   pack_named_tuple / on_named_tuple; the translated kernels are VerifGen.K6N) *)
Definition nt_mode (class_opt: bool) (ov: option bool) : bool :=
  match ov with Some b => b | None => class_opt end.

(* the value to_dict tests with `is not None` under omit_none *)
Definition is_none_val (v: value) : bool :=
  match v with VNone => true | VRaw JNull => true | _ => false end.

(* matching of a dataclass instance with the emitted members: every field in class order, under its
   alias; with omit_none a nullable field whose value is None has no member (it must still conform) *)
(* types the serializer treats as nullable (only for these is the `is not None` test emitted):
   Any, None, and every union with a direct None member (Optional[X], Union[int, None, str]; since /repo 906a805);
   Literal[None] is not *)
Definition is_tnone (t: ty) : bool := match t with TNone => true | _ => false end.
Definition nullable (t: ty) : bool :=
  match t with
  | TAny | TNone => true
  | TUnion ts => existsb is_tnone ts
  | _ => false end.

(* CodeBuilder.is_field_nullable (kernel K20; Annotated/Final wrappers are already removed in `ty`):
   nullable type, or the default is None *)
Definition fnullable (f: field) : bool := nullable (f_ty f) || f_dnone f.

(* the type the JSON Schema describes for the field (on_type_with_overridden_serialization, the first creator) *)
Definition f_sty (f: field) : ty := match f_ser f with Some rt => rt | None => f_ty f end.

(* is the field listed in `required` (kernel K6R): no default, and not droppable under omit_none *)
Definition frequired (omit: bool) (f: field) : bool := negb (f_has_default f) && negb (omit && fnullable f).

Fixpoint obj_match (chk: field -> value -> json -> bool) (omit: field -> value -> bool)
         (fields: list field) (fs: list (string * value)) (ms: list (string * json)) : bool :=
  match fields, fs with
  | [], [] => match ms with [] => true | _ => false end
  | f :: rf, (nm, fv) :: rfs =>
      String.eqb (f_name f) nm &&
      (if omit f fv then chk f fv JNull && obj_match chk omit rf rfs ms
       else match ms with
            | (key, x) :: rms => String.eqb (f_key f) key && chk f fv x && obj_match chk omit rf rfs rms
            | [] => false end)
  | _, _ => false
  end.

(* key types whose basic form is a str (the JSON member name is that str) *)
Fixpoint str_wired (fuel: nat) (E: env) (t: ty) : bool :=
  match fuel with
  | O => false
  | Sn n =>
    match t with
    | TStr | TLeaf _ | TTimezone => true
    | TEnum e => match find_enum (enums E) e with
                 | Some d => negb (e_flag d) && forallb is_jstr (e_values d) | None => false end
    | TLit vs => forallb is_jstr vs
    | TUnion ts => forallb (str_wired n E) ts
    | _ => false end
  end.

(* cur: named tuples are dicts at this position; base: the class-wide option of the owning dataclass
   (the serializer forgets a field override inside list/set/mapping elements and falls back to it) *)
Fixpoint enc_ok (fuel: nat) (E: env) (cur base: bool) (t: ty) (v: value) (j: json) {struct fuel} : bool :=
  match fuel with
  | O => false
  | Sn n =>
    match t with
    | TAny => match v with VRaw x => json_eqb x j | _ => false end
    | TNone => match v, j with VNone, JNull => true | _, _ => false end
    | TBool => match v, j with VBool b, JBool b' => Bool.eqb b b' | _, _ => false end
    | TInt => match v, j with VInt z, JInt z' => Z.eqb z z' | _, _ => false end
    | TFloat => match v, j with
                | VInt z, JInt z' => Z.eqb z z'
                | VFlt s, JFlt s' => String.eqb s s'
                | _, _ => false end
    | TStr => match v, j with VStr s, JStr s' => String.eqb s s' | _, _ => false end
    | TLeaf _ => match v, j with VLeaf w, JStr s' => String.eqb w s' | _, _ => false end
    | TTimedelta => match v with VTd x => is_jnum x && json_eqb x j | _ => false end
    | TTimezone => match v, j with
                   | VTz m, JStr s => (-1440 <? m)%Z && (m <? 1440)%Z && String.eqb (tzname m) s
                   | _, _ => false end
    | TEnum e =>
        match find_enum (enums E) e with
        | None => false
        | Some d =>
            match v with
            | VEnum i => match nth_error (e_values d) i with Some x => json_eqb x j | None => false end
            | VFlag z => e_flag d && match j with JInt z' => Z.eqb z z' | _ => false end
            | _ => false end
        end
    | TLit vs => match v with VRaw x => existsb (json_eqb x) vs && json_eqb x j | _ => false end
    | TList keep t' => match v, j with
                       | VList l, JArr js => all2 (enc_ok n E (if keep then cur else base) base t') l js
                       | _, _ => false end
    | TSet t' => match v, j with
                 | VList l, JArr js => all2 (enc_ok n E base base t') l js && no_dup_json js   (* excludes KF set-wire-collision *)
                 | _, _ => false end
    | TTuple args =>
        match v, j with
        | VList l, JArr js =>
            match find_unpack args with
            | None => all2 (fun a p => enc_ok n E cur base (snd a) (fst p) (snd p)) args (combine l js)
                      && Nat.eqb (List.length l) (List.length js) && Nat.eqb (List.length l) (List.length args)
            | Some u =>
                let before := firstn u args in
                let after := skipn (Sn u) args in
                let na := List.length after in
                let inner := match nth_error args u with Some (_, t') => t' | None => TNone end in
                no_unpack after && Nat.eqb (List.length l) (List.length js) && Nat.leb (u + na)%nat (List.length l) &&
                let nm := (List.length l - u - na)%nat in
                all2 (fun a p => enc_ok n E cur base (snd a) (fst p) (snd p)) before (combine (firstn u l) (firstn u js)) &&
                enc_ok n E cur base inner (VList (firstn nm (skipn u l))) (JArr (firstn nm (skipn u js))) &&
                all2 (fun a p => enc_ok n E cur base (snd a) (fst p) (snd p)) after (combine (skipn (u + nm)%nat l) (skipn (u + nm)%nat js))
            end
        | _, _ => false end
    | TDict kt vt =>
        match v, j with
        | VDict kvs, JObj ms =>
            all2 (fun kv m => match kv, m with (kv', vv), (key, x) =>
                    (enc_ok n E base base kt kv' (JStr key)
                     || existsb (fun kj => enc_ok n E base base kt kv' kj && String.eqb key (key_str kj)) (key_cands E kv'))
                    && enc_ok n E base base vt vv x end) kvs ms
        | _, _ => false end
    | TUnion ts => existsb (fun t' => enc_ok n E cur base t' v j) ts
    | TData c =>
        match find_cls (classes E) c, v, j with
        | Some d, VObj fs, JObj ms =>
            (* an overriding function is applied to non-None values only: None of a nullable field passes through *)
            obj_match (fun f fv x =>
                         match f_ser f with
                         | Some rt => if fnullable f && is_none_val fv then json_eqb x JNull
                                      else enc_ok n E (nt_mode (c_ntd d) (f_ntover f)) (c_ntd d) rt fv x
                         | None => enc_ok n E (nt_mode (c_ntd d) (f_ntover f)) (c_ntd d) (f_ty f) fv x end)
                      (fun f fv => c_omit d && fnullable f && is_none_val fv) (c_fields d) fs ms
        | _, _, _ => false end
    | TTyped c =>
        match find_cls (typeds E) c, v, j with
        | Some d, VObj fs, JObj ms =>
            (* a TypedDict value holds every required key, only declared keys, each once
               (to_dict emits required keys first: member order is not constrained here) *)
            forallb (fun m => match m with (key, x) =>
                    match assoc fs key, find (fun f => String.eqb (f_name f) key) (c_fields d) with
                    | Some fv, Some f => enc_ok n E cur base (f_ty f) fv x
                    | _, _ => false end end) ms
            && Nat.eqb (List.length fs) (List.length ms) && no_dup_str (map fst ms)
            && forallb (fun f => f_has_default f || has_key ms (f_name f)) (c_fields d)
        | _, _, _ => false end
    | TNamed c =>
        match find_cls (nts E) c, v with
        | Some d, VList l =>
            if cur then
              match j with
              | JObj ms => all2 (fun f p => match p with (fv, (key, x)) =>
                                   String.eqb (f_name f) key && enc_ok n E cur base (f_ty f) fv x end)
                                (c_fields d) (combine l ms)
                           && Nat.eqb (List.length l) (List.length ms) && Nat.eqb (List.length l) (List.length (c_fields d))
              | _ => false end
            else
              match j with
              | JArr js => all2 (fun f p => enc_ok n E cur base (f_ty f) (fst p) (snd p)) (c_fields d) (combine l js)
                           && Nat.eqb (List.length l) (List.length js) && Nat.eqb (List.length l) (List.length (c_fields d))
              | _ => false end
        | _, _ => false end
    end
  end.

(* ------------------------------------------------------------------ *)
(* schema generation *)
Fixpoint omap {A B} (f: A -> option B) (l: list A) : option (list B) :=
  match l with
  | [] => Some []
  | x :: r => match f x, omap f r with Some y, Some ys => Some (y :: ys) | _, _ => None end
  end.

Definition is_empty_schema (s: schema) : bool := match s with S [] => true | _ => false end.
Definition opt_kw (mk: schema -> kw) (s: schema) : list kw := if is_empty_schema s then [] else [mk s].

Fixpoint get_kw_prefix (k: list kw) : option (list schema) :=
  match k with [] => None | KPrefix l :: _ => Some l | _ :: r => get_kw_prefix r end.
Fixpoint get_kw_items (k: list kw) : option schema :=
  match k with [] => None | KItems s :: _ => Some s | _ :: r => get_kw_items r end.
Fixpoint get_kw_min (k: list kw) : option Z :=
  match k with [] => None | KMin z :: _ => Some z | _ :: r => get_kw_min r end.
Fixpoint get_kw_max (k: list kw) : option Z :=
  match k with [] => None | KMax z :: _ => Some z | _ :: r => get_kw_max r end.

Definition uschema_of (s: schema) : uschema schema :=
  let k := kws_of s in mkU (get_kw_prefix k) (get_kw_items k) (get_kw_min k) (get_kw_max k).

Definition tuple_kws (r: tschema schema) : list kw :=
  [KType TyArray]
  ++ match t_prefix r with Some l => [KPrefix l] | None => [] end
  ++ match t_items r with Some s => [KItems s] | None => [] end
  ++ match t_min r with Some z => [KMin z] | None => [] end
  ++ match t_max r with Some z => [KMax z] | None => [] end.

(* insertion sort of strings (Python sorted() on str = code point order = UTF-8 byte order) *)
Fixpoint ins_str (x: string) (l: list string) : list string :=
  match l with [] => [x] | y :: r => if String.leb x y then x :: l else y :: ins_str x r end.
Definition sort_str (l: list string) : list string := fold_right ins_str [] l.

Record dialect := mkD { d_prefix : string }.

Section Gen.
  Variable E : env.
  Variable dl : dialect.
  Variable all_refs : bool.

  Definition obj_kws (title: option string) (ps: list (string * schema)) (req: list string) : list kw :=
    [KType TyObject]
    ++ match title with Some t => [KTitle t] | None => [] end
    ++ match ps with [] => [] | _ => [KProps ps] end
    ++ match req with [] => [] | _ => [KRequired req] end
    ++ [KAddl false].

  Fixpoint schema_f (cur: bool) (fuel: nat) (t: ty) {struct fuel} : option schema :=
    match fuel with
    | O => None
    | Sn n =>
      match t with
      | TAny => Some (S [])
      | TNone => Some (S [KType TyNull])
      | TBool => Some (S [KType TyBoolean])
      | TInt => Some (S [KType TyInteger])
      | TFloat => Some (S [KType TyNumber])
      | TStr => Some (S [KType TyString])
      | TLeaf fmt => Some (S [KType TyString; KFormat fmt])
      | TTimedelta => Some (S [KType TyNumber; KFormat "time-delta"])
      | TTimezone => Some (S [KType TyString; KPattern UTC_PATTERN])
      | TEnum e => match find_enum (enums E) e with Some d => Some (S [KEnum (e_values d)]) | None => None end
      | TLit vs => Some (match vs with [v] => S [KConst v] | _ => S [KEnum vs] end)
      | TList _ t' => match schema_f cur n t' with
                    | Some s => Some (S ([KType TyArray] ++ opt_kw KItems s)) | None => None end
      | TSet t' => match schema_f cur n t' with
                   | Some s => Some (S ([KType TyArray] ++ opt_kw KItems s ++ [KUnique true])) | None => None end
      | TTuple args =>
          match args with
          | [] => Some (S [KType TyArray; KMax 0%Z])
          | _ =>
            match omap (fun (a: bool * ty) => match schema_f cur n (snd a) with
                                 | Some s => Some (if fst a then @Unpack schema (uschema_of s) else @Plain schema s)
                                 | None => None end) args with
            | Some targs => Some (S (tuple_kws (on_tuple_k targs)))
            | None => None end
          end
      | TDict kt vt =>
          match schema_f cur n kt, schema_f cur n vt with
          | Some ks, Some vs => Some (S ([KType TyObject] ++ opt_kw KAddlS vs ++ opt_kw KPropNames ks))
          | _, _ => None end
      | TUnion ts => match omap (schema_f cur n) ts with Some l => Some (S [KAnyOf l]) | None => None end
      | TData c =>
          match find_cls (classes E) c with
          | None => None
          | Some d =>
              if all_refs then Some (S [KRef (d_prefix dl) (c_name d)])
              else
                let fs := filter f_init (c_fields d) in
                match omap (fun f => match schema_f (nt_mode (c_ntd d) (f_ntover f)) n (f_sty f) with Some s => Some (f_key f, s) | None => None end) fs with
                | Some ps => Some (S (obj_kws (Some (c_name d)) ps
                                       (map f_key (filter (frequired (c_omit d)) fs))))
                | None => None end
          end
      | TTyped c =>
          match find_cls (typeds E) c with
          | None => None
          | Some d =>
              match omap (fun f => match schema_f cur n (f_ty f) with Some s => Some (f_name f, s) | None => None end) (c_fields d) with
              | Some ps => Some (S (obj_kws None ps
                                     (sort_str (map f_name (filter (fun f => negb (f_has_default f)) (c_fields d))))))
              | None => None end
          end
      | TNamed c =>
          match find_cls (nts E) c with
          | None => None
          | Some d =>
              if cur then
                match omap (fun f => match schema_f cur n (f_ty f) with Some s => Some (f_name f, s) | None => None end) (c_fields d) with
                | Some ps => Some (S ([KType TyObject] ++ match ps with [] => [] | _ => [KProps ps] end
                                      ++ [KRequired (map f_name (c_fields d)); KAddl false]))
                | None => None end
              else
                match omap (fun f => schema_f cur n (f_ty f)) (c_fields d) with
                | Some [] => Some (S [KType TyArray])
                | Some ss => Some (S [KType TyArray; KPrefix ss; KMin (zlen ss); KMax (zlen ss)])
                | None => None end
          end
      end
    end.

  (* the object schema stored in the definitions for class d (all_refs mode) *)
  Definition class_schema (fuel: nat) (d: cls) : option schema :=
    let fs := filter f_init (c_fields d) in
    match omap (fun f => match schema_f (nt_mode (c_ntd d) (f_ntover f)) fuel (f_sty f) with Some s => Some (f_key f, s) | None => None end) fs with
    | Some ps => Some (S (obj_kws (Some (c_name d)) ps (map f_key (filter (frequired (c_omit d)) fs))))
    | None => None end.

  (* Context.definitions: keyed by the bare class name; a later class overwrites an earlier one *)
  Fixpoint defs_f (fuel: nat) (l: list cls) : option (list (string * schema)) :=
    match l with
    | [] => Some []
    | d :: r => match class_schema fuel d, defs_f fuel r with
                | Some s, Some ds => Some (if has_key ds (c_name d) then ds else (c_name d, s) :: ds)
                | _, _ => None end
    end.
End Gen.

(* ------------------------------------------------------------------ *)
(* the domain of the soundness theorem: everything except the known findings *)
(* the argument of Unpack[...] is a tuple type: Tuple[T, ...] or a fixed tuple (whose own shape ty_ok checks) *)
Definition unpack_inner_ok (t: ty) : bool :=
  match t with TList true _ => true | TTuple _ => true | _ => false end.

Fixpoint ty_ok (fuel: nat) (E: env) (cur base: bool) (t: ty) {struct fuel} : bool :=
  match fuel with
  | O => false
  | Sn n =>
    match t with
    | TEnum e => match find_enum (enums E) e with Some d => negb (e_flag d) | None => false end   (* KF schema-flag-combos *)
    | TList keep t' => (keep || Bool.eqb cur base) && ty_ok n E cur base t'      (* KF schema-nt-override-in-containers *)
    | TSet t' => Bool.eqb cur base && ty_ok n E cur base t'
    | TTuple args =>
        (* fixed tuples; at most one Unpack[...] per level (as typing requires), whose argument is Tuple[T, ...]
           or again a fixed tuple of this kind (any nesting depth) *)
        forallb (fun a => ty_ok n E cur base (snd a)) args &&
        (no_unpack args ||
         match find_unpack args with
         | Some u => no_unpack (skipn (Sn u) args) &&
                     match nth_error args u with Some (_, it) => unpack_inner_ok it | None => false end
         | None => false end)
    | TDict kt vt => Bool.eqb cur base && str_wired n E kt && ty_ok n E cur base kt && ty_ok n E cur base vt   (* KF schema-nonstr-keys *)
    | TUnion ts => forallb (ty_ok n E cur base) ts
    | TData c => match find_cls (classes E) c with
                 | Some d => forallb (fun f => f_init f                                         (* KF schema-init-false-field *)
                                               && ty_ok n E (nt_mode (c_ntd d) (f_ntover f)) (c_ntd d) (f_sty f)
                                               && match f_ser f with                            (* KF schema-overridden-nullable *)
                                                  | Some _ => negb (fnullable f) | None => true end)
                                     (c_fields d)
                 | None => false end
    | TTyped c => match find_cls (typeds E) c with
                  | Some d => forallb (fun f => ty_ok n E cur base (f_ty f)) (c_fields d)
                              && no_dup_str (map f_name (c_fields d))
                  | None => false end
    | TNamed c => match find_cls (nts E) c with
                  | Some d => forallb (fun f => ty_ok n E cur base (f_ty f)) (c_fields d)
                              && no_dup_str (map f_name (c_fields d))
                  | None => false end
    | _ => true
    end
  end.

(* class ids and bare names are unique (KF schema-defs-by-bare-name), fields of a class have distinct keys *)
Definition env_ok (E: env) : bool :=
  no_dup_str (map c_name (classes E)) && no_dup_str (map c_id (classes E))
  && forallb (fun d => no_dup_str (map f_key (c_fields d))) (classes E).
