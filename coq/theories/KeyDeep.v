(* C09 -- dataclass-typed fields at any depth and inside containers.

   Field types: a scalar, another dataclass N, Optional[T], List[T], Dict[str, T] (T again any of these).
   Every class resolves the keys of the mapping it is given with its own aliases and options; what is found
   under the chosen key is decoded according to the field type: a dataclass by that class's rules (and so
   on, to any depth), a list element by element, a mapping value by value (its keys are data, not field
   keys), None under Optional as None.  Anything that goes wrong below a field of the outermost class is
   reported against that field.

   Values are trees; the key resolution of one class still works on KeyModel.dict: the mapping is
   flattened to (key, position) and the position selects the sub-tree.  Recursion is on a depth bound
   (`fuel`): a value nested deeper than the bound fails to decode; the theorems hold for every bound. *)
From Coq Require Import List String Ascii ZArith Bool Arith Lia.
From Verif Require Import Regex PyK PyK_alias KeyModel KeyImpl KeyProofs KeyNested.
From VerifGen Require Import K4.
Import ListNotations.
Open Scope string_scope.
Open Scope list_scope.

Inductive nv := VZ (z: Z) | VD (d: list (key * nv)) | VL (l: list nv).

Inductive nty := TScalar | TCls (i: nat) | TOpt (t: nty) | TList (t: nty) | TMap (t: nty).

(* a class of the table: its key rules and the types of its non-scalar fields *)
Record ncls := mkN { n_cls : cls; n_types : list (string * nty) }.

Inductive rv :=
| RZ (z: Z)
| RObj (vals: list (string * option rv))       (* an instance; None = the field took its default *)
| RList (l: list rv)
| RMap (m: list (key * rv)).

Inductive doutcome :=
| DInst (vals: list (string * option rv))
| DMissing (f: string)
| DExtra (ks: list key)
| DInvalid (f: string).

Definition NONEZ : Z := (-7)%Z.

Fixpoint type_of (ts: list (string * nty)) (n: string) : nty :=
  match ts with [] => TScalar | (k, t) :: r => if String.eqb k n then t else type_of r n end.

Fixpoint flat_from (d: list (key * nv)) (i: Z) : dict :=
  match d with [] => [] | (k, _) :: r => (k, i) :: flat_from r (i + 1)%Z end.
Definition flat (d: list (key * nv)) : dict := flat_from d 0%Z.

Fixpoint all_some {A} (l: list (option A)) : option (list A) :=
  match l with
  | [] => Some []
  | Some x :: r => match all_some r with Some xs => Some (x :: xs) | None => None end
  | None :: _ => None
  end.

Section Generic.
Variable rd : cls -> dict -> fld -> option (key * Z).
Variable ex : cls -> dict -> list key.

Definition dcons (n: string) (r: option rv) (o: doutcome) : doutcome :=
  match o with DInst vs => DInst ((n, r) :: vs) | _ => o end.

(* one object, given how to decode what sits under its keys *)
Fixpoint obj_fields (decf: nty -> nv -> option rv) (nc: ncls) (d: list (key * nv)) (fs: list fld) : doutcome :=
  match fs with
  | [] => DInst []
  | f :: r =>
      match rd (n_cls nc) (flat d) f with
      | None => if f_dflt f then dcons (f_name f) None (obj_fields decf nc d r) else DMissing (f_name f)
      | Some (_, i) =>
          match nth_error d (Z.to_nat i) with
          | None => DInvalid (f_name f)
          | Some (_, v) => match decf (type_of (n_types nc) (f_name f)) v with
                           | Some x => dcons (f_name f) (Some x) (obj_fields decf nc d r)
                           | None => DInvalid (f_name f)
                           end
          end
      end
  end.

Definition obj (decf: nty -> nv -> option rv) (nc: ncls) (d: list (key * nv)) : doutcome :=
  match ex (n_cls nc) (flat d) with
  | (_ :: _) as ks => if c_forbid (n_cls nc) then DExtra ks else obj_fields decf nc d (c_fields (n_cls nc))
  | [] => obj_fields decf nc d (c_fields (n_cls nc))
  end.

Fixpoint dec (fuel: nat) (tb: list ncls) (t: nty) (v: nv) : option rv :=
  match fuel with
  | O => None
  | S fu =>
      match t with
      | TScalar => match v with VZ z => Some (RZ z) | _ => None end
      | TCls i => match v, nth_error tb i with
                  | VD d, Some nc => match obj (dec fu tb) nc d with DInst vs => Some (RObj vs) | _ => None end
                  | _, _ => None
                  end
      | TOpt t' => match v with
                   | VZ z => if Z.eqb z NONEZ then Some (RZ NONEZ) else dec fu tb t' v
                   | _ => dec fu tb t' v
                   end
      | TList t' => match v with
                    | VL l => option_map RList (all_some (map (dec fu tb t') l))
                    | VD [] => Some (RList [])     (* the generated comprehension iterates its input: an empty mapping
                                                      is an empty iterable; a non-empty one yields its keys (strings),
                                                      which no dataclass-rooted element type accepts *)
                    | _ => None
                    end
      | TMap t' => match v with
                   | VD d => option_map (fun xs => RMap (combine (map fst d) xs)) (all_some (map (fun p => dec fu tb t' (snd p)) d))
                   | _ => None
                   end
      end
  end.

(* the outermost class k of the table on the mapping d *)
Definition deep (fuel: nat) (tb: list ncls) (k: nat) (d: list (key * nv)) : doutcome :=
  match nth_error tb k with
  | Some nc => obj (dec fuel tb) nc d
  | None => DInvalid "<no such class>"
  end.
End Generic.

Definition deep_ref := deep field_read extra_keys.
Definition deep_impl := deep impl_rd impl_ex.

Lemma map_ext_eq {A B} (f g: A -> B) l : (forall x, f x = g x) -> map f l = map g l.
Proof. intro H. induction l as [|x r IH]; cbn; [reflexivity | now rewrite H, IH]. Qed.

Lemma obj_ext : forall rd1 rd2 ex1 ex2 (decf1 decf2: nty -> nv -> option rv),
  (forall c d f, rd1 c d f = rd2 c d f) -> (forall c d, ex1 c d = ex2 c d) ->
  (forall t v, decf1 t v = decf2 t v) ->
  forall nc d, obj rd1 ex1 decf1 nc d = obj rd2 ex2 decf2 nc d.
Proof.
  intros rd1 rd2 ex1 ex2 decf1 decf2 Hr He Hd nc d. unfold obj. rewrite He.
  assert (Hf: forall fs, obj_fields rd1 decf1 nc d fs = obj_fields rd2 decf2 nc d fs).
  { induction fs as [|f r IH]; cbn [obj_fields]; [reflexivity|]. rewrite Hr, IH.
    destruct (rd2 (n_cls nc) (flat d) f) as [[k i]|]; [|reflexivity].
    destruct (nth_error d (Z.to_nat i)) as [[k' v]|]; [|reflexivity]. now rewrite Hd. }
  now rewrite Hf.
Qed.

Lemma dec_ext : forall rd1 rd2 ex1 ex2,
  (forall c d f, rd1 c d f = rd2 c d f) -> (forall c d, ex1 c d = ex2 c d) ->
  forall fuel tb t v, dec rd1 ex1 fuel tb t v = dec rd2 ex2 fuel tb t v.
Proof.
  intros rd1 rd2 ex1 ex2 Hr He fuel. induction fuel as [|fu IH]; intros tb t v; [reflexivity|].
  cbn [dec]. destruct t as [|i|t'|t'|t'].
  - reflexivity.
  - destruct v as [z|d|l]; try reflexivity. destruct (nth_error tb i) as [nc|]; [|reflexivity].
    rewrite (obj_ext rd1 rd2 ex1 ex2 (dec rd1 ex1 fu tb) (dec rd2 ex2 fu tb) Hr He (IH tb)). reflexivity.
  - destruct v as [z|d|l]; try apply IH. destruct (Z.eqb z NONEZ); [reflexivity | apply IH].
  - destruct v as [z|d|l]; [reflexivity | now destruct d | now rewrite (map_ext_eq _ _ l (IH tb t'))].
  - destruct v as [z|d|l]; try reflexivity.
    now rewrite (map_ext_eq _ _ d (fun p => IH tb t' (snd p))).
Qed.

(* the generated code (on the kernels translated from /repo) and the reference agree at every depth *)
Theorem deep_impl_eq_ref : forall fuel tb k d, deep_impl fuel tb k d = deep_ref fuel tb k d.
Proof.
  intros. unfold deep_impl, deep_ref, deep. destruct (nth_error tb k) as [nc|]; [|reflexivity].
  assert (Hr: forall c d f, impl_rd c d f = field_read c d f).
  { intros c0 d0 f. unfold impl_rd, field_read. rewrite impl_alias_spec, impl_field_read_spec.
    now rewrite code_plan_candidates. }
  assert (He: forall c d, impl_ex c d = extra_keys c d).
  { intros c0 d0. unfold impl_ex, extra_keys. rewrite impl_filtered_spec, enc_filtered_ff, allowed_keys_spec.
    rewrite impl_forbidden_spec. apply filter_ext. intro x. fold (code_accepted c0). now rewrite code_accepted_members. }
  apply obj_ext; [exact Hr | exact He | apply dec_ext; assumption].
Qed.

(* a list of dataclasses: every element is decoded by the element class on its own; one bad element makes the
   whole field invalid *)
Theorem list_elementwise : forall rd ex fu tb t l,
  dec rd ex (S fu) tb (TList t) (VL l) = option_map RList (all_some (map (dec rd ex fu tb t) l)).
Proof. reflexivity. Qed.

(* the keys of a Dict[str, N] value are data: they are kept as they are, whatever the aliases of N or of the
   outer class say *)
Theorem map_keys_are_data : forall rd ex fu tb t d xs,
  all_some (map (fun p => dec rd ex fu tb t (snd p)) d) = Some xs ->
  dec rd ex (S fu) tb (TMap t) (VD d) = Some (RMap (combine (map fst d) xs)).
Proof. intros. cbn [dec]. now rewrite H. Qed.

(* ---- equality of results, for the harness ---- *)
Fixpoint rv_eqb (a b: rv) {struct a} : bool :=
  match a, b with
  | RZ x, RZ y => Z.eqb x y
  | RObj x, RObj y =>
      (fix go (l1 l2: list (string * option rv)) : bool :=
         match l1, l2 with
         | [], [] => true
         | (n1, r1) :: t1, (n2, r2) :: t2 =>
             String.eqb n1 n2 &&
             match r1, r2 with Some u, Some w => rv_eqb u w | None, None => true | _, _ => false end && go t1 t2
         | _, _ => false end) x y
  | RList x, RList y =>
      (fix go (l1 l2: list rv) : bool :=
         match l1, l2 with [], [] => true | u :: t1, w :: t2 => rv_eqb u w && go t1 t2 | _, _ => false end) x y
  | RMap x, RMap y =>
      (fix go (l1 l2: list (key * rv)) : bool :=
         match l1, l2 with
         | [], [] => true
         | (k1, u) :: t1, (k2, w) :: t2 => key_eqb k1 k2 && rv_eqb u w && go t1 t2
         | _, _ => false end) x y
  | _, _ => false
  end.

(* defaults are substituted by the harness-supplied values before comparing: None of a field = RZ default *)
Fixpoint fill (dfl: string -> Z) (r: rv) {struct r} : rv :=
  match r with
  | RZ z => RZ z
  | RObj vs => RObj ((fix go (l: list (string * option rv)) :=
                        match l with
                        | [] => []
                        | (n, Some x) :: t => (n, Some (fill dfl x)) :: go t
                        | (n, None) :: t => (n, Some (RZ (dfl n))) :: go t
                        end) vs)
  | RList l => RList ((fix go (l: list rv) := match l with [] => [] | x :: t => fill dfl x :: go t end) l)
  | RMap m => RMap ((fix go (l: list (key * rv)) := match l with [] => [] | (k, x) :: t => (k, fill dfl x) :: go t end) m)
  end.

Definition doutcome_eqb (dfl: string -> Z) (a b: doutcome) : bool :=
  match a, b with
  | DInst x, DInst y => rv_eqb (fill dfl (RObj x)) (RObj y)
  | DMissing x, DMissing y => String.eqb x y
  | DExtra x, DExtra y => list_eqb key_eqb x y
  | DInvalid x, DInvalid y => String.eqb x y
  | _, _ => false
  end.

Fixpoint dfl_of (l: list (string * Z)) (n: string) : Z :=
  match l with [] => 0%Z | (k, v) :: r => if String.eqb k n then v else dfl_of r n end.
