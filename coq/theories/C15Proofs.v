(* C15: proofs about the two-path model (C15Model.v): agreement of the mixin path and the codec
   path on exact-class values, compositionality, and the refutations (known findings). *)
From Coq Require Import List String Ascii ZArith Bool Lia.
From Verif Require Import C15Model.
Import ListNotations.
Open Scope string_scope.

(* ------------------------------------------------------------------ *)
(* induction principle for the rose tree of values                      *)
Section ValInd.
  Variable P : val -> Prop.
  Hypothesis HNone : P VNone.
  Hypothesis HInt : forall z, P (VInt z).
  Hypothesis HStr : forall s, P (VStr s).
  Hypothesis HDate : forall s, P (VDate s).
  Hypothesis HList : forall l, Forall P l -> P (VList l).
  Hypothesis HTuple : forall l, Forall P l -> P (VTuple l).
  Hypothesis HDict : forall kvs, Forall (fun kv => P (snd kv)) kvs -> P (VDict kvs).
  Hypothesis HObj : forall c fs, Forall (fun kv => P (snd kv)) fs -> P (VObj c fs).

  Fixpoint val_ind' (v: val) : P v :=
    match v with
    | VNone => HNone
    | VInt z => HInt z
    | VStr s => HStr s
    | VDate s => HDate s
    | VList l => HList l ((fix go (l: list val) : Forall P l :=
                             match l with [] => Forall_nil _ | x :: r => Forall_cons _ (val_ind' x) (go r) end) l)
    | VTuple l => HTuple l ((fix go (l: list val) : Forall P l :=
                               match l with [] => Forall_nil _ | x :: r => Forall_cons _ (val_ind' x) (go r) end) l)
    | VDict kvs => HDict kvs ((fix go (l: list (string * val)) : Forall (fun kv => P (snd kv)) l :=
                                 match l with
                                 | [] => Forall_nil _
                                 | kv :: r => Forall_cons (P:=fun kv => P (snd kv)) kv (match kv as kv0 return P (snd kv0) with (k, x) => val_ind' x end) (go r) end) kvs)
    | VObj c fs => HObj c fs ((fix go (l: list (string * val)) : Forall (fun kv => P (snd kv)) l :=
                                 match l with
                                 | [] => Forall_nil _
                                 | kv :: r => Forall_cons (P:=fun kv => P (snd kv)) kv (match kv as kv0 return P (snd kv0) with (k, x) => val_ind' x end) (go r) end) fs)
    end.
End ValInd.

(* ------------------------------------------------------------------ *)
(* generic lemmas                                                       *)
Definition is_err {A} (r: res A) : Prop := exists e, r = Err e.

Lemma mapM_ext_in {A B} (f g: A -> res B) l :
  (forall x, In x l -> f x = g x) -> mapM f l = mapM g l.
Proof.
  induction l as [|x r IH]; intros H; simpl; [reflexivity|].
  rewrite (H x (or_introl eq_refl)). rewrite IH; [reflexivity|].
  intros y Hy. apply H. right. exact Hy.
Qed.

Lemma mapM_ok {A B} (f: A -> res B) l :
  (forall x, In x l -> exists y, f x = Ok y) -> exists ys, mapM f l = Ok ys.
Proof.
  induction l as [|x r IH]; intros H; simpl; [eexists; reflexivity|].
  destruct (H x (or_introl eq_refl)) as [y Hy]. rewrite Hy.
  destruct IH as [ys Hys]; [intros z Hz; apply H; right; exact Hz|].
  rewrite Hys. eexists; reflexivity.
Qed.

Lemma mapM_err {A B} (f: A -> res B) l x :
  In x l -> is_err (f x) -> is_err (mapM f l).
Proof.
  induction l as [|a r IH]; intros Hin Herr; [destruct Hin|].
  simpl. destruct Hin as [->|Hin].
  - destruct Herr as [e He]. rewrite He. eexists; reflexivity.
  - destruct (f a); [|eexists; reflexivity].
    destruct (IH Hin Herr) as [e He]. rewrite He. eexists; reflexivity.
Qed.

Lemma mapM_map {A B C} (f: B -> res C) (g: A -> B) l :
  mapM f (map g l) = mapM (fun x => f (g x)) l.
Proof. induction l as [|x r IH]; simpl; [reflexivity|]. rewrite IH. reflexivity. Qed.

Lemma fmap_err {A B} (h: A -> B) r : is_err r -> is_err (fmap h r).
Proof. intros [e ->]. eexists; reflexivity. Qed.

Lemma assoc_map {A B} (F: A -> B) (fs: list (string * A)) k :
  assoc (map (fun kv => match kv with (k', x) => (k', F x) end) fs) k = option_map F (assoc fs k).
Proof.
  induction fs as [|[k' x] r IH]; simpl; [reflexivity|].
  destruct (String.eqb k' k); [reflexivity|exact IH].
Qed.

Lemma assoc_none {A} (fs: list (string * A)) k :
  ~ In k (map fst fs) -> assoc fs k = None.
Proof.
  induction fs as [|[k' x] r IH]; simpl; intros H; [reflexivity|].
  destruct (String.eqb_spec k' k) as [->|Hne]; [exfalso; apply H; left; reflexivity|].
  apply IH. intros Hin. apply H. right. exact Hin.
Qed.

Lemma find_cls_In E c d : find_cls E c = Some d -> In d E /\ c_name d = c.
Proof.
  induction E as [|d' r IH]; simpl; [discriminate|].
  destruct (String.eqb_spec (c_name d') c) as [Heq|Hne].
  - intros H. inversion H; subst. split; [left; reflexivity|reflexivity].
  - intros H. destruct (IH H) as [Hin Hn]. split; [right; exact Hin|exact Hn].
Qed.

Lemma str_in_In s l : str_in s l = true <-> In s l.
Proof.
  unfold str_in. rewrite existsb_exists. split.
  - intros [x [Hin Heq]]. apply String.eqb_eq in Heq. subst. exact Hin.
  - intros Hin. exists s. split; [exact Hin|apply String.eqb_refl].
Qed.

Lemma nodupb_NoDup l : nodupb l = true -> NoDup l.
Proof.
  induction l as [|x r IH]; simpl; intros H; [constructor|].
  apply andb_true_iff in H. destruct H as [H1 H2]. constructor; [|apply IH; exact H2].
  intros Hin. apply str_in_In in Hin. rewrite Hin in H1. discriminate.
Qed.

(* ------------------------------------------------------------------ *)
(* unfolding equations of pack / exact                                  *)
Section Eqns.
  Variables (E: env) (m: mode) (call dflt: opts).
  Notation pk := (pack E m call dflt).

  Lemma pack_TUnion v ts :
    pk v (TUnion ts) =
      if forallb copy_ident ts then Ok v
      else if existsb (fun t' => id_class_match t' v) ts then Ok v
      else tries m (pk v) ts.
  Proof. destruct v; reflexivity. Qed.

  Lemma pack_TOpt v t' :
    pk v (TOpt t') = match v with VNone => Ok VNone | _ => pk v t' end.
  Proof. destruct v; reflexivity. Qed.

  Lemma pack_TList_list l t' :
    pk (VList l) (TList t') =
      if copy_ident t' then Ok (VList l) else fmap VList (mapM (fun x => pk x t') l).
  Proof. reflexivity. Qed.

  Lemma pack_TDict_dict kvs t' :
    pk (VDict kvs) (TDict t') =
      if copy_ident t' then Ok (VDict kvs)
      else fmap VDict (mapM (fun kv => match kv with
                                       | (k, x) => match pk x t' with Ok y => Ok (k, y) | Err e => Err e end
                                       end) kvs).
  Proof. reflexivity. Qed.

  Lemma pack_TTuple_tuple l ts :
    pk (VTuple l) (TTuple ts) =
      match ts with [] => Ok (VList []) | _ => fmap VList (tuple_cl (map pk l) ts) end.
  Proof. reflexivity. Qed.

  Lemma pack_TData_obj rc fs c :
    pk (VObj rc fs) (TData c) =
      match target E m c rc with
      | Some d => pack_fields_cl call dflt d (map (fun kv => match kv with (k, x) => (k, (x, pk x)) end) fs)
      | None => Err XRaw
      end.
  Proof. reflexivity. Qed.

  Lemma exact_TUnion v ts : exact E v (TUnion ts) = existsb (exact E v) ts.
  Proof. destruct v; reflexivity. Qed.

  Lemma exact_TOpt v t' : exact E v (TOpt t') = match v with VNone => true | _ => exact E v t' end.
  Proof. destruct v; reflexivity. Qed.
End Eqns.

(* ------------------------------------------------------------------ *)
(* union skeleton                                                       *)
Lemma tries_unique_ok m f l y :
  (forall t', In t' l -> copy_ident t' = false -> f t' = Ok y \/ is_err (f t')) ->
  (exists t', In t' l /\ copy_ident t' = false /\ f t' = Ok y) ->
  tries m f l = Ok y.
Proof.
  induction l as [|t r IH]; intros Hall [t' [Hin [Hc Hok]]]; [destruct Hin|].
  simpl. destruct (copy_ident t) eqn:Hct.
  - apply IH.
    + intros u Hu. apply Hall. right. exact Hu.
    + destruct Hin as [->|Hin]; [rewrite Hc in Hct; discriminate|].
      exists t'. repeat split; assumption.
  - destruct (Hall t (or_introl eq_refl) Hct) as [Hy|[e He]].
    + rewrite Hy. reflexivity.
    + rewrite He. apply IH.
      * intros u Hu. apply Hall. right. exact Hu.
      * destruct Hin as [->|Hin]; [rewrite He in Hok; discriminate|].
        exists t'. repeat split; assumption.
Qed.

Lemma id_match_int ts z : In TInt ts -> existsb (fun t' => id_class_match t' (VInt z)) ts = true.
Proof. intros H. apply existsb_exists. exists TInt. split; [exact H|reflexivity]. Qed.
Lemma id_match_str ts s : In TStr ts -> existsb (fun t' => id_class_match t' (VStr s)) ts = true.
Proof. intros H. apply existsb_exists. exists TStr. split; [exact H|reflexivity]. Qed.

Lemma in_data_members c ts : In (TData c) ts <-> In c (data_members ts).
Proof.
  unfold data_members. rewrite in_flat_map. split.
  - intros H. exists (TData c). split; [exact H|left; reflexivity].
  - intros [t [Hin Hc]]. destruct t; simpl in Hc; try destruct Hc as [Hc|[]]; try destruct Hc.
    subst. exact Hin.
Qed.

(* ------------------------------------------------------------------ *)
(* dispatch                                                             *)
Lemma dispatch_self E c : dispatch E c c = Some c.
Proof. unfold dispatch. simpl. rewrite String.eqb_refl. reflexivity. Qed.

Lemma dispatch_has E a b : has_method E b = true -> dispatch E a b = Some b.
Proof. intros H. unfold dispatch. simpl. rewrite H. rewrite orb_true_r. reflexivity. Qed.

(* ------------------------------------------------------------------ *)
(* class-table extension: what creating further classes may do to the table.  Existing classes
   keep name, base, fields and Config; a class may GAIN its own __mashumaro_to_dict__ (a nailed
   builder compiled it); new classes appear under new names. *)
Definition same_shape (d d': cdef) : Prop :=
  c_name d = c_name d' /\ c_parent d = c_parent d' /\ c_fields d = c_fields d' /\
  (c_by_alias d = c_by_alias d' /\ c_omit_none d = c_omit_none d') /\
  (c_omit_default d = c_omit_default d' /\ c_defaults d = c_defaults d') /\
  (c_sort_keys d = c_sort_keys d' /\ c_forbid_extra d = c_forbid_extra d' /\ c_allow_by_name d = c_allow_by_name d') /\
  (c_has_method d = true -> c_has_method d' = true).
Definition extends (E X: env) : Prop :=
  forall c d, find_cls E c = Some d -> exists d', find_cls X c = Some d' /\ same_shape d d'.

Lemma same_shape_refl d : same_shape d d.
Proof. repeat split; auto. Qed.
Lemma extends_refl E : extends E E.
Proof. intros c d H. exists d. split; [exact H|apply same_shape_refl]. Qed.
Lemma extends_trans E1 E2 E3 : extends E1 E2 -> extends E2 E3 -> extends E1 E3.
Proof.
  intros H12 H23 c d H. destruct (H12 c d H) as [d2 [H2 [S1 [S2 [S3 [[S4 S4'] [[S9 S10] [[S6 [S7 S8]] S5]]]]]]]].
  destruct (H23 c d2 H2) as [d3 [H3 [T1 [T2 [T3 [[T4 T4'] [[T9 T10] [[T6 [T7 T8]] T5]]]]]]]].
  exists d3. split; [exact H3|]. repeat split; try congruence. intros Hm. apply T5, S5, Hm.
Qed.

Lemma has_method_mono E X c : extends E X -> has_method E c = true -> has_method X c = true.
Proof.
  intros Hext. unfold has_method. destruct (find_cls E c) as [d|] eqn:Hf; [|discriminate].
  destruct (Hext c d Hf) as [d' [Hf' [_ [_ [_ [_ [_ [_ Hm]]]]]]]]. rewrite Hf'. exact Hm.
Qed.

Lemma In_insert_field f g l : In g (insert_field f l) <-> f = g \/ In g l.
Proof.
  induction l as [|h r IH]; simpl; [tauto|].
  destruct (String.leb (f_name f) (f_name h)); simpl; [tauto|]. rewrite IH. tauto.
Qed.
Lemma In_sort_fields g l : In g (sort_fields l) <-> In g l.
Proof.
  induction l as [|h r IH]; simpl; [tauto|]. rewrite In_insert_field, IH. tauto.
Qed.
Lemma In_pack_order d f : In f (pack_order d) <-> In f (c_fields d).
Proof. unfold pack_order. destruct (c_sort_keys d); [apply In_sort_fields|tauto]. Qed.
Lemma pack_order_shape d d' : same_shape d d' -> pack_order d' = pack_order d.
Proof. intros [_ [_ [Hf [_ [_ [[Hs _] _]]]]]]. unfold pack_order. rewrite Hf, Hs. reflexivity. Qed.
Lemma pack_order_nonempty d : c_fields d <> [] -> pack_order d <> [].
Proof.
  intros Hne Hp. destruct (c_fields d) as [|f r] eqn:Hf; [contradiction|].
  assert (In f (pack_order d)) by (apply In_pack_order; rewrite Hf; left; reflexivity).
  rewrite Hp in H. destruct H.
Qed.

(* ------------------------------------------------------------------ *)
(* master lemma: on a value that is exact w.r.t. the table E, ANY path [m] run in ANY extension X
   of E gives the result of the codec path in E - and that result is a success.
   Instances: X = E, m = Mixin  -> the two paths agree;
              X = E', m = m     -> frame (creating classes changes nothing).                  *)
Section Agree.
  (* [c1 d1]: the dialect layers (call, default) of the path under test; [c2 d2]: those of the reference *)
  Variables (E X: env) (m: mode) (c1 d1 c2 d2: opts).
  Hypothesis Hext : extends E X.
  Hypothesis Henv : no_lookalike_env E = true.
  (* the two layerings resolve every option of every class alike *)
  Hypothesis Hopts : forall d d', In d E -> same_shape d d' ->
    eff_by_alias c1 d1 d' = eff_by_alias c2 d2 d /\ eff_omit_none c1 d1 d' = eff_omit_none c2 d2 d /\
    eff_omit_default c1 d1 d' = eff_omit_default c2 d2 d.
  Hypothesis Hnames : names_ok E = true.

  Notation pm := (pack X m c1 d1).
  Notation pc := (pack E Codec c2 d2).
  Notation closX := (fun kv : string * val => match kv with (k, x) => (k, (x, pack X m c1 d1 x)) end).
  Notation closE := (fun kv : string * val => match kv with (k, x) => (k, (x, pack E Codec c2 d2 x)) end).
  Notation eclos := (fun kv : string * val => match kv with (k, x) => (k, exact E x) end).

  Definition good (v: val) : Prop :=
    forall t, exact E v t = true -> no_lookalike_ty E t = true ->
      pm v t = pc v t /\ exists y, pc v t = Ok y.

  Lemma key_eq d d' f : In d E -> same_shape d d' -> key_of c1 d1 d' f = key_of c2 d2 d f.
  Proof. intros Hin Hsh. unfold key_of. rewrite (proj1 (Hopts d d' Hin Hsh)). reflexivity. Qed.

  Lemma drop_eq d d' f x : In d E -> same_shape d d' -> drop_field c1 d1 d' f x = drop_field c2 d2 d f x.
  Proof.
    intros Hin Hsh. destruct (Hopts d d' Hin Hsh) as [_ [Hon Hod]].
    destruct Hsh as [_ [_ [_ [_ [[_ Hdef] _]]]]].
    unfold drop_field. rewrite Hon, Hod, <- Hdef. reflexivity.
  Qed.

  Lemma field_ty_ok d f : In d E -> In f (c_fields d) -> no_lookalike_ty E (f_ty f) = true.
  Proof.
    intros Hd Hf. unfold no_lookalike_env in Henv. rewrite forallb_forall in Henv.
    specialize (Henv d Hd). rewrite forallb_forall in Henv. exact (Henv f Hf).
  Qed.

  Lemma fields_nodup d : In d E -> NoDup (map f_name (c_fields d)).
  Proof.
    intros Hd. unfold names_ok in Hnames. rewrite forallb_forall in Hnames.
    apply nodupb_NoDup. exact (Hnames d Hd).
  Qed.

  Lemma exact_fields_names fs flds :
    exact_fields (map eclos fs) flds = true -> map fst fs = map f_name flds.
  Proof.
    revert flds. induction fs as [|[k x] r IH]; intros [|f0 fr]; simpl; try discriminate; [reflexivity|].
    intros H. apply andb_true_iff in H. destruct H as [H H3]. apply andb_true_iff in H. destruct H as [H1 H2].
    apply String.eqb_eq in H1. subst. f_equal. apply IH. exact H3.
  Qed.

  Lemma exact_fields_assoc fs flds :
    exact_fields (map eclos fs) flds = true -> NoDup (map f_name flds) ->
    forall f, In f flds ->
      exists x, assoc fs (f_name f) = Some x /\ In (f_name f, x) fs /\ exact E x (f_ty f) = true.
  Proof.
    revert flds. induction fs as [|[k x] r IH]; intros [|f0 fr]; simpl; try discriminate.
    - intros _ _ f [].
    - intros H ND f Hin.
      apply andb_true_iff in H. destruct H as [H H3]. apply andb_true_iff in H. destruct H as [H1 H2].
      apply String.eqb_eq in H1. subst k. inversion ND as [|? ? Hnotin ND']; subst.
      destruct Hin as [->|Hin].
      + exists x. rewrite String.eqb_refl. repeat split; [left; reflexivity|exact H2].
      + destruct (String.eqb_spec (f_name f0) (f_name f)) as [Heq|Hne].
        * exfalso. apply Hnotin. rewrite Heq. apply in_map. exact Hin.
        * destruct (IH fr H3 ND' f Hin) as [x' [Ha [Hi He]]].
          exists x'. repeat split; [exact Ha|right; exact Hi|exact He].
  Qed.

  (* the generated dataclass packer on an exact instance *)
  Lemma pack_fields_good d d' fs :
    In d E -> same_shape d d' ->
    exact_fields (map eclos fs) (c_fields d) = true ->
    Forall (fun kv => good (snd kv)) fs ->
    pack_fields_cl c1 d1 d' (map closX fs) = pack_fields_cl c2 d2 d (map closE fs) /\
    exists y, pack_fields_cl c2 d2 d (map closE fs) = Ok y.
  Proof.
    intros Hd Hsh Hex Hall. unfold pack_fields_cl.
    rewrite (pack_order_shape d d' Hsh).
    assert (Hf: forall f, In f (pack_order d) ->
              exists x y, assoc fs (f_name f) = Some x /\ pm x (f_ty f) = Ok y /\ pc x (f_ty f) = Ok y).
    { intros f Hf. apply In_pack_order in Hf. destruct (exact_fields_assoc fs (c_fields d) Hex (fields_nodup d Hd) f Hf) as [x [Ha [Hi He]]].
      rewrite Forall_forall in Hall. specialize (Hall _ Hi). simpl in Hall.
      destruct (Hall (f_ty f) He (field_ty_ok d f Hd Hf)) as [Heq [y Hy]].
      exists x, y. repeat split; [exact Ha|rewrite Heq; exact Hy|exact Hy]. }
    split.
    - f_equal. apply mapM_ext_in. intros f Hin. destruct (Hf f Hin) as [x [y [Ha [Hm Hc]]]].
      rewrite (assoc_map (fun x => (x, pack X m c1 d1 x))), (assoc_map (fun x => (x, pack E Codec c2 d2 x))).
      rewrite Ha. simpl. rewrite (drop_eq d d' f x Hd Hsh).
      destruct (drop_field c2 d2 d f x); [reflexivity|].
      rewrite Hm, Hc. rewrite (key_eq d d' f Hd Hsh). reflexivity.
    - destruct (mapM_ok (fun f => match assoc (map closE fs) (f_name f) with
                                  | None => Err XRaw
                                  | Some (x, g) =>
                                      if drop_field c2 d2 d f x then Ok []
                                      else match g (f_ty f) with
                                           | Ok y => Ok [(key_of c2 d2 d f, y)]
                                           | Err e => Err e end end) (pack_order d)) as [ys Hys].
      + intros f Hin. destruct (Hf f Hin) as [x [y [Ha [Hm Hc]]]].
        rewrite (assoc_map (fun x => (x, pack E Codec c2 d2 x))). rewrite Ha. simpl.
        destruct (drop_field c2 d2 d f x); [eexists; reflexivity|].
        rewrite Hc. eexists; reflexivity.
      + rewrite Hys. eexists; reflexivity.
  Qed.

  Lemma exact_obj_inv rc fs c :
    exact E (VObj rc fs) (TData c) = true ->
    rc = c /\ exists d, find_cls E c = Some d /\ exact_fields (map eclos fs) (c_fields d) = true.
  Proof.
    simpl. intros H. apply andb_true_iff in H. destruct H as [H1 H2].
    apply String.eqb_eq in H1. split; [exact H1|].
    destruct (find_cls E c) as [d|]; [|discriminate]. exists d. split; [reflexivity|exact H2].
  Qed.

  Lemma target_self c d :
    find_cls E c = Some d -> exists d', target X m c c = Some d' /\ same_shape d d'.
  Proof.
    intros Hf. destruct (Hext c d Hf) as [d' [Hf' Hsh]]. exists d'. split; [|exact Hsh].
    unfold target. destruct m; [rewrite dispatch_self|]; exact Hf'.
  Qed.

  Lemma data_good c fs :
    Forall (fun kv => good (snd kv)) fs ->
    exact E (VObj c fs) (TData c) = true ->
    pm (VObj c fs) (TData c) = pc (VObj c fs) (TData c) /\ exists y, pc (VObj c fs) (TData c) = Ok y.
  Proof.
    intros Hall Hex. destruct (exact_obj_inv _ _ _ Hex) as [_ [d [Hfind Hfs]]].
    destruct (target_self c d Hfind) as [d' [Ht Hsh]].
    assert (Htc: target E Codec c c = Some d) by (unfold target; exact Hfind).
    rewrite !pack_TData_obj. rewrite Ht, Htc.
    apply pack_fields_good; [exact (proj1 (find_cls_In _ _ _ Hfind))|exact Hsh|exact Hfs|exact Hall].
  Qed.

  (* dynamic dispatch: any member's call reaches the runtime class's own method *)
  Lemma mixin_dynamic a b fs :
    has_method X b = true -> pack X Mixin c1 d1 (VObj b fs) (TData a) = pack X Mixin c1 d1 (VObj b fs) (TData b).
  Proof.
    intros H. rewrite !pack_TData_obj. unfold target. rewrite (dispatch_has X a b H), dispatch_self. reflexivity.
  Qed.

  (* static dispatch of another member's packer fails on a distinguishable instance *)
  Lemma codec_static_err Y ca da_ a b fs :
    extends E Y ->
    exact E (VObj b fs) (TData b) = true -> distinguishes E a b = true ->
    is_err (pack Y Codec ca da_ (VObj b fs) (TData a)).
  Proof.
    intros HextY Hex Hdist. destruct (exact_obj_inv _ _ _ Hex) as [_ [db [Hfb Hfs]]].
    unfold distinguishes in Hdist. rewrite Hfb in Hdist.
    destruct (find_cls E a) as [da|] eqn:Hfa; [|discriminate].
    destruct (HextY a da Hfa) as [da' [Hfa' Hsh]].
    apply existsb_exists in Hdist. destruct Hdist as [n [Hn Hnot]].
    rewrite pack_TData_obj. unfold target. rewrite Hfa'. unfold pack_fields_cl. rewrite (pack_order_shape da da' Hsh).
    apply fmap_err. unfold field_names in Hn. apply in_map_iff in Hn. destruct Hn as [f [Hfn Hf]].
    apply (mapM_err _ _ f (proj2 (In_pack_order da f) Hf)).
    rewrite (assoc_map (fun x => (x, pack Y Codec ca da_ x))). rewrite assoc_none; [simpl; eexists; reflexivity|].
    rewrite (exact_fields_names _ _ Hfs). intros Hin. rewrite Hfn in Hin.
    apply negb_true_iff in Hnot. apply str_in_In in Hin. unfold field_names in Hnot. rewrite Hin in Hnot. discriminate.
  Qed.

  Lemma nonobj_err Y m' ca da_ a v :
    extends E Y ->
    (forall rc fs, v <> VObj rc fs) ->
    (exists da, find_cls E a = Some da /\ c_fields da <> []) ->
    is_err (pack Y m' ca da_ v (TData a)).
  Proof.
    intros HextY Hv [da [Hfa Hne]].
    destruct (HextY a da Hfa) as [da' [Hfa' Hsh]].
    pose proof (pack_order_nonempty da Hne) as Hpo.
    destruct v; try (destruct m'; simpl; [eexists; reflexivity|];
                     rewrite Hfa'; unfold pack_fields_cl; rewrite (pack_order_shape da da' Hsh);
                     destruct (pack_order da) as [|f fr];
                     [contradiction|simpl; eexists; reflexivity]).
    exfalso. eapply Hv. reflexivity.
  Qed.

  Lemma union_member_facts ts a :
    union_ok E ts = true -> In (TData a) ts ->
    (exists da, find_cls E a = Some da /\ c_fields da <> []) /\ has_method E a = true /\
    (forall b, In (TData b) ts -> a = b \/ distinguishes E a b = true).
  Proof.
    intros Hok Hin. unfold union_ok in Hok. apply andb_true_iff in Hok. destruct Hok as [_ Hok].
    rewrite forallb_forall in Hok. specialize (Hok a (proj1 (in_data_members a ts) Hin)).
    apply andb_true_iff in Hok. destruct Hok as [H1 H2].
    destruct (find_cls E a) as [da|] eqn:Hfa; [|discriminate].
    apply andb_true_iff in H1. destruct H1 as [H1 Hm].
    split; [|split].
    - exists da. split; [reflexivity|]. destruct (c_fields da); [discriminate|discriminate].
    - unfold has_method. rewrite Hfa. exact Hm.
    - intros b Hb. rewrite forallb_forall in H2. specialize (H2 b (proj1 (in_data_members b ts) Hb)).
      apply orb_true_iff in H2. destruct H2 as [H2|H2]; [left; apply String.eqb_eq; exact H2|right; exact H2].
  Qed.

  Lemma simple_of_union ts t' : union_ok E ts = true -> In t' ts -> simple_member t' = true.
  Proof.
    intros Hok Hin. unfold union_ok in Hok. apply andb_true_iff in Hok. destruct Hok as [Hs _].
    rewrite forallb_forall in Hs. exact (Hs t' Hin).
  Qed.

  Lemma union_case v ts :
    (forall b fs, v = VObj b fs -> exact E v (TData b) = true ->
        exists y, pm v (TData b) = Ok y /\ pc v (TData b) = Ok y) ->
    exact E v (TUnion ts) = true -> union_ok E ts = true ->
    pm v (TUnion ts) = pc v (TUnion ts) /\ exists y, pc v (TUnion ts) = Ok y.
  Proof.
    intros HD Hex Hok. rewrite !pack_TUnion.
    destruct (forallb copy_ident ts); [split; [reflexivity|eexists; reflexivity]|].
    destruct (existsb (fun t' => id_class_match t' v) ts) eqn:Hid; [split; [reflexivity|eexists; reflexivity]|].
    rewrite exact_TUnion in Hex. apply existsb_exists in Hex. destruct Hex as [t' [Hin Hext']].
    pose proof (simple_of_union ts t' Hok Hin) as Hs.
    destruct t'; try discriminate Hs.
    - (* TInt *) destruct v; try discriminate Hext'. rewrite (id_match_int ts z Hin) in Hid. discriminate.
    - (* TStr *) destruct v; try discriminate Hext'. rewrite (id_match_str ts s Hin) in Hid. discriminate.
    - (* TDate *) destruct v; try discriminate Hext'.
      assert (Hm: tries m (pm (VDate s)) ts = Ok (VStr s)).
      { apply tries_unique_ok.
        - intros u Hu Hc. pose proof (simple_of_union ts u Hok Hu) as Hsu.
          destruct u; try discriminate Hsu; try discriminate Hc.
          + left. destruct m; reflexivity.
          + right. apply nonobj_err; [exact Hext|intros; discriminate|].
            exact (proj1 (union_member_facts ts c Hok Hu)).
        - exists TDate. split; [exact Hin|split; [reflexivity|destruct m; reflexivity]]. }
      assert (Hc: tries Codec (pc (VDate s)) ts = Ok (VStr s)).
      { apply tries_unique_ok.
        - intros u Hu Hc. pose proof (simple_of_union ts u Hok Hu) as Hsu.
          destruct u; try discriminate Hsu; try discriminate Hc.
          + left. reflexivity.
          + right. apply nonobj_err; [apply extends_refl|intros; discriminate|].
            exact (proj1 (union_member_facts ts c Hok Hu)).
        - exists TDate. split; [exact Hin|split; reflexivity]. }
      rewrite Hm, Hc. split; [reflexivity|eexists; reflexivity].
    - (* TData *) destruct v as [| | | | | | |rc fs]; try discriminate Hext'.
      destruct (exact_obj_inv _ _ _ Hext') as [Hrc _]. subst rc.
      destruct (HD c fs eq_refl Hext') as [y [Hmy Hcy]].
      destruct (union_member_facts ts c Hok Hin) as [_ [Hmeth _]].
      assert (Hm: tries m (pm (VObj c fs)) ts = Ok y).
      { apply tries_unique_ok.
        - intros u Hu Hc. pose proof (simple_of_union ts u Hok Hu) as Hsu.
          destruct u; try discriminate Hsu; try discriminate Hc.
          + right. destruct m; eexists; reflexivity.
          + destruct (union_member_facts ts c0 Hok Hu) as [_ [_ Hd]].
            revert Hmy. destruct m; intros Hmy.
            * left. rewrite (mixin_dynamic c0 c fs (has_method_mono E X c Hext Hmeth)). exact Hmy.
            * destruct (Hd c Hin) as [->|Hdist]; [left; exact Hmy|right].
              apply codec_static_err; assumption.
        - exists (TData c). split; [exact Hin|split; [reflexivity|exact Hmy]]. }
      assert (Hc: tries Codec (pc (VObj c fs)) ts = Ok y).
      { apply tries_unique_ok.
        - intros u Hu Hc. pose proof (simple_of_union ts u Hok Hu) as Hsu.
          destruct u; try discriminate Hsu; try discriminate Hc.
          + right. eexists. reflexivity.
          + destruct (union_member_facts ts c0 Hok Hu) as [_ [_ Hd]].
            destruct (Hd c Hin) as [->|Hdist]; [left; exact Hcy|right].
            apply codec_static_err; [apply extends_refl|assumption|assumption].
        - exists (TData c). split; [exact Hin|split; [reflexivity|exact Hcy]]. }
      rewrite Hm, Hc. split; [reflexivity|eexists; reflexivity].
  Qed.

  Lemma good_by_cases v :
    (forall b fs, v = VObj b fs -> exact E v (TData b) = true ->
        exists y, pm v (TData b) = Ok y /\ pc v (TData b) = Ok y) ->
    (forall t, match t with TOpt _ | TUnion _ => False | _ => True end ->
        exact E v t = true -> no_lookalike_ty E t = true ->
        pm v t = pc v t /\ exists y, pc v t = Ok y) ->
    good v.
  Proof.
    intros HD Hbase t.
    induction t; intros Hex Hty; try (apply Hbase; [exact I|exact Hex|exact Hty]).
    - (* TOpt *) rewrite !pack_TOpt. rewrite exact_TOpt in Hex. simpl in Hty.
      destruct v; try (apply IHt; [exact Hex|exact Hty]).
      split; [reflexivity|eexists; reflexivity].
    - (* TUnion *) apply union_case; [exact HD|exact Hex|exact Hty].
  Qed.

  Lemma tuple_good l ts :
    Forall good l -> exact_zip (map (exact E) l) ts = true -> forallb (no_lookalike_ty E) ts = true ->
    tuple_cl (map pm l) ts = tuple_cl (map pc l) ts /\ exists ys, tuple_cl (map pc l) ts = Ok ys.
  Proof.
    revert ts. induction l as [|x r IH]; intros [|t tr] Hall Hex Hty; simpl in *; try discriminate.
    - split; [reflexivity|eexists; reflexivity].
    - inversion Hall as [|? ? Hx Hr]; subst.
      apply andb_true_iff in Hex. destruct Hex as [Hex1 Hex2].
      apply andb_true_iff in Hty. destruct Hty as [Hty1 Hty2].
      destruct (Hx t Hex1 Hty1) as [Heq [y Hy]]. rewrite Heq, Hy.
      destruct (IH tr Hr Hex2 Hty2) as [Heq2 [ys Hys]]. rewrite Heq2, Hys.
      split; [reflexivity|eexists; reflexivity].
  Qed.

  Theorem all_good : forall v, good v.
  Proof.
    induction v using val_ind';
      (apply good_by_cases;
       [ try (intros b fs0 Heq; discriminate Heq)
       | intros t Hh Hex Hty; destruct t; try contradiction; try (simpl in Hex; discriminate Hex) ]).
    - (* VInt / TInt *) split; [reflexivity|eexists; reflexivity].
    - (* VStr / TStr *) split; [reflexivity|eexists; reflexivity].
    - (* VDate / TDate *) split; [reflexivity|eexists; reflexivity].
    - (* VList / TList *)
      rewrite !pack_TList_list. destruct (copy_ident t); [split; [reflexivity|eexists; reflexivity]|].
      simpl in Hex, Hty. rewrite forallb_forall in Hex. rewrite Forall_forall in H.
      assert (Hx: forall x, In x l -> pm x t = pc x t /\ exists y, pc x t = Ok y).
      { intros x Hin. exact (H x Hin t (Hex x Hin) Hty). }
      rewrite (mapM_ext_in (fun x => pm x t) (fun x => pc x t) l (fun x Hin => proj1 (Hx x Hin))).
      destruct (mapM_ok (fun x => pc x t) l (fun x Hin => proj2 (Hx x Hin))) as [ys Hys].
      rewrite Hys. split; [reflexivity|eexists; reflexivity].
    - (* VTuple / TTuple *)
      rewrite !pack_TTuple_tuple. simpl in Hex, Hty.
      destruct (tuple_good l ts H Hex Hty) as [Heq [ys Hys]]. rewrite Heq, Hys.
      destruct ts; split; try reflexivity; eexists; reflexivity.
    - (* VDict / TDict *)
      rewrite !pack_TDict_dict. destruct (copy_ident t); [split; [reflexivity|eexists; reflexivity]|].
      simpl in Hex, Hty. rewrite forallb_forall in Hex. rewrite Forall_forall in H.
      assert (Hx: forall kv, In kv kvs -> pm (snd kv) t = pc (snd kv) t /\ exists y, pc (snd kv) t = Ok y).
      { intros [k x] Hin. simpl. exact (H (k, x) Hin t (Hex (k, x) Hin) Hty). }
      rewrite (mapM_ext_in
                 (fun kv : string * val => match kv with (k, x) => match pm x t with Ok y => Ok (k, y) | Err e => Err e end end)
                 (fun kv : string * val => match kv with (k, x) => match pc x t with Ok y => Ok (k, y) | Err e => Err e end end) kvs).
      2:{ intros [k x] Hin. pose proof (proj1 (Hx (k, x) Hin)) as Hq. simpl in Hq. rewrite Hq. reflexivity. }
      destruct (mapM_ok (fun kv : string * val => match kv with (k, x) => match pc x t with Ok y => Ok (k, y) | Err e => Err e end end) kvs) as [ys Hys].
      { intros [k x] Hin. destruct (proj2 (Hx (k, x) Hin)) as [y Hy]. simpl in Hy. rewrite Hy. eexists; reflexivity. }
      rewrite Hys. split; [reflexivity|eexists; reflexivity].
    - (* VObj: the dataclass facts needed by the union case *)
      intros b fs0 Heq Hex. inversion Heq; subst.
      destruct (data_good b fs0 H Hex) as [Heq2 [y Hy]]. exists y. split; [rewrite Heq2; exact Hy|exact Hy].
    - (* VObj / TData *)
      destruct (exact_obj_inv _ _ _ Hex) as [Hrc _]. subst c.
      exact (data_good c0 fs H Hex).
  Qed.
End Agree.

(* how the two placements of ONE dialect resolve: call-time (mixin) vs default (codec) *)
Lemma opt_swap o c : opt_compat o c = true ->
  opt_or o (opt_or c (opt_or None false)) = opt_or None (opt_or c (opt_or o false)).
Proof.
  unfold opt_compat. destruct o as [b|], c as [b'|]; simpl; intros H; try reflexivity.
  apply Bool.eqb_prop in H. subst. reflexivity.
Qed.

Lemma layers_swap E o : dialect_compat_o E o = true ->
  forall d d', In d E -> same_shape d d' ->
    eff_by_alias o no_opts d' = eff_by_alias no_opts o d /\ eff_omit_none o no_opts d' = eff_omit_none no_opts o d /\
    eff_omit_default o no_opts d' = eff_omit_default no_opts o d.
Proof.
  intros Hc d d' Hin [_ [_ [_ [[Hba Hon] [[Hod _] _]]]]]. unfold dialect_compat_o in Hc. rewrite forallb_forall in Hc.
  specialize (Hc d Hin). apply andb_true_iff in Hc. destruct Hc as [Hc H3].
  apply andb_true_iff in Hc. destruct Hc as [H1 H2].
  unfold eff_by_alias, eff_omit_none, eff_omit_default. rewrite <- Hba, <- Hon, <- Hod. simpl o_by_alias. simpl o_omit_none. simpl o_omit_default.
  repeat split; apply opt_swap; assumption.
Qed.

Lemma layers_same c0 d0 : forall (E: env) d d', In d E -> same_shape d d' ->
    eff_by_alias c0 d0 d' = eff_by_alias c0 d0 d /\ eff_omit_none c0 d0 d' = eff_omit_none c0 d0 d /\
    eff_omit_default c0 d0 d' = eff_omit_default c0 d0 d.
Proof.
  intros E d d' _ [_ [_ [_ [[Hba Hon] [[Hod _] _]]]]]. unfold eff_by_alias, eff_omit_none, eff_omit_default.
  rewrite Hba, Hon, Hod. repeat split; reflexivity.
Qed.

Theorem agree_exact_o E o t v :
  no_lookalike_union E t = true -> dialect_compat_o E o = true -> names_ok E = true ->
  exact E v t = true ->
  run_pack_o E Mixin o t v = run_pack_o E Codec o t v /\ exists y, run_pack_o E Codec o t v = Ok y.
Proof.
  intros Hl Hd Hn Hex. unfold no_lookalike_union in Hl. apply andb_true_iff in Hl. destruct Hl as [Ht He].
  exact (all_good E E Mixin o no_opts no_opts o (extends_refl E) He (layers_swap E o Hd) Hn v t Hex Ht).
Qed.

Theorem agree_exact E dl t v :
  no_lookalike_union E t = true -> dialect_compat E dl = true -> names_ok E = true ->
  exact E v t = true ->
  run_pack E Mixin dl t v = run_pack E Codec dl t v.
Proof. intros Hl Hd Hn Hex. exact (proj1 (agree_exact_o E (mkO dl None None) t v Hl Hd Hn Hex)). Qed.

Theorem exact_serializes E dl t v :
  no_lookalike_union E t = true -> dialect_compat E dl = true -> names_ok E = true ->
  exact E v t = true ->
  exists y, run_pack E Codec dl t v = Ok y /\ run_pack E Mixin dl t v = Ok y.
Proof.
  intros Hl Hd Hn Hex. destruct (agree_exact_o E (mkO dl None None) t v Hl Hd Hn Hex) as [Heq [y Hy]].
  exists y. unfold run_pack. rewrite Heq. split; exact Hy.
Qed.

(* frame: running any path in an extended table gives what it gave before *)
Theorem frame_exact_o E X m o t v :
  extends E X ->
  no_lookalike_union E t = true -> dialect_compat_o E o = true -> names_ok E = true ->
  exact E v t = true ->
  run_pack_o X m o t v = run_pack_o E m o t v.
Proof.
  intros Hext Hl Hd Hn Hex. unfold no_lookalike_union in Hl. apply andb_true_iff in Hl. destruct Hl as [Ht He].
  destruct m; unfold run_pack_o.
  - transitivity (pack E Codec no_opts o v t).
    + exact (proj1 (all_good E X Mixin o no_opts no_opts o Hext He (layers_swap E o Hd) Hn v t Hex Ht)).
    + symmetry. exact (proj1 (all_good E E Mixin o no_opts no_opts o (extends_refl E) He (layers_swap E o Hd) Hn v t Hex Ht)).
  - exact (proj1 (all_good E X Codec no_opts o no_opts o Hext He (layers_same no_opts o E) Hn v t Hex Ht)).
Qed.

Theorem frame_exact E X m dl t v :
  extends E X ->
  no_lookalike_union E t = true -> dialect_compat E dl = true -> names_ok E = true ->
  exact E v t = true ->
  run_pack X m dl t v = run_pack E m dl t v.
Proof. intros Hext Hl Hd Hn Hex. exact (frame_exact_o E X m (mkO dl None None) t v Hext Hl Hd Hn Hex). Qed.

(* ------------------------------------------------------------------ *)
(* compositionality: a codec for a composite shape = the element codec elementwise           *)
(* positional: element i with type i *)
Fixpoint zipM (f: ty -> val -> res val) (ts: list ty) (l: list val) : res (list val) :=
  match ts, l with
  | [], _ => Ok []
  | t :: tr, x :: r => match f t x with
                       | Ok y => match zipM f tr r with Ok ys => Ok (y :: ys) | Err e => Err e end
                       | Err e => Err e end
  | _ :: _, [] => Err XRaw
  end.

Section Comp.
  Variables (E: env) (m: mode) (call dflt: opts).
  Notation rp := (fun t v => pack E m call dflt v t).

  Lemma ident_pack t : copy_ident t = true -> forall v, pack E m call dflt v t = Ok v.
  Proof.
    destruct t; simpl; intros H v; try discriminate H; try (destruct v; reflexivity).
    rewrite pack_TUnion. simpl in H. rewrite H. reflexivity.
  Qed.

  Lemma mapM_id {A} (l: list A) : mapM (fun x => Ok x) l = Ok l.
  Proof. induction l as [|x r IH]; simpl; [reflexivity|rewrite IH; reflexivity]. Qed.

  Theorem comp_list t l : rp (TList t) (VList l) = fmap VList (mapM (rp t) l).
  Proof.
    cbv beta. rewrite pack_TList_list. destruct (copy_ident t) eqn:Hc; [|reflexivity].
    rewrite (mapM_ext_in (fun x => pack E m call dflt x t) (fun x => Ok x) l (fun x _ => ident_pack t Hc x)).
    rewrite mapM_id. reflexivity.
  Qed.

  Theorem comp_dict t kvs :
    rp (TDict t) (VDict kvs) =
    fmap VDict (mapM (fun kv => fmap (pair (fst kv)) (rp t (snd kv))) kvs).
  Proof.
    cbv beta. rewrite pack_TDict_dict. destruct (copy_ident t) eqn:Hc.
    - rewrite (mapM_ext_in _ (fun kv => Ok kv) kvs).
      + rewrite mapM_id. reflexivity.
      + intros [k x] _. simpl. rewrite (ident_pack t Hc x). reflexivity.
    - f_equal. apply mapM_ext_in. intros [k x] _. simpl. destruct (pack E m call dflt x t); reflexivity.
  Qed.

  Lemma tuple_cl_zipM l ts : tuple_cl (map (pack E m call dflt) l) ts = zipM rp ts l.
  Proof.
    revert l. induction ts as [|t tr IH]; intros l; destruct l as [|x r]; simpl; try reflexivity.
    rewrite IH. reflexivity.
  Qed.

  Theorem comp_tuple ts l : ts <> [] -> rp (TTuple ts) (VTuple l) = fmap VList (zipM rp ts l).
  Proof.
    intros Hne. cbv beta. rewrite pack_TTuple_tuple. rewrite tuple_cl_zipM.
    destruct ts; [contradiction|reflexivity].
  Qed.

  Theorem comp_optional t v : rp (TOpt t) v = match v with VNone => Ok VNone | _ => rp t v end.
  Proof. cbv beta. apply pack_TOpt. Qed.

  (* the nested-in-a-dataclass entry point: the outer to_dict applies the field packer to the attribute (and skips a
     nullable field that is None under omit_none) *)
  Theorem comp_field o d fs :
    find_cls E o = Some d ->
    rp (TData o) (VObj o fs) =
    fmap (fun l => VDict (List.concat l))
      (mapM (fun f => match assoc fs (f_name f) with
                      | None => Err XRaw
                      | Some x => if drop_field call dflt d f x then Ok []
                                  else fmap (fun y => [(key_of call dflt d f, y)]) (rp (f_ty f) x)
                      end) (pack_order d)).
  Proof.
    intros Hf. cbv beta. rewrite pack_TData_obj.
    assert (Ht: target E m o o = Some d) by (unfold target; destruct m; [rewrite dispatch_self|]; exact Hf).
    rewrite Ht. unfold pack_fields_cl. f_equal. apply mapM_ext_in. intros f _.
    rewrite (assoc_map (fun x => (x, pack E m call dflt x))). destruct (assoc fs (f_name f)) as [x|]; simpl; [|reflexivity].
    destruct (drop_field call dflt d f x); [reflexivity|].
    destruct (pack E m call dflt x (f_ty f)); reflexivity.
  Qed.

  (* Outer(f=x).to_dict()['f'] for a one-field wrapper class whose field is not dropped *)
  Corollary comp_wrapper w d t x :
    find_cls E w = Some d -> c_fields d = [mkF "f" None t] ->
    drop_field call dflt d (mkF "f" None t) x = false ->
    rp (TData w) (VObj w [("f", x)]) = fmap (fun y => VDict [("f", y)]) (rp t x).
  Proof.
    intros Hf Hfl Hom. pose proof (comp_field w d [("f", x)] Hf) as Hc. cbv beta in Hc |- *. rewrite Hc.
    assert (Hpo: pack_order d = [mkF "f" None t]) by (unfold pack_order; rewrite Hfl; destruct (c_sort_keys d); reflexivity).
    rewrite Hpo. simpl. rewrite Hom.
    unfold key_of. simpl. destruct (eff_by_alias call dflt d); destruct (pack E m call dflt x t); reflexivity.
  Qed.
End Comp.

(* ------------------------------------------------------------------ *)
(* histories of creations and calls                                     *)
Inductive op :=
| OpCodec (t: ty) (dl: option bool)            (* BasicEncoder/Decoder(t, default_dialect=dl): fresh holders only *)
| OpOneShot (t: ty) (v: val)                   (* encode(v, t): a codec that is dropped again *)
| OpClass (d: cdef) (compiled: list cname)     (* class statement (e.g. a subclass): new class d; its nailed
                                                  compilation installs methods on the plain classes [compiled] *)
| OpCall (m: mode) (dl: option bool) (t: ty) (v: val).   (* an observed call *)

Definition set_method (comp: list cname) (d: cdef) : cdef :=
  if str_in (c_name d) comp then mkC (c_name d) (c_parent d) (c_fields d) (c_by_alias d) (c_omit_none d) (c_omit_default d) (c_defaults d) (c_sort_keys d) (c_forbid_extra d) (c_allow_by_name d) true else d.

Definition add_class (E: env) (d: cdef) (comp: list cname) : env :=
  match find_cls E (c_name d) with
  | Some _ => E                                  (* existing class objects are never redefined *)
  | None => (map (set_method comp) E ++ [d])%list
  end.

Fixpoint outs (E: env) (ops: list op) : list (res val) :=
  match ops with
  | [] => []
  | OpCodec _ _ :: r => outs E r
  | OpOneShot _ _ :: r => outs E r
  | OpClass d comp :: r => outs (add_class E d comp) r
  | OpCall m dl t v :: r => run_pack E m dl t v :: outs E r
  end.

(* the same calls without any creation in between *)
Fixpoint calls (E: env) (ops: list op) : list (res val) :=
  match ops with
  | [] => []
  | OpCall m dl t v :: r => run_pack E m dl t v :: calls E r
  | _ :: r => calls E r
  end.

Lemma set_method_name comp d : c_name (set_method comp d) = c_name d.
Proof. unfold set_method. destruct (str_in (c_name d) comp); reflexivity. Qed.

Lemma set_method_shape comp d : same_shape d (set_method comp d).
Proof.
  unfold set_method. destruct (str_in (c_name d) comp); [|apply same_shape_refl].
  repeat split; simpl; auto.
Qed.

Lemma find_map_set comp E c :
  find_cls (map (set_method comp) E) c = option_map (set_method comp) (find_cls E c).
Proof.
  induction E as [|d r IH]; simpl; [reflexivity|]. rewrite set_method_name.
  destruct (String.eqb (c_name d) c); [reflexivity|exact IH].
Qed.

Lemma find_app_some E d c x : find_cls E c = Some x -> find_cls (E ++ [d])%list c = Some x.
Proof.
  induction E as [|d' r IH]; simpl; [discriminate|].
  destruct (String.eqb (c_name d') c); [auto|exact IH].
Qed.

Lemma extends_add E d comp : extends E (add_class E d comp).
Proof.
  unfold add_class. destruct (find_cls E (c_name d)); [apply extends_refl|].
  intros c x Hf. exists (set_method comp x). split; [|apply set_method_shape].
  apply find_app_some. rewrite find_map_set, Hf. reflexivity.
Qed.

Definition in_dom (E: env) (o: op) : Prop :=
  match o with
  | OpCall m dl t v => no_lookalike_union E t = true /\ dialect_compat E dl = true /\ exact E v t = true
  | _ => True
  end.

Lemma frame_history_gen E0 ops : names_ok E0 = true -> Forall (in_dom E0) ops ->
  forall X, extends E0 X -> outs X ops = calls E0 ops.
Proof.
  intros Hn. induction ops as [|o r IH]; intros Hall X Hext; [reflexivity|].
  inversion Hall as [|? ? Ho Hr]; subst. destruct o; simpl.
  - apply IH; assumption.
  - apply IH; assumption.
  - apply IH; [assumption|]. eapply extends_trans; [exact Hext|apply extends_add].
  - destruct Ho as [H1 [H2 H3]]. rewrite (frame_exact E0 X m dl t v Hext H1 H2 Hn H3).
    f_equal. apply IH; assumption.
Qed.

Theorem frame_history E0 ops : names_ok E0 = true -> Forall (in_dom E0) ops ->
  outs E0 ops = calls E0 ops.
Proof. intros Hn Hall. apply frame_history_gen; [exact Hn|exact Hall|apply extends_refl]. Qed.

(* ------------------------------------------------------------------ *)
(* refutations (the model contains the known findings)                   *)
Definition f_ (n: string) (t: ty) : fdef := mkF n None t.

(* D8: look-alike members.  K0.x:int, K1.x:date *)
Definition E_look : env :=
  [mkC "K0" None [f_ "x" TInt] None None None [] false false false true; mkC "K1" None [f_ "x" TDate] None None None [] false false false true].
Definition t_look := TUnion [TData "K0"; TData "K1"].
Definition v_look := VObj "K1" [("x", VDate "2020-01-02")].

Lemma lookalike_witness :
  names_ok E_look = true /\ dialect_compat E_look None = true /\ exact E_look v_look t_look = true /\
  run_pack E_look Mixin None t_look v_look = Ok (VDict [("x", VStr "2020-01-02")]) /\
  run_pack E_look Codec None t_look v_look = Ok (VDict [("x", VDate "2020-01-02")]).
Proof. repeat split; reflexivity. Qed.

(* strict-subclass instance at a parent-annotated position *)
Definition E_sub : env :=
  [mkC "K0" None [f_ "x" TInt] None None None [] false false false true;
   mkC "K1" (Some "K0") [f_ "x" TInt; f_ "y" TInt] None None None [] false false false true;
   mkC "K2" None [f_ "f" (TData "K0")] None None None [] false false false true].
Definition v_sub := VObj "K2" [("f", VObj "K1" [("x", VInt 1); ("y", VInt 2)])].

Lemma subclass_witness :
  In "K0" (chain E_sub 4 "K1") /\
  run_pack E_sub Mixin None (TData "K2") v_sub = Ok (VDict [("f", VDict [("x", VInt 1); ("y", VInt 2)])]) /\
  run_pack E_sub Codec None (TData "K2") v_sub = Ok (VDict [("f", VDict [("x", VInt 1)])]).
Proof. repeat split; try reflexivity. simpl. right. left. reflexivity. Qed.

(* creating a class that annotates the plain subclass K1 changes what an existing call returns *)
Definition E_fr : env :=
  [mkC "K0" None [f_ "x" TInt] None None None [] false false false true;
   mkC "K1" (Some "K0") [f_ "x" TInt; f_ "y" TInt] None None None [] false false false false].
Definition v_fr := VObj "K1" [("x", VInt 1); ("y", VInt 2)].
Definition d_new := mkC "S0" None [f_ "g" (TOpt (TData "K1"))] None None None [] false false false true.

Lemma frame_subclass_witness :
  outs E_fr [OpCall Mixin None (TData "K0") v_fr] = [Ok (VDict [("x", VInt 1)])] /\
  outs E_fr [OpClass d_new ["K1"]; OpCall Mixin None (TData "K0") v_fr] = [Ok (VDict [("x", VInt 1); ("y", VInt 2)])] /\
  outs E_fr [OpClass d_new ["K1"]; OpCall Codec None (TData "K0") v_fr] = outs E_fr [OpCall Codec None (TData "K0") v_fr].
Proof. repeat split; reflexivity. Qed.

(* a field-less dataclass member swallows every value on the codec path *)
Definition E_fl : env := [mkC "K0" None [] None None None [] false false false true].
Definition t_fl := TUnion [TData "K0"; TDate].
Lemma fieldless_witness :
  exact E_fl (VDate "2020-01-02") t_fl = true /\
  run_pack E_fl Mixin None t_fl (VDate "2020-01-02") = Ok (VStr "2020-01-02") /\
  run_pack E_fl Codec None t_fl (VDate "2020-01-02") = Ok (VDict []).
Proof. repeat split; reflexivity. Qed.

(* call dialect has the highest, default dialect the lowest priority *)
Definition E_dl : env := [mkC "K0" None [mkF "x" (Some "a_x") TInt] (Some false) None None [] false false false true].
Lemma dialect_witness :
  exact E_dl (VObj "K0" [("x", VInt 1)]) (TData "K0") = true /\ no_lookalike_union E_dl (TData "K0") = true /\
  run_pack E_dl Mixin (Some true) (TData "K0") (VObj "K0" [("x", VInt 1)]) = Ok (VDict [("a_x", VInt 1)]) /\
  run_pack E_dl Codec (Some true) (TData "K0") (VObj "K0" [("x", VInt 1)]) = Ok (VDict [("x", VInt 1)]).
Proof. repeat split; reflexivity. Qed.

(* ------------------------------------------------------------------ *)
(* decoding: composite decoder = element decoder elementwise (both paths)                     *)
Section UnpackComp.
  Variables (E: env) (m: mode).
  Notation ru := (run_unpack E m).

  Theorem unpack_comp_list t l : ru (TList t) (VList l) = fmap VList (mapM (ru t) l).
  Proof. reflexivity. Qed.

  Theorem unpack_comp_dict t kvs :
    ru (TDict t) (VDict kvs) = fmap VDict (mapM (fun kv => fmap (pair (fst kv)) (ru t (snd kv))) kvs).
  Proof.
    unfold run_unpack. simpl. f_equal. apply mapM_ext_in. intros [k x] _. simpl.
    destruct (unpack E m x t); reflexivity.
  Qed.

  Theorem unpack_comp_optional t v : ru (TOpt t) v = match v with VNone => Ok VNone | _ => ru t v end.
  Proof. unfold run_unpack. destruct v; reflexivity. Qed.

  Fixpoint zipU (ts: list ty) (l: list val) : res (list val) :=
    match ts, l with
    | [], _ => Ok []
    | t :: tr, x :: r => match ru t x with
                         | Ok y => match zipU tr r with Ok ys => Ok (y :: ys) | Err e => Err e end
                         | Err e => Err e end
    | _ :: _, [] => Err XRaw
    end.

  Lemma tuple_cl_zipU l ts : tuple_cl (map (unpack E m) l) ts = zipU ts l.
  Proof.
    revert l. induction ts as [|t tr IH]; intros l; destruct l as [|x r]; simpl; try reflexivity.
    unfold run_unpack. rewrite IH. reflexivity.
  Qed.

  Theorem unpack_comp_tuple ts l : ts <> [] -> ru (TTuple ts) (VList l) = fmap VTuple (zipU ts l).
  Proof.
    intros Hne. unfold run_unpack. simpl. rewrite tuple_cl_zipU. destruct ts; [contradiction|reflexivity].
  Qed.
End UnpackComp.

(* ------------------------------------------------------------------ *)
(* the order of union members is observable (so shape types that are equal up to member order -
   typing.Union compares them as sets - must not share a codec, e.g. in a cache of the one-shot functions) *)
Definition E_tw : env :=
  [mkC "A" None [f_ "ref" TInt] None None None [] false false false true; mkC "B" None [f_ "ref" TStr] None None None [] false false false true].
Lemma union_order_witness :
  run_unpack E_tw Codec (TUnion [TData "A"; TData "B"]) (VDict [("ref", VStr "42")]) = Ok (VObj "A" [("ref", VInt 42)]) /\
  run_unpack E_tw Codec (TUnion [TData "B"; TData "A"]) (VDict [("ref", VStr "42")]) = Ok (VObj "B" [("ref", VStr "42")]) /\
  run_pack E_look Codec None (TUnion [TData "K1"; TData "K0"]) v_look = Ok (VDict [("x", VStr "2020-01-02")]) /\
  run_pack E_look Codec None (TUnion [TData "K0"; TData "K1"]) v_look = Ok (VDict [("x", VDate "2020-01-02")]).
Proof. repeat split; reflexivity. Qed.

(* a union with container members (outside simple_member): on the mixin path the tuple member's packer accepts a
   list of instances of ANOTHER class (dynamic dispatch finds their method, `str` positions are not checked) and
   leaks an instance; the codec path's static call fails and the right member is taken *)
Definition E_uc : env :=
  [mkC "A" None [f_ "x" TInt] None None None [] false false false true; mkC "B" None [f_ "y" TInt] None None None [] false false false true].
Definition t_uc := TUnion [TTuple [TData "A"; TStr]; TList (TData "B")].
Definition v_uc := VList [VObj "B" [("y", VInt 1)]; VObj "B" [("y", VInt 2)]].
Lemma union_container_witness :
  exact E_uc v_uc t_uc = true /\
  run_pack E_uc Mixin None t_uc v_uc = Ok (VList [VDict [("y", VInt 1)]; VObj "B" [("y", VInt 2)]]) /\
  run_pack E_uc Codec None t_uc v_uc = Ok (VList [VDict [("y", VInt 1)]; VDict [("y", VInt 2)]]).
Proof. repeat split; reflexivity. Qed.

(* ------------------------------------------------------------------ *)
(* decoding: the two paths agree on EVERY input (both dispatch statically); only the class of the
   "no union member matched" error differs (InvalidFieldValue on a class, ValueError in a codec), and below a
   dataclass not even that                                                                       *)
Section TyInd.
  Variable P : ty -> Prop.
  Hypothesis HI : P TInt.
  Hypothesis HS : P TStr.
  Hypothesis HD : P TDate.
  Hypothesis HL : forall t, P t -> P (TList t).
  Hypothesis HDi : forall t, P t -> P (TDict t).
  Hypothesis HT : forall ts, Forall P ts -> P (TTuple ts).
  Hypothesis HO : forall t, P t -> P (TOpt t).
  Hypothesis HU : forall ts, Forall P ts -> P (TUnion ts).
  Hypothesis HDa : forall c, P (TData c).
  Fixpoint ty_ind' (t: ty) : P t :=
    match t with
    | TInt => HI | TStr => HS | TDate => HD
    | TList t' => HL t' (ty_ind' t')
    | TDict t' => HDi t' (ty_ind' t')
    | TTuple ts => HT ts ((fix go (l: list ty) : Forall P l :=
                             match l with [] => Forall_nil _ | x :: r => Forall_cons _ (ty_ind' x) (go r) end) ts)
    | TOpt t' => HO t' (ty_ind' t')
    | TUnion ts => HU ts ((fix go (l: list ty) : Forall P l :=
                             match l with [] => Forall_nil _ | x :: r => Forall_cons _ (ty_ind' x) (go r) end) ts)
    | TData c => HDa c
    end.
End TyInd.

Lemma norm_ok {A} (a: A) : norm (Ok a) = Ok a.
Proof. reflexivity. Qed.

Lemma norm_fmap {A B} (h: A -> B) r : fmap h (norm r) = norm (fmap h r).
Proof. destruct r; reflexivity. Qed.

Lemma mapM_norm {A B} (f g: A -> res B) l :
  (forall x, In x l -> f x = norm (g x)) -> mapM f l = norm (mapM g l).
Proof.
  induction l as [|x r IH]; intros H; simpl; [reflexivity|].
  rewrite (H x (or_introl eq_refl)). destruct (g x) as [y|e]; simpl; [|reflexivity].
  rewrite IH; [|intros z Hz; apply H; right; exact Hz].
  destruct (mapM g r); reflexivity.
Qed.

Lemma mapM_err_from {A B} (f: A -> res B) l e :
  mapM f l = Err e -> exists x, In x l /\ f x = Err e.
Proof.
  induction l as [|x r IH]; simpl; [discriminate|].
  destruct (f x) as [y|e'] eqn:Hx.
  - destruct (mapM f r) as [ys|e''] eqn:Hr; [discriminate|].
    intros H. inversion H; subst. destruct (IH eq_refl) as [z [Hz Hfz]]. exists z. split; [right; exact Hz|exact Hfz].
  - intros H. inversion H; subst. exists x. split; [left; reflexivity|exact Hx].
Qed.

Section UnpackEqns.
  Variables (E: env) (m: mode).
  Notation up := (unpack E m).

  Lemma unpack_TUnion v ts : up v (TUnion ts) = phase1 m v (up v) ts ts.
  Proof. destruct v; reflexivity. Qed.
  Lemma unpack_TOpt v t' : up v (TOpt t') = match v with VNone => Ok VNone | _ => up v t' end.
  Proof. destruct v; reflexivity. Qed.
  Lemma unpack_TInt v : up v TInt = coerce_int v.
  Proof. destruct v; reflexivity. Qed.
  Lemma unpack_TStr v : up v TStr = coerce_str v.
  Proof. destruct v; reflexivity. Qed.
  Lemma unpack_TDate v :
    up v TDate = match v with VStr s => if is_iso s then Ok (VDate s) else Err XRaw | _ => Err XRaw end.
  Proof. destruct v; reflexivity. Qed.
End UnpackEqns.

Lemma coerce_int_norm v : coerce_int v = norm (coerce_int v).
Proof. destruct v; simpl; try reflexivity. destruct (parse_int s); reflexivity. Qed.
Lemma coerce_str_norm v : coerce_str v = norm (coerce_str v).
Proof. destruct v; reflexivity. Qed.

Lemma phase2_norm v (f g: ty -> res val) l :
  phase2 Mixin v l = norm (phase2 Codec v l).
Proof.
  induction l as [|t r IH]; [reflexivity|].
  destruct t; simpl; try exact IH.
  - destruct v; simpl; try exact IH; try reflexivity. destruct (parse_int s); [reflexivity|exact IH].
  - destruct v; simpl; try exact IH; reflexivity.
Qed.

Lemma phase1_norm v (f g: ty -> res val) all l :
  (forall t', In t' l -> f t' = norm (g t')) ->
  phase1 Mixin v f all l = norm (phase1 Codec v g all l).
Proof.
  induction l as [|t r IH]; intros H; [simpl; apply (phase2_norm v f g)|].
  assert (IH': phase1 Mixin v f all r = norm (phase1 Codec v g all r))
    by (apply IH; intros t' Ht'; apply H; right; exact Ht').
  assert (Hgen: forall t0, t0 = t -> f t0 = norm (g t0)) by (intros t0 ->; apply H; left; reflexivity).
  destruct t;
    try (simpl; rewrite (Hgen _ eq_refl);
         match goal with |- context [g ?x] => destruct (g x) as [y|e] end;
         simpl; [reflexivity|destruct e; simpl; try exact IH'; reflexivity]).
  - destruct v; simpl; try exact IH'; reflexivity.
  - destruct v; simpl; try exact IH'; reflexivity.
Qed.

Lemma tuple_cl_norm (l: list val) (F G: val -> ty -> res val) ts :
  Forall (fun x => forall t, F x t = norm (G x t)) l ->
  tuple_cl (map F l) ts = norm (tuple_cl (map G l) ts).
Proof.
  revert ts. induction l as [|x r IH]; intros [|t tr] Hall; simpl; try reflexivity.
  inversion Hall as [|? ? Hx Hr]; subst. rewrite (Hx t). destruct (G x t) as [y|e]; simpl; [|reflexivity].
  rewrite (IH tr Hr). destruct (tuple_cl (map G r) tr); reflexivity.
Qed.

Section UnpackAgree.
  Variable E: env.
  Notation um := (unpack E Mixin).
  Notation uc := (unpack E Codec).

  Lemma map_fst_clos {A} (F: val -> A) (kvs: list (string * val)) :
    map fst (map (fun kv : string * val => match kv with (k, x) => (k, F x) end) kvs) = map fst kvs.
  Proof. induction kvs as [|[k x] r IH]; simpl; [reflexivity|rewrite IH; reflexivity]. Qed.

  Lemma field_lookup_map {A} (F: val -> A) d (kvs: list (string * val)) f :
    field_lookup d (map (fun kv : string * val => match kv with (k, x) => (k, F x) end) kvs) f
    = option_map F (field_lookup d kvs f).
  Proof.
    unfold field_lookup. destruct (f_alias f) as [a|]; rewrite !(assoc_map F); [|reflexivity].
    destruct (assoc kvs a); simpl; [reflexivity|]. destruct (c_allow_by_name d); reflexivity.
  Qed.

  Lemma field_lookup_in d (kvs: list (string * val)) f x :
    field_lookup d kvs f = Some x -> exists k, In (k, x) kvs.
  Proof.
    assert (Ha: forall key, assoc kvs key = Some x -> In (key, x) kvs).
    { intros key. induction kvs as [|[k' x'] r IH]; simpl; [discriminate|].
      destruct (String.eqb_spec k' key) as [->|Hne]; intros Hq; [inversion Hq; left; reflexivity|right; apply IH; exact Hq]. }
    unfold field_lookup. destruct (f_alias f) as [a|].
    - destruct (assoc kvs a) eqn:E1; [intros Hq; inversion Hq; subst; exists a; apply Ha; exact E1|].
      destruct (c_allow_by_name d); [|discriminate]. intros Hq. exists (f_name f). apply Ha. exact Hq.
    - intros Hq. exists (f_name f). apply Ha. exact Hq.
  Qed.

  (* the generated field blocks turn every exception of a value unpacker into InvalidFieldValue: the class of
     the inner error is not observable; the extra-keys test and the key lookup only look at the keys *)
  Lemma unpack_fields_same c d (kvs: list (string * val)) :
    (forall k x, In (k, x) kvs -> forall t, um x t = norm (uc x t)) ->
    unpack_fields_cl c d (map (fun kv : string * val => match kv with (k, x) => (k, um x) end) kvs)
    = unpack_fields_cl c d (map (fun kv : string * val => match kv with (k, x) => (k, uc x) end) kvs).
  Proof.
    intros H. unfold unpack_fields_cl. rewrite !map_fst_clos.
    destruct (c_forbid_extra d && _); [reflexivity|].
    f_equal. apply mapM_ext_in. intros f _. rewrite (field_lookup_map um), (field_lookup_map uc).
    destruct (field_lookup d kvs f) as [x|] eqn:Hl; simpl; [|reflexivity].
    destruct (field_lookup_in d kvs f x Hl) as [k Hin].
    rewrite (H k x Hin (f_ty f)). destruct (uc x (f_ty f)) as [y|e]; simpl; [reflexivity|destruct e; reflexivity].
  Qed.

  Lemma unpack_fields_no_union c d cl e :
    unpack_fields_cl c d cl = Err e -> norm_err e = e.
  Proof.
    unfold unpack_fields_cl. destruct (c_forbid_extra d && _); [intros H; inversion H; reflexivity|].
    destruct (mapM _ (c_fields d)) as [ys|e'] eqn:Hm; simpl; [discriminate|].
    intros H. inversion H; subst. destruct (mapM_err_from _ _ _ Hm) as [f [_ Hf]].
    destruct (field_lookup d cl f) as [g|]; [|destruct (assoc (c_defaults d) (f_name f)); [discriminate|inversion Hf; reflexivity]].
    destruct (g (f_ty f)) as [y|e0]; [discriminate|]. destruct e0; inversion Hf; reflexivity.
  Qed.

  Theorem unpack_agree_all : forall v t, um v t = norm (uc v t).
  Proof.
    induction v using val_ind'; intros t; induction t using ty_ind';
      try (rewrite !unpack_TInt; apply coerce_int_norm);
      try (rewrite !unpack_TStr; apply coerce_str_norm);
      try (rewrite !unpack_TDate; simpl; try reflexivity; match goal with |- context [is_iso ?s] => destruct (is_iso s); reflexivity end);
      try (rewrite !unpack_TOpt; first [reflexivity | assumption]);
      try (rewrite !unpack_TUnion; apply phase1_norm; intros t' Ht';
           match goal with Hf: Forall _ ?ts |- _ => rewrite Forall_forall in Hf; exact (Hf t' Ht') end);
      try reflexivity.
    all: try (simpl; destruct (find_cls E c) as [d|]; reflexivity).
    all: try (simpl; destruct ts; reflexivity).
    - (* VList / TList *)
      simpl. rewrite <- norm_fmap. f_equal. apply mapM_norm. intros x Hx. rewrite Forall_forall in H. exact (H x Hx t).
    - (* VList / TTuple *)
      simpl. destruct ts as [|t0 tr]; [reflexivity|]. rewrite <- norm_fmap. f_equal. apply tuple_cl_norm. exact H.
    - (* VTuple / TList *)
      simpl. rewrite <- norm_fmap. f_equal. apply mapM_norm. intros x Hx. rewrite Forall_forall in H. exact (H x Hx t).
    - (* VTuple / TTuple *)
      simpl. destruct ts as [|t0 tr]; [reflexivity|]. rewrite <- norm_fmap. f_equal. apply tuple_cl_norm. exact H.
    - (* VDict / TDict *)
      simpl. rewrite <- norm_fmap. f_equal. apply mapM_norm. intros [k x] Hx. rewrite Forall_forall in H.
      pose proof (H (k, x) Hx t) as Hq. simpl in Hq. rewrite Hq. destruct (uc x t); reflexivity.
    - (* VDict / TData *)
      simpl. destruct (find_cls E c) as [d|]; [|reflexivity].
      rewrite (unpack_fields_same c d kvs).
      + destruct (unpack_fields_cl c d _) as [y|e] eqn:He; simpl; [reflexivity|].
        rewrite (unpack_fields_no_union _ _ _ _ He). reflexivity.
      + intros k x Hin t0. rewrite Forall_forall in H. exact (H (k, x) Hin t0).
    - (* VObj / TData *) simpl. destruct (find_cls E c0) as [d|]; reflexivity.
  Qed.

  (* below a dataclass the paths agree exactly *)
  Theorem unpack_agree_data v c : um v (TData c) = uc v (TData c).
  Proof.
    rewrite unpack_agree_all. destruct (uc v (TData c)) as [y|e] eqn:He; [reflexivity|]. simpl. f_equal.
    destruct v; simpl in He; destruct (find_cls E c) as [d|]; try (inversion He; reflexivity).
    exact (unpack_fields_no_union _ _ _ _ He).
  Qed.
End UnpackAgree.
