(* C10 model: customization levels, type keys, registration tables, and the reference
   resolution "first hit of the documented enumeration" with its order-theoretic
   characterisation (the minimum of the enabled (level, key) registrations).
   Executable definitions only; proofs about them are in StrategiesProofs.v, the tie to
   the code translated from /repo is in K5Proofs.v. *)
From Coq Require Import List String Ascii ZArith Bool Arith Lia.
From Verif Require Import Regex PyK PyK_strat.
Import ListNotations.
Open Scope string_scope.
Open Scope nat_scope.

Inductive dir := Ser | De.

(* value of a `serialize=` / `deserialize=` entry: pass_through, a user callable (opaque,
   identified by a marker) or an engine name ("as_dict", "omit", "pendulum", ...) *)
Inductive fnv := FPass | FFn (m: nat) | FEngine (s: string).

(* value registered for a type key in a serialization_strategy table (or as the field's
   serialization_strategy) *)
Inductive sval :=
| VPass                                          (* pass_through *)
| VDict (s d: option fnv)                        (* {"serialize": s, "deserialize": d}, either may be missing *)
| VStrat (ann gen: bool) (s d: nat).             (* SerializationStrategy instance: __use_annotations__, generic class, bound methods *)

(* what the resolution hands to the code generator *)
Inductive winner :=
| WPass                                          (* pass_through: expression left untouched *)
| WFn (m: nat)                                   (* call the user callable m *)
| WEngine (s: string)                            (* built-in behaviour, engine s *)
| WAnn (v: sval).                                (* annotation-driven strategy wrapper *)

Definition fnv_winner (f: fnv) : winner :=
  match f with FPass => WPass | FFn m => WFn m | FEngine s => WEngine s end.

(* what a registered value contributes in direction d; None = it does not customise d *)
Definition effect (d: dir) (v: sval) : option winner :=
  match v with
  | VPass => Some WPass
  | VDict s e => option_map fnv_winner (match d with Ser => s | De => e end)
  | VStrat ann gen s e =>
      if ann || gen then Some (WAnn v) else Some (WFn (match d with Ser => s | De => e end))
  end.

(* ---- sources ---- *)
Definition table := list (kv * sval).            (* type object -> registered value *)

Fixpoint tlookup (t: table) (k: kv) : option sval :=
  match t with
  | [] => None
  | (k', v) :: r => if kv_eqb k' k then Some v else tlookup r k
  end.

Inductive level := LCall | LCfgDialect | LCfg | LDefault.
Definition levels : list level := [LCall; LCfgDialect; LCfg; LDefault].
Definition level_rank (l: level) : nat :=
  match l with LCall => 0 | LCfgDialect => 1 | LCfg => 2 | LDefault => 3 end.

Record sources := {
  f_ser   : option fnv;          (* field option serialize= *)
  f_de    : option fnv;          (* field option deserialize= *)
  f_strat : option sval;         (* field option serialization_strategy= *)
  t_call  : option table;        (* dialect passed to the call *)
  t_cfgd  : option table;        (* Config.dialect *)
  t_cfg   : table;               (* Config.serialization_strategy *)
  t_dflt  : option table         (* the codec's / mixin's format (default) dialect *)
}.

Definition f_opt (S: sources) (d: dir) := match d with Ser => f_ser S | De => f_de S end.
Definition tbl (S: sources) (l: level) : option table :=
  match l with LCall => t_call S | LCfgDialect => t_cfgd S | LCfg => Some (t_cfg S) | LDefault => t_dflt S end.

(* ---- slots: where a customization can sit ---- *)
Inductive slot := SFieldOpt | SFieldStrat | SReg (key: nat) (l: level).

(* the documented order: field option, field strategy, then key specificity (position in
   the key list: alias, exact, origin), then level *)
Definition slot_le (a b: slot) : Prop :=
  match a, b with
  | SFieldOpt, _ => True
  | SFieldStrat, SFieldOpt => False
  | SFieldStrat, _ => True
  | SReg i l, SReg j m => i < j \/ (i = j /\ level_rank l <= level_rank m)
  | SReg _ _, _ => False
  end.

Definition slot_rank (s: slot) : nat :=
  match s with SFieldOpt => 0 | SFieldStrat => 1 | SReg i l => 2 + 4 * i + level_rank l end.

Definition bindo {A B} (o: option A) (f: A -> option B) : option B :=
  match o with Some a => f a | None => None end.

Definition reg_at (S: sources) (d: dir) (k: kv) (l: level) : option winner :=
  if k_is_hashable k then bindo (tbl S l) (fun t => bindo (tlookup t k) (effect d)) else None.

(* what sits at a slot, for key list ks (most specific first) and direction d *)
Definition at_slot (S: sources) (ks: list kv) (d: dir) (s: slot) : option winner :=
  match s with
  | SFieldOpt => option_map fnv_winner (f_opt S d)
  | SFieldStrat => if existsb k_is_hashable ks then bindo (f_strat S) (effect d) else None
  | SReg i l => bindo (nth_error ks i) (fun k => reg_at S d k l)
  end.

Definition enumeration (n: nat) : list slot :=
  SFieldOpt :: SFieldStrat :: flat_map (fun i => map (SReg i) levels) (seq 0 n).

Fixpoint first_hit {A B} (f: A -> option B) (l: list A) : option (A * B) :=
  match l with
  | [] => None
  | a :: r => match f a with Some b => Some (a, b) | None => first_hit f r end
  end.

(* the reference resolution *)
Definition resolve (S: sources) (ks: list kv) (d: dir) : option (slot * winner) :=
  first_hit (at_slot S ks d) (enumeration (List.length ks)).

(* "r is the minimum of the enabled slots" -- the property's own wording *)
Definition is_lexmin (S: sources) (ks: list kv) (d: dir) (r: option (slot * winner)) : Prop :=
  match r with
  | Some (s, w) => at_slot S ks d s = Some w /\
                   forall s', at_slot S ks d s' <> None -> slot_le s s'
  | None => forall s, at_slot S ks d s = None
  end.

(* the key list the code builds from a ValueSpec *)
Definition keys_of (annotated type origin: kv) : list kv :=
  if k_truthy annotated then [annotated; type; origin] else [type; origin].

(* ---- encoding into the kernel universe ---- *)
Definition enc_fnv (f: fnv) : kv :=
  match f with FPass => k_pass_through | FFn m => KObj (S m) | FEngine s => KStr s end.

Definition opt_entry (name: string) (o: option kv) : list (kv * kv) :=
  match o with Some v => [(KStr name, v)] | None => [] end.

Definition enc_sval (v: sval) : kv :=
  match v with
  | VPass => k_pass_through
  | VDict s e => KDict (opt_entry "serialize" (option_map enc_fnv s) ++ opt_entry "deserialize" (option_map enc_fnv e))
  | VStrat ann gen s e =>
      KNs [("__use_annotations__", KBool ann); ("__generic__", KBool gen);
           ("serialize", KObj (S s)); ("deserialize", KObj (S e))]
  end.

Definition enc_table (t: table) : kv := KDict (map (fun p => (fst p, enc_sval (snd p))) t).
Definition enc_dialect (o: option table) : kv :=
  match o with Some t => KNs [("serialization_strategy", enc_table t)] | None => KNone end.
Definition enc_cfg (S: sources) : kv :=
  KNs [("dialect", enc_dialect (t_cfgd S)); ("serialization_strategy", enc_table (t_cfg S))].
Definition enc_meta (S: sources) : kv :=
  KDict (opt_entry "serialize" (option_map enc_fnv (f_ser S)) ++
         opt_entry "deserialize" (option_map enc_fnv (f_de S)) ++
         opt_entry "serialization_strategy" (option_map enc_sval (f_strat S))).

Definition wrapper_tag (d: dir) : string := match d with Ser => "pack" | De => "unpack" end.

Definition enc_winner (d: dir) (w: winner) : kv :=
  match w with
  | WPass => k_pass_through
  | WFn m => KObj (S m)
  | WEngine s => KStr s
  | WAnn v => k_expr_wrapper (wrapper_tag d) (enc_sval v)
  end.

Definition enc_result (d: dir) (r: option (slot * winner)) : kv :=
  match r with Some (_, w) => enc_winner d w | None => KNone end.

(* ---- exchanging the two directions ---- *)
Definition flip (d: dir) := match d with Ser => De | De => Ser end.
Definition swap_sval (v: sval) : sval :=
  match v with VPass => VPass | VDict s e => VDict e s | VStrat a g s e => VStrat a g e s end.
Definition swap_table (t: table) : table := map (fun p => (fst p, swap_sval (snd p))) t.
Definition swap_sources (S: sources) : sources :=
  {| f_ser := f_de S; f_de := f_ser S; f_strat := option_map swap_sval (f_strat S);
     t_call := option_map swap_table (t_call S); t_cfgd := option_map swap_table (t_cfgd S);
     t_cfg := swap_table (t_cfg S); t_dflt := option_map swap_table (t_dflt S) |}.
Definition swap_winner (w: winner) : winner :=
  match w with WAnn v => WAnn (swap_sval v) | _ => w end.
Definition swap_result (r: option (slot * winner)) : option (slot * winner) :=
  match r with Some (s, w) => Some (s, swap_winner w) | None => None end.

(* ---- decidable comparison of kernel results (for the harness) ---- *)
Definition res_kv_eqb (a b: res kv) : bool :=
  match a, b with
  | Ok x, Ok y => kv_eqb x y
  | Raise _, Raise _ => true
  | _, _ => false
  end.

(* ---- what the registry's first handler emits for a resolution result ---- *)
Definition emit (d: dir) (r: option (slot * winner)) (e: kv) : kv :=
  match r with
  | Some (_, WPass) => e                                   (* the value expression itself: untouched *)
  | Some (_, WFn m) => k_call_expr (KObj (S m)) e          (* call of the one winning callable *)
  | Some (_, WAnn v) => KTuple [KStr "annotated_expression"; KStr (wrapper_tag d); enc_sval v]
  | Some (_, WEngine _) => KNone                           (* handler declines; a built-in handler reads the engine *)
  | None => KNone                                          (* handler declines: built-in behaviour *)
  end.

(* ---- what ends up applied to the value when the field is compiled ----
   A `use_annotations`/generic strategy (WAnn) re-enters the registry for the type named by
   the annotation of its serialize/deserialize method (no annotation: Any, key `anyk`).
   `stale` = the keys the spec still carries on re-entry besides the new type: [] since /repo ed8922a
   (annotated_type=None on re-entry; before that fix it was [An] for an Annotated alias).  The field strategy is
   dropped on re-entry if that was the winner.  Result: the markers of the callables applied, in resolution order, and
   what happens to the innermost value (0 = built-in rendering, 1 = untouched); None = the compilation does not
   terminate. *)
Definition marker_of (d: dir) (v: sval) : nat :=
  match v with VStrat _ _ s e => match d with Ser => s | De => e end | _ => 0 end.

Definition drop_field_strat (Sr: sources) : sources :=
  {| f_ser := f_ser Sr; f_de := f_de Sr; f_strat := None; t_call := t_call Sr;
     t_cfgd := t_cfgd Sr; t_cfg := t_cfg Sr; t_dflt := t_dflt Sr |}.

Fixpoint applied (fuel: nat) (Sr: sources) (ks stale: list kv) (anyk: kv) (d: dir) (first: bool)
  : option (list nat * nat) :=
  match fuel with
  | O => None
  | S n =>
    match resolve Sr ks d with
    | None => Some ([], if first then 0 else 1)
    | Some (_, WPass) => Some ([], 1)
    | Some (_, WFn m) => Some ([m], 1)
    | Some (_, WEngine _) => Some ([], 0)
    | Some (s, WAnn v) =>
        let Sr' := match s with SFieldStrat => drop_field_strat Sr | _ => Sr end in
        match applied n Sr' (stale ++ [anyk; anyk]) stale anyk d false with
        | Some (l, b) => Some (marker_of d v :: l, b)
        | None => None
        end
    end
  end.

Definition stale_of (annotated: kv) : list kv := if k_truthy annotated then [annotated] else [].

Definition obs_eqb (a b: option (list nat * nat)) : bool :=
  match a, b with
  | None, None => true
  | Some (l1, b1), Some (l2, b2) => Nat.eqb b1 b2 && (Nat.eqb (List.length l1) (List.length l2) && forallb (fun p => Nat.eqb (fst p) (snd p)) (combine l1 l2))
  | _, _ => false
  end.

(* ---- the three keys Registry.get derives from a declared field type ----
   rt = substitution of the field's resolved type parameters (get_real_type), org = get_type_origin,
   isann = is_annotated; t = declared type, a = annotated_type already on the spec (kept when t is
   not Annotated).  Result: (annotated alias, exact type, origin). *)
Definition keys_after (rt org: kv -> kv) (isann: kv -> bool) (t a: kv) : kv * kv * kv :=
  if isann t then (rt t, rt (org t), org (rt (org t))) else (a, rt t, org (rt t)).
