(* C17: identity binding of local classes, end to end: the text the translated get_type_name_identifier (K44) pastes for
   a local class is a name that denotes that very class in the namespace assembled by setdefault (NsBind), provided
   the aliases (clean_id of the renderings, K42) are pairwise distinct and not owned by the namespace before.
   Without the distinctness hypothesis it fails: NsBind.first_wins / C17_clean_id_refuted. *)
From Coq Require Import List NArith Bool String.
From VerifGen Require Import K42 K44.
From Verif Require Import K42Proofs K44Proofs NsBind Render TypeRef.
Import ListNotations.

Section LocalAlias.
  Variable V : Type.
  Variable rend : V -> string.            (* the rendering type_name(o) of a schema class o *)

  Definition alias (o : V) : string := local_render (rend o).

  Theorem local_alias_binding objs : forall m0 o,
    (forall o', In o' objs -> all7 (rend o') = true /\ is_local_type_name (codes (rend o')) = true) ->
    NoDup (map alias objs) ->
    (forall o', In o' objs -> lookup V (alias o') m0 = None) ->
    In o objs ->
    fst (type_ident (codes (rend o))) = codes (alias o) /\
    snd (type_ident (codes (rend o))) = Some (codes (alias o)) /\
    lookup V (alias o) (ns_setdefault V alias objs m0) = Some o.
  Proof.
    intros m0 o Hloc ND Fresh Hin.
    destruct (Hloc o Hin) as [H7 HL].
    assert (E : fst (type_ident (codes (rend o))) = codes (alias o))
      by (apply local_render_is_type_ident; assumption).
    split; [exact E | split].
    - rewrite (type_ident_local _ HL) in *. simpl in *. rewrite E. reflexivity.
    - apply binding_partial; assumption.
  Qed.

  (* two local classes with one alias: the pasted text of the second denotes the first *)
  Theorem local_alias_collision o1 o2 rest :
    alias o1 = alias o2 ->
    lookup V (alias o2) (ns_setdefault V alias (o1 :: o2 :: rest) []) = Some o1.
  Proof. intros E. apply (first_wins V alias o1 o2 rest E). Qed.
End LocalAlias.

(* non-vacuity: two factories mk1 / mk2 in module m, each with a local class L *)
Example local_alias_example :
  let rend := fun n : nat => match n with 1%nat => "m.mk1.<locals>.L" | _ => "m.mk2.<locals>.L" end%string in
  fst (type_ident (codes (rend 2%nat))) = codes "m_mk2__locals__L" /\
  lookup nat (alias nat rend 2%nat) (ns_setdefault nat (alias nat rend) [1%nat; 2%nat] []) = Some 2%nat.
Proof. vm_compute. split; reflexivity. Qed.

Definition local_alias_binding_full : Prop :=
  forall (V : Type) (rend : V -> string) objs m0 o,
    (forall o', In o' objs -> all7 (rend o') = true /\ is_local_type_name (codes (rend o')) = true) ->
    (forall o', In o' objs -> lookup V (alias V rend o') m0 = None) ->
    In o objs ->
    lookup V (alias V rend o) (ns_setdefault V (alias V rend) objs m0) = Some o.

(* m.f.<locals>.A_B and m.f.<locals>.A.B : distinct local classes, one alias *)
Theorem local_alias_binding_refuted : ~ local_alias_binding_full.
Proof.
  intros H.
  specialize (H nat (fun n => match n with 1%nat => "m.f.<locals>.A_B" | _ => "m.f.<locals>.A.B" end%string)
                [1%nat; 2%nat] [] 2%nat).
  assert (A : lookup nat (alias nat (fun n => match n with 1%nat => "m.f.<locals>.A_B" | _ => "m.f.<locals>.A.B" end%string) 2%nat)
                (ns_setdefault nat (alias nat (fun n => match n with 1%nat => "m.f.<locals>.A_B" | _ => "m.f.<locals>.A.B" end%string)) [1%nat; 2%nat] []) = Some 2%nat).
  { apply H.
    - intros o' [<- | [<- | []]]; vm_compute; split; reflexivity.
    - intros o' _. reflexivity.
    - right. left. reflexivity. }
  vm_compute in A. discriminate A.
Qed.
