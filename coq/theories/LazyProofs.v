(* C14: proofs about LazyModel. *)
From Coq Require Import List Arith Bool Lia.
From Verif Require Import LazyModel.
Import ListNotations.

(* ------------------------------------------------------------------------- *)
(* keys                                                                       *)
(* ------------------------------------------------------------------------- *)

Lemma mname_eqb_refl m : mname_eqb m m = true.
Proof. destruct m; unfold mname_eqb; cbn. now rewrite !Bool.eqb_reflx, !Nat.eqb_refl. Qed.

Lemma mname_eqb_eq a b : mname_eqb a b = true -> a = b.
Proof.
  destruct a, b; unfold mname_eqb; cbn. intros H.
  apply andb_prop in H as [H H4]. apply andb_prop in H as [H H3]. apply andb_prop in H as [H1 H2].
  apply Bool.eqb_prop in H1, H3. apply Nat.eqb_eq in H2, H4. now subst.
Qed.

Lemma skey_eqb_refl k : skey_eqb k k = true.
Proof. destruct k; unfold skey_eqb; cbn. now rewrite Nat.eqb_refl, mname_eqb_refl. Qed.

Lemma skey_eqb_eq a b : skey_eqb a b = true -> a = b.
Proof.
  destruct a, b; unfold skey_eqb; cbn. intros H. apply andb_prop in H as [H1 H2].
  apply Nat.eqb_eq in H1. apply mname_eqb_eq in H2. now subst.
Qed.

Lemma ckey_eqb_refl k : ckey_eqb k k = true.
Proof. destruct k as [c [p f]]; unfold ckey_eqb; cbn. now rewrite !Nat.eqb_refl, Bool.eqb_reflx. Qed.

Lemma ckey_eqb_eq a b : ckey_eqb a b = true -> a = b.
Proof.
  destruct a as [c [p f]], b as [c' [p' f']]; unfold ckey_eqb; cbn. intros H.
  apply andb_prop in H as [H H3]. apply andb_prop in H as [H1 H2].
  apply Nat.eqb_eq in H1, H3. apply Bool.eqb_prop in H2. now subst.
Qed.

Section AssocLemmas.
  Context {K V: Type} (eqb: K -> K -> bool).
  Hypothesis eqb_refl : forall k, eqb k k = true.
  Hypothesis eqb_eq : forall a b, eqb a b = true -> a = b.

  Lemma aget_aset_same k v (l: list (K * V)) : aget eqb k (aset eqb k v l) = Some v.
  Proof.
    induction l as [|[k' v'] r IH]; cbn.
    - now rewrite eqb_refl.
    - destruct (eqb k k') eqn:E; cbn.
      + now rewrite eqb_refl.
      + now rewrite E.
  Qed.

  Lemma aget_aset_other k k' v (l: list (K * V)) : eqb k' k = false -> aget eqb k' (aset eqb k v l) = aget eqb k' l.
  Proof.
    intros N. induction l as [|[k2 v2] r IH]; cbn.
    - now rewrite N.
    - destruct (eqb k k2) eqn:E; cbn.
      + apply eqb_eq in E. subst k2. now rewrite N.
      + destruct (eqb k' k2); auto.
  Qed.
End AssocLemmas.

Lemma nat_eqb_eq' a b : Nat.eqb a b = true -> a = b.
Proof. apply Nat.eqb_eq. Qed.

(* ------------------------------------------------------------------------- *)
(* slots and caches after an update                                           *)
(* ------------------------------------------------------------------------- *)

Lemma get_set_slot_same st c m x : get_slot (set_slot st c m x) c m = Some x.
Proof. unfold get_slot, set_slot; cbn. apply aget_aset_same. apply skey_eqb_refl. Qed.

Lemma get_set_slot_other st c m x c' m' :
  skey_eqb (c', m') (c, m) = false -> get_slot (set_slot st c m x) c' m' = get_slot st c' m'.
Proof. intros N. unfold get_slot, set_slot; cbn. apply aget_aset_other; auto. apply skey_eqb_eq. Qed.

(* ------------------------------------------------------------------------- *)
(* well-formed states: every installed object was generated for the slot it sits in          *)
(*   ("Compiled f => f = compile cls fmt dir dialect")                                        *)
(* ------------------------------------------------------------------------- *)

Definition slot_wf (st: state) : Prop :=
  forall c m x, get_slot st c m = Some x -> x = Stub c m \/ x = Compiled c m None.

(* the code reached through the dialect cache of (c, direction, format) for dialect dd *)
Definition cache_wf (st: state) : Prop :=
  forall c m dd x, cache_lookup st c m dd = Some x ->
    x = Compiled c (dialect_target m) (Some dd) \/ x = Stub c (dialect_target m).

Definition wf (st: state) : Prop := slot_wf st /\ cache_wf st.

Definition spec_free (F: fam) : Prop := forall c f, In f (c_fields (cls F c)) -> f_spec f = 0.

Lemma wf_st0 : wf st0.
Proof. split; intros c m; cbn; intros; discriminate. Qed.

Lemma cache_lookup_set_slot st c m x c' m' dd :
  cache_lookup (set_slot st c m x) c' m' dd = cache_lookup st c' m' dd.
Proof. reflexivity. Qed.

Lemma get_slot_ensure_cache st c m c' m' : get_slot (ensure_cache st c m) c' m' = get_slot st c' m'.
Proof. unfold ensure_cache. destruct (get_cache st c m); reflexivity. Qed.

Lemma cache_lookup_ensure_cache st c m c' m' dd :
  cache_lookup (ensure_cache st c m) c' m' dd = cache_lookup st c' m' dd.
Proof.
  unfold ensure_cache. destruct (get_cache st c m) eqn:E; [reflexivity|].
  unfold cache_lookup, get_cache in *; cbn.
  destruct (ckey_eqb (ckey c' m') (ckey c m)) eqn:K.
  - apply ckey_eqb_eq in K. rewrite K. rewrite aget_aset_same by apply ckey_eqb_refl.
    rewrite E. reflexivity.
  - rewrite aget_aset_other; auto. apply ckey_eqb_eq.
Qed.

Lemma get_slot_cache_store st c m dd x c' m' : get_slot (cache_store st c m dd x) c' m' = get_slot st c' m'.
Proof. unfold cache_store. destruct (get_cache st c m); reflexivity. Qed.

Lemma cache_lookup_cache_store st c m dd x c' m' dd' y :
  cache_lookup (cache_store st c m dd x) c' m' dd' = Some y ->
  (ckey c' m' = ckey c m /\ dd' = dd /\ y = x) \/ cache_lookup st c' m' dd' = Some y.
Proof.
  unfold cache_store. destruct (get_cache st c m) as [l|] eqn:E; [|now right].
  unfold cache_lookup, get_cache in *; cbn.
  destruct (ckey_eqb (ckey c' m') (ckey c m)) eqn:K.
  - apply ckey_eqb_eq in K. rewrite K. rewrite aget_aset_same by apply ckey_eqb_refl.
    destruct (Nat.eqb dd' dd) eqn:D.
    + apply Nat.eqb_eq in D. subst dd'. rewrite aget_aset_same by apply Nat.eqb_refl.
      intros H. inversion H. now left.
    + rewrite aget_aset_other; auto using nat_eqb_eq'. rewrite E. now right.
  - rewrite aget_aset_other; auto. apply ckey_eqb_eq.
Qed.

Lemma ckey_dialect_target c c' m m' : ckey c' m' = ckey c m -> dialect_target m' = dialect_target m.
Proof. unfold ckey, dialect_target. intros H. inversion H. reflexivity. Qed.

(* installing an object generated for (c, m, d) keeps the state well formed, provided a dialect-specific
   object is generated under the name the dialect branch uses *)
Lemma install_wf F st c m d x st' r :
  wf st -> install F st c m d x = (st', r) ->
  (d = None -> x = Stub c m \/ x = Compiled c m None) ->
  (forall dd, d = Some dd -> m = dialect_target m /\
       (x = Compiled c m (Some dd) \/ x = Stub c m)) ->
  wf st'.
Proof.
  intros [SW CW] I HN HS. unfold install in I.
  set (st1 := if c_dsup (cls F c) then ensure_cache st c m else st) in *.
  assert (W1: wf st1).
  { subst st1. destruct (c_dsup (cls F c)); [|now split]. split.
    - intros c' m' y. rewrite get_slot_ensure_cache. apply SW.
    - intros c' m' dd y. rewrite cache_lookup_ensure_cache. apply CW. }
  destruct W1 as [SW1 CW1]. destruct d as [dd|].
  - destruct (get_cache st1 c m) eqn:G; inversion I; subst; [|now split].
    destruct (HS dd eq_refl) as [Em Hx]. split.
    + intros c' m' y. rewrite get_slot_cache_store. apply SW1.
    + intros c' m' dd' y L. apply cache_lookup_cache_store in L as [(K & -> & ->)|L]; [|now apply CW1].
      assert (Ec: c' = c) by (unfold ckey in K; congruence).
      apply ckey_dialect_target in K.
      subst c'. rewrite K, <- Em. exact Hx.
  - inversion I; subst. split.
    + intros c' m' y. destruct (skey_eqb (c', m') (c, m)) eqn:K.
      * apply skey_eqb_eq in K. inversion K; subst. rewrite get_set_slot_same. intros H; inversion H; subst. now apply HN.
      * rewrite get_set_slot_other by exact K. apply SW1.
    + intros c' m' dd y. rewrite cache_lookup_set_slot. apply CW1.
Qed.

Lemma ckey_c c m c' m' : ckey c' m' = ckey c m -> c' = c.
Proof. unfold ckey. congruence. Qed.

Section WithFam.
  Variable F : fam.
  Variable d5 : bool.

  (* a dialect-specific build is only ever started under a name without type arguments when the family
     has no specialised positions; builds without dialect are unrestricted *)
  Definition dial_ok (m: mname) (d: option did) : Prop :=
    d = None \/ m = dialect_target m.

  Lemma deps_with_wf bld sk c m fs :
    (forall st c' m' st' r, wf st -> (exists f, In f fs /\ c' = f_cls f /\ m' = nested m (f_spec f)) ->
        bld st c' m' = (st', r) -> wf st') ->
    forall st st' r, wf st -> deps_with bld sk c m fs st = (st', r) -> wf st'.
  Proof.
    induction fs as [|f fs IH]; intros HB st st' r W D; cbn in D.
    - inversion D; subst; exact W.
    - assert (HB': forall st c' m' st' r, wf st -> (exists f, In f fs /\ c' = f_cls f /\ m' = nested m (f_spec f)) ->
                bld st c' m' = (st', r) -> wf st').
      { intros s c' m' s' r' Ws (g & Ig & E1 & E2). eapply HB; eauto. exists g. split; [now right|auto]. }
      destruct (get_slot st (f_cls f) (nested m (f_spec f))).
      + eapply IH; eauto.
      + destruct (sk && Nat.eqb (f_cls f) c && negb (m_top m)).
        * eapply IH; eauto.
        * destruct (bld st (f_cls f) (nested m (f_spec f))) as [s1 [e|]] eqn:B.
          -- inversion D; subst. eapply HB; eauto. exists f. split; [now left|auto].
          -- eapply IH; [exact HB'| |exact D]. eapply HB; eauto. exists f. split; [now left|auto].
  Qed.

  Lemma build_wf n : forall st ap c m d st' r,
    wf st -> dial_ok m d -> build F d5 n st ap c m d = (st', r) -> wf st'.
  Proof.
    induction n as [|n IH]; intros st ap c m d st' r W DK B; cbn in B.
    - inversion B; subst; exact W.
    - assert (INST: forall st1 x st2 r2, wf st1 -> install F st1 c m d x = (st2, r2) ->
                (x = Stub c m \/ x = Compiled c m d) -> wf st2).
      { intros st1 x st2 r2 W1 I Hx. eapply install_wf; eauto.
        - intros ->. exact Hx.
        - intros dd ->. destruct DK as [DK|DK]; [discriminate|]. split; [exact DK|].
          destruct Hx as [->| ->]; auto. }
      destruct (c_lazy (cls F c) && ap && (negb d5 || match d with None => true | Some _ => false end)).
      + eapply INST; eauto.
      + destruct (unresolved F st c).
        * destruct (ap && c_apc (cls F c)); [eapply INST; eauto|]. inversion B; subst; exact W.
        * destruct (deps_with (fun st c' m' => build F d5 n st true c' m' None) (match d with None => true | Some _ => false end) c m (c_fields (cls F c)) st)
            as [s1 [e|]] eqn:D.
          -- inversion B; subst. eapply deps_with_wf; [|exact W|exact D].
             intros s c' m' s' r' Ws _ Bn. eapply IH; [exact Ws| |exact Bn]. now left.
          -- eapply INST; [|exact B|now right]. eapply deps_with_wf; [|exact W|exact D].
             intros s c' m' s' r' Ws _ Bn. eapply IH; [exact Ws| |exact Bn]. now left.
  Qed.

  (* ----------------------------------------------------------------------- *)
  (* presence of own methods, monotonicity                                    *)
  (* ----------------------------------------------------------------------- *)
  Definition present (st: state) (c: cid) (m: mname) : Prop := get_slot st c m <> None.
  Definition mono (st st': state) : Prop := forall c m, present st c m -> present st' c m.

  Lemma mono_refl st : mono st st.
  Proof. intros c m H; exact H. Qed.
  Lemma mono_trans a b c : mono a b -> mono b c -> mono a c.
  Proof. intros H1 H2 x m P. apply H2, H1, P. Qed.

  Lemma present_set_slot st c m x c' m' : present st c' m' -> present (set_slot st c m x) c' m'.
  Proof.
    unfold present. intros P. destruct (skey_eqb (c', m') (c, m)) eqn:K.
    - apply skey_eqb_eq in K. inversion K; subst. rewrite get_set_slot_same. discriminate.
    - rewrite get_set_slot_other by exact K. exact P.
  Qed.

  Lemma install_mono st c m d x st' r : install F st c m d x = (st', r) -> mono st st'.
  Proof.
    unfold install. intros I c' m' P.
    assert (P1: present (if c_dsup (cls F c) then ensure_cache st c m else st) c' m').
    { destruct (c_dsup (cls F c)); [|exact P]. unfold present. rewrite get_slot_ensure_cache. exact P. }
    destruct d as [dd|].
    - destruct (get_cache _ c m); inversion I; subst; [|exact P1].
      unfold present. rewrite get_slot_cache_store. exact P1.
    - inversion I; subst. now apply present_set_slot.
  Qed.

  Lemma install_none_present st c m x st' r : install F st c m None x = (st', r) -> present st' c m.
  Proof. unfold install. intros I. inversion I; subst. unfold present. rewrite get_set_slot_same. discriminate. Qed.

  (* the positions of method m of class c whose own nested method exists *)
  Definition nested_present (st: state) (c: cid) (m: mname) : Prop :=
    forall f, In f (c_fields (cls F c)) -> present st (f_cls f) (nested m (f_spec f)).

  Lemma nested_present_mono st st' c m : mono st st' -> nested_present st c m -> nested_present st' c m.
  Proof. intros M N f Hf. apply M, N, Hf. Qed.

  (* COMPLETENESS: every compiled body (default or dialect-specific) only calls nested methods that the nested
     class itself owns - the run-time lookup through the MRO never falls back to an ancestor's code *)
  Definition complete (st: state) : Prop :=
    (forall c m, get_slot st c m = Some (Compiled c m None) -> nested_present st c m) /\
    (forall c m dd, cache_lookup st c m dd = Some (Compiled c (dialect_target m) (Some dd)) -> nested_present st c m).

  Definition inv (st: state) : Prop := wf st /\ complete st.

  (* domain of the theorems: a class with a position of its own type is never specialised (G[int] of a
     self-referencing generic G): the builders' "class being compiled" shortcut compares names computed from the
     position's type arguments only *)
  Definition has_self (c: cid) : Prop := exists g, In g (c_fields (cls F c)) /\ f_cls g = c.
  Definition selfref_unspec : Prop :=
    forall c f, In f (c_fields (cls F c)) -> has_self (f_cls f) -> f_spec f = 0.
  Definition name_ok (c: cid) (m: mname) : Prop := has_self c -> m_spec m = 0.

  Lemma complete_mono_stub st st' :
    complete st -> mono st st' ->
    (forall c m, get_slot st' c m = Some (Compiled c m None) -> get_slot st c m = Some (Compiled c m None)) ->
    (forall c m dd, cache_lookup st' c m dd = Some (Compiled c (dialect_target m) (Some dd)) ->
                    cache_lookup st c m dd = Some (Compiled c (dialect_target m) (Some dd))) ->
    complete st'.
  Proof.
    intros [C1 C2] M H1 H2. split.
    - intros c m G. eapply nested_present_mono; [exact M|]. apply C1, H1, G.
    - intros c m dd G. eapply nested_present_mono; [exact M|]. eapply C2, H2, G.
  Qed.

  (* installing x for (c, m, d): completeness is kept if x is a stub, or x is the compiled code and all its
     nested methods are present afterwards *)
  Lemma install_complete st c m d x st' r :
    complete st -> install F st c m d x = (st', r) ->
    ((exists a b, x = Stub a b) \/ (x = Compiled c m d /\ (d = None \/ m = dialect_target m) /\ nested_present st' c m)) ->
    complete st'.
  Proof.
    intros CP I Hx. pose proof (install_mono _ _ _ _ _ _ _ I) as M.
    destruct CP as [C1 C2]. unfold install in I.
    set (st1 := if c_dsup (cls F c) then ensure_cache st c m else st) in *.
    assert (S1: forall c' m', get_slot st1 c' m' = get_slot st c' m').
    { intros. subst st1. destruct (c_dsup (cls F c)); [apply get_slot_ensure_cache|reflexivity]. }
    assert (L1: forall c' m' dd, cache_lookup st1 c' m' dd = cache_lookup st c' m' dd).
    { intros. subst st1. destruct (c_dsup (cls F c)); [apply cache_lookup_ensure_cache|reflexivity]. }
    destruct d as [dd|].
    - destruct (get_cache st1 c m) eqn:G; inversion I; subst.
      + split.
        * intros c' m' Gs. rewrite get_slot_cache_store, S1 in Gs. eapply nested_present_mono; [exact M|]. now apply C1.
        * intros c' m' dd' L. apply cache_lookup_cache_store in L as [(K & -> & E)|L].
          -- destruct Hx as [(a & b & ->)|(-> & [?|Em] & NP)]; [discriminate|discriminate|].
             assert (Ec: c' = c) by (unfold ckey in K; congruence). subst c'.
             intros f Hf. specialize (NP f Hf).
             replace (nested m' (f_spec f)) with (nested m (f_spec f)); [exact NP|].
             unfold ckey in K. inversion K. unfold nested. congruence.
          -- rewrite L1 in L. eapply nested_present_mono; [exact M|]. eapply C2; eauto.
      + split.
        * intros c' m' Gs. rewrite S1 in Gs. eapply nested_present_mono; [exact M|]. now apply C1.
        * intros c' m' dd' L. rewrite L1 in L. eapply nested_present_mono; [exact M|]. eapply C2; eauto.
    - inversion I; subst. split.
      + intros c' m' Gs. destruct (skey_eqb (c', m') (c, m)) eqn:K.
        * apply skey_eqb_eq in K. inversion K; subst. rewrite get_set_slot_same in Gs. inversion Gs as [E].
          destruct Hx as [(a & b & ->)|(_ & _ & NP)]; [discriminate|]. subst x. exact NP.
        * rewrite get_set_slot_other in Gs by exact K. rewrite S1 in Gs.
          eapply nested_present_mono; [exact M|]. now apply C1.
      + intros c' m' dd L. rewrite cache_lookup_set_slot, L1 in L.
        eapply nested_present_mono; [exact M|]. eapply C2; eauto.
  Qed.

  (* on-demand compilation of the nested classes: generic induction principle *)
  Lemma deps_with_inv (P: state -> Prop) bld sk c m fs :
    (forall st c' m' st' r, P st -> (exists f, In f fs /\ c' = f_cls f /\ m' = nested m (f_spec f)) ->
        bld st c' m' = (st', r) -> P st' /\ mono st st' /\ (r = None -> present st' c' m')) ->
    forall st st' r, P st -> deps_with bld sk c m fs st = (st', r) ->
      P st' /\ mono st st' /\
      (r = None -> forall f, In f fs -> present st' (f_cls f) (nested m (f_spec f)) \/
                                        (sk = true /\ f_cls f = c /\ m_top m = false)).
  Proof.
    induction fs as [|f fs IH]; intros HB st st' r Ps D; cbn in D.
    - inversion D; subst. split; [exact Ps|]. split; [apply mono_refl|]. intros _ g [].
    - assert (HB': forall st c' m' st' r, P st -> (exists f, In f fs /\ c' = f_cls f /\ m' = nested m (f_spec f)) ->
                bld st c' m' = (st', r) -> P st' /\ mono st st' /\ (r = None -> present st' c' m')).
      { intros s c' m' s' r' Ws (g & Ig & E1 & E2). eapply HB; eauto. exists g. split; [now right|auto]. }
      destruct (get_slot st (f_cls f) (nested m (f_spec f))) eqn:G.
      + destruct (IH HB' _ _ _ Ps D) as (P' & M' & K). split; [exact P'|]. split; [exact M'|].
        intros Hr g [<-|Hg]; [|now apply K]. left. apply M'. unfold present. rewrite G. discriminate.
      + destruct (sk && Nat.eqb (f_cls f) c && negb (m_top m)) eqn:SK.
        * destruct (IH HB' _ _ _ Ps D) as (P' & M' & K). split; [exact P'|]. split; [exact M'|].
          intros Hr g [<-|Hg]; [|now apply K]. right.
          apply andb_prop in SK as [SK T]. apply andb_prop in SK as [S1 E]. apply Nat.eqb_eq in E.
          destruct sk; [|discriminate]. destruct (m_top m); [discriminate|]. auto.
        * destruct (bld st (f_cls f) (nested m (f_spec f))) as [s1 [e|]] eqn:B.
          -- inversion D; subst.
             destruct (HB _ _ _ _ _ Ps (ex_intro _ f (conj (or_introl eq_refl) (conj eq_refl eq_refl))) B) as (P1 & M1 & _).
             split; [exact P1|]. split; [exact M1|]. discriminate.
          -- destruct (HB _ _ _ _ _ Ps (ex_intro _ f (conj (or_introl eq_refl) (conj eq_refl eq_refl))) B) as (P1 & M1 & K1).
             destruct (IH HB' _ _ _ P1 D) as (P' & M' & K). split; [exact P'|]. split; [eapply mono_trans; eauto|].
             intros Hr g [<-|Hg]; [|now apply K]. left. apply M', K1. reflexivity.
  Qed.

  Lemma nested_nested m s s' : nested (nested m s) s' = nested m s'.
  Proof. reflexivity. Qed.

  (* CodeBuilder(...).add_*_method() keeps the invariant, only adds methods, and a successful default build
     leaves the class with its own method *)
  Lemma build_inv n : selfref_unspec -> forall st ap c m d st' r,
    inv st -> dial_ok m d -> name_ok c m -> build F d5 n st ap c m d = (st', r) ->
    inv st' /\ mono st st' /\ (r = None -> d = None -> present st' c m).
  Proof.
    intros SU. induction n as [|n IH]; intros st ap c m d st' r [W CP] DK NK B.
    - cbn in B. inversion B; subst. split; [now split|]. split; [apply mono_refl|discriminate].
    - pose proof (build_wf _ _ _ _ _ _ _ _ W DK B) as W'. cbn in B.
      assert (STUB: forall st2 r2, install F st c m d (Stub c m) = (st2, r2) ->
                inv st2 /\ mono st st2 /\ (r2 = None -> d = None -> present st2 c m)).
      { intros st2 r2 I. split; [split|split].
        - refine (install_wf _ _ _ _ _ _ _ _ W I _ _).
          + intros _. now left.
          + intros dd ->. destruct DK as [?|DK]; [discriminate|]. split; [exact DK|now right].
        - refine (install_complete _ _ _ _ _ _ _ CP I _). left. eauto.
        - eapply install_mono; eauto.
        - intros _ ->. eapply install_none_present; eauto. }
      destruct (c_lazy (cls F c) && ap && (negb d5 || match d with None => true | Some _ => false end)).
      + now apply STUB.
      + destruct (unresolved F st c).
        * destruct (ap && c_apc (cls F c)); [now apply STUB|]. inversion B; subst. split; [now split|]. split; [apply mono_refl|discriminate].
        * set (sk := match d with None => true | Some _ => false end) in *.
          destruct (deps_with (fun st c' m' => build F d5 n st true c' m' None) sk c m (c_fields (cls F c)) st)
            as [s1 r1] eqn:D.
          assert (DI: inv s1 /\ mono st s1 /\
                      (r1 = None -> forall f, In f (c_fields (cls F c)) ->
                         present s1 (f_cls f) (nested m (f_spec f)) \/ (sk = true /\ f_cls f = c /\ m_top m = false))).
          { eapply (deps_with_inv inv); [|now split|exact D].
            intros s c' m' s' r' Is (f & Hf & -> & ->) Bn.
            assert (NKf: name_ok (f_cls f) (nested m (f_spec f))) by (intros HS; cbn; now apply (SU c f Hf)).
            destruct (IH _ _ _ _ _ _ _ Is (or_introl eq_refl) NKf Bn) as (I' & M' & K').
            split; [exact I'|]. split; [exact M'|]. intros Hr. now apply K'. }
          destruct DI as (I1 & M1 & K1). destruct r1 as [e|].
          -- inversion B; subst. split; [exact I1|]. split; [exact M1|discriminate].
          -- pose proof (install_mono _ _ _ _ _ _ _ B) as M2.
             split; [split; [exact W'|]|split; [eapply mono_trans; eauto|]].
             ++ eapply install_complete; [apply I1|exact B|]. right. split; [reflexivity|]. split; [exact DK|].
                intros f Hf. destruct (K1 eq_refl f Hf) as [Pf|(Sk & Ec & Tp)]; [now apply M2|].
                (* the "class being compiled" shortcut: the position names the method being installed *)
                assert (Dn: d = None) by (destruct d; [discriminate|reflexivity]). subst d.
                assert (HS: has_self c) by (exists f; split; assumption).
                assert (E: nested m (f_spec f) = m).
                { rewrite (SU c f Hf) by (rewrite Ec; exact HS). specialize (NK HS).
                  destruct m as [p fm tp sp]; cbn in *. subst. reflexivity. }
                rewrite Ec, E. eapply install_none_present; eauto.
             ++ intros _ ->. eapply install_none_present; eauto.
  Qed.

  (* ----------------------------------------------------------------------- *)
  (* dispatch: unfolding equation                                             *)
  (* ----------------------------------------------------------------------- *)
  Definition run_cached (fuel': nat) (c: cid) (d: option did) (st: state) (x: meth) : state * dres :=
    match x with
    | Compiled _ _ _ => (st, DRun x)
    | Stub sc sm =>
        match build F d5 (bfuel F) st false c (stub_target sm) None with
        | (st1, None) => dispatch F d5 fuel' st1 c sm d
        | (st1, Some e) => (st1, DExc e)
        end
    end.

  Lemma dispatch_S fuel' st c m d :
    dispatch F d5 (S fuel') st c m d =
    match mro_slot F st c m with
    | None => (st, DExc EAttrMeth)
    | Some mt =>
        match d with
        | None => run_cached fuel' c None st mt
        | Some dd =>
            match cache_lookup st c m dd with
            | Some x => run_cached fuel' c d st x
            | None =>
                match build F d5 (bfuel F) st true c (dialect_target m) d with
                | (st1, None) =>
                    match cache_lookup st1 c m dd with
                    | Some x => run_cached fuel' c d st1 x
                    | None => (st1, DExc EAttrCache)
                    end
                | (st1, Some e) => (st1, DExc e)
                end
            end
        end
    end.
  Proof.
    cbn [dispatch]. destruct (mro_slot F st c m) as [mt|]; [|reflexivity].
    destruct d as [dd|].
    - reflexivity.
    - destruct mt; reflexivity.
  Qed.

  (* a class that owns the method never sees an ancestor's *)
  Lemma mro_own st c m x : get_slot st c m = Some x -> mro_slot F st c m = Some x.
  Proof. unfold mro_slot. intros G. destruct (length F); cbn; now rewrite G. Qed.

  Definition code_of (c: cid) (m: mname) (d: option did) : meth :=
    match d with None => Compiled c m None | Some dd => Compiled c (dialect_target m) (Some dd) end.
  (* where the code a call runs is stored *)
  Definition stored (st: state) (c: cid) (m: mname) (d: option did) (k: meth) : Prop :=
    match d with None => get_slot st c m = Some k | Some dd => cache_lookup st c m dd = Some k end.

  Lemma dialect_target_idem m : dialect_target (dialect_target m) = dialect_target m.
  Proof. reflexivity. Qed.

  Lemma cache_lookup_ckey st c a b dd :
    m_pack a = m_pack b -> m_fmt a = m_fmt b -> cache_lookup st c a dd = cache_lookup st c b dd.
  Proof. intros E1 E2. unfold cache_lookup, get_cache, ckey. now rewrite E1, E2. Qed.

  (* whatever the history: a call on a class that owns the method reaches THE body generated for (class, method,
     dialect) - never one generated for another class (e.g. an ancestor), method or dialect *)
  Lemma dispatch_inv fuel : selfref_unspec -> forall st c m d st' r,
    inv st -> present st c m -> name_ok c m ->
    dispatch F d5 fuel st c m d = (st', r) ->
    inv st' /\ mono st st' /\ (forall k, r = DRun k -> k = code_of c m d /\ stored st' c m d k).
  Proof.
    intros SU. induction fuel as [|fuel IH]; intros st c m d st' r I P NM D.
    - cbn in D. inversion D; subst. split; [exact I|]. split; [apply mono_refl|]. intros k H; discriminate.
    - rewrite dispatch_S in D.
      destruct (get_slot st c m) as [mt|] eqn:G; [|exfalso; now apply P].
      rewrite (mro_own _ _ _ _ G) in D.
      assert (NK0: forall m0, m_spec m0 = 0 -> name_ok c m0) by (intros m0 E _; exact E).
      (* a stub found in slot or cache: rebuild the default method for c, re-dispatch *)
      assert (RC: forall s sm s' r', inv s -> mono st s -> (d = None -> sm = m) ->
                 (d <> None -> dialect_target sm = dialect_target m /\ sm = dialect_target sm) ->
                 run_cached fuel c d s (Stub c sm) = (s', r') ->
                 inv s' /\ mono st s' /\ (forall k, r' = DRun k -> k = code_of c m d /\ stored s' c m d k)).
      { intros s sm s' r' Is Ms Hn Hd R. cbn [run_cached] in R.
        assert (NMs: name_ok c (stub_target sm)).
        { unfold stub_target. destruct d as [dd|]; [apply NK0; destruct (Hd ltac:(discriminate)) as (_ & E); rewrite E; reflexivity|].
          rewrite (Hn eq_refl). exact NM. }
        destruct (build F d5 (bfuel F) s false c (stub_target sm) None) as [s1 [e|]] eqn:B.
        - inversion R; subst.
          destruct (build_inv _ SU _ _ _ _ _ _ _ Is (or_introl eq_refl) NMs B) as (I1 & M1 & _).
          split; [exact I1|]. split; [eapply mono_trans; eauto|]. intros k H; discriminate.
        - destruct (build_inv _ SU _ _ _ _ _ _ _ Is (or_introl eq_refl) NMs B) as (I1 & M1 & K1).
          assert (P1: present s1 c sm).
          { destruct d as [dd|].
            - destruct (Hd ltac:(discriminate)) as (_ & E). specialize (K1 eq_refl eq_refl).
              exact K1.
            - rewrite (Hn eq_refl). apply M1, Ms, P. }
          assert (NM1: name_ok c sm).
          { destruct d as [dd|]; [apply NK0; destruct (Hd ltac:(discriminate)) as (_ & E); rewrite E; reflexivity|].
            rewrite (Hn eq_refl). exact NM. }
          destruct (IH _ _ _ _ _ _ I1 P1 NM1 R) as (I2 & M2 & K). split; [exact I2|].
          split; [eapply mono_trans; [exact Ms|eapply mono_trans; eauto]|].
          intros k H. destruct (K k H) as [E S]. destruct d as [dd|].
          + destruct (Hd ltac:(discriminate)) as (E1 & _). cbn in *. rewrite E1 in E. split; [exact E|].
            rewrite <- S. apply cache_lookup_ckey; unfold dialect_target in E1; inversion E1; reflexivity.
          + rewrite (Hn eq_refl) in *. split; assumption. }
      assert (I0 := I). destruct I as [[SW CW] CP].
      destruct d as [dd|].
      + assert (HIT: forall s x s' r', inv s -> mono st s -> cache_lookup s c m dd = Some x ->
                   run_cached fuel c (Some dd) s x = (s', r') ->
                   inv s' /\ mono st s' /\ (forall k, r' = DRun k -> k = code_of c m (Some dd) /\ stored s' c m (Some dd) k)).
        { intros s x s' r' Is Ms L R. destruct Is as [[SWs CWs] CPs].
          destruct (CWs _ _ _ _ L) as [->| ->].
          - cbn in R. inversion R; subst. split; [split; [split|]; assumption|]. split; [exact Ms|].
            intros k H; inversion H; subst. split; [reflexivity|exact L].
          - eapply (RC s (dialect_target m)); [split; [split|]; assumption|exact Ms|discriminate| |exact R].
            intros _. split; reflexivity. }
        destruct (cache_lookup st c m dd) as [x|] eqn:L.
        * eapply HIT; [exact I0|apply mono_refl|exact L|exact D].
        * destruct (build F d5 (bfuel F) st true c (dialect_target m) (Some dd)) as [s1 [e|]] eqn:B.
          -- inversion D; subst.
             destruct (build_inv _ SU _ _ _ _ _ _ _ I0 (or_intror eq_refl) (NK0 (dialect_target m) eq_refl) B) as (I1 & M1 & _).
             split; [exact I1|]. split; [exact M1|]. intros k H; discriminate.
          -- destruct (build_inv _ SU _ _ _ _ _ _ _ I0 (or_intror eq_refl) (NK0 (dialect_target m) eq_refl) B) as (I1 & M1 & _).
             destruct (cache_lookup s1 c m dd) as [x|] eqn:L1.
             ++ eapply HIT; [exact I1|exact M1|exact L1|exact D].
             ++ inversion D; subst. split; [exact I1|]. split; [exact M1|]. intros k H; discriminate.
      + destruct (SW _ _ _ G) as [->| ->].
        * eapply (RC st m); [exact I0|apply mono_refl|reflexivity|intros H; congruence|exact D].
        * cbn in D. inversion D; subst. split; [exact I0|]. split; [apply mono_refl|].
          intros k H; inversion H; subst. split; [reflexivity|exact G].
  Qed.

  (* ----------------------------------------------------------------------- *)
  (* the state-independent meaning of a call                                  *)
  (* ----------------------------------------------------------------------- *)
  Fixpoint den (x: vtree) (c: cid) (m: mname) (d: option did) {struct x} : tr :=
    match x with
    | V kids =>
        let km := match d with None => m | Some _ => dialect_target m end in
        let fix dk (l: list (nat * vtree)) : list tr :=
          match l with
          | [] => []
          | iv :: r =>
              match iv with
              | (i, v) =>
                match nth_error (c_fields (cls F c)) i with
                | None => dk r
                | Some f =>
                    den v (f_cls f) (nested km (f_spec f))
                        (if c_dsup (cls F c) && c_dsup (cls F (f_cls f)) then d else None) :: dk r
                end
              end
          end in
        Node c km d (dk kids)
    end.

  Definition dk (c: cid) (km: mname) (d: option did) : list (nat * vtree) -> list tr :=
    fix dk (l: list (nat * vtree)) : list tr :=
      match l with
      | [] => []
      | iv :: r =>
          match iv with
          | (i, v) =>
            match nth_error (c_fields (cls F c)) i with
            | None => dk r
            | Some f =>
                den v (f_cls f) (nested km (f_spec f))
                    (if c_dsup (cls F c) && c_dsup (cls F (f_cls f)) then d else None) :: dk r
            end
          end
      end.

  Lemma den_V kids c m d :
    den (V kids) c m d =
    let km := match d with None => m | Some _ => dialect_target m end in Node c km d (dk c km d kids).
  Proof. reflexivity. Qed.

  Lemma vtree_ind' (P: vtree -> Prop) :
    (forall kids, Forall (fun iv => P (snd iv)) kids -> P (V kids)) -> forall x, P x.
  Proof.
    intros H. fix IH 1. intros [kids]. apply H.
    induction kids as [|iv r IHr]; constructor; [|exact IHr].
    destruct iv as [i v]. cbn. apply IH.
  Qed.

  Lemma call_V fuel kids st c m d :
    call F d5 fuel (V kids) st c m d =
    match dispatch F d5 fuel st c m d with
    | (st1, DRun (Compiled kc km kd)) => go (call F d5 fuel) F kc km kd kids st1 []
    | (st1, DRun (Stub _ _)) => (st1, OOF)
    | (st1, DExc e) => (st1, Exc e)
    | (st1, DOOF) => (st1, OOF)
    end.
  Proof. reflexivity. Qed.

  (* C14 core: in every reachable state (however it was reached: eager, lazy, postponed, any order of earlier
     calls) a call on a class that owns the method answers [den] - which mentions neither the state nor any
     ancestor of the class *)
  Lemma call_den fuel : selfref_unspec -> forall x st c m d st' o,
    inv st -> present st c m -> name_ok c m -> call F d5 fuel x st c m d = (st', o) ->
    inv st' /\ mono st st' /\ (forall t, o = Out t -> t = den x c m d).
  Proof.
    intros SU. induction x as [kids IHk] using vtree_ind'. intros st c m d st' o I P NM C.
    rewrite call_V in C.
    destruct (dispatch F d5 fuel st c m d) as [st1 r] eqn:D.
    destruct (dispatch_inv _ SU _ _ _ _ _ _ I P NM D) as (I1 & M1 & K).
    destruct r as [k|e|].
    2:{ inversion C; subst. split; [exact I1|]. split; [exact M1|]. intros t H; discriminate. }
    2:{ inversion C; subst. split; [exact I1|]. split; [exact M1|]. intros t H; discriminate. }
    destruct (K k eq_refl) as [-> ST].
    rewrite den_V.
    set (km := match d with None => m | Some _ => dialect_target m end).
    assert (EK: code_of c m d = Compiled c km d) by (unfold code_of, km; destruct d; reflexivity).
    rewrite EK in C, ST.
    assert (NP: nested_present st1 c km).
    { destruct I1 as [_ [C1 C2]]. unfold stored in ST. destruct d as [dd|]; subst km.
      - intros f Hf. apply (C2 _ _ _ ST f Hf).
      - apply C1, ST. }
    clear EK D K ST.
    assert (G: forall l, Forall (fun iv => forall st c m d st' o, inv st -> present st c m -> name_ok c m ->
                       call F d5 fuel (snd iv) st c m d = (st', o) ->
                       inv st' /\ mono st st' /\ (forall t, o = Out t -> t = den (snd iv) c m d)) l ->
               forall s acc s' o', inv s -> mono st1 s -> go (call F d5 fuel) F c km d l s acc = (s', o') ->
               inv s' /\ mono st1 s' /\ (forall t, o' = Out t -> t = Node c km d (rev acc ++ dk c km d l))).
    { induction l as [|[i v] r IHr]; intros FA s acc s' o' Is Ms Gq; cbn in Gq.
      - inversion Gq; subst. split; [exact Is|]. split; [exact Ms|].
        intros t H; inversion H; subst. cbn. now rewrite app_nil_r.
      - inversion FA as [|? ? Hv Hr]; subst. cbn [dk].
        destruct (nth_error (c_fields (cls F c)) i) as [f|] eqn:N.
        2:{ eapply IHr; eauto. }
        set (d' := if c_dsup (cls F c) && c_dsup (cls F (f_cls f)) then d else None) in *.
        destruct (call F d5 fuel v s (f_cls f) (nested km (f_spec f)) d') as [s1 o1] eqn:Cv.
        pose proof (nth_error_In _ _ N) as Hf.
        assert (Pf: present s (f_cls f) (nested km (f_spec f))) by (apply Ms, NP, Hf).
        assert (Nf: name_ok (f_cls f) (nested km (f_spec f))) by (intros HS; cbn; now apply (SU c f Hf)).
        destruct (Hv _ _ _ _ _ _ Is Pf Nf Cv) as (Is1 & Ms1 & Hd).
        destruct o1 as [t1|e1|].
        + destruct (IHr Hr _ _ _ _ Is1 (mono_trans _ _ _ Ms Ms1) Gq) as (Is' & Ms' & Ht).
          split; [exact Is'|]. split; [exact Ms'|].
          intros t H. rewrite (Ht t H). cbn [rev]. rewrite <- app_assoc. cbn.
          now rewrite (Hd t1 eq_refl).
        + inversion Gq; subst. split; [exact Is1|]. split; [eapply mono_trans; eauto|]. intros t H; discriminate.
        + inversion Gq; subst. split; [exact Is1|]. split; [eapply mono_trans; eauto|]. intros t H; discriminate. }
    destruct (G kids IHk st1 [] st' o I1 (mono_refl _) C) as (I' & M' & Ht).
    split; [exact I'|]. split; [eapply mono_trans; eauto|].
    intros t H. rewrite (Ht t H). reflexivity.
  Qed.
End WithFam.

(* ------------------------------------------------------------------------- *)
(* histories                                                                  *)
(* ------------------------------------------------------------------------- *)

Definition sem (F: fam) (o: op) : tr :=
  match o with
  | Define c => Node c (MN false 0 false 0) None []
  | Call c m d x => den F x c m d
  end.

(* a public call goes to a method the class owns (after `Define c`: every entry point of its mixins), and public
   entry points carry no type arguments *)
Definition op_ok (st: state) (o: op) : Prop :=
  match o with Call c m _ _ => get_slot st c m <> None /\ m_spec m = 0 | Define _ => True end.
Fixpoint ok_hist (F: fam) (d5: bool) (fuel: nat) (st: state) (h: list op) : Prop :=
  match h with
  | [] => True
  | o :: r => op_ok st o /\ ok_hist F d5 fuel (fst (step F d5 fuel st o)) r
  end.

Lemma wf_bind st c : wf st -> wf (bind st c).
Proof. intros [SW CW]. split; intros c' m'; [apply (SW c' m')|apply (CW c' m')]. Qed.

Lemma inv_st0 F : inv F st0.
Proof. split; [apply wf_st0|]. split; intros c m; cbn; intros; discriminate. Qed.

Lemma inv_bind F st c : inv F st -> inv F (bind st c).
Proof.
  intros [W [C1 C2]]. split; [now apply wf_bind|]. split.
  - intros c' m' G f Hf. apply (C1 c' m' G f Hf).
  - intros c' m' dd G f Hf. apply (C2 c' m' dd G f Hf).
Qed.

Lemma define_fmts_inv F d5 (SU: selfref_unspec F) fs : forall st c st' r,
  inv F st -> define_fmts F d5 fs st c = (st', r) -> inv F st'.
Proof.
  induction fs as [|[fu fp] fs IH]; intros st c st' r I D; cbn [define_fmts] in D.
  - inversion D; subst; exact I.
  - assert (NK: forall p f, name_ok F c (top_name p f)) by (intros p f _; reflexivity).
    destruct (build F d5 (bfuel F) st true c (top_name false fu) None) as [s1 r1] eqn:B1.
    destruct (build_inv F d5 _ SU _ _ _ _ _ _ _ I (or_introl eq_refl) (NK _ _) B1) as (I1 & _ & _).
    destruct r1 as [e|]; [inversion D; subst; exact I1|].
    destruct (build F d5 (bfuel F) s1 true c (top_name true fp) None) as [s2 r2] eqn:B2.
    destruct (build_inv F d5 _ SU _ _ _ _ _ _ _ I1 (or_introl eq_refl) (NK _ _) B2) as (I2 & _ & _).
    destruct r2 as [e|]; [inversion D; subst; exact I2|]. eapply IH; eauto.
Qed.

Lemma step_inv F d5 fuel (SU: selfref_unspec F) st o st' out :
  inv F st -> op_ok st o -> step F d5 fuel st o = (st', out) ->
  inv F st' /\ (forall t, out = Out t -> t = sem F o).
Proof.
  intros I OK S. destruct o as [c|c m d x]; cbn [step] in S.
  - destruct (define_fmts F d5 (c_fmts (cls F c)) st c) as [s1 [e|]] eqn:D; inversion S; subst.
    + split; [apply inv_bind; eapply define_fmts_inv; eauto|]. intros t H; discriminate.
    + split; [apply inv_bind; eapply define_fmts_inv; eauto|]. intros t H; inversion H; reflexivity.
  - destruct OK as [P E].
    destruct (call_den F d5 fuel SU _ _ _ _ _ _ _ I P ltac:(intros _; exact E) S) as (I' & _ & K). now split.
Qed.

Lemma run_sem F d5 fuel (SU: selfref_unspec F) : forall h st i t,
  inv F st -> ok_hist F d5 fuel st h -> nth_error (run F d5 fuel st h) i = Some (Out t) ->
  exists o, nth_error h i = Some o /\ t = sem F o.
Proof.
  induction h as [|o h IH]; intros st i t I OK N; cbn [run] in N.
  - destruct i; discriminate.
  - destruct OK as [Ho Hh]. destruct (step F d5 fuel st o) as [st' out] eqn:S.
    destruct (step_inv _ _ _ SU _ _ _ _ I Ho S) as [I' K].
    destruct i as [|i]; cbn [nth_error] in N.
    + inversion N; subst. exists o. split; [reflexivity|]. now apply K.
    + cbn in Hh. destruct (IH st' i t I' Hh N) as (o' & E & T). exists o'. now split.
Qed.

(* two families with the same fields and options, differing (at most) in lazy_compilation *)
Definition same_shape (F F': fam) : Prop :=
  forall c, c_fields (cls F c) = c_fields (cls F' c) /\ c_dsup (cls F c) = c_dsup (cls F' c).

Lemma den_ext F F' : same_shape F F' -> forall x c m d, den F x c m d = den F' x c m d.
Proof.
  intros SS. induction x as [kids IH] using vtree_ind'. intros c m d. rewrite !den_V. cbn zeta. f_equal.
  set (km := match d with None => m | Some _ => dialect_target m end). clearbody km.
  induction kids as [|[i v] r IHr]; [reflexivity|]. inversion IH as [|? ? Hv Hr]; subst. cbn [dk].
  destruct (SS c) as [Ef Ed]. rewrite <- Ef, <- Ed.
  destruct (nth_error (c_fields (cls F c)) i) as [f|]; [|now apply IHr].
  destruct (SS (f_cls f)) as [_ Ed']. rewrite <- Ed'. f_equal; [apply Hv|now apply IHr].
Qed.

Lemma selfref_unspec_ext F F' : same_shape F F' -> selfref_unspec F -> selfref_unspec F'.
Proof.
  intros SS SU c f Hf (g & Hg & Eg). destruct (SS c) as [Ec _]. destruct (SS (f_cls f)) as [Ef _].
  rewrite <- Ec in Hf. apply (SU c f Hf). exists g. rewrite Ef. now split.
Qed.

(* C14 (history independence, partial): take the family under test in ANY reachable state (any definition order,
   any lazy flags, any earlier calls, even before fix D5), with or without inheritance, and its twin in any other;
   whenever both answer the i-th operation, the answers are equal.  (That both DO answer is the subject of the
   termination theorem, of no_cache_attribute_error and of the _refuted lemmas.) *)
Theorem history_partial F F' d5 d5' fuel fuel' st st' h i t t' :
  same_shape F F' -> selfref_unspec F -> inv F st -> inv F' st' ->
  ok_hist F d5 fuel st h -> ok_hist F' d5' fuel' st' h ->
  nth_error (run F d5 fuel st h) i = Some (Out t) ->
  nth_error (run F' d5' fuel' st' h) i = Some (Out t') ->
  t = t'.
Proof.
  intros SS SU I I' OK OK' N N'.
  destruct (run_sem _ _ _ SU _ _ _ _ I OK N) as (o & E & ->).
  destruct (run_sem _ _ _ (selfref_unspec_ext _ _ SS SU) _ _ _ _ I' OK' N') as (o' & E' & ->).
  rewrite E in E'. inversion E'; subst o'. destruct o; cbn; [reflexivity|]. now apply den_ext.
Qed.

(* every state reachable from the empty module by class definitions (in any order) and public calls satisfies the
   invariant: well formed AND complete *)
Lemma reachable_inv F d5 fuel (SU: selfref_unspec F) : forall h st, inv F st -> ok_hist F d5 fuel st h ->
  inv F (fold_left (fun s o => fst (step F d5 fuel s o)) h st).
Proof.
  induction h as [|o h IH]; intros st I OK; cbn [fold_left]; [exact I|]. destruct OK as [Ho Hh].
  apply IH; [|exact Hh]. destruct (step F d5 fuel st o) as [s out] eqn:S. cbn.
  eapply step_inv; eauto.
Qed.

(* ------------------------------------------------------------------------- *)
(* the first call terminates (after fix D5): explicit measure                 *)
(* ------------------------------------------------------------------------- *)

Definition no_cache_stub (st: state) : Prop :=
  forall c m dd sc sm, cache_lookup st c m dd <> Some (Stub sc sm).
Definition resolved (F: fam) (st: state) : Prop := forall c, unresolved F st c = false.
(* number of re-dispatches still to come for a call of (c, m): 1 while the slot holds a stub *)
Definition pending (st: state) (c: cid) (m: mname) : nat :=
  match get_slot st c m with Some (Stub _ _) => 1 | _ => 0 end.

Lemma stub_target_id m : stub_target m = m.
Proof. reflexivity. Qed.

Lemma install_bound F st c m d x st' r : install F st c m d x = (st', r) -> bound st' = bound st.
Proof.
  unfold install. intros I.
  assert (B1: bound (if c_dsup (cls F c) then ensure_cache st c m else st) = bound st).
  { destruct (c_dsup (cls F c)); [|reflexivity]. unfold ensure_cache. destruct (get_cache st c m); reflexivity. }
  destruct d as [dd|].
  - destruct (get_cache _ c m) eqn:G; inversion I; subst; [|exact B1].
    unfold cache_store. rewrite G. cbn. exact B1.
  - inversion I; subst. cbn. exact B1.
Qed.

Lemma install_ncs F st c m d x st' r :
  no_cache_stub st -> install F st c m d x = (st', r) -> (d = None \/ exists a b e, x = Compiled a b e) ->
  no_cache_stub st'.
Proof.
  intros N I Hx. unfold install in I.
  set (st1 := if c_dsup (cls F c) then ensure_cache st c m else st) in *.
  assert (N1: no_cache_stub st1).
  { subst st1. destruct (c_dsup (cls F c)); [|exact N]. intros c' m' dd sc sm. rewrite cache_lookup_ensure_cache. apply N. }
  destruct d as [dd|].
  - destruct (get_cache st1 c m) eqn:G; inversion I; subst; [|exact N1].
    intros c' m' dd' sc sm L. apply cache_lookup_cache_store in L as [(_ & _ & E)|L]; [|exact (N1 _ _ _ _ _ L)].
    destruct Hx as [?|(a & b & e & ->)]; discriminate.
  - inversion I; subst. intros c' m' dd sc sm. rewrite cache_lookup_set_slot. apply N1.
Qed.

Lemma unresolved_bound F st st' c : bound st' = bound st -> unresolved F st' c = unresolved F st c.
Proof. intros E. unfold unresolved, is_bound. now rewrite E. Qed.

Section Termination.
  Variable F : fam.

  Lemma deps_with_bound_ncs bld sk c m fs :
    (forall st c' m' st' r, bld st c' m' = (st', r) ->
        bound st' = bound st /\ (no_cache_stub st -> resolved F st -> no_cache_stub st')) ->
    forall st st' r, deps_with bld sk c m fs st = (st', r) ->
      bound st' = bound st /\ (no_cache_stub st -> resolved F st -> no_cache_stub st').
  Proof.
    intros HB. induction fs as [|f fs IH]; intros st st' r D; cbn in D.
    - inversion D; subst. split; auto.
    - destruct (get_slot st (f_cls f) (nested m (f_spec f))); [now apply (IH _ _ r)|].
      destruct (sk && Nat.eqb (f_cls f) c && negb (m_top m)); [now apply (IH _ _ r)|].
      destruct (bld st (f_cls f) (nested m (f_spec f))) as [s1 [e|]] eqn:B.
      + inversion D; subst. eapply HB; eauto.
      + destruct (HB _ _ _ _ _ B) as [E1 N1]. destruct (IH _ _ _ D) as [E2 N2]. split; [congruence|].
        intros N R. apply N2; [now apply N1|]. intros c'. rewrite (unresolved_bound F st s1 c' E1). apply R.
  Qed.

  Lemma build_bound_ncs n : forall st ap c m d st' r, build F true n st ap c m d = (st', r) ->
    bound st' = bound st /\ (no_cache_stub st -> resolved F st -> no_cache_stub st').
  Proof.
    induction n as [|n IH]; intros st ap c m d st' r B; cbn in B.
    - inversion B; subst. split; auto.
    - destruct (c_lazy (cls F c) && ap && match d with None => true | Some _ => false end) eqn:L.
      + split; [eapply install_bound; eauto|]. intros N _. eapply install_ncs; eauto. left.
        destruct d; [|reflexivity]. rewrite andb_false_r in L. discriminate.
      + destruct (unresolved F st c) eqn:U.
        * destruct (ap && c_apc (cls F c)).
          -- split; [eapply install_bound; eauto|]. intros _ R. rewrite R in U. discriminate.
          -- inversion B; subst. split; auto.
        * destruct (deps_with (fun st c' m' => build F true n st true c' m' None) (match d with None => true | Some _ => false end) c m (c_fields (cls F c)) st)
            as [s1 [e|]] eqn:D.
          -- inversion B; subst.
             exact (deps_with_bound_ncs _ _ _ _ _ (fun st c' m' st' r H => IH st true c' m' None st' r H) _ _ _ D).
          -- destruct (deps_with_bound_ncs _ _ _ _ _ (fun st c' m' st' r H => IH st true c' m' None st' r H) _ _ _ D) as [E1 N1].
             split; [rewrite (install_bound _ _ _ _ _ _ _ _ B); exact E1|].
             intros N R. eapply install_ncs; [apply N1; assumption|exact B|]. right. eauto.
  Qed.

  Lemma build_installs n st c m st' :
    build F true n st false c m None = (st', None) -> get_slot st' c m = Some (Compiled c m None).
  Proof.
    destruct n as [|n]; cbn; [discriminate|]. rewrite andb_false_r. cbn.
    destruct (unresolved F st c); [discriminate|].
    destruct (deps_with _ _ c m (c_fields (cls F c)) st) as [s1 [e|]]; [discriminate|].
    unfold install. intros I. inversion I; subst. apply get_set_slot_same.
  Qed.

  Lemma dispatch_compiled fuel st c m : get_slot st c m = Some (Compiled c m None) ->
    dispatch F true (S fuel) st c m None = (st, DRun (Compiled c m None)).
  Proof. intros G. rewrite dispatch_S, (mro_own F _ _ _ _ G). reflexivity. Qed.

  (* After fix D5 a first call needs at most 1 + pending re-dispatch steps: with that much fuel the result
     is never "out of fuel" and more fuel does not change it, for every method name incl. the
     specialised ones `__mashumaro_*_<md5>__` (after fix e775114 the stub rebuilds the very method it stands
     for; see lazy_specialisation_agrees).  (Hypotheses: all class names are bound, and no dialect cache
     holds a stub - which no reachable state after the definitions does.) *)
  Theorem first_call_terminates st c m d fuel :
    slot_wf st -> no_cache_stub st -> resolved F st -> get_slot st c m <> None ->
    1 + pending st c m <= fuel ->
    dispatch F true fuel st c m d = dispatch F true (1 + pending st c m) st c m d /\
    snd (dispatch F true fuel st c m d) <> DOOF.
  Proof.
    intros SW N R OWN LE. unfold pending in *.
    destruct (get_slot st c m) as [mt|] eqn:G; [|congruence].
    pose proof (mro_own F _ _ _ _ G) as GM.
    assert (RCI: forall f1 f2 s x, (forall sc sm, x <> Stub sc sm) ->
               run_cached F true f1 c d s x = run_cached F true f2 c d s x /\ snd (run_cached F true f1 c d s x) <> DOOF).
    { intros f1 f2 s x Hx. destruct x; [exfalso; eapply Hx; eauto|]. cbn. split; [reflexivity|discriminate]. }
    destruct d as [dd|].
    - (* dialect argument: one step, whatever the slot holds *)
      assert (E: forall f1, dispatch F true (S f1) st c m (Some dd) =
                 match cache_lookup st c m dd with
                 | Some x => run_cached F true f1 c (Some dd) st x
                 | None => match build F true (bfuel F) st true c (dialect_target m) (Some dd) with
                           | (st1, None) => match cache_lookup st1 c m dd with
                                            | Some x => run_cached F true f1 c (Some dd) st1 x
                                            | None => (st1, DExc EAttrCache) end
                           | (st1, Some e) => (st1, DExc e) end
                 end).
      { intros f1. rewrite dispatch_S, GM. reflexivity. }
      assert (K: forall f1 f2, dispatch F true (S f1) st c m (Some dd) = dispatch F true (S f2) st c m (Some dd) /\
                               snd (dispatch F true (S f1) st c m (Some dd)) <> DOOF).
      { intros f1 f2. rewrite !E. destruct (cache_lookup st c m dd) as [x|] eqn:L.
        - apply RCI. intros sc sm ->. exact (N _ _ _ _ _ L).
        - destruct (build F true (bfuel F) st true c (dialect_target m) (Some dd)) as [s1 [e|]] eqn:B.
          + split; [reflexivity|discriminate].
          + destruct (build_bound_ncs _ _ _ _ _ _ _ _ B) as [_ N1]. specialize (N1 N R).
            destruct (cache_lookup s1 c m dd) as [x|] eqn:L1.
            * apply RCI. intros sc sm ->. exact (N1 _ _ _ _ _ L1).
            * split; [reflexivity|discriminate]. }
      destruct fuel as [|f]; [lia|]. destruct mt; cbn [plus]; apply K.
    - destruct mt as [sc sm|kc km kd].
      + destruct (SW _ _ _ G) as [E|E]; [|discriminate]. inversion E; subst sc sm.
        destruct fuel as [|[|f]]; [lia|lia|]. cbn [plus].
        rewrite (dispatch_S F true (S f)), (dispatch_S F true 1), GM. cbn [run_cached]. rewrite (stub_target_id m).
        destruct (build F true (bfuel F) st false c m None) as [s1 [e|]] eqn:B.
        * split; [reflexivity|discriminate].
        * pose proof (build_installs _ _ _ _ _ B) as G1.
          rewrite !dispatch_compiled by exact G1. split; [reflexivity|discriminate].
      + destruct fuel as [|f]; [lia|]. cbn [plus]. rewrite !dispatch_S, GM. cbn. split; [reflexivity|discriminate].
  Qed.
End Termination.

(* ------------------------------------------------------------------------- *)
(* after fix 28d8957: a call never fails on a missing dialect cache           *)
(* ------------------------------------------------------------------------- *)

Lemma get_cache_ensure st c m : get_cache (ensure_cache st c m) c m <> None.
Proof.
  unfold ensure_cache. destruct (get_cache st c m) eqn:E; [congruence|].
  unfold get_cache; cbn. rewrite aget_aset_same by apply ckey_eqb_refl. discriminate.
Qed.

Lemma cache_lookup_store_same st c m dd x l :
  get_cache st c m = Some l -> cache_lookup (cache_store st c m dd x) c m dd = Some x.
Proof.
  intros G. unfold cache_store. rewrite G. unfold cache_lookup, get_cache; cbn.
  rewrite aget_aset_same by apply ckey_eqb_refl. apply aget_aset_same. apply Nat.eqb_refl.
Qed.

Lemma install_none F st c m x : snd (install F st c m None x) = None.
Proof. reflexivity. Qed.

Lemma install_some_dsup F st c m dd x st' r :
  c_dsup (cls F c) = true -> install F st c m (Some dd) x = (st', r) ->
  r = None /\ cache_lookup st' c m dd = Some x.
Proof.
  intros DS I. unfold install in I. rewrite DS in I.
  destruct (get_cache (ensure_cache st c m) c m) as [l|] eqn:G.
  - inversion I; subst. split; [reflexivity|]. eapply cache_lookup_store_same; eauto.
  - exfalso. eapply get_cache_ensure; eauto.
Qed.

Section NoCacheError.
  Variable F : fam.
  Variable d5 : bool.

  Lemma deps_with_no_attr bld sk c m fs :
    (forall st c' m' st' e, bld st c' m' = (st', Some e) -> e <> EAttrCache) ->
    forall st st' e, deps_with bld sk c m fs st = (st', Some e) -> e <> EAttrCache.
  Proof.
    intros HB. induction fs as [|f fs IH]; intros st st' e D; cbn in D; [discriminate|].
    destruct (get_slot st (f_cls f) (nested m (f_spec f))); [eapply IH; eauto|].
    destruct (sk && Nat.eqb (f_cls f) c && negb (m_top m)); [eapply IH; eauto|].
    destruct (bld st (f_cls f) (nested m (f_spec f))) as [s1 [e1|]] eqn:B.
    - inversion D; subst. eapply HB; eauto.
    - eapply IH; eauto.
  Qed.

  Lemma build_no_attr n : forall st ap c m d st' e,
    (d <> None -> c_dsup (cls F c) = true) ->
    build F d5 n st ap c m d = (st', Some e) -> e <> EAttrCache.
  Proof.
    induction n as [|n IH]; intros st ap c m d st' e DS B; cbn in B.
    - inversion B; discriminate.
    - assert (INST: forall s x s' e', install F s c m d x = (s', Some e') -> e' <> EAttrCache).
      { intros s x s' e' I. destruct d as [dd|].
        - destruct (install_some_dsup F s c m dd x s' (Some e') (DS ltac:(discriminate)) I) as [N _]. discriminate.
        - pose proof (install_none F s c m x) as H. rewrite I in H. discriminate. }
      destruct (c_lazy (cls F c) && ap && (negb d5 || match d with None => true | Some _ => false end)).
      + eapply INST; eauto.
      + destruct (unresolved F st c).
        * destruct (ap && c_apc (cls F c)); [eapply INST; eauto|]. inversion B; discriminate.
        * destruct (deps_with (fun st c' m' => build F d5 n st true c' m' None) (match d with None => true | Some _ => false end) c m (c_fields (cls F c)) st)
            as [s1 [e1|]] eqn:D.
          -- inversion B; subst. eapply deps_with_no_attr; [|exact D].
             intros s c' m' s' e2 Bn. eapply IH; [|exact Bn]. congruence.
          -- eapply INST; eauto.
  Qed.

  Lemma build_dialect_stores n st ap c m dd st' :
    c_dsup (cls F c) = true -> build F d5 n st ap c m (Some dd) = (st', None) ->
    cache_lookup st' c m dd <> None.
  Proof.
    intros DS B. destruct n as [|n]; cbn in B; [discriminate|].
    assert (INST: forall s x s', install F s c m (Some dd) x = (s', None) -> cache_lookup s' c m dd <> None).
    { intros s x s' I. destruct (install_some_dsup F s c m dd x s' None DS I) as [_ L]. congruence. }
    destruct (c_lazy (cls F c) && ap && (negb d5 || false)); [eapply INST; eauto|].
    destruct (unresolved F st c).
    - destruct (ap && c_apc (cls F c)); [eapply INST; eauto|discriminate].
    - destruct (deps_with _ _ c m (c_fields (cls F c)) st) as [s1 [e1|]]; [discriminate|]. eapply INST; eauto.
  Qed.

  Lemma cache_lookup_dialect_target st c m dd : cache_lookup st c (dialect_target m) dd = cache_lookup st c m dd.
  Proof. reflexivity. Qed.

  Lemma dispatch_no_attr fuel : forall st c m d st' e,
    (d <> None -> c_dsup (cls F c) = true) ->
    dispatch F d5 fuel st c m d = (st', DExc e) -> e <> EAttrCache.
  Proof.
    induction fuel as [|fuel IH]; intros st c m d st' e DS D; [cbn in D; discriminate|].
    rewrite dispatch_S in D.
    assert (RC: forall s x, run_cached F d5 fuel c d s x = (st', DExc e) -> e <> EAttrCache).
    { intros s x R. destruct x as [sc sm|]; cbn [run_cached] in R; [|discriminate].
      destruct (build F d5 (bfuel F) s false c (stub_target sm) None) as [s1 [e1|]] eqn:B.
      - inversion R; subst. eapply build_no_attr; [|exact B]. congruence.
      - eapply IH; eauto. }
    destruct (mro_slot F st c m); [|inversion D; discriminate].
    destruct d as [dd|]; [|eapply RC; eauto].
    destruct (cache_lookup st c m dd); [eapply RC; eauto|].
    destruct (build F d5 (bfuel F) st true c (dialect_target m) (Some dd)) as [s1 [e1|]] eqn:B.
    - inversion D; subst. eapply build_no_attr; [|exact B]. intros _. apply DS. discriminate.
    - pose proof (build_dialect_stores _ _ _ _ _ _ _ (DS ltac:(discriminate)) B) as L.
      rewrite cache_lookup_dialect_target in L.
      destruct (cache_lookup s1 c m dd); [eapply RC; eauto|congruence].
  Qed.

  (* whatever the state (eager / lazy / postponed, any earlier calls, first call with or without dialect):
     a call whose dialect argument is only passed to classes with ADD_DIALECT_SUPPORT never fails with
     "type object has no attribute __dialect_*_cache__" *)
  Theorem no_cache_attribute_error fuel : forall x st c m d st' o,
    (d <> None -> c_dsup (cls F c) = true) ->
    call F d5 fuel x st c m d = (st', o) -> o <> Exc EAttrCache.
  Proof.
    induction x as [kids IHk] using vtree_ind'. intros st c m d st' o DS C.
    rewrite call_V in C.
    destruct (dispatch F d5 fuel st c m d) as [st1 r] eqn:D.
    destruct r as [k|e|].
    - destruct k as [|kc km kd]; [inversion C; discriminate|].
      assert (G: forall l, Forall (fun iv => forall st c m d st' o, (d <> None -> c_dsup (cls F c) = true) ->
                       call F d5 fuel (snd iv) st c m d = (st', o) -> o <> Exc EAttrCache) l ->
                 forall s acc s' o', go (call F d5 fuel) F kc km kd l s acc = (s', o') -> o' <> Exc EAttrCache).
      { induction l as [|[i v] r IHr]; intros FA s acc s' o' Gq; cbn in Gq.
        - inversion Gq; discriminate.
        - inversion FA as [|? ? Hv Hr]; subst.
          destruct (nth_error (c_fields (cls F kc)) i) as [f|]; [|eapply IHr; eauto].
          destruct (call F d5 fuel v s (f_cls f) (nested km (f_spec f))
                      (if c_dsup (cls F kc) && c_dsup (cls F (f_cls f)) then kd else None)) as [s1 o1] eqn:Cv.
          assert (N1: o1 <> Exc EAttrCache).
          { eapply Hv; [|exact Cv]. destruct (c_dsup (cls F kc) && c_dsup (cls F (f_cls f))) eqn:E; [|congruence].
            intros _. apply andb_prop in E. tauto. }
          destruct o1 as [t1|e1|]; [eapply IHr; eauto| |]; inversion Gq; subst; auto. }
      eapply G; eauto.
    - inversion C; subst. intros H. inversion H; subst. eapply dispatch_no_attr; eauto.
    - inversion C; discriminate.
  Qed.
End NoCacheError.
