(* C08 - kernel K108a, per-field body of the `kwargs = {}` loop of _add_pack_method_lines (translated): what it emits
   for ANY field -- nullable or not -- means OptProj.emit_kw. *)
From Coq Require Import List String Ascii ZArith Bool.
From Verif Require Import Regex PyK PyK_c08 OptProj OptEmit.
From VerifGen Require Import K108a.
Import ListNotations.
Open Scope string_scope.

Definition on_ok (r: res (list kv)) (P: list kv -> Prop) : Prop :=
  match r with Ok l => P l | Raise _ => False end.

Definition field_ok (c: sctx) (p: fplan) (raw pk: pv) (force_value: bool) : Prop :=
  on_ok (field_emitted c p force_value)
        (fun l => run_lines 8 l (env_of c p raw (pval p (raw, pk))) = emit_kw c (p, (raw, pk))).

(* evaluate the emitter alone; split on the static flag it is stuck on; repeat until its lines are known *)
Ltac eval_emitter :=
  repeat match goal with
  | |- on_ok ?X ?P =>
      let X' := eval vm_compute in X in
      change (on_ok X' P);
      lazymatch X' with
      | Ok _ => fail
      | _ => match X' with
             | context [if ?b then _ else _] => is_var b; destruct b
             | context [match ?o with Some _ => _ | None => _ end] => is_var o; destruct o
             end
      end
  end.

Lemma K108a_field_ok : forall (c: sctx) (p: fplan) (raw pk: pv) (force_value: bool), field_ok c p raw pk force_value.
Proof.
  intros [son sod sba sfon sfba ron rba] p raw pk fv.
  unfold field_ok, emit_kw, guarded. cbn [fst snd]. rewrite !guard_alt, !dn_alt.
  unfold field_emitted, env_of, key_kw, pval, enc_defval, enc_isnan, enc_alias.
  generalize (nullable p); intros nb.
  destruct p as [nm al ty tr df om]. unfold default_value.
  cbn [s_od s_ba s_fba s_on s_fon r_ba r_on p_name p_alias p_default p_trivial fst snd].
  destruct df as [|d|d]; [| generalize (is_none d) (is_nan d) (py_eq raw d); intros dn dnan rne ..];
    generalize (is_nan raw) (is_none raw); intros rnan rn.
  (* depth first: every case is closed before the next one is opened *)
  all: destruct sod; (destruct son; (destruct sfon; (destruct nb; (destruct tr; (destruct fv; (destruct sfba; (destruct sba;
       (destruct al as [a|]; (try destruct dn; (try destruct dnan; (unfold on_ok; vm_compute; split_ifs; reflexivity)))))))))));
       fail.
Qed.

Theorem K108a_field_lemma : forall (c: sctx) (p: fplan) (raw pk: pv) (force_value: bool),
  exists l, field_emitted c p force_value = Ok l /\
            run_lines 8 l (env_of c p raw (pval p (raw, pk))) = emit_kw c (p, (raw, pk)).
Proof.
  intros c p raw pk fv. pose proof (K108a_field_ok c p raw pk fv) as H.
  unfold field_ok, on_ok in H. destruct (field_emitted c p fv) as [l|e]; [|contradiction].
  exists l. split; [reflexivity|exact H].
Qed.
