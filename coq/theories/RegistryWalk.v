(* C10: the walk of the handler registry (Registry.get: the first registered handler whose answer is not None).
   VerifGen.K110a = the registration order of pack.py / unpack.py and the guard of every handler other than the first
   (K5 / K5P) and the two dispatch chains (K5D), translated over their own test expressions.
   Here: the walk, "the first handler that does not decline answers", and its two consequences for the model of
   positions: a dataclass type is taken by the dataclass handler whatever the later chains would say, and a type on
   which every other handler declines reaches the chains, so that the descent site is the one K5D computes.
   compile_r = walk of the whole registry at every position, then K5PKernel.compile. *)
From Coq Require Import List String Ascii ZArith Bool Arith Lia.
From Verif Require Import Regex PyK PyK_strat PyK_c08 OptProj Strategies StrategiesProofs Positions K5Kernel K5PKernel
                          PositionsProofs Dispatch PositionsV.
From VerifGen Require Import K5D K110a.
Import ListNotations.
Open Scope string_scope.
Open Scope list_scope.

Definition handler := (string * ((string -> bool) -> string))%type.

(* Registry.get's loop: (name of the answering handler, tag of its answer) *)
Fixpoint walk (hs: list handler) (p: string -> bool) : string * string :=
  match hs with
  | [] => ("", "unserializable")
  | (n, h) :: r => let s := h p in if String.eqb s "decline" then walk r p else (n, s)
  end.

Definition declines (p: string -> bool) (h: handler) : Prop := snd h p = "decline".

Lemma walk_skip pre rest p : Forall (declines p) pre -> walk (pre ++ rest) p = walk rest p.
Proof.
  induction 1 as [|[n h] pre Hd _ IH]; [reflexivity|].
  cbn [app walk]. unfold declines in Hd. cbn [snd] in Hd. rewrite Hd. cbn. exact IH.
Qed.

Lemma walk_hit n h rest p : h p <> "decline" -> walk ((n, h) :: rest) p = (n, h p).
Proof.
  intros H. cbn [walk]. destruct (String.eqb_spec (h p) "decline") as [E|_]; [contradiction|reflexivity].
Qed.

(* the first handler, in registration order, that does not decline answers *)
Theorem walk_first_answer pre n h post p :
  Forall (declines p) pre -> h p <> "decline" -> walk (pre ++ (n, h) :: post) p = (n, h p).
Proof. intros Hp Hh. rewrite (walk_skip pre _ p Hp). apply walk_hit. exact Hh. Qed.

(* ---- the two sides ---- *)
Definition handlers (d: dir) : list handler := match d with Ser => handlers_pack | De => handlers_unpack end.
Definition pre_dataclass (d: dir) : list handler := match d with Ser => pre_dataclass_pack | De => pre_dataclass_unpack end.
Definition dataclass_handler (d: dir) : handler := match d with Ser => dataclass_handler_pack | De => dataclass_handler_unpack end.
Definition mid (d: dir) : list handler := match d with Ser => mid_pack | De => mid_unpack end.
Definition special_handler (d: dir) : handler := match d with Ser => special_handler_pack | De => special_handler_unpack end.
Definition between (d: dir) : list handler := match d with Ser => between_pack | De => between_unpack end.
Definition collection_handler (d: dir) : handler := match d with Ser => collection_handler_pack | De => collection_handler_unpack end.
Definition post (d: dir) : list handler := match d with Ser => post_pack | De => post_unpack end.

Lemma handlers_split d :
  handlers d = pre_dataclass d ++ dataclass_handler d :: mid d ++ special_handler d :: between d ++ collection_handler d :: post d.
Proof. destruct d; reflexivity. Qed.

Lemma special_is_k5d d p : snd (special_handler d) p = match d with Ser => dispatch_pack_special p | De => dispatch_unpack_special p end.
Proof. destruct d; reflexivity. Qed.
Lemma collection_is_k5d d p : snd (collection_handler d) p = match d with Ser => dispatch_pack_collection p | De => dispatch_unpack_collection p end.
Proof. destruct d; reflexivity. Qed.

Definition walk_d (d: dir) (p: string -> bool) : string * string := walk (handlers d) p.

(* every handler registered before the dataclass handler declines *)
Definition quiet_dc (d: dir) (p: string -> bool) : Prop := Forall (declines p) (pre_dataclass d).
(* every handler registered before the collection handler, other than the special-typing handler, declines *)
Definition quiet_chain (d: dir) (p: string -> bool) : Prop :=
  Forall (declines p) (pre_dataclass d ++ dataclass_handler d :: mid d ++ between d).

(* a dataclass is taken by the dataclass handler: nothing registered after it is asked *)
Theorem registry_dataclass d p :
  quiet_dc d p -> snd (dataclass_handler d) p = "dataclass" ->
  walk_d d p = (fst (dataclass_handler d), "dataclass").
Proof.
  intros Hq Hd. unfold walk_d. rewrite handlers_split.
  destruct (dataclass_handler d) as [n h] eqn:E. cbn [fst snd] in *.
  rewrite (walk_first_answer (pre_dataclass d) n h _ p Hq); [rewrite Hd; reflexivity|].
  rewrite Hd. discriminate.
Qed.

Lemma quiet_chain_parts d p :
  quiet_chain d p -> Forall (declines p) (pre_dataclass d) /\ declines p (dataclass_handler d) /\
                     Forall (declines p) (mid d) /\ Forall (declines p) (between d).
Proof.
  unfold quiet_chain. intros H.
  apply Forall_app in H. destruct H as [H1 H]. inversion H as [|? ? H2 H3]; subst.
  apply Forall_app in H3. destruct H3 as [H3 H4]. auto.
Qed.

(* a type on which every other handler declines reaches the chains: the tag is the one K5D computes
   (special-typing handler first, the collection handler if that one declines) *)
Theorem registry_chains d p :
  quiet_chain d p -> dispatch d p <> "decline" -> snd (walk_d d p) = dispatch d p.
Proof.
  intros Hq Hn. destruct (quiet_chain_parts d p Hq) as (H1 & H2 & H3 & H4).
  unfold walk_d. rewrite handlers_split.
  rewrite (walk_skip (pre_dataclass d) _ p H1).
  destruct (dataclass_handler d) as [nd hd] eqn:Ed. unfold declines in H2. cbn [snd] in H2.
  cbn [walk]. rewrite H2. cbn [String.eqb Ascii.eqb Bool.eqb]. change (String.eqb "decline" "decline") with true. cbn iota.
  rewrite (walk_skip (mid d) _ p H3).
  destruct (special_handler d) as [ns hs] eqn:Es.
  assert (Hs: hs p = match d with Ser => dispatch_pack_special p | De => dispatch_unpack_special p end).
  { rewrite <- special_is_k5d, Es. reflexivity. }
  destruct (collection_handler d) as [nc hc] eqn:Ec.
  assert (Hc: hc p = match d with Ser => dispatch_pack_collection p | De => dispatch_unpack_collection p end).
  { rewrite <- collection_is_k5d, Ec. reflexivity. }
  cbn [walk]. destruct (String.eqb_spec (hs p) "decline") as [E|E].
  - rewrite (walk_skip (between d) _ p H4). cbn [walk].
    assert (Hd: dispatch d p = hc p).
    { rewrite Hc. destruct d; cbn [dispatch]; unfold dispatch_pack, dispatch_unpack; rewrite <- Hs, E; reflexivity. }
    rewrite <- Hd. destruct (String.eqb_spec (dispatch d p) "decline") as [E2|_]; [contradiction|reflexivity].
  - cbn [snd]. rewrite Hs. destruct d; cbn [dispatch]; unfold dispatch_pack, dispatch_unpack; rewrite <- Hs;
      destruct (String.eqb_spec (hs p) "decline"); try contradiction; reflexivity.
Qed.

(* ---- positions: the site of a position is decided by the whole registry ---- *)
Inductive rsite := RData | RSite (s: site).
Definition rsite_of (tag: string) : rsite := if String.eqb tag "dataclass" then RData else RSite (site_of tag).
Definition site_r (d: dir) (p: string -> bool) : rsite := rsite_of (snd (walk_d d p)).

Inductive rnode :=
| RType (p: string -> bool) (decl: kv)                  (* the registry must take a descent site of the current type *)
| RField (p: string -> bool) (f: fieldopts) (decl: kv). (* the registry must take the dataclass handler or the Self site:
                                                           on to a field with options f and declared type decl *)

Definition rnode_of (d: dir) (v: rnode) : option node :=
  match v with
  | RType p decl => match site_r d p with RSite (SStep k) => Some (NType k decl) | _ => None end
  | RField p f decl => match site_r d p with
                       | RData => Some (NField false f decl)
                       | RSite SSelf => Some (NField true f decl)
                       | _ => None end
  end.

Fixpoint rpath_of (d: dir) (vp: list rnode) : option (list node) :=
  match vp with
  | [] => Some []
  | v :: r => match rnode_of d v, rpath_of d r with Some n, Some p => Some (n :: p) | _, _ => None end
  end.

Definition compile_r (d: dir) (P: prims) (Sr: sources) (spec holder e: kv) (vp: list rnode) : option (res (option (nat * kv))) :=
  match rpath_of d vp with
  | Some path => Some (compile d P Sr spec holder e path 0)
  | None => None
  end.

Lemma site_step_not_dataclass tag k : site_of tag = SStep k -> rsite_of tag = RSite (SStep k).
Proof.
  intros H. unfold rsite_of. destruct (String.eqb_spec tag "dataclass") as [E|_]; [|rewrite H; reflexivity].
  subst tag. cbv in H. discriminate.
Qed.
Lemma site_self_not_dataclass tag : site_of tag = SSelf -> rsite_of tag = RSite SSelf.
Proof.
  intros H. unfold rsite_of. destruct (String.eqb_spec tag "dataclass") as [E|_]; [|rewrite H; reflexivity].
  subst tag. cbv in H. discriminate.
Qed.

Lemma site_r_step d p k : quiet_chain d p -> routes_to p k -> site_r d p = RSite (SStep k).
Proof.
  intros Hq Hr. pose proof (routes_site d p k Hr) as Hs.
  unfold site_r. rewrite (registry_chains d p Hq).
  - apply site_step_not_dataclass. exact Hs.
  - intros E. rewrite E in Hs. cbv in Hs. discriminate.
Qed.

Lemma site_r_self d p : quiet_chain d p -> routes_self p -> site_r d p = RSite SSelf.
Proof.
  intros Hq Hr. pose proof (routes_self_site d p Hr) as Hs.
  unfold site_r. rewrite (registry_chains d p Hq).
  - apply site_self_not_dataclass. exact Hs.
  - intros E. rewrite E in Hs. cbv in Hs. discriminate.
Qed.

Lemma site_r_data d p : quiet_dc d p -> snd (dataclass_handler d) p = "dataclass" -> site_r d p = RData.
Proof. intros Hq Hd. unfold site_r. rewrite (registry_dataclass d p Hq Hd). reflexivity. Qed.

(* a path of valuations and the step-kind path it stands for (direction d: the two registries are different lists) *)
Inductive stands_for_r (d: dir) : list rnode -> list node -> Prop :=
| sr_nil : stands_for_r d [] []
| sr_type p k decl vr r : quiet_chain d p -> routes_to p k -> stands_for_r d vr r ->
                          stands_for_r d (RType p decl :: vr) (NType k decl :: r)
| sr_self p f decl vr r : quiet_chain d p -> routes_self p -> stands_for_r d vr r ->
                          stands_for_r d (RField p f decl :: vr) (NField true f decl :: r)
| sr_data p f decl vr r : quiet_dc d p -> snd (dataclass_handler d) p = "dataclass" -> stands_for_r d vr r ->
                          stands_for_r d (RField p f decl :: vr) (NField false f decl :: r).

Lemma rpath_of_stands d vp path : stands_for_r d vp path -> rpath_of d vp = Some path.
Proof.
  induction 1 as [|p k decl vr r Hq Hr _ IH|p f decl vr r Hq Hr _ IH|p f decl vr r Hq Hd _ IH]; cbn [rpath_of rnode_of].
  - reflexivity.
  - rewrite (site_r_step d p k Hq Hr), IH. reflexivity.
  - rewrite (site_r_self d p Hq Hr), IH. reflexivity.
  - rewrite (site_r_data d p Hq Hd), IH. reflexivity.
Qed.

Theorem c10_positions_registry d P e vp path c :
  e <> KNone -> stands_for_r d vp path ->
  compile_r d P (x_S c) (spec_of P c) (x_holder c) e vp =
    Some (Ok (match ref_compile P d (ctxs P c path) 0 with Some (n, sw) => Some (n, emit d (Some sw) e) | None => None end)).
Proof.
  intros He Hs. unfold compile_r. rewrite (rpath_of_stands d vp path Hs).
  f_equal. apply compile_ref. exact He.
Qed.

(* boolean forms of the hypotheses (for closed valuations) *)
Definition declinesb (p: string -> bool) (h: handler) : bool := String.eqb (snd h p) "decline".
Lemma declines_all_b p l : forallb (declinesb p) l = true -> Forall (declines p) l.
Proof.
  intros H. apply Forall_forall. intros h Hin. rewrite forallb_forall in H. specialize (H h Hin).
  unfold declinesb in H. apply String.eqb_eq in H. exact H.
Qed.
Definition quiet_dcb (d: dir) (p: string -> bool) : bool := forallb (declinesb p) (pre_dataclass d).
Definition quiet_chainb (d: dir) (p: string -> bool) : bool :=
  forallb (declinesb p) (pre_dataclass d ++ dataclass_handler d :: mid d ++ between d).
Lemma quiet_dc_b d p : quiet_dcb d p = true -> quiet_dc d p.
Proof. apply declines_all_b. Qed.
Lemma quiet_chain_b d p : quiet_chainb d p = true -> quiet_chain d p.
Proof. apply declines_all_b. Qed.
