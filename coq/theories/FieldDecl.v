(* C10: which declaration's field options a class uses.  Reference model of
   CodeBuilder.dataclass_fields over string-keyed ordered dictionaries. *)
From Coq Require Import List String Ascii ZArith Bool Arith Lia.
From Verif Require Import Regex PyK PyK_strat.
Import ListNotations.
Open Scope string_scope.
Open Scope list_scope.

Definition sdict := list (string * kv).

Fixpoint sd_get (d: sdict) (n: string) : option kv :=
  match d with [] => None | (k, v) :: r => if String.eqb k n then Some v else sd_get r n end.
Fixpoint sd_set (d: sdict) (n: string) (v: kv) : sdict :=
  match d with [] => [(n, v)] | (k, x) :: r => if String.eqb k n then (k, v) :: r else (k, x) :: sd_set r n v end.
Fixpoint sd_remove (d: sdict) (n: string) : sdict :=
  match d with [] => [] | (k, x) :: r => if String.eqb k n then r else (k, x) :: sd_remove r n end.

Definition enc_sd (d: sdict) : list (kv * kv) := map (fun p => (KStr (fst p), snd p)) d.

(* a dataclasses.Field: its name and its metadata (the field options) *)
Definition mk_field (n: string) (meta: kv) : kv := KNs [("name", KStr n); ("metadata", meta)].

(* a class of the MRO as the builder sees it: getattr(cls, "__dataclass_fields__") if there is one,
   as name -> metadata in dictionary order *)
Definition pyclass := option (list (string * kv)).
Definition fields_dict (fs: list (string * kv)) : sdict := map (fun p => (fst p, mk_field (fst p) (snd p))) fs.
Definition enc_class (c: pyclass) : kv :=
  match c with Some fs => KNs [("__dataclass_fields__", KDict (enc_sd (fields_dict fs)))] | None => KNs [] end.

(* the class's own __dict__: plain attributes (defaults, Field objects, anything) and, once @dataclass has
   run, its own "__dataclass_fields__" *)
Definition enc_namespace (nsd: sdict) (ownf: option sdict) : kv :=
  KDict (enc_sd nsd ++ match ownf with Some f => [(KStr "__dataclass_fields__", KDict (enc_sd f))] | None => [] end).

(* ---- reference ---- *)
Definition upd_class (d: sdict) (c: pyclass) : sdict :=
  match c with
  | Some fs => fold_left (fun d p => sd_set d (fst p) (mk_field (fst p) (snd p))) fs d
  | None => d
  end.

(* fields collected from the ancestors: farthest first, so that nearer declarations overwrite *)
Definition inherited (rest: list pyclass) : sdict := fold_left upd_class (rev rest) [].

Definition or_missing (o: option kv) : kv := match o with Some v => v | None => KMissing end.

Definition own_step (nsd: sdict) (ownf: option sdict) (d: sdict) (n: string) : sdict :=
  let v1 := or_missing (sd_get nsd n) in
  if k_is_field v1 then sd_set d n v1 else
  let v2 := match ownf with Some f => or_missing (sd_get f n) | None => KMissing end in
  if k_is_field v2 then sd_set d n v2 else sd_remove d n.

Definition ref_fields (rest: list pyclass) (own: list string) (nsd: sdict) (ownf: option sdict) : sdict :=
  fold_left (own_step nsd ownf) own (inherited rest).

(* the last entry for n in a field list (a dictionary has one) *)
Definition flast (fs: list (string * kv)) (n: string) : option kv :=
  fold_left (fun acc p => if String.eqb (fst p) n then Some (snd p) else acc) fs None.

(* the nearest ancestor, in MRO order, that is a dataclass having the field *)
Fixpoint nearest (rest: list pyclass) (n: string) : option kv :=
  match rest with
  | [] => None
  | c :: r => match c with
              | Some fs => match flast fs n with Some m => Some m | None => nearest r n end
              | None => nearest r n
              end
  end.
