(* C11 / K43: what the translated dispatch of (un)pack_special_typing_primitive (coq/gen/K43.v)
   does at union, Optional and type variable positions, in terms of UnionModel. *)
From Coq Require Import List String ZArith Bool Arith.
From Verif Require Import UnionModel UnionProofs UnionDispatch.
From VerifGen Require Import K43.
Import ListNotations.

(* the argument is NoneType after `resolved_type_params.get(arg, arg)` *)
Definition rnone (rtp: rtp_t) (t: dty) : bool := is_nonetype (dict_get rtp t t).

(* no argument is a type variable that the specialisation binds (then resolution is the identity) *)
Definition rtp_inert (rtp: rtp_t) (args: list dty) : Prop :=
  forall a, In a args -> dict_get rtp a a = a.

Lemma no_rtp_inert : forall args, rtp_inert no_rtp args.
Proof. intros args a _. destruct a; reflexivity. Qed.

(* ---------------- the helpers ---------------- *)

(* is_optional: exactly two arguments, one of which resolves to NoneType *)
Theorem is_optional_spec : forall rtp t,
  is_optional t rtp = match t with DUnion [a; b] => rnone rtp a || rnone rtp b | _ => false end.
Proof.
  intros rtp t. unfold is_optional, rnone.
  destruct t as [k| |n|args|n a cs b d]; simpl; try reflexivity.
  destruct args as [|x [|y [|z r]]]; simpl; try reflexivity.
  destruct (is_nonetype (dict_get rtp x x)); simpl; [reflexivity|].
  destruct (is_nonetype (dict_get rtp y y)); reflexivity.
Qed.

(* not_none_type_arg: the first argument that does not resolve to NoneType *)
Theorem not_none_spec : forall rtp l,
  not_none_type_arg l rtp = find (fun t => negb (rnone rtp t)) l.
Proof.
  intros rtp l. unfold not_none_type_arg, rnone.
  destruct (find (fun type_arg => negb (is_nonetype (dict_get rtp type_arg type_arg))) l); reflexivity.
Qed.

(* a union of three or more arguments is never the short-circuit, whatever it contains *)
Corollary wide_union_not_optional : forall rtp a b c r, is_optional (DUnion (a :: b :: c :: r)) rtp = false.
Proof. intros. rewrite is_optional_spec. reflexivity. Qed.

(* is_type_var_any: a type variable without constraints, without a bound other than Any, without default *)
Theorem is_type_var_any_spec : forall n a cs b d,
  is_type_var_any (DTypeVar n a cs b d) =
  match cs, d with
  | [], None => match b with None | Some DAny => true | Some _ => false end
  | _, _ => false end.
Proof.
  intros n a cs b d. unfold is_type_var_any, type_var_has_default, bound_not_none_or_any. simpl.
  destruct cs; simpl; [|reflexivity].
  destruct b as [[k| |m|l|m x y z w]|]; simpl; destruct d; reflexivity.
Qed.

(* ---------------- decode side ---------------- *)
Section Dispatch.
  Variable co : skind -> uv -> option uv.
  Variable D : option dty -> uv -> option uv.
  Variable eid : dty -> nat.

  Notation den := (xden co D eid).
  Notation mem := (dmember D eid).

  (* a union position without Discriminator annotation: the Optional short-circuit on the first
     argument that is not None (with the None test iff could_be_none), else the generated union method *)
  Theorem unpack_union_dispatch : forall rtp args c,
    den (unpack_special_typing_primitive rtp (DS (DUnion args) c false)) =
      if is_optional (DUnion args) rtp
      then (if c then opt_dec (D (not_none_type_arg args rtp)) else D (not_none_type_arg args rtp))
      else union_dec co (map mem args).
  Proof.
    intros rtp args c. unfold unpack_special_typing_primitive, expr_or_maybe_none.
    cbn [ds_type ds_cbn ds_discr is_union is_type_var orb negb get_args].
    destruct (is_optional (DUnion args) rtp); destruct c; reflexivity.
  Qed.

  (* a type variable position: Any-like -> the value itself; constraints -> the union of the constraints
     (default and bound ignored); otherwise Optional[default or else bound] *)
  Theorem unpack_typevar_dispatch : forall rtp n cs b d c,
    let t := DTypeVar n false cs b d in
    den (unpack_special_typing_primitive rtp (DS t c false)) =
      if is_type_var_any t then Some
      else match cs with
           | [] => let fb := D (match d with Some x => Some x | None => b end) in if c then opt_dec fb else fb
           | _ => union_dec co (map mem cs) end.
  Proof.
    intros rtp n cs b d c t. subst t. unfold unpack_special_typing_primitive, expr_or_maybe_none.
    cbn [ds_type ds_cbn ds_discr is_union is_type_var is_anystr orb negb tv_constraints tv_default tv_bound].
    destruct (is_type_var_any (DTypeVar n false cs b d)); [reflexivity|].
    destruct cs; simpl.
    - unfold type_var_has_default; simpl. destruct d; destruct c; reflexivity.
    - reflexivity.
  Qed.

  (* = the hand-written UnionModel.typevar_dec wherever could_be_none holds *)
  Corollary unpack_typevar_dispatch_model : forall rtp n cs b d dd,
    let t := DTypeVar n false cs b d in
    is_type_var_any t = false ->
    den (unpack_special_typing_primitive rtp (DS t true false)) dd =
      typevar_dec co (map mem cs) (D (match d with Some x => Some x | None => b end)) dd.
  Proof.
    intros rtp n cs b d dd t H. subst t. rewrite unpack_typevar_dispatch. rewrite H.
    destruct cs; reflexivity.
  Qed.

  (* AnyStr is refused *)
  Theorem unpack_anystr_refused : forall rtp n cs b d c,
    unpack_special_typing_primitive rtp (DS (DTypeVar n true cs b d) c false) = XRaise.
  Proof. reflexivity. Qed.

  (* the registry's expression for a scalar type is its coercion, identity on the exact class *)
  Definition dwf : Prop :=
    forall k, k <> KNone -> D (Some (DScalar k)) = co k /\ (forall x, kind_of x = Some k -> co k x = Some x).

  (* FULL strength for the two-member Optional form: None matches only None, everything else is the
     other member's business -- no none_safe / no_shadow premise *)
  Theorem optional_position_full : forall rtp a c d,
    dwf -> rnone rtp a = false -> is_nonetype a = false -> c = true ->
    den (unpack_special_typing_primitive rtp (DS (DUnion [a; DScalar KNone]) c false)) d
      = ref_union co (map mem [a; DScalar KNone]) d /\
    den (unpack_special_typing_primitive rtp (DS (DUnion [DScalar KNone; a]) c false)) d
      = ref_union co (map mem [DScalar KNone; a]) d.
  Proof.
    intros rtp a c d Hwf Hr Ha Hc. subst c.
    rewrite !unpack_union_dispatch, !is_optional_spec, !not_none_spec.
    assert (Hn: rnone rtp (DScalar KNone) = true) by reflexivity.
    cbn [find]. rewrite Hr, Hn. cbn [negb orb].
    destruct a as [k| |n|l|n x cs b dd]; cbn [map dmember].
    - assert (Hk: k <> KNone) by (intro E; subst k; discriminate Ha).
      destruct (Hwf k Hk) as [E Hex]. rewrite E. apply opt_ref_scalar; assumption.
    - apply opt_ref_nonscalar.
    - apply opt_ref_nonscalar.
    - apply opt_ref_nonscalar.
    - apply opt_ref_nonscalar.
  Qed.

  (* every union position (could_be_none, no Discriminator, no argument bound by the specialisation):
     equal to the reference if it is the Optional form, or on the domain of the union method's theorem *)
  Theorem union_position_partial : forall rtp args d,
    dwf -> rtp_inert rtp args -> NoDup args ->
    coherent (map mem args) d ->
    (is_optional (DUnion args) rtp = true \/
     (none_safe (map mem args) d = true /\ no_shadow (map mem args) d = true)) ->
    den (unpack_special_typing_primitive rtp (DS (DUnion args) true false)) d = ref_union co (map mem args) d.
  Proof.
    intros rtp args d Hwf Hin Hnd Hc Hdom.
    destruct (is_optional (DUnion args) rtp) eqn:Ho.
    - rewrite is_optional_spec in Ho.
      destruct args as [|a [|b [|z r]]]; try discriminate Ho.
      assert (Ea: rnone rtp a = is_nonetype a) by (unfold rnone; rewrite (Hin a); [reflexivity | left; reflexivity]).
      assert (Eb: rnone rtp b = is_nonetype b) by (unfold rnone; rewrite (Hin b); [reflexivity | right; left; reflexivity]).
      destruct (is_nonetype b) eqn:Nb.
      + assert (b = DScalar KNone) by (destruct b as [[]| | | |]; try discriminate Nb; reflexivity). subst b.
        assert (Na: is_nonetype a = false).
        { destruct (is_nonetype a) eqn:Na; [|reflexivity].
          assert (a = DScalar KNone) by (destruct a as [[]| | | |]; try discriminate Na; reflexivity). subst a.
          inversion Hnd as [|? ? Hni _]; subst. exfalso; apply Hni; left; reflexivity. }
        apply (optional_position_full rtp a true d Hwf); [rewrite Ea; exact Na | exact Na | reflexivity].
      + rewrite Ea, Eb in Ho. cbn [orb] in Ho. rewrite orb_false_r in Ho.
        assert (a = DScalar KNone) by (destruct a as [[]| | | |]; try discriminate Ho; reflexivity). subst a.
        apply (optional_position_full rtp b true d Hwf); [rewrite Eb; reflexivity | exact Nb | reflexivity].
    - destruct Hdom as [Hd|[Hn Hs]]; [discriminate Hd|].
      rewrite unpack_union_dispatch, Ho. apply union_decode_partial; assumption.
  Qed.

  (* dataclass field plumbing: whether the None test is emitted by the field (nullable field compiled with
     could_be_none = False) or by expr_or_maybe_none, a position reads None as None exactly once *)
  Theorem field_none_test_once : forall nullable e d,
    field_dec nullable (den (expr_or_maybe_none (DS DAny (negb nullable) false) e)) d = opt_dec (den e) d.
  Proof. intros [|] e d; reflexivity. Qed.
End Dispatch.

(* ---------------- encode side ---------------- *)

(* both directions take the same decision (the same argument, the same form) *)
Theorem dispatch_symmetric : forall rtp t c,
  pack_special_typing_primitive rtp (DS t c false) = unpack_special_typing_primitive rtp (DS t c false).
Proof. intros rtp t c. destruct t; reflexivity. Qed.

Section DispatchP.
  Variable P : option dty -> uv -> option uv.
  Variable pcls : dty -> string.
  Variable pid : dty -> bool.
  Variable eid : dty -> nat.

  Notation penc := (pden P pcls pid eid).
  Notation pmem := (dpmember P pcls pid eid).

  Theorem pack_union_dispatch : forall rtp args c,
    penc (pack_special_typing_primitive rtp (DS (DUnion args) c false)) =
      if is_optional (DUnion args) rtp
      then (if c then opt_dec (P (not_none_type_arg args rtp)) else P (not_none_type_arg args rtp))
      else pack_union (map pmem args).
  Proof.
    intros rtp args c. unfold pack_special_typing_primitive, expr_or_maybe_none.
    cbn [ds_type ds_cbn ds_discr is_union is_type_var orb negb get_args].
    destruct (is_optional (DUnion args) rtp); destruct c; reflexivity.
  Qed.

  (* Optional[a]: None is packed as None, anything else by a's packer (an identity packer is the
     expression "value"); the order of the two arguments is irrelevant *)
  Theorem optional_encode : forall rtp a v,
    rnone rtp a = false ->
    (pid a = true -> P (Some a) v = Some v) ->
    let e := pack_special_typing_primitive rtp (DS (DUnion [a; DScalar KNone]) true false) in
    let e' := pack_special_typing_primitive rtp (DS (DUnion [DScalar KNone; a]) true false) in
    penc e v = (if is_none v then Some UNone else p_out (pmem a) v) /\ penc e' v = penc e v.
  Proof.
    intros rtp a v Hr Hid e e'. subst e e'.
    rewrite !pack_union_dispatch, !is_optional_spec, !not_none_spec.
    assert (Hn: rnone rtp (DScalar KNone) = true) by reflexivity.
    cbn [find]. rewrite Hr, Hn. cbn [negb orb]. split; [|reflexivity].
    unfold opt_dec. destruct (is_none v) eqn:Nv; [reflexivity|].
    unfold p_out, dpmember, p_ident, p_e, p_enc. destruct (pid a) eqn:Ei; [apply Hid; reflexivity | reflexivity].
  Qed.
End DispatchP.
