(* C16 (round 6) - literal_repr never emits a subclass's own __repr__ (LitRepr.v): proofs. *)
From Coq Require Import List String NArith ZArith Bool.
From Verif Require Import PyStrLit PyLit PyLitProofs LitRepr.
Import ListNotations.
Open Scope string_scope.
Open Scope N_scope.
Open Scope list_scope.

Lemma lr_loop_find p hit fb v : forall bases,
  lr_loop p bases hit fb v =
  match find (isinst v) bases with
  | Some b => match hit with HBaseRepr => base_repr p b v | HOwnRepr => Some (own_repr p v) end
  | None => match fb with HOwnRepr => Some (own_repr p v) | HBaseRepr => None end
  end.
Proof.
  induction bases as [|b r IH]; [reflexivity|].
  cbn [lr_loop find]. destruct (isinst v b); [reflexivity | exact IH].
Qed.

Lemma lbase_is_eq a b : lbase_is a b = true -> a = Some b.
Proof. destruct a as [[]|], b; cbn; intros H; try discriminate; reflexivity. Qed.

(* THE THEOREM: for every good table, every printable oracle and every object the guards let through
   - whatever its class overrides - the text is the builtin repr of the payload *)
Theorem lr_inert bases hit fb : lr_table_ok bases hit fb = true ->
  forall p v, obj_wf v = true ->
  lr_model p bases hit fb v = Some (render_lit p (o_prim v)).
Proof.
  unfold lr_table_ok. intros H p v Hw.
  repeat (apply andb_true_iff in H; destruct H as [H ?]).
  apply negb_true_iff in H. unfold lr_model. rewrite H. rewrite lr_loop_find.
  destruct hit; [|discriminate]. destruct fb; [discriminate|].
  repeat match goal with X: lbase_is _ _ = true |- _ => apply lbase_is_eq in X end.
  unfold first_base in *. unfold isinst. unfold obj_wf in Hw.
  destruct v as [prim ex r]. cbn [o_prim o_exact] in *.
  destruct prim; cbn [kind_of]; try discriminate;
  try (match goal with X: find (isinst_k ?k) bases = Some _ |- context [find (isinst_k ?k) bases] => rewrite X end; reflexivity).
  (* None *)
  replace (find (isinst_k KNone) bases) with (@None lbase).
  - unfold own_repr. cbn [o_exact o_prim]. rewrite Hw. reflexivity.
  - symmetry. clear. induction bases as [|b l IH]; [reflexivity|]. cbn [find]. destruct b; exact IH.
Qed.

(* ... and that text evaluates back to the payload *)
Corollary lr_eval bases hit fb : lr_table_ok bases hit fb = true ->
  forall p v rest, oracle_ok p -> obj_wf v = true -> wf_lit (o_prim v) -> ends_token rest = true ->
  exists t, lr_model p bases hit fb v = Some t /\ eval_lit (t ++ rest) = Some (o_prim v, rest).
Proof.
  intros H p v rest Hp Hw Hl He. exists (render_lit p (o_prim v)). split.
  - apply lr_inert; assumption.
  - apply render_eval; assumption.
Qed.

(* refuted variants: (1) the pre-12c7fd8 renderer repr(value) emits what the subclass says;
   (2) int before bool renders True as 1 (the generated test value.__class__ is (1).__class__ then
   rejects True) *)
Definition evil : list N := codes "x') or f() or ('".
Theorem lr_refuted :
  lr_model (fun _ => true) [BBool; BInt; BStr; BBytes] HOwnRepr HOwnRepr (mk_obj (LStr (codes "v")) false evil) = Some evil
  /\ lr_table_ok [BBool; BInt; BStr; BBytes] HOwnRepr HOwnRepr = false
  /\ lr_model (fun _ => true) [BInt; BBool; BStr; BBytes] HBaseRepr HOwnRepr (mk_obj (LBool true) true []) = Some (codes "1")
  /\ lr_table_ok [BInt; BBool; BStr; BBytes] HBaseRepr HOwnRepr = false.
Proof. repeat split; vm_compute; reflexivity. Qed.
